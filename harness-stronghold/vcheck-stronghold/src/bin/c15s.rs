//! C15S — part (c) of C15: the key-storage contract on the Stronghold-backed store.
//!
//! The SAME sequential-history model checking as `c15` parts (a1)/(a2) — op alphabet, reference model, oracle and
//! complete observation vector are the shared file /verif/harness/vcheck/src/bin/c15/seq.rs, included here with
//! `#[path]` — executed on `identity_stronghold::StrongholdStorage`, which implements both `JwkStorage` and
//! `KeyIdStorage`. Every execution (one replayed history + one judged operation) starts from a FRESH snapshot
//! file under <workspace>/target/stronghold-tmp/, removed when the execution ends.
//!
//! Persistence sub-check (Stronghold is used by writing to disk): after every judged operation the storage object
//! is dropped and rebuilt from the same snapshot file with the same password; the observation vector (exists /
//! signature matrix of every issued key id, resp. `get_key_id` of every digest) must be unchanged.
//!
//! Stronghold specifics, read from identity_stronghold/src/storage: key types Ed25519 (alg EdDSA) and BLS12381G2
//! (only through `JwkStorageBbsPlusExt`, feature `bbs-plus`, left off here); no `count()`.

#[path = "../../../../harness/vcheck/src/bin/c15/seq.rs"]
mod seq;

use identity_storage::KeyType;
use identity_stronghold::StrongholdStorage;
use iota_sdk::client::secret::stronghold::StrongholdSecretManager;
use iota_sdk::client::Password;
use seq::{Backend, Gk, IModel, IOp, KModel, KOp, Mode};
use serde::{Deserialize, Serialize};
use std::future::Future;
use std::path::PathBuf;
use std::sync::atomic::{AtomicBool, AtomicU64, Ordering};
use std::sync::{Arc, Once};
use vx::{guard, json, Ctx, Level};

const PASSWORD: &str = "secure_password";

/// Snapshot files live under the workspace's target directory (never under /tmp; `generate` refuses a directory
/// under the system's temporary directory). A scratch copy of this workspace that itself lives under /tmp can
/// point C15S_SNAPSHOT_DIR at a directory elsewhere; file names carry the process id.
fn snapshot_dir() -> PathBuf {
  match std::env::var_os("C15S_SNAPSHOT_DIR") {
    Some(d) => PathBuf::from(d),
    None => PathBuf::from(concat!(env!("CARGO_MANIFEST_DIR"), "/../target/stronghold-tmp")),
  }
}

static FILES_CREATED: AtomicU64 = AtomicU64::new(0);
static FILES_REMOVED: AtomicU64 = AtomicU64::new(0);
static REOPENS: AtomicU64 = AtomicU64::new(0);
static WORK_FACTOR: Once = Once::new();

/// One Stronghold store on its own snapshot file.
struct Snapshot {
  storage: Option<StrongholdStorage>,
  path: PathBuf,
}
impl Snapshot {
  fn build(path: &PathBuf) -> Result<StrongholdStorage, String> {
    // as in identity_stronghold's own tests: no key-derivation work for the snapshot encryption
    WORK_FACTOR.call_once(|| {
      if let Err(e) = iota_stronghold::engine::snapshot::try_set_encrypt_work_factor(0) {
        vx::ctx::machinery_exit(&format!("try_set_encrypt_work_factor(0): {e:?}"));
      }
    });
    StrongholdSecretManager::builder()
      .password(Password::from(PASSWORD.to_owned()))
      .build(path)
      .map(StrongholdStorage::new)
      .map_err(|e| format!("{e:?}"))
  }
  fn fresh() -> Snapshot {
    let dir = snapshot_dir();
    let n = FILES_CREATED.fetch_add(1, Ordering::Relaxed);
    let path = dir.join(format!("c15s-{}-{n}.stronghold", std::process::id()));
    if path.exists() {
      vx::ctx::machinery_exit(&format!("snapshot file {path:?} exists before its execution started"));
    }
    match Snapshot::build(&path) {
      Ok(s) => Snapshot { storage: Some(s), path },
      Err(e) => vx::ctx::machinery_exit(&format!("cannot build a StrongholdStorage on the fresh file {path:?}: {e}")),
    }
  }
  fn storage(&self) -> &StrongholdStorage {
    self.storage.as_ref().expect("storage present between reopen attempts")
  }
  /// Drop the storage (and with it the secret manager and the in-memory Stronghold) and load the file again.
  fn reopen(&mut self) -> Result<(), String> {
    REOPENS.fetch_add(1, Ordering::Relaxed);
    drop(self.storage.take());
    match Snapshot::build(&self.path) {
      Ok(s) => {
        self.storage = Some(s);
        Ok(())
      }
      Err(e) => {
        // keep the handle usable (a fresh, empty store object on a new file) so that nothing panics in the harness
        let msg = format!("building the secret manager again from {:?} failed: {e}", self.path.file_name());
        let _ = std::fs::remove_file(&self.path);
        self.storage = Snapshot::build(&self.path).ok();
        Err(msg)
      }
    }
  }
}
impl Drop for Snapshot {
  fn drop(&mut self) {
    drop(self.storage.take());
    match std::fs::remove_file(&self.path) {
      Ok(()) => {
        FILES_REMOVED.fetch_add(1, Ordering::Relaxed);
      }
      Err(e) if e.kind() == std::io::ErrorKind::NotFound => {
        // nothing was ever committed in this execution
        FILES_REMOVED.fetch_add(1, Ordering::Relaxed);
      }
      Err(_) => {}
    }
  }
}

struct Sh;
impl Backend for Sh {
  const KEY_STORE: &'static str = "StrongholdStorage";
  const KEYID_STORE: &'static str = "StrongholdStorage";
  const PERSISTENT: bool = true;
  type Keys = StrongholdStorage;
  type KeyIds = StrongholdStorage;
  type KeysH = Snapshot;
  type KeyIdsH = Snapshot;
  fn open_keys() -> Snapshot {
    Snapshot::fresh()
  }
  fn keys(h: &Snapshot) -> &StrongholdStorage {
    h.storage()
  }
  fn key_count(_: &Snapshot) -> Option<usize> {
    None
  }
  fn reopen_keys(h: &mut Snapshot) -> Result<(), String> {
    h.reopen()
  }
  fn open_keyids() -> Snapshot {
    Snapshot::fresh()
  }
  fn keyids(h: &Snapshot) -> &StrongholdStorage {
    h.storage()
  }
  fn keyid_count(_: &Snapshot) -> Option<usize> {
    None
  }
  fn reopen_keyids(h: &mut Snapshot) -> Result<(), String> {
    h.reopen()
  }
  fn key_type(k: Gk) -> KeyType {
    match k {
      Gk::Ed25519 => identity_stronghold::ED25519_KEY_TYPE,
      Gk::Bls12381G2 => identity_stronghold::BLS12381G2_KEY_TYPE,
      Gk::Bogus => KeyType::new("bogus"),
    }
  }
  fn block_on<F: Future>(f: F) -> F::Output {
    // StrongholdStorage only awaits tokio::sync::Mutex (no timers, no spawned tasks: the secret manager is built
    // without a password-clearing timeout), so a plain executor on the calling thread drives it.
    vx::gate::block_on(f)
  }
  // one object, both traits: the `side` run mode applies
  fn keyids_of_keys(h: &Snapshot) -> Option<&StrongholdStorage> {
    Some(h.storage())
  }
  fn keys_of_keyids(h: &Snapshot) -> Option<&StrongholdStorage> {
    Some(h.storage())
  }
}

// ================================================================================================ cases

/// Same serde form as the sequential variants of c15's `Case`.
#[derive(Serialize, Deserialize, Debug, Clone)]
enum Case {
  Jwk {
    cap: u8,
    hist: Vec<KOp>,
    #[serde(default, skip_serializing_if = "Mode::is_plain")]
    mode: Mode,
  },
  KeyId {
    hist: Vec<IOp>,
    #[serde(default, skip_serializing_if = "Mode::is_plain")]
    mode: Mode,
  },
}

fn prepare_dir(ctx: &Ctx) {
  let dir = snapshot_dir();
  if let Err(e) = std::fs::create_dir_all(&dir) {
    vx::ctx::machinery_exit(&format!("cannot create {dir:?}: {e}"));
  }
  let dir = dir.canonicalize().unwrap_or(dir);
  let tmp = std::env::temp_dir();
  ctx.require(!dir.starts_with(&tmp), &format!("snapshot directory {dir:?} must not be under {tmp:?}"));
}

/// Remove whatever this process left in the snapshot directory; returns the number of leftovers found.
fn cleanup() -> usize {
  let dir = snapshot_dir();
  let mine = format!("c15s-{}-", std::process::id());
  let mut left = 0;
  if let Ok(rd) = std::fs::read_dir(&dir) {
    for e in rd.flatten() {
      if e.file_name().to_string_lossy().starts_with(&mine) {
        left += 1;
        let _ = std::fs::remove_file(e.path());
      }
    }
  }
  let _ = std::fs::remove_dir(&dir); // only succeeds when empty
  left
}

fn eval(ctx: &Ctx, case: &Case) {
  ctx.eval1();
  prepare_dir(ctx);
  match case {
    Case::Jwk { cap, hist, mode } => seq::replay_jwk::<Sh>(*cap, hist, *mode).drain_into(ctx, "jwk-replay"),
    Case::KeyId { hist, mode } => seq::replay_keyid::<Sh>(hist, *mode).drain_into(ctx, "keyid-replay"),
  }
  cleanup();
}

fn generate(ctx: &Ctx) {
  ctx.rule("C15 part (c): the sequential-history explorer of C15 (a1)/(a2) (shared model file c15/seq.rs) on identity_stronghold::StrongholdStorage. (a1) stateright BFS over key-store op histories (state = history; the store is rebuilt by replay on a FRESH snapshot file for every expansion; fingerprint = model slots + complete observation vector: exists of every issued id and a never-issued id, sign by every id verified under every issued public JWK, + the depth in the depth-bounded runs). (a2) the same for the KeyIdStorage side over digests x key ids, to closure. After every judged operation the storage is dropped and rebuilt from its snapshot file with the same password and observed again (must be unchanged). Further runs at smaller bounds: the storage is dropped and rebuilt after EVERY operation of the history; the store already holds two key-id mappings (resp. a generated and an inserted key) whose observation must never change. distinct_nontrivial = unique states of the runs");
  ctx.assume("the snapshot encryption work factor is set to 0 (iota_stronghold::engine::snapshot::try_set_encrypt_work_factor), as in identity_stronghold's own tests; the password is fixed");
  ctx.assume("two histories are merged iff model state and the complete observation vector of the rebuilt real store coincide; a difference invisible to every observation at every later step is not excluded (bounded-observation caveat)");
  ctx.assume("EdDSAJwsVerifier and the harness's fixed-seed Ed25519 keys (iota-crypto) are the trusted verification base; the RFC 7638 thumbprint is recomputed by the harness with sha2");
  ctx.assume("Stronghold under thread schedules is not explored (DESIGN: excluded); the bbs-plus feature (BLS12381G2 through JwkStorageBbsPlusExt) is off");
  prepare_dir(ctx);

  let plain = Mode::default();
  let reopen_each = Mode { reopen_each: true, side: false };
  let side = Mode { reopen_each: false, side: true };
  let mode_name = |m: Mode| match (m.reopen_each, m.side) {
    (false, false) => "reopen after the last operation",
    (true, false) => "reopen after EVERY operation",
    (false, true) => "store already holds entries of the other kind; reopen after the last operation",
    (true, true) => "store already holds entries of the other kind; reopen after EVERY operation",
  };
  let diverged = Arc::new(AtomicBool::new(false));
  let mut part_no = 0u8;
  let mut walls = serde_json::Map::new();

  // ---------------------------------------------------------------- (a1) key store
  // stateright's depth target counts the initial state as depth 1: target d+1 = every history of <= d operations
  let mut jwk_run = |ctx: &Ctx, ops: Option<usize>, cap: u8, mode: Mode, ext: bool| {
    part_no += 1;
    let bound = match ops {
      Some(n) => format!("histories of <= {n} operations (depth in fingerprint)"),
      None => "to closure".to_string(),
    };
    let name = format!(
      "(c/a1.{part_no}) StrongholdStorage as JwkStorage: {bound}, <= {cap} issued ids{}; {}",
      if ext { ", extended op alphabet" } else { "" },
      mode_name(mode)
    );
    let t0 = ctx.elapsed_s();
    let st = vx::sr::run(ctx, &name, ops.map(|n| n + 1), |col| KModel::<Sh>::new(cap, ops.is_some(), col, diverged.clone()).with_mode(mode).extended(ext));
    for i in 0..st.unique {
      ctx.distinct(&(part_no, i));
    }
    walls.insert(name, json!(((ctx.elapsed_s() - t0) * 10.0).round() / 10.0));
  };
  // extended op alphabet of seq.rs (a superset of the basic one): same key material under other metadata,
  // unregistered alg, the public part of a generated key, own public key under another / no kid, never-issued
  // key ids derived from issued ones
  let ops = ctx.by_tier(2usize, 4usize);
  jwk_run(ctx, Some(ops), 3, plain, ctx.quick());
  if ctx.thorough() {
    jwk_run(ctx, Some(3), 3, plain, true);
    jwk_run(ctx, None, 2, plain, false);
  }
  let ops_modes = ctx.by_tier(2usize, 3usize);
  jwk_run(ctx, Some(ops_modes), 3, reopen_each, false);
  jwk_run(ctx, Some(ops_modes), 3, side, false);
  ctx.require(!diverged.load(Ordering::Relaxed), "(c/a1) replaying a recorded history produced a different number of issued key ids");
  ctx.bound(
    "jwk_store_history_length",
    json!({"plain": ops, "plain_extended_op_alphabet": ctx.by_tier(2, 3), "reopen_after_every_operation": ops_modes, "with_key_id_mappings_present": ops_modes, "issued_ids_cap": 3}),
  );
  if ctx.thorough() {
    ctx.bound("jwk_store_closure_run_issued_ids_cap", 2);
  }

  // ---------------------------------------------------------------- (a2) key-id store
  let mut part_no = 100u8;
  let mut keyid_run = |ctx: &Ctx, nd: u8, nk: u8, mode: Mode| {
    part_no += 1;
    let name = format!("(c/a2.{}) StrongholdStorage as KeyIdStorage: histories over {nd} digests x {nk} key ids, to closure; {}", part_no - 100, mode_name(mode));
    let t0 = ctx.elapsed_s();
    let st = vx::sr::run(ctx, &name, None, |col| IModel::<Sh>::new(nd, nk, col).with_mode(mode));
    for i in 0..st.unique {
      ctx.distinct(&(part_no, i));
    }
    walls.insert(name, json!(((ctx.elapsed_s() - t0) * 10.0).round() / 10.0));
  };
  let (nd, nk) = ctx.by_tier((2u8, 2u8), (3u8, 3u8));
  keyid_run(ctx, nd, nk, plain);
  keyid_run(ctx, 2, 2, reopen_each);
  keyid_run(ctx, 2, 2, side);
  ctx.bound("key_id_store_universe", json!({"plain": {"digests": nd, "key_ids": nk}, "other_modes": {"digests": 2, "key_ids": 2}}));

  // ---------------------------------------------------------------- files
  let left = cleanup();
  let (created, removed) = (FILES_CREATED.load(Ordering::Relaxed), FILES_REMOVED.load(Ordering::Relaxed));
  ctx.require(left == 0 && created == removed, &format!("snapshot files: {created} executions started, {removed} files removed by their executions, {left} left over"));
  ctx.part(
    "(c) snapshot files and wall time",
    json!({"fresh_snapshot_files(one per execution)": created, "removed": removed, "reopens_from_snapshot": REOPENS.load(Ordering::Relaxed),
      "directory": snapshot_dir().to_string_lossy(), "wall_s_per_part(both runs: all cores, then 1 thread)": walls}),
  );
  // keep the guard import honest: a last smoke test that a dropped handle really removed its file
  let probe = guard(|| {
    let h = Snapshot::fresh();
    let p = h.path.clone();
    drop(h);
    p.exists()
  });
  ctx.require(matches!(probe, Ok(false)), "a dropped snapshot handle leaves its file behind");
  cleanup();
}

fn main() {
  vx::run_main::<Case, _, _>("C15S", Level::ModelChecking, generate, eval)
}
