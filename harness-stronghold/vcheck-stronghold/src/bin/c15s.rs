fn main() {}
