#!/bin/bash
# tools/collect_seed.sh <ID> <suffix>   e.g. C04 d : copies a seeder's deliverables from /tmp/seed/<ID>-out-<suffix>/ to
# seeded/<ID>-<suffix>/, removes the seeder's worktree and build output.
set -u
id=$1; sfx=$2; here="$(cd "$(dirname "$0")/.." && pwd)"
d=$here/seeded/$id-$sfx; mkdir -p $d
cp /tmp/seed/$id-out-$sfx/{patch.diff,demo.rs,demo_cmd.txt,meta.json} $d/ || exit 2
git -C /repo worktree remove --force /tmp/seed/$id-$sfx
rm -rf /tmp/seed/$id-$sfx-target /tmp/seed/$id-$sfx /tmp/seed/$id-out-$sfx
echo collected $d
