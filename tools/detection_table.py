#!/usr/bin/env python3
"""Regenerates the detection table in DESIGN.md §6 from seeded/RESULTS.jsonl (latest run per patch wins)
and writes the outcome of the runs into every seeded/<id>/meta.json ("checked" field)."""
import json, os, re, glob
ROOT = os.path.dirname(os.path.dirname(os.path.abspath(__file__)))
rows = {}
for line in open(os.path.join(ROOT, "seeded", "RESULTS.jsonl")):
    line = line.strip()
    if not line: continue
    try: r = json.loads(line)
    except Exception: continue
    key = (r["patch"], r["check"])
    prev = rows.get(key)
    # prefer the repo-apply mode, else the latest
    if prev is None or r["mode"] == "repo-apply" or prev["mode"] != "repo-apply":
        rows[key] = r
def own(patch, check):
    name = os.path.basename(os.path.dirname(patch) if patch.startswith("seeded/") else patch)
    # C15S = the Stronghold companion of C15 (part of C15's thorough command)
    return name.startswith(check) or (check == "C15S" and name.startswith("C15"))
def clean(k):
    k = re.sub(r"panic@/tmp/mutwt/", "panic@", k)
    return k
out = ["| patch | origin | check | tier | verdict | mode | first violation keys |", "|---|---|---|---|---|---|---|"]
for (patch, check), r in sorted(rows.items(), key=lambda kv: (kv[0][1], kv[0][0])):
    origin = "independent seed" if patch.startswith("seeded/") else "author/own mutant"
    if not own(patch, check):
        origin += " (cross-check: seeded for another property)"
    keys = [clean(k) for k in r.get("keys", "").split(";") if k][:3]
    out.append("| `%s` | %s | %s | %s | **%s** | %s @%s | %s |" % (patch.replace("seeded/", "").replace("mutants/", "").replace("/patch.diff", ""), origin, check, r["tier"], r["result"], r["mode"], r["repo_head"], "<br>".join("`%s`" % k[:110] for k in keys)))
n_seed = sum(1 for (p, c) in rows if p.startswith("seeded/") and own(p, c))
n_seed_det = sum(1 for (p, c), r in rows.items() if p.startswith("seeded/") and own(p, c) and r["result"] == "DETECTED")
n_mut = sum(1 for (p, c) in rows if not p.startswith("seeded/"))
n_mut_det = sum(1 for (p, c), r in rows.items() if not p.startswith("seeded/") and r["result"] == "DETECTED")
n_cross = sum(1 for (p, c) in rows if p.startswith("seeded/") and not own(p, c))
n_cross_det = sum(1 for (p, c), r in rows.items() if p.startswith("seeded/") and not own(p, c) and r["result"] == "DETECTED")
summary = "Independent seeds: %d/%d detected by the check of the property they were seeded for; authors'/own mutants: %d/%d detected (latest run of each patch)." + " Cross-checks (a seed run against another property's check): %d run, %d detected there too." % (n_cross, n_cross_det)
summary = summary % (n_seed_det, n_seed, n_mut_det, n_mut)
p = os.path.join(ROOT, "DESIGN.md")
s = open(p).read()
a = s.index("<!-- DETECTION-TABLE-BEGIN -->"); b = s.index("<!-- DETECTION-TABLE-END -->")
s = s[:a] + "<!-- DETECTION-TABLE-BEGIN -->\n" + summary + "\n\n" + "\n".join(out) + "\n" + s[b:]
open(p, "w").write(s)
print(summary)
# meta.json updates
for d in sorted(glob.glob(os.path.join(ROOT, "seeded", "*-[a-z]"))):
    mp = os.path.join(d, "meta.json")
    if not os.path.exists(mp): continue
    try: m = json.load(open(mp))
    except Exception as e:
        print("bad meta", mp, e); continue
    name = os.path.basename(d)
    runs = [r for (patch, check), r in rows.items() if patch == "seeded/%s/patch.diff" % name]
    m["checked"] = {
        "confirmed_independently": open(os.path.join(d, "confirmed.txt")).read().strip().splitlines()[-1] if os.path.exists(os.path.join(d, "confirmed.txt")) else "not yet",
        "check_runs": [{"check": r["check"], "tier": r["tier"], "verdict": r["result"], "mode": r["mode"], "repo_head": r["repo_head"], "violation_keys": [clean(k) for k in r.get("keys", "").split(";") if k][:6]} for r in runs],
    }
    json.dump(m, open(mp, "w"), indent=1)
