#!/bin/bash
# tools/run_seeded.sh <patch.diff> <CNN> [quick|thorough]
# Applies a seeded change to /repo, runs the check, and reverts /repo (git checkout -- .) whatever happens.
# Prints DETECTED / MISSED / MACHINERY. Never commits anything.
set -u
patch="$(readlink -f "$1")"; id="$2"; tier="${3:-quick}"
cd /repo || exit 2
if ! git diff --quiet; then echo "/repo has uncommitted changes; refusing"; exit 2; fi
if ! git apply --check "$patch" 2>/dev/null; then echo "PATCH-DOES-NOT-APPLY $patch"; exit 3; fi
git apply "$patch"
trap 'git -C /repo checkout -- . ; git -C /repo clean -fdq -- identity_* 2>/dev/null' EXIT
mkdir -p /tmp/seeded-run-root && cp /verif/known_findings.json /tmp/seeded-run-root/
out=$(cd /verif && VERIF_ROOT=/tmp/seeded-run-root ./check "$id" --tier "$tier" 2>&1); rc=$?
echo "$out" | grep -E "VIOLATION|KNOWN-FINDING|MACHINERY|^\[$id\] tier" | head -20
log_result() { # <verdict>
  local keys; keys=$(echo "$out" | grep -E "^  key=" | sed 's/^  key=\([^ ]*\).*/\1/' | sort -u | head -12 | tr '\n' ';')
  printf '{"patch":"%s","check":"%s","tier":"%s","result":"%s","mode":"repo-apply","repo_head":"%s","keys":"%s"}\n' "$(echo $patch | sed 's|.*/verif/||')" "$id" "$tier" "$1" "$(git -C /repo rev-parse --short HEAD)" "$(echo $keys | sed 's/"/\\"/g' | cut -c1-900)" >> /verif/seeded/RESULTS.jsonl
}
case $rc in
  1) echo "RESULT $id $(basename $(dirname $patch)) $tier: DETECTED"; log_result DETECTED;;
  0) echo "RESULT $id $(basename $(dirname $patch)) $tier: MISSED"; log_result MISSED;;
  *) echo "RESULT $id $(basename $(dirname $patch)) $tier: MACHINERY rc=$rc"; echo "$out" | tail -20;;
esac
exit 0
