#!/bin/bash
# tools/run_c15s_mutant.sh <patch.diff> : applies a Stronghold-store mutant to /repo, runs the Stronghold companion of
# C15 (c15s, quick bounds), reverts. Appends the verdict to seeded/RESULTS.jsonl (check "C15S").
set -u
here="$(cd "$(dirname "$0")/.." && pwd)"; patch="$(readlink -f "$1")"
[ -n "$(git -C /repo status --porcelain)" ] && { echo "/repo is dirty"; exit 2; }
git -C /repo apply "$patch" || { echo "RESULT C15S $(basename $patch) PATCH-DOES-NOT-APPLY"; exit 3; }
root=/tmp/seeded-run-root; mkdir -p $root/evidence $root/replays; cp $here/known_findings.json $root/
( cd $here/harness-stronghold && cargo build --release --offline -q -p vcheck-stronghold --bin c15s 2>&1 | tail -5 )
out=$(cd $here/harness-stronghold && VERIF_ROOT=$root ./target/release/c15s --tier quick 2>&1); rc=$?
git -C /repo checkout -- .
keys=$(echo "$out" | grep -E "^  key=" | sed 's/^  key=\([^ ]*\).*/\1/' | sort -u | head -8 | tr '\n' ';')
case $rc in 1) v=DETECTED;; 0) v=MISSED;; *) v="MACHINERY rc=$rc";; esac
echo "RESULT C15S $(basename $patch) quick: $v"
rel=$(realpath --relative-to="$here" "$patch")
[ $rc -le 1 ] && printf '{"patch":"%s","check":"C15S","tier":"quick","result":"%s","mode":"repo-apply","repo_head":"%s","keys":"%s"}\n' "$rel" "$v" "$(git -C /repo rev-parse --short HEAD)" "$keys" >> $here/seeded/RESULTS.jsonl
( cd $here/harness-stronghold && cargo build --release --offline -q -p vcheck-stronghold --bin c15s 2>&1 | tail -3 )
