# chk(pid, technique, text, note)
chk("C12",
    "exhaustive enumeration of the per-byte update space + stateright BFS to closure over write histories on the real list/credential",
    "Bounded exhaustive model checking of the real StatusList2021 / StatusList2021Credential code: the complete (byte, neighbour, position, offset, value) space of the bit update (36 864 cases), all sizes around the minimum, all out-of-range classes, and explicit-state BFS to closure (fingerprint = the real list's bytes / the real credential's JSON) over write histories from three initial patterns and over credential-level set/clear operations for both purposes, with a Vec<bool>/BTreeSet reference model compared after every transition and status evaluation checked at every reached state.",
    "Trusted: flate2/multibase as lossless codecs, serde_json; histories use 5 indices (0,1,7,8,len-1) and 4 credential indices; list sizes MIN, MIN+8, 2^20.")
