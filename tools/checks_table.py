# chk(pid, technique, text, note)
