#!/bin/bash
# tools/run_mutant_copy.sh <patch.diff> <CNN> [quick|thorough]
# MUT_TAG=<suffix> gives the run its own scratch worktree/harness copy (/tmp/mutwt<suffix>, /tmp/hcopy<suffix>) so that
# several runs can go on in parallel.
# Development helper: runs a check against a scratch worktree of /repo (at /repo's HEAD) with the patch applied,
# through a scratch copy of the harness whose path dependencies point at that worktree. /repo is not touched.
# (The confirmation runs recorded in /verif/seeded/*/meta.json use tools/run_seeded.sh, which applies to /repo itself.)
set -u
patch="$(readlink -f "$1")"; id="$2"; tier="${3:-quick}"
tag="${MUT_TAG:-}"; wt=/tmp/mutwt$tag; hc=/tmp/hcopy$tag
bin=$(echo "$id" | tr 'A-Z' 'a-z')
if [ ! -d $wt ]; then git -C /repo worktree add -q --detach $wt HEAD || exit 2; fi
git -C $wt checkout -q --detach "$(git -C /repo rev-parse HEAD)" && git -C $wt checkout -q -- . && git -C $wt clean -fdq
cp /repo/Cargo.lock $wt/
if ! git -C $wt apply --check "$patch" 2>/dev/null; then echo "RESULT $id $(basename $(dirname $patch))/$(basename $patch) PATCH-DOES-NOT-APPLY"; exit 3; fi
git -C $wt apply "$patch"
mkdir -p $hc && rsync -a --delete --exclude target /verif/harness/ $hc/
sed -i "s|\"/repo/|\"$wt/|g" $hc/vx/Cargo.toml $hc/vcheck/Cargo.toml
sed -i "s|^target-dir.*|target-dir = \"$hc/target\"|" $hc/.cargo/config.toml
root=/tmp/hcopy-root$tag; mkdir -p $root; cp /verif/known_findings.json $root/
( cd $hc && cargo build --release --offline -q -p vcheck --bin $bin 2>&1 | tail -20 ) || true
if [ ! -x $hc/target/release/$bin ]; then echo "RESULT $id BUILD-FAILED"; git -C $wt checkout -q -- .; exit 2; fi
out=$(VERIF_ROOT=$root $hc/target/release/$bin --tier $tier 2>&1); rc=$?
echo "$out" | grep -E "VIOLATION|  key=|KNOWN-FINDING|MACHINERY|^\[$id\] tier" | head -24
log_result() { # <verdict>
  local keys; keys=$(echo "$out" | grep -E "^  key=" | sed 's/^  key=\([^ ]*\).*/\1/' | sort -u | head -12 | tr '\n' ';')
  printf '{"patch":"%s","check":"%s","tier":"%s","result":"%s","mode":"scratch-worktree","repo_head":"%s","keys":"%s"}\n' "$(echo $patch | sed 's|.*/verif/||')" "$id" "$tier" "$1" "$(git -C /repo rev-parse --short HEAD)" "$(echo $keys | sed 's/"/\\"/g' | cut -c1-900)" >> /verif/seeded/RESULTS.jsonl
}
case $rc in
  1) echo "RESULT $id $(basename $(dirname $patch))/$(basename $patch) $tier: DETECTED"; log_result DETECTED;;
  0) echo "RESULT $id $(basename $(dirname $patch))/$(basename $patch) $tier: MISSED"; log_result MISSED;;
  *) echo "RESULT $id $(basename $(dirname $patch))/$(basename $patch) $tier: MACHINERY rc=$rc";;
esac
git -C $wt checkout -q -- .
