#!/usr/bin/env python3
"""Generates /verif/MANIFEST.json from the table below (kept valid at all times)."""
import json, os, sys
ROOT = os.path.dirname(os.path.dirname(os.path.abspath(__file__)))

# id -> dict(technique, text, note, design_ref, level)   (only properties whose check is built)
CHECKS = {}
def chk(pid, technique, text, note, level="model_checking", engine="vx"):
    CHECKS[pid] = dict(technique=technique, text=text, note=note, level=level, engine=engine)

exec(open(os.path.join(ROOT, "tools", "checks_table.py")).read())

props = [json.loads(l) for l in open(os.path.join(ROOT, "properties.jsonl"))]
checks, na = [], []
for p in props:
    pid = p["id"]
    if pid in CHECKS:
        c = CHECKS[pid]
        checks.append({
            "property_id": pid,
            "quick_cmd": f"./check {pid} --tier quick",
            "thorough_cmd": f"./check {pid} --tier thorough",
            "evidence_file": f"/verif/evidence/{pid}.json",
            "replay_cmd_template": f"./check {pid} --replay {{path}}",
            "engine": c["engine"],
            "level_claimed": {"category": c["level"], "text": c["text"], "design_ref": f"DESIGN.md §2 {pid}"},
            "level_note": c["note"],
            "technique": c["technique"],
        })
    else:
        na.append({"property_id": pid, "reason": "check not built yet in this session (design in DESIGN.md §2 %s); not claimed until its check exists" % pid})

m = {
    "version": 1,
    "setup_cmd": "cd /verif/harness && CARGO_NET_OFFLINE=true cargo build --release --offline -p vcheck " + " ".join("--bin " + k.lower() for k in sorted(CHECKS)) + " 2>&1 | tail -3; cd /verif/harness-stronghold && CARGO_NET_OFFLINE=true cargo build --release --offline 2>&1 | tail -1",
    "hooks": {
        "guard": "cargo feature `verif-hooks` of identity_storage (off by default)",
        "enable": "the harness crate vx depends on identity_storage by path with features=[\"verif-hooks\"]; cargo feature unification turns it on for every check binary",
        "baseline_off_cmd": "cd /repo && cargo nextest run --workspace --no-fail-fast --offline --test-threads 8 || cargo test --workspace --no-fail-fast --offline",
        "source_commits": json.load(open(os.path.join(ROOT, "tools", "hook_commits.json"))),
        "add_only": True,
    },
    "engines": [
        {"name": "vx", "path": "/verif/harness/vx", "serves_properties": sorted(CHECKS.keys()),
         "kind_free_text": "Rust engine library: E1 deviation-bounded choice-sequence DFS over the real API (choice.rs), E2 stateright 0.31 BFS to closure with real-object fingerprints (sr.rs), E3 shuttle DFS over real threads + exhaustive gate-opening executor for futures (gate.rs); evidence/replay/known-findings plumbing (ctx.rs)"},
    ],
    "checks": checks,
    "notes": "Every check is a binary harness/vcheck/src/bin/<id>.rs built against /repo by path; ./check <id> rebuilds and runs it. Exit 2 = machinery error, never a verdict.",
    "not_applicable": na,
}
if not na:
    m["not_applicable"] = []
json.dump(m, open(os.path.join(ROOT, "MANIFEST.json"), "w"), indent=1)
print("MANIFEST.json written:", len(checks), "checks,", len(na), "not claimed")
