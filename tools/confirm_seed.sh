#!/bin/bash
# tools/confirm_seed.sh <seeded dir> [extra cargo test args, e.g. --features status-list-2021]
# Independent confirmation of a seeded change in a scratch worktree (never /repo):
#   1. demo passes on the clean tree   2. patch applies and compiles   3. demo fails with the patch
#   4. the repository's full suite (362 tests) still passes with the patch.
# Appends the outcome to <dir>/confirmed.txt. The worktree and its build output are removed by the caller (tools/confirm_cleanup.sh).
set -u
dir="$(readlink -f "$1")"; shift; extra="$*"
wt=/tmp/confwt; tgt=/tmp/confwt-target
crate=$(grep -o -- '-p [a-z_][a-z_]*' "$dir/demo_cmd.txt" | head -1 | awk '{print $2}')
[ -z "$crate" ] && { echo "cannot find crate in demo_cmd.txt"; exit 2; }
if [ ! -d $wt ]; then git -C /repo worktree add -q --detach $wt HEAD || exit 2; fi
git -C $wt checkout -q --detach "$(git -C /repo rev-parse HEAD)"; git -C $wt checkout -q -- .; git -C $wt clean -fdq; cp /repo/Cargo.lock $wt/
mkdir -p $wt/$crate/tests && cp "$dir/demo.rs" $wt/$crate/tests/seeded_demo.rs
cd $wt
echo "== 1. demo on clean tree"
CARGO_TARGET_DIR=$tgt cargo test --offline -q -p $crate --test seeded_demo $extra 2>&1 | grep -E "^test result|error" | head -3
r1=${PIPESTATUS[0]}
echo "== 2. apply patch"
git apply "$dir/patch.diff" || { echo "PATCH DOES NOT APPLY"; exit 3; }
echo "== 3. demo with patch"
CARGO_TARGET_DIR=$tgt cargo test --offline -q -p $crate --test seeded_demo $extra 2>&1 | grep -E "^test result|error(\[|:)" | head -3
r3=${PIPESTATUS[0]}
rm -f $wt/$crate/tests/seeded_demo.rs; rmdir $wt/$crate/tests 2>/dev/null
echo "== 4. full suite with patch"
CARGO_TARGET_DIR=$tgt cargo nextest run --workspace --no-fail-fast --offline --test-threads 8 2>&1 | grep -E "Summary|FAIL|error(\[|:)" | head -8
r4=${PIPESTATUS[0]}
res="clean-demo rc=$r1 (want 0); patched-demo rc=$r3 (want !=0); suite-with-patch rc=$r4 (want 0)"
echo "$res"
if [ $r1 -eq 0 ] && [ $r3 -ne 0 ] && [ $r4 -eq 0 ]; then verdict=CONFIRMED; else verdict=NOT-CONFIRMED; fi
echo "$verdict at /repo $(git -C /repo rev-parse --short HEAD): $res" | tee -a "$dir/confirmed.txt"
git -C $wt checkout -q -- .
