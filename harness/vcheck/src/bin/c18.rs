//! C18 — JWK public projection, thumbprint and key-type coherence never leak keys.
//!
//! (a) `json`: every declared `kty` (4) x EVERY subset of the 13 type-specific member names
//!     {crv,x,y,d,n,e,p,q,dp,dq,qi,oth,k} (8 192: all private subsets incl. partial RSA sets and `oth`,
//!     all declared-type / parameter-family mismatches, all "two families at once" shapes) x optional-member
//!     sets x member order, as JSON text through `Jwk::from_json`.
//! (b) `json-optional`: the well-formed member sets (required members of the declared type + every
//!     subset of its private members: 133 sets) x optional-member subsets (<=2 present / all 256) x
//!     key_ops menu x member order.
//! (c) `api`: the same keys built through `from_params`, `Jwk::new`+`set_params`, `set_kty`,
//!     `try_*_params_mut`, JSON round trip; `params_mut` variant swap and `set_params_unchecked` are
//!     executed and recorded only.
//! (d) `method`: `VerificationMethod::new_from_jwk` (fragment / kid), `MethodBuilder::build`,
//!     `DIDJwk -> VerificationMethod` on every key type x every private subset.
//! (e) `generate`: `JwkMemStore::generate` output and the JSON of Core/IOTA documents after
//!     `generate_method` in every scope.
//!
//! Oracle (from the property statement + RFC 7517/7518/7638/8037, independent of the implementation):
//! accepted => `kty() == params().kty()` == declared; `is_public` <=> no private member; `to_public`
//! has no private member, same kty and public parameters, is public, is idempotent; thumbprint ==
//! own RFC 7638 computation over the required members (so it cannot depend on anything else).

use identity_core::common::Url;
use identity_core::convert::{FromJson, ToJson};
use identity_did::{CoreDID, DIDJwk, DIDUrl};
use identity_document::document::CoreDocument;
use identity_iota_core::{IotaDocument, NetworkName};
use identity_jose::jwk::{
  Jwk, JwkOperation, JwkParams, JwkParamsEc, JwkParamsOct, JwkParamsOkp, JwkParamsRsa, JwkParamsRsaPrime, JwkType, JwkUse,
};
use identity_jose::jws::JwsAlgorithm;
use identity_storage::{JwkDocumentExt, JwkMemStore, JwkStorage, KeyIdMemstore, Storage};
use identity_verification::{MethodBuilder, MethodData, MethodRelationship, MethodScope, MethodType, VerificationMethod};
use serde::{Deserialize, Serialize};
use sha2::{Digest, Sha256};
use std::collections::BTreeMap;
use vx::rayon::prelude::*;
use vx::{guard, json, Ctx, Level, Value};

// ------------------------------------------------------------------ alphabets
const KTY: [&str; 4] = ["EC", "RSA", "oct", "OKP"];
const EC: usize = 0;
const RSA: usize = 1;
const OCT: usize = 2;
const OKP: usize = 3;
fn jwk_type(t: usize) -> JwkType {
  [JwkType::Ec, JwkType::Rsa, JwkType::Oct, JwkType::Okp][t]
}
fn type_index(t: JwkType) -> usize {
  match t {
    JwkType::Ec => EC,
    JwkType::Rsa => RSA,
    JwkType::Oct => OCT,
    JwkType::Okp => OKP,
  }
}

/// The 13 type-specific member names; bit i of `members` = U[i] present.
const U: [&str; 13] = ["crv", "x", "y", "d", "n", "e", "p", "q", "dp", "dq", "qi", "oth", "k"];
fn bit(name: &str) -> u16 {
  1 << U.iter().position(|n| *n == name).expect("member name")
}
fn mask(names: &[&str]) -> u16 {
  names.iter().map(|n| bit(n)).sum()
}
/// Names that carry private key material in at least one key type (RFC 7518 §6.2.2, §6.3.2, §6.4.1, RFC 8037 §2).
const PRIV: [&str; 8] = ["d", "p", "q", "dp", "dq", "qi", "oth", "k"];
fn required(t: usize) -> &'static [&'static str] {
  match t {
    EC => &["crv", "x", "y"],
    RSA => &["e", "n"],
    OCT => &["k"],
    _ => &["crv", "x"],
  }
}
/// Private members of type `t` besides the required ones (oct's `k` is required and private).
fn private_of(t: usize) -> &'static [&'static str] {
  match t {
    EC | OKP => &["d"],
    RSA => &["d", "p", "q", "dp", "dq", "qi", "oth"],
    _ => &[],
  }
}
const OPT: [&str; 8] = ["use", "key_ops", "alg", "kid", "x5u", "x5c", "x5t", "x5t#S256"];
const OPS_MENU: [&[&str]; 3] = [&["sign"], &["verify"], &["deriveKey", "deriveBits"]];

const EC_X: &str = "MKBCTNIcKUSDii11ySs3526iDZ8AiTo7Tu6KPAqv7D4";
const EC_Y: &str = "4Etl6SRW2YiLUrN5vfvVHuhp7x8PxltmWWlbbM4IFyM";
const OKP_X: &str = "11qYAYKxCrfVS_7TyWQHOg7hcvPapiMlrwIaaPcHURo";
const RSA_N: &str = "0vx7agoebGcQSuuPiLJXZptN9nndrQmbXEps2aiAFbWhM78LhWx4cbbfAAtVT86zwu1RK7aPFFxuhDR1L6tSoc_BJECPebWKRXjBZCiFV4n3oknjhMstn64tZ_2W-5JsGY4Hc5n9yBXArwl93lqt7_RN5w6Cf0h4QyQ5v-65YGjQR0_FDW2QvzqY368QQMicAtaSqzs8KJZgnYb9c7d0zgdAZHzu6qMQvRL5hajrn1n91CbOpbISD08qNLyrdkt-bFTWhAI4vMQFh6WeZu0fM4lFd2NcRwr3XPksINHaQ-G_xBniIqbw0Ls1jF44-csFCur-kEgU8awapJzKnqDKgw";

/// Value of a type-specific member when the declared type is `t`. Every private value starts with
/// `SECRET` (inside the base64url alphabet), so a leak is also visible as text.
fn value_of(name: &str, t: usize) -> Value {
  match name {
    "crv" => json!(if t == OKP { "Ed25519" } else { "P-256" }),
    "x" => json!(if t == OKP { OKP_X } else { EC_X }),
    "y" => json!(EC_Y),
    "n" => json!(RSA_N),
    "e" => json!("AQAB"),
    "oth" => json!([{"r": "SECRET_oth_r", "d": "SECRET_oth_d", "t": "SECRET_oth_t"}]),
    p => json!(format!("SECRET_{p}")),
  }
}
fn opt_value(name: &str, ops: u8) -> Value {
  match name {
    "use" => json!("sig"),
    "key_ops" => json!(OPS_MENU[ops as usize % 3]),
    "alg" => json!("EdDSA"),
    "kid" => json!("key-1"),
    "x5u" => json!("https://example.com/cert.pem"),
    "x5c" => json!(["MIIBcert"]),
    "x5t" => json!("dGh1bWI"),
    _ => json!("dGh1bWIyNTY"),
  }
}

// ------------------------------------------------------------------ independent RFC 7638
fn b64url(data: &[u8]) -> String {
  const A: &[u8; 64] = b"ABCDEFGHIJKLMNOPQRSTUVWXYZabcdefghijklmnopqrstuvwxyz0123456789-_";
  let mut s = String::new();
  for c in data.chunks(3) {
    let n = (c[0] as u32) << 16 | (*c.get(1).unwrap_or(&0) as u32) << 8 | *c.get(2).unwrap_or(&0) as u32;
    s.push(A[(n >> 18) as usize & 63] as char);
    s.push(A[(n >> 12) as usize & 63] as char);
    if c.len() > 1 {
      s.push(A[(n >> 6) as usize & 63] as char);
    }
    if c.len() > 2 {
      s.push(A[n as usize & 63] as char);
    }
  }
  s
}
/// RFC 7638 §3: JSON object with exactly the required members (incl. kty), names in lexicographic
/// order, no whitespace; SHA-256; base64url.
fn rfc7638(t: usize, get: &dyn Fn(&str) -> Value) -> String {
  let mut names: Vec<&str> = required(t).to_vec();
  names.push("kty");
  names.sort();
  let body: Vec<String> = names
    .iter()
    .map(|n| format!("{}:{}", serde_json::to_string(n).unwrap(), if *n == "kty" { json!(KTY[t]).to_string() } else { get(n).to_string() }))
    .collect();
  b64url(&Sha256::digest(format!("{{{}}}", body.join(",")).as_bytes()))
}

// ------------------------------------------------------------------ cases
#[derive(Serialize, Deserialize, Debug, Clone, PartialEq)]
enum Case {
  /// JSON text: declared kty, set of type-specific members (bits over U), optional members (bits over OPT),
  /// key_ops menu entry, member order (0 sorted, 1 reversed, 2 rotated by half).
  Json { kty: u8, members: u16, opts: u8, ops: u8, order: u8 },
  /// API path (see `PATHS`), parameter family, declared/target kty, private subset (bits over private_of(fam)),
  /// optional members, key_ops menu entry.
  Api { path: u8, fam: u8, declared: u8, privs: u8, opts: u8, ops: u8 },
  /// VerificationMethod constructor (see `CTORS`) on a JWK of family `fam` with private subset `privs`.
  Method { ctor: u8, fam: u8, privs: u8 },
  /// Key generation: document type (0 core, 1 iota), scope (0 = VerificationMethod, 1..=5 relationships),
  /// explicit fragment?, number of methods generated one after the other.
  Generate { doc: u8, scope: u8, fragment: bool, count: u8 },
}

const PATHS: [&str; 7] =
  ["from_params", "new+set_params", "from_params+set_kty", "new+try_params_mut", "params_mut-variant-swap", "set_params_unchecked", "to_json+from_json"];
const CTORS: [&str; 4] = ["new_from_jwk(fragment)", "new_from_jwk(kid)", "MethodBuilder::build", "DIDJwk->VerificationMethod"];

#[derive(Default)]
struct Verdict {
  outcome: String,
  viol: Vec<(String, String)>,
  nontrivial: bool,
}
impl Verdict {
  fn v(&mut self, key: impl Into<String>, what: impl Into<String>) {
    self.viol.push((key.into(), what.into()));
  }
}

fn json_text(kty: usize, members: u16, opts: u8, ops: u8, order: u8) -> String {
  let mut ms: Vec<(String, Value)> = vec![("kty".to_string(), json!(KTY[kty]))];
  for (i, n) in U.iter().enumerate() {
    if members & (1 << i) != 0 {
      ms.push((n.to_string(), value_of(n, kty)));
    }
  }
  for (i, n) in OPT.iter().enumerate() {
    if opts & (1 << i) != 0 {
      ms.push((n.to_string(), opt_value(n, ops)));
    }
  }
  ms.sort_by(|a, b| a.0.cmp(&b.0));
  match order {
    1 => ms.reverse(),
    2 => {
      let h = ms.len() / 2;
      ms.rotate_left(h)
    }
    _ => {}
  }
  let body: Vec<String> = ms.iter().map(|(n, v)| format!("{}:{}", serde_json::to_string(n).unwrap(), v)).collect();
  format!("{{{}}}", body.join(","))
}

fn object_of(j: &Jwk) -> Result<serde_json::Map<String, Value>, String> {
  match guard(|| j.to_json_value()) {
    Ok(Ok(Value::Object(m))) => Ok(m),
    Ok(Ok(other)) => Err(format!("not an object: {other}")),
    Ok(Err(e)) => Err(format!("{e}")),
    Err(p) => Err(format!("panic {}", p.msg)),
  }
}
fn private_names(m: &serde_json::Map<String, Value>) -> Vec<String> {
  m.keys().filter(|k| PRIV.contains(&k.as_str())).cloned().collect()
}
/// Every object key anywhere in `v` that is a private member name.
fn private_names_deep(v: &Value, out: &mut Vec<String>) {
  match v {
    Value::Object(m) => {
      for (k, x) in m {
        if PRIV.contains(&k.as_str()) {
          out.push(k.clone());
        }
        private_names_deep(x, out);
      }
    }
    Value::Array(a) => a.iter().for_each(|x| private_names_deep(x, out)),
    _ => {}
  }
}

/// The oracles on one coherent JWK of declared type `t` whose type-specific members have the values
/// `value_of(_, t)`. `given_private`: Some(b) when the harness knows whether a private member of type `t`
/// was put into the key.
fn judge_jwk(entry: &str, j: &Jwk, t: usize, given_private: Option<bool>, v: &mut Verdict) {
  let obj = match object_of(j) {
    Ok(o) => o,
    Err(e) => return v.v("Jwk::to_json|failed", e),
  };
  let carried = private_names(&obj);
  // is_public <=> no private member
  let is_public = match guard(|| j.is_public()) {
    Ok(b) => b,
    Err(p) => return v.v(format!("Jwk::is_public|{}", p.key()), p.msg),
  };
  let has_private = given_private.unwrap_or(!carried.is_empty()) || !carried.is_empty();
  if is_public && has_private {
    v.v("Jwk::is_public|true-with-private-member", format!("{entry}: members {:?} carried, is_public() = true", carried));
  }
  if !is_public && !has_private {
    v.v("Jwk::is_public|false-without-private-member", format!("{entry}: no private member, is_public() = false"));
  }
  if let Some(true) = given_private {
    if carried.is_empty() {
      v.v("Jwk::to_json|private-member-lost", format!("{entry}: a private member was given, none is serialised"));
    }
  }
  if t != OCT && is_public && matches!(guard(|| j.is_private()), Ok(true)) {
    v.v("Jwk::is_private|true-for-public-key", entry.to_string());
  }
  // thumbprint == independent RFC 7638 over the required members only
  let want_tp = rfc7638(t, &|n| value_of(n, t));
  match guard(|| (j.thumbprint_sha256_b64(), b64url(&j.thumbprint_sha256()))) {
    Ok((a, b)) => {
      if a != want_tp || b != want_tp {
        v.v("Jwk::thumbprint_sha256_b64|differs-from-rfc7638", format!("{entry}: got {a} / {b}, RFC 7638 gives {want_tp}; hash input {:?}", j.thumbprint_hash_input()));
      }
    }
    Err(p) => v.v(format!("Jwk::thumbprint_sha256_b64|{}", p.key()), p.msg),
  }
  // public projection
  let p = match guard(|| j.to_public()) {
    Ok(p) => p,
    Err(p) => return v.v(format!("Jwk::to_public|{}", p.key()), p.msg),
  };
  let p = match p {
    None => {
      if t != OCT {
        v.v("Jwk::to_public|none-for-asymmetric-key", format!("{entry}: kty {}", KTY[t]));
      }
      v.outcome += "/projection:none";
      return;
    }
    Some(p) => p,
  };
  v.outcome += "/projection:some";
  let pobj = match object_of(&p) {
    Ok(o) => o,
    Err(e) => return v.v("Jwk::to_json|failed", e),
  };
  // one defect, one key: kept member names first, then (only if none) a private value under another name,
  // then (only if neither) a projection that does not report itself public
  let kept = private_names(&pobj);
  let leaks_value = Value::Object(pobj.clone()).to_string().contains("SECRET");
  for n in &kept {
    v.v(format!("Jwk::to_public|private-member-kept|{n}"), format!("{entry}: projection {}", Value::Object(pobj.clone())));
  }
  if kept.is_empty() && leaks_value {
    v.v("Jwk::to_public|private-value-kept", format!("{entry}: projection {}", Value::Object(pobj.clone())));
  }
  if type_index(p.kty()) != t || pobj.get("kty") != Some(&json!(KTY[t])) || type_index(p.params().kty()) != t {
    v.v("Jwk::to_public|kty-changed", format!("{entry}: {} -> {:?}", KTY[t], pobj.get("kty")));
  }
  for n in required(t) {
    if pobj.get(*n) != Some(&value_of(n, t)) {
      v.v(format!("Jwk::to_public|public-parameter-changed|{n}"), format!("{entry}: {:?}", pobj.get(*n)));
    }
  }
  if kept.is_empty() && !leaks_value && !matches!(guard(|| p.is_public()), Ok(true)) {
    v.v("Jwk::to_public|result-not-public", entry.to_string());
  }
  // the thumbprint does not depend on the presence of the private part
  match (guard(|| p.thumbprint_sha256_b64()), guard(|| j.thumbprint_sha256_b64())) {
    (Ok(a), Ok(b)) if a == b => {}
    (a, b) => v.v("Jwk::to_public|thumbprint-changed", format!("{entry}: projection {a:?}, key {b:?}")),
  }
  // idempotence
  match guard(|| p.to_public()) {
    Ok(Some(pp)) => {
      if pp != p {
        let ppobj = object_of(&pp).unwrap_or_default();
        let mut names: Vec<&String> = pobj.keys().chain(ppobj.keys()).collect();
        names.sort();
        let m = names.into_iter().find(|n| pobj.get(*n) != ppobj.get(*n)).cloned().unwrap_or_else(|| "?".into());
        v.v(
          format!("Jwk::to_public|not-idempotent|{m}"),
          format!("{entry}: to_public() has {m} = {:?}, to_public().to_public() has {:?}", pobj.get(&m), ppobj.get(&m)),
        );
      }
    }
    Ok(None) => v.v("Jwk::to_public|not-idempotent|none", entry.to_string()),
    Err(pn) => v.v(format!("Jwk::to_public|{}", pn.key()), pn.msg),
  }
}

fn coherent(j: &Jwk, want: Option<usize>) -> Result<(), String> {
  let k = type_index(j.kty());
  let p = type_index(j.params().kty());
  if k != p {
    return Err(format!("kty() = {}, params() are {} parameters", KTY[k], KTY[p]));
  }
  if let Some(w) = want {
    if k != w {
      return Err(format!("declared {}, kty() = {}", KTY[w], KTY[k]));
    }
  }
  Ok(())
}

fn params_of(fam: usize, privs: u8) -> JwkParams {
  let s = |n: &str, i: u8| if privs & (1 << i) != 0 { Some(format!("SECRET_{n}")) } else { None };
  match fam {
    EC => JwkParams::Ec(JwkParamsEc { crv: "P-256".into(), x: EC_X.into(), y: EC_Y.into(), d: s("d", 0) }),
    RSA => JwkParams::Rsa(JwkParamsRsa {
      n: RSA_N.into(),
      e: "AQAB".into(),
      d: s("d", 0),
      p: s("p", 1),
      q: s("q", 2),
      dp: s("dp", 3),
      dq: s("dq", 4),
      qi: s("qi", 5),
      oth: if privs & 64 != 0 {
        Some(vec![JwkParamsRsaPrime { r: "SECRET_oth_r".into(), d: "SECRET_oth_d".into(), t: "SECRET_oth_t".into() }])
      } else {
        None
      },
    }),
    OCT => JwkParams::Oct(JwkParamsOct { k: "SECRET_k".into() }),
    _ => JwkParams::Okp(JwkParamsOkp { crv: "Ed25519".into(), x: OKP_X.into(), d: s("d", 0) }),
  }
}
fn n_privs(fam: usize) -> u32 {
  1 << private_of(fam).len()
}
fn ops_of(ops: u8) -> Vec<JwkOperation> {
  match ops % 3 {
    0 => vec![JwkOperation::Sign],
    1 => vec![JwkOperation::Verify],
    _ => vec![JwkOperation::DeriveKey, JwkOperation::DeriveBits],
  }
}
fn set_opts(j: &mut Jwk, opts: u8, ops: u8) {
  if opts & 1 != 0 {
    j.set_use(JwkUse::Signature);
  }
  if opts & 2 != 0 {
    j.set_key_ops(ops_of(ops));
  }
  if opts & 4 != 0 {
    j.set_alg("EdDSA");
  }
  if opts & 8 != 0 {
    j.set_kid("key-1");
  }
  if opts & 16 != 0 {
    j.set_x5u(Url::parse("https://example.com/cert.pem").unwrap());
  }
  if opts & 32 != 0 {
    j.set_x5c(["MIIBcert"]);
  }
  if opts & 64 != 0 {
    j.set_x5t("dGh1bWI");
  }
  if opts & 128 != 0 {
    j.set_x5t_s256("dGh1bWIyNTY");
  }
}
fn has_priv(fam: usize, privs: u8) -> bool {
  fam == OCT || privs != 0
}

fn judge(case: &Case) -> Verdict {
  let mut v = Verdict::default();
  match *case {
    Case::Json { kty, members, opts, ops, order } => {
      let t = kty as usize;
      let text = json_text(t, members, opts, ops, order);
      let req = mask(required(t));
      let privm = mask(private_of(t));
      let complete = members & req == req;
      let foreign = members & !(req | privm) != 0;
      let given = members & privm;
      // private sets every conforming producer may emit (RFC 7518 §6.3.2: d alone, or all CRT members, optionally + oth)
      let regular_private = match t {
        RSA => [0, mask(&["d"]), mask(&["d", "p", "q", "dp", "dq", "qi"]), mask(&["d", "p", "q", "dp", "dq", "qi", "oth"])].contains(&given),
        _ => true,
      };
      let shape = if !complete {
        "required-missing"
      } else if foreign {
        "foreign-members"
      } else if !regular_private {
        "partial-private"
      } else {
        "well-formed"
      };
      let r = match guard(|| Jwk::from_json(&text)) {
        Ok(r) => r,
        Err(p) => {
          v.v(format!("Jwk::from_json|{}", p.key()), format!("{text}: {}", p.msg));
          v.outcome = format!("json:{shape}:panic");
          return v;
        }
      };
      let j = match r {
        Err(e) => {
          if shape == "well-formed" {
            v.v("Jwk::from_json|well-formed-jwk-rejected", format!("{text}: {e}"));
          }
          v.outcome = format!("json:{shape}:rejected");
          return v;
        }
        Ok(j) => j,
      };
      v.nontrivial = true;
      if let Err(why) = coherent(&j, Some(t)) {
        v.v("Jwk::from_json|accepted|kty-differs-from-params-family", format!("{text}: {why}"));
        v.outcome = format!("json:{shape}:accepted-incoherent");
        return v;
      }
      v.outcome = format!("json:{shape}:accepted:{}", if given != 0 || t == OCT { "private" } else { "public" });
      if !complete {
        // cannot happen with a coherent result (required members are non-optional strings); nothing more to judge
        return v;
      }
      let given_private = if foreign { None } else { Some(given != 0 || t == OCT) };
      judge_jwk(&text, &j, t, given_private, &mut v);
      // re-serialise and re-parse: the key obtained that way is coherent too
      if let Ok(Ok(s)) = guard(|| j.to_json()) {
        match guard(|| Jwk::from_json(&s)) {
          Ok(Ok(back)) => {
            if let Err(why) = coherent(&back, Some(t)) {
              v.v("Jwk::from_json|accepted|kty-differs-from-params-family", format!("re-parse of own output {s}: {why}"));
            }
          }
          Ok(Err(e)) => v.v("Jwk::from_json|own-output-rejected", format!("{s}: {e}")),
          Err(p) => v.v(format!("Jwk::from_json|{}", p.key()), p.msg),
        }
      }
    }
    Case::Api { path, fam, declared, privs, opts, ops } => {
      let (f, d) = (fam as usize, declared as usize);
      let name = PATHS[path as usize];
      let entry = format!("{name} fam={} declared={} privs={privs:#b} opts={opts:#b}", KTY[f], KTY[d]);
      v.nontrivial = true;
      match path {
        0 | 3 | 6 => {
          let built = guard(|| {
            let mut j = if path == 3 {
              let mut j = Jwk::new(jwk_type(f));
              match &params_of(f, privs) {
                JwkParams::Ec(p) => *j.try_ec_params_mut().expect("ec") = p.clone(),
                JwkParams::Rsa(p) => *j.try_rsa_params_mut().expect("rsa") = p.clone(),
                JwkParams::Oct(p) => *j.try_oct_params_mut().expect("oct") = p.clone(),
                JwkParams::Okp(p) => *j.try_okp_params_mut().expect("okp") = p.clone(),
              }
              j
            } else {
              Jwk::from_params(params_of(f, privs))
            };
            set_opts(&mut j, opts, ops);
            if path == 6 {
              let s = j.to_json().map_err(|e| format!("to_json: {e}"))?;
              return Jwk::from_json(&s).map_err(|e| format!("from_json({s}): {e}"));
            }
            Ok::<Jwk, String>(j)
          });
          let j = match built {
            Err(p) => {
              v.v(format!("Jwk::{name}|{}", p.key()), p.msg);
              v.outcome = format!("api:{name}:panic");
              return v;
            }
            Ok(Err(e)) => {
              v.v(format!("Jwk::{name}|own-key-rejected"), format!("{entry}: {e}"));
              v.outcome = format!("api:{name}:rejected");
              return v;
            }
            Ok(Ok(j)) => j,
          };
          if let Err(why) = coherent(&j, Some(f)) {
            v.v(format!("Jwk::{name}|kty-differs-from-params-family"), format!("{entry}: {why}"));
            v.outcome = format!("api:{name}:incoherent");
            return v;
          }
          v.outcome = format!("api:{name}:{}", if has_priv(f, privs) { "private" } else { "public" });
          judge_jwk(&entry, &j, f, Some(has_priv(f, privs)), &mut v);
        }
        1 => {
          let mut j = Jwk::new(jwk_type(d));
          let fresh = j.clone();
          match guard(|| j.set_params(params_of(f, privs))) {
            Err(p) => v.v(format!("Jwk::set_params|{}", p.key()), p.msg),
            Ok(r) => {
              if let Err(why) = coherent(&j, Some(d)) {
                v.v("Jwk::set_params|kty-differs-from-params-family", format!("{entry}: returned {:?}; {why}", r.is_ok()));
              }
              match r {
                Ok(()) => {
                  if f == d && j.params() != &params_of(f, privs) {
                    v.v("Jwk::set_params|params-not-stored", entry.clone());
                  }
                  v.outcome = format!("api:{name}:{}", if f == d { "matching-accepted" } else { "mismatch-accepted" });
                }
                Err(_) => {
                  if f == d {
                    v.v("Jwk::set_params|matching-params-rejected", entry.clone());
                  }
                  if j != fresh {
                    v.v("Jwk::set_params|rejected-but-changed", entry.clone());
                  }
                  v.outcome = format!("api:{name}:{}", if f == d { "matching-rejected" } else { "mismatch-rejected" });
                }
              }
            }
          }
        }
        2 => {
          let mut j = Jwk::from_params(params_of(f, privs));
          set_opts(&mut j, opts, ops);
          match guard(|| j.set_kty(jwk_type(d))) {
            Err(p) => v.v(format!("Jwk::set_kty|{}", p.key()), p.msg),
            Ok(()) => {
              if let Err(why) = coherent(&j, Some(d)) {
                v.v("Jwk::set_kty|kty-differs-from-params-family", format!("{entry}: {why}"));
              }
              // documented: "Removes any previously set params" — no old private value may survive
              let s = j.to_json().unwrap_or_default();
              if s.contains("SECRET") {
                v.v("Jwk::set_kty|previous-private-parameters-survive", format!("{entry}: {s}"));
              }
              v.outcome = format!("api:{name}:{}", if f == d { "same-type" } else { "other-type" });
            }
          }
        }
        _ => {
          // recorded only: these two hand out unchecked access by contract
          let mut j = Jwk::new(jwk_type(d));
          let r = guard(|| {
            if path == 4 {
              *j.params_mut() = params_of(f, privs)
            } else {
              j.set_params_unchecked(params_of(f, privs))
            }
          });
          v.outcome = match r {
            Err(_) => format!("api:{name}:panic(recorded-only)"),
            Ok(()) => format!("api:{name}:{}(recorded-only)", if coherent(&j, Some(d)).is_ok() { "coherent" } else { "incoherent" }),
          };
        }
      }
    }
    Case::Method { ctor, fam, privs } => {
      let f = fam as usize;
      let name = CTORS[ctor as usize];
      let entry = format!("{name} on {} key, private subset {privs:#b}", KTY[f]);
      v.nontrivial = true;
      let mut jwk = Jwk::from_params(params_of(f, privs));
      jwk.set_kid("key-1");
      let did = CoreDID::parse("did:example:123").unwrap();
      let r: Result<Result<VerificationMethod, String>, vx::Panicked> = guard(|| match ctor {
        0 => VerificationMethod::new_from_jwk(did.clone(), jwk.clone(), Some("frag")).map_err(|e| e.to_string()),
        1 => VerificationMethod::new_from_jwk(did.clone(), jwk.clone(), None).map_err(|e| e.to_string()),
        2 => MethodBuilder::default()
          .id(DIDUrl::parse("did:example:123#frag").unwrap())
          .controller(did.clone())
          .type_(MethodType::JSON_WEB_KEY_2020)
          .data(MethodData::PublicKeyJwk(jwk.clone()))
          .build()
          .map_err(|e| e.to_string()),
        _ => {
          let text = format!("did:jwk:{}", b64url(jwk.to_json().map_err(|e| e.to_string())?.as_bytes()));
          let d = DIDJwk::parse(&text).map_err(|e| format!("did:jwk parse: {e}"))?;
          VerificationMethod::try_from(d).map_err(|e| e.to_string())
        }
      });
      match r {
        Err(p) => {
          v.v(format!("VerificationMethod::{name}|{}", p.key()), p.msg);
          v.outcome = format!("method:{name}:panic");
        }
        Ok(Err(e)) => {
          v.outcome = format!(
            "method:{name}:rejected:{}:{}",
            if has_priv(f, privs) { "private-key" } else { "public-key" },
            if e.contains("private") || e.contains("Private") { "as-private-material" } else { "other-reason" }
          );
        }
        Ok(Ok(m)) => {
          v.outcome = format!("method:{name}:accepted:{}", if has_priv(f, privs) { "private-key" } else { "public-key" });
          let text = m.to_json().unwrap_or_default();
          let val: Value = serde_json::from_str(&text).unwrap_or(Value::Null);
          let mut names = Vec::new();
          private_names_deep(&val.get("publicKeyJwk").cloned().unwrap_or(Value::Null), &mut names);
          names.sort();
          names.dedup();
          let not_public = matches!(m.data(), MethodData::PublicKeyJwk(k) if !k.is_public());
          if !names.is_empty() || text.contains("SECRET") || not_public {
            // one key per constructor: which members leak is in the description
            v.v(
              format!("VerificationMethod::{name}|accepted|private-key-material"),
              format!("{entry}: private members {names:?} in the method, key.is_public() = {}: {text}", !not_public),
            );
          }
        }
      }
    }
    Case::Generate { doc, scope, fragment, count } => {
      v.nontrivial = true;
      let storage: Storage<JwkMemStore, KeyIdMemstore> = Storage::new(JwkMemStore::new(), KeyIdMemstore::new());
      let sc = match scope {
        0 => MethodScope::VerificationMethod,
        1 => MethodScope::VerificationRelationship(MethodRelationship::Authentication),
        2 => MethodScope::VerificationRelationship(MethodRelationship::AssertionMethod),
        3 => MethodScope::VerificationRelationship(MethodRelationship::KeyAgreement),
        4 => MethodScope::VerificationRelationship(MethodRelationship::CapabilityDelegation),
        _ => MethodScope::VerificationRelationship(MethodRelationship::CapabilityInvocation),
      };
      // raw generator output
      match guard(|| vx::gate::block_on(storage.key_storage().generate(JwkMemStore::ED25519_KEY_TYPE, JwsAlgorithm::EdDSA))) {
        Err(p) => v.v(format!("JwkMemStore::generate|{}", p.key()), p.msg),
        Ok(Err(e)) => v.v("JwkMemStore::generate|supported-key-type-rejected", e.to_string()),
        Ok(Ok(out)) => {
          let obj = object_of(&out.jwk).unwrap_or_default();
          let names = private_names(&obj);
          if !names.is_empty() || !out.jwk.is_public() {
            v.v(
              "JwkMemStore::generate|output-has-private-key-material",
              format!("JwkGenOutput.jwk has private members {names:?}, is_public() = {}", out.jwk.is_public()),
            );
          }
          if let Err(why) = coherent(&out.jwk, Some(OKP)) {
            v.v("JwkMemStore::generate|kty-differs-from-params-family", why);
          }
        }
      }
      let mut core = CoreDocument::builder(Default::default()).id(CoreDID::parse("did:example:123").unwrap()).build().expect("core document");
      let mut iota = IotaDocument::new(&NetworkName::try_from("smr").unwrap());
      let mut label = "generated";
      for i in 0..count {
        let frag = format!("key-{i}");
        let fr = if fragment { Some(frag.as_str()) } else { None };
        let r = guard(|| {
          vx::gate::block_on(async {
            if doc == 0 {
              core.generate_method(&storage, JwkMemStore::ED25519_KEY_TYPE, JwsAlgorithm::EdDSA, fr, sc).await
            } else {
              iota.generate_method(&storage, JwkMemStore::ED25519_KEY_TYPE, JwsAlgorithm::EdDSA, fr, sc).await
            }
          })
        });
        match r {
          Err(p) => {
            v.v(format!("generate_method|{}", p.key()), p.msg);
            label = "panic";
          }
          Ok(Err(_)) => {
            // not judged: the property is about what generated documents contain, not about generation succeeding
            label = "rejected";
          }
          Ok(Ok(_)) => {}
        }
        let text = if doc == 0 { core.to_json() } else { iota.to_json() }.unwrap_or_default();
        let val: Value = serde_json::from_str(&text).unwrap_or(Value::Null);
        let mut names = Vec::new();
        private_names_deep(&val, &mut names);
        names.sort();
        names.dedup();
        if !names.is_empty() {
          v.v("generate_method|document-has-private-key-material", format!("private member names {names:?} in the document JSON"));
        }
        let methods = if doc == 0 { core.methods(None).len() } else { iota.methods(None).len() };
        if label == "generated" && methods != i as usize + 1 {
          v.v("generate_method|method-not-in-document", text);
        }
      }
      v.outcome = format!("generate:{}:{}:{label}", if doc == 0 { "core" } else { "iota" }, sc.as_str());
    }
  }
  v
}

fn eval(ctx: &Ctx, case: &Case) {
  ctx.eval1();
  let v = judge(case);
  for (k, w) in &v.viol {
    ctx.violation(k, w, case);
  }
  ctx.outcome(&v.outcome);
  if v.nontrivial {
    ctx.distinct(&case_key(case));
  }
}
fn case_key(case: &Case) -> String {
  serde_json::to_string(case).unwrap()
}

/// Evaluate a whole family of cases in parallel with local histograms.
fn run_part(ctx: &Ctx, part: &str, cases: &[Case], detail: Value) {
  for i in [0, cases.len() / 3, 2 * cases.len() / 3, cases.len() - 1] {
    ctx.sample(part, &cases[i]);
  }
  cases.par_chunks(2048).for_each(|chunk| {
    let mut hist: BTreeMap<String, u64> = BTreeMap::new();
    let mut distinct = Vec::new();
    for c in chunk {
      let v = judge(c);
      for (k, w) in &v.viol {
        ctx.violation(k, w, c);
      }
      *hist.entry(v.outcome).or_insert(0) += 1;
      if v.nontrivial {
        distinct.push(Ctx::hash_of(&case_key(c)));
      }
    }
    ctx.outcomes_merge(&hist);
    ctx.distinct_many(distinct);
    ctx.add_evals(chunk.len() as u64);
  });
  let n = cases.len() as u64;
  ctx.add_states(n);
  ctx.add_transitions(n);
  ctx.add_traces(n);
  ctx.part(part, json!({"engine": "E1 full product", "cases": n, "detail": detail}));
}

fn opt_sets(max_present: u32) -> Vec<(u8, u8)> {
  // (opts, ops): the key_ops menu only multiplies sets that contain key_ops
  let mut out = Vec::new();
  for opts in 0..=255u8 {
    if opts.count_ones() > max_present {
      continue;
    }
    if opts & 2 != 0 {
      for ops in 0..3u8 {
        out.push((opts, ops));
      }
    } else {
      out.push((opts, 0));
    }
  }
  out
}

fn self_test(ctx: &Ctx) {
  // the harness's RFC 7638 implementation against the RFCs' own examples (RFC 7638 §3.1, RFC 8037 A.3)
  let rsa = rfc7638(RSA, &|n| value_of(n, RSA));
  ctx.require(rsa == "NzbLsXh8uDCcd-6MNwXF4W_7noWXFZAfHkxZsRGC9Xs", &format!("own RFC 7638 thumbprint of the RFC 7638 example key is {rsa}"));
  let okp = rfc7638(OKP, &|n| value_of(n, OKP));
  ctx.require(okp == "kPrK_qmxVWaYVA9wwBF6Iuo3vVzz7TxHCTwXBygrS4k", &format!("own RFC 7638 thumbprint of the RFC 8037 example key is {okp}"));
  ctx.require(b64url(b"\xfb\xff\xfe") == "-__-" && b64url(b"ab") == "YWI" && b64url(b"a") == "YQ", "own base64url encoder");
}

fn generate(ctx: &Ctx) {
  ctx.rule("full products: (a) kty(4) x all 8192 subsets of the 13 type-specific JWK members x optional sets x order; (b) 133 well-formed member sets x optional-member subsets x key_ops menu x order; (c) API paths x family x declared x private subsets x optional sets; (d) 4 method constructors x 133 keys; (e) generation: doc type x scope x fragment x count. distinct_nontrivial = distinct cases in which a Jwk / method / document was actually obtained (everything except JSON the parser rejected)");
  ctx.assume("sha2::Sha256 and serde_json are trusted (the harness's RFC 7638 computation is checked against the RFC 7638 and RFC 8037 example thumbprints at start-up)");
  ctx.assume("member values are fixed base64url strings (RFC example keys; private values are SECRET_<name>); the library does not interpret them in the code under test");
  self_test(ctx);
  let thorough = ctx.thorough();

  // (a) every member subset
  let mut a = Vec::new();
  let a_opts: &[u8] = if thorough { &[0, 255, 1, 2, 4, 8, 16, 32, 64, 128] } else { &[0, 255] };
  for kty in 0..4u8 {
    for members in 0..(1u16 << 13) {
      for &opts in a_opts {
        for order in 0..3u8 {
          a.push(Case::Json { kty, members, opts, ops: 0, order });
        }
      }
    }
  }
  run_part(ctx, "json", &a, json!({"kty": 4, "member_subsets": 8192, "optional_sets": a_opts, "orders": 3}));

  // (b) well-formed member sets x optional members
  let osets = opt_sets(if thorough { 8 } else { 2 });
  let mut b = Vec::new();
  for kty in 0..4u8 {
    let t = kty as usize;
    let pn = private_of(t);
    for sub in 0..(1u16 << pn.len()) {
      let mut members = mask(required(t));
      for (i, n) in pn.iter().enumerate() {
        if sub & (1 << i) != 0 {
          members |= bit(n);
        }
      }
      for &(opts, ops) in &osets {
        for order in 0..3u8 {
          b.push(Case::Json { kty, members, opts, ops, order });
        }
      }
    }
  }
  run_part(ctx, "json-optional", &b, json!({"member_sets": 133, "optional_sets_x_key_ops": osets.len(), "orders": 3}));

  // (c) API paths
  let c_osets = opt_sets(if thorough { 8 } else { 2 });
  let mut c = Vec::new();
  for fam in 0..4u8 {
    for privs in 0..n_privs(fam as usize) as u8 {
      for path in [0u8, 3, 6] {
        for &(opts, ops) in &c_osets {
          c.push(Case::Api { path, fam, declared: fam, privs, opts, ops });
        }
      }
      for declared in 0..4u8 {
        for path in [1u8, 4, 5] {
          c.push(Case::Api { path, fam, declared, privs, opts: 0, ops: 0 });
        }
        for opts in [0u8, 255] {
          c.push(Case::Api { path: 2, fam, declared, privs, opts, ops: 0 });
        }
      }
    }
  }
  run_part(ctx, "api", &c, json!({"paths": PATHS, "optional_sets_x_key_ops": c_osets.len()}));

  // (d) verification method constructors
  let mut d = Vec::new();
  for fam in 0..4u8 {
    for privs in 0..n_privs(fam as usize) as u8 {
      for ctor in 0..4u8 {
        d.push(Case::Method { ctor, fam, privs });
      }
    }
  }
  run_part(ctx, "method", &d, json!({"constructors": CTORS, "keys": 133}));

  // (e) generation (random key material: only names/structure are judged)
  let mut e = Vec::new();
  for doc in 0..2u8 {
    for scope in 0..6u8 {
      for fragment in [true, false] {
        for count in 1..=(if thorough { 4u8 } else { 2 }) {
          e.push(Case::Generate { doc, scope, fragment, count });
        }
      }
    }
  }
  // sequential evaluation through `eval` (few cases, async store)
  for c in &e {
    eval(ctx, c);
  }
  ctx.sample("generate", &e[0]);
  ctx.add_states(e.len() as u64);
  ctx.add_transitions(e.len() as u64);
  ctx.add_traces(e.len() as u64);
  ctx.part("generate", json!({"cases": e.len()}));

  ctx.bound("member_subsets", "all 2^13 per declared kty");
  ctx.bound("rsa_private_subsets", 128);
  ctx.bound("optional_members_present", if thorough { "all 256 subsets" } else { "<= 2 of 8 (37 subsets)" });
  ctx.bound("member_orders", ["sorted", "reversed", "rotated"]);
  ctx.bound("key_ops_menu", OPS_MENU);
}

fn main() {
  vx::run_main::<Case, _, _>("C18", Level::ModelChecking, generate, eval)
}
