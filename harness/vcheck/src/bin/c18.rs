//! C18 — JWK public projection, thumbprint and key-type coherence never leak keys.
//!
//! (a) `json`: every declared `kty` (4) x EVERY subset of the 13 type-specific member names
//!     {crv,x,y,d,n,e,p,q,dp,dq,qi,oth,k} (8 192: all private subsets incl. partial RSA sets and `oth`,
//!     all declared-type / parameter-family mismatches, all "two families at once" shapes) x optional-member
//!     sets x member order x the way the text reaches `Jwk`'s deserialiser (`from_json`, `from_json_value`,
//!     `from_json_slice`, inside a `JwkSet`, inside a verification method's `publicKeyJwk`, inside a `did:jwk`).
//! (b) `json-optional`: the well-formed member sets (required members of the declared type + every
//!     subset of its private members: 133 sets) x optional-member subsets (<=2 present / all 256) x
//!     key_ops menu (9) x kid menu (7, incl. empty / unicode / long / thumbprint-shaped) x member order.
//! (c) `values`: the 133 member sets x value profiles of the public members (every registered curve name incl.
//!     the BLS curves, unknown and empty curve names, empty and 4 096-character values, other RSA exponents)
//!     x value profiles of the private members (RFC values, present-but-empty, long / two `oth` primes).
//! (d) `json-edge`: hand-enumerated edge shapes (duplicate `kty` / `d` / `oth`, null / wrongly typed members,
//!     unknown members, pretty-printed text, ...) x kty x way of deserialisation.
//! (e) `api`: the same keys built through `from_params`, `Jwk::new`+`set_params`, `set_kty`,
//!     `try_*_params_mut`, JSON round trip, `set_kty`+`set_params`; `params_mut` variant swap and
//!     `set_params_unchecked` are executed and recorded only.
//! (f) `set`: every sequence (<=3 / <=5) over a menu of 11 key texts as a `JwkSet` document: keys obtained
//!     through `iter`, index, `get(kid)`, `pop`; the serialised set and the set of public projections.
//! (g) `method`: `VerificationMethod::new_from_jwk` (fragment / kid menu), `MethodBuilder::build` x method type,
//!     `DIDJwk -> VerificationMethod`, `CoreDocument::expand_did_jwk` on every key type x every private subset
//!     x private value profile; `VerificationMethod::from_json` recorded only.
//! (h) `generate`: `JwkMemStore::generate` output (every key type / algorithm pair of the store) and the JSON of
//!     Core/IOTA documents after `generate_method` in every scope.
//!
//! Oracle (from the property statement + RFC 7517/7518/7638/8037, independent of the implementation):
//! accepted => `kty() == params().kty()` == declared; `is_public` <=> no private member (by presence: the
//! public fields of `params()` and the serialised member names); `to_public` has no private member, same kty
//! and public parameters, is public, is idempotent; thumbprint == own RFC 7638 computation over the required
//! members (so it cannot depend on anything else). `is_private`: only what holds under both readings of
//! "private" (all private members set => true, none set => false); partial sets are recorded.
//! Not in scope of the statement (executed at most, never judged): `Jwk` equality semantics, zeroize-on-drop,
//! whether a private member given in JSON is retained, which optional members a projection keeps,
//! `JwkSet::get` matching semantics, error variants and messages.

use identity_core::common::Url;
use identity_core::convert::{FromJson, ToJson};
use identity_did::{CoreDID, DIDJwk, DIDUrl};
use identity_document::document::CoreDocument;
use identity_iota_core::{IotaDocument, NetworkName};
use identity_jose::jwk::{
  Jwk, JwkOperation, JwkParams, JwkParamsEc, JwkParamsOct, JwkParamsOkp, JwkParamsRsa, JwkParamsRsaPrime, JwkSet, JwkType, JwkUse,
};
use identity_jose::jws::JwsAlgorithm;
use identity_storage::{JwkDocumentExt, JwkMemStore, JwkStorage, KeyIdMemstore, KeyType, Storage};
use identity_verification::{MethodBuilder, MethodData, MethodRelationship, MethodScope, MethodType, VerificationMethod};
use serde::{Deserialize, Serialize};
use sha2::{Digest, Sha256};
use std::collections::BTreeMap;
use std::sync::atomic::{AtomicU64, Ordering};
use vx::rayon::prelude::*;
use vx::{guard, json, Ctx, Level, Value};

// ------------------------------------------------------------------ alphabets
const KTY: [&str; 4] = ["EC", "RSA", "oct", "OKP"];
const EC: usize = 0;
const RSA: usize = 1;
const OCT: usize = 2;
const OKP: usize = 3;
fn jwk_type(t: usize) -> JwkType {
  [JwkType::Ec, JwkType::Rsa, JwkType::Oct, JwkType::Okp][t]
}
fn type_index(t: JwkType) -> usize {
  match t {
    JwkType::Ec => EC,
    JwkType::Rsa => RSA,
    JwkType::Oct => OCT,
    JwkType::Okp => OKP,
  }
}

/// The 13 type-specific member names; bit i of `members` = U[i] present.
const U: [&str; 13] = ["crv", "x", "y", "d", "n", "e", "p", "q", "dp", "dq", "qi", "oth", "k"];
fn bit(name: &str) -> u16 {
  1 << U.iter().position(|n| *n == name).expect("member name")
}
fn mask(names: &[&str]) -> u16 {
  names.iter().map(|n| bit(n)).sum()
}
fn required(t: usize) -> &'static [&'static str] {
  match t {
    EC => &["crv", "x", "y"],
    RSA => &["e", "n"],
    OCT => &["k"],
    _ => &["crv", "x"],
  }
}
/// Private members of type `t` besides the required ones (oct's `k` is required and private).
fn private_of(t: usize) -> &'static [&'static str] {
  match t {
    EC | OKP => &["d"],
    RSA => &["d", "p", "q", "dp", "dq", "qi", "oth"],
    _ => &[],
  }
}
/// Every member name that carries private key material IN A KEY OF TYPE `t` (RFC 7518 §6.2.2, §6.3.2, §6.4.1,
/// RFC 8037 §2). A member of another family (say `p` in an EC key) is an unknown member, not a private one.
fn priv_names(t: usize) -> &'static [&'static str] {
  match t {
    EC | OKP => &["d"],
    RSA => &["d", "p", "q", "dp", "dq", "qi", "oth"],
    _ => &["k"],
  }
}
const OPT: [&str; 8] = ["use", "key_ops", "alg", "kid", "x5u", "x5c", "x5t", "x5t#S256"];
const OPT_KEY_OPS: u8 = 2;
const OPT_KID: u8 = 8;
const OPS_MENU: [&[&str]; 9] = [
  &["sign"],
  &["verify"],
  &["deriveKey", "deriveBits"],
  &[],
  &["sign", "verify"],
  &["encrypt", "decrypt", "wrapKey", "unwrapKey"],
  &["proofGeneration"],
  &["proofVerification"],
  &["sign", "sign"],
];
const N_KIDS: u8 = 7;
fn kid_value(kidv: u8) -> String {
  match kidv % N_KIDS {
    0 => "key-1".into(),
    1 => String::new(),
    2 => "#key-1".into(),
    3 => "\u{43a}\u{43b}\u{44e}\u{447}-\u{fc}-\u{1F511} \"q\"\\".into(),
    4 => "k".repeat(300),
    // thumbprint-shaped kids (43 base64url characters = 32 bytes): the RFC 7638 §3.1 example thumbprint — the
    // thumbprint of one key of the menu and of no other — and one that is no key's thumbprint
    5 => "NzbLsXh8uDCcd-6MNwXF4W_7noWXFZAfHkxZsRGC9Xs".into(),
    _ => "A".repeat(43),
  }
}

// ---- key material: the RFC example keys (RFC 7517 A.1-A.3, RFC 7638 §3.1, RFC 8037 A.1/A.2), so that the
// baseline family stays acceptable even if the library one day validates key material on deserialisation.
const EC_X: &str = "MKBCTNIcKUSDii11ySs3526iDZ8AiTo7Tu6KPAqv7D4";
const EC_Y: &str = "4Etl6SRW2YiLUrN5vfvVHuhp7x8PxltmWWlbbM4IFyM";
const EC_D: &str = "870MB6gfuTJ4HtUnUvYMyJpr5eUZNP4Bk43bVdj3eAE";
const OKP_X: &str = "11qYAYKxCrfVS_7TyWQHOg7hcvPapiMlrwIaaPcHURo";
const OKP_D: &str = "nWGxne_9WmC6hEr0kuwsxERJxWl7MmkZcDusAxyuf2A";
const X25519_X: &str = "3p7bfXt9wbTTW2HC7OQ1Nz-DQ8hbeGdNrfx-FG-IK08";
const RSA_N: &str = "0vx7agoebGcQSuuPiLJXZptN9nndrQmbXEps2aiAFbWhM78LhWx4cbbfAAtVT86zwu1RK7aPFFxuhDR1L6tSoc_BJECPebWKRXjBZCiFV4n3oknjhMstn64tZ_2W-5JsGY4Hc5n9yBXArwl93lqt7_RN5w6Cf0h4QyQ5v-65YGjQR0_FDW2QvzqY368QQMicAtaSqzs8KJZgnYb9c7d0zgdAZHzu6qMQvRL5hajrn1n91CbOpbISD08qNLyrdkt-bFTWhAI4vMQFh6WeZu0fM4lFd2NcRwr3XPksINHaQ-G_xBniIqbw0Ls1jF44-csFCur-kEgU8awapJzKnqDKgw";
const RSA_D: &str = "X4cTteJY_gn4FYPsXB8rdXix5vwsg1FLN5E3EaG6RJoVH-HLLKD9M7dx5oo7GURknchnrRweUkC7hT5fJLM0WbFAKNLWY2vv7B6NqXSzUvxT0_YSfqijwp3RTzlBaCxWp4doFk5N2o8Gy_nHNKroADIkJ46pRUohsXywbReAdYaMwFs9tv8d_cPVY3i07a3t8MN6TNwm0dSawm9v47UiCl3Sk5ZiG7xojPLu4sbg1U2jx4IBTNBznbJSzFHK66jT8bgkuqsk0GjskDJk19Z4qwjwbsnn4j2WBii3RL-Us2lGVkY8fkFzme1z0HbIkfz0Y6mqnOYtqc0X4jfcKoAC8Q";
const RSA_P: &str = "83i-7IvMGXoMXCskv73TKr8637FiO7Z27zv8oj6pbWUQyLPQBQxtPVnwD20R-60eTDmD2ujnMt5PoqMrm8RfmNhVWDtjjMmCMjOpSXicFHj7XOuVIYQyqVWlWEh6dN36GVZYk93N8Bc9vY41xy8B9RzzOGVQzXvNEvn7O0nVbfs";
const RSA_Q: &str = "3dfOR9cuYq-0S-mkFLzgItgMEfFzB2q3hWehMuG0oCuqnb3vobLyumqjVZQO1dIrdwgTnCdpYzBcOfW5r370AFXjiWft_NGEiovonizhKpo9VVS78TzFgxkIdrecRezsZ-1kYd_s1qDbxtkDEgfAITAG9LUnADun4vIcb6yelxk";
const RSA_DP: &str = "G4sPXkc6Ya9y8oJW9_ILj4xuppu0lzi_H7VTkS8xj5SdX3coE0oimYwxIi2emTAue0UOa5dpgFGyBJ4c8tQ2VF402XRugKDTP8akYhFo5tAA77Qe_NmtuYZc3C3m3I24G2GvR5sSDxUyAN2zq8Lfn9EUms6rY3Ob8YeiKkTiBj0";
const RSA_DQ: &str = "s9lAH9fggBsoFR8Oac2R_E2gw282rT2kGOAhvIllETE1efrA6huUUvMfBcMpn8lqeW6vzznYY5SSQF7pMdC_agI3nG8Ibp1BUb0JUiraRNqUfLhcQb_d9GF4Dh7e74WbRsobRonujTYN1xCaP6TO61jvWrX-L18txXw494Q_cgk";
const RSA_QI: &str = "GyM_p6JrXySiz1toFgKbWV-JdI3jQ4ypu9rbMWx3rQJBfmt0FoYzgUIZEVFEcOqwemRN81zoDAaa-Bk0KWNGDjJHZDdDmFhW3AN7lI-puxk_mHZGJ11rxyR8O55XLSe3SPmRfKwZI6yU24ZxvQKFYItdldUKGzO6Ia6zTKhAVRU";
const OCT_K: &str = "GawgguFyGrWKav7AX4VKUg";
const OCT_K_HMAC: &str = "AyM1SysPpbyDfgZld3umj1qzKObwVMkoqQ-EstJQLr_T-1qS0gZH75aKtMN3Yj0iPS4hcgUuTwjAzZr1Z9CAow";
const RFC_SECRETS: [&str; 10] = [EC_D, OKP_D, RSA_D, RSA_P, RSA_Q, RSA_DP, RSA_DQ, RSA_QI, OCT_K, OCT_K_HMAC];
const B64: &[u8; 64] = b"ABCDEFGHIJKLMNOPQRSTUVWXYZabcdefghijklmnopqrstuvwxyz0123456789-_";
/// Deterministic base64url filler (no randomness): the alphabet walked with stride 7 from an offset.
fn synth(tag: usize, len: usize) -> String {
  (0..len).map(|i| B64[(i * 7 + tag * 13) % 64] as char).collect()
}
/// Synthetic private value: carries the marker `S3CR3T`, which no public value and no filler contains.
fn secret_synth(tag: usize, len: usize) -> String {
  format!("S3CR3T{tag}x{}", synth(tag, len))
}
/// Does `text` contain one of the private values the harness put into a key?
fn leaks(text: &str) -> bool {
  text.contains("S3CR3T") || RFC_SECRETS.iter().any(|s| text.contains(s))
}
const LONG: usize = 4096;

/// Number of value profiles of the public members per key type; the last one needs JSON escaping (not a legal
/// member value: thumbprint recorded, not judged).
const N_PUBV: [u8; 4] = [14, 6, 5, 9];
fn needs_escape(t: usize, pubv: u8) -> bool {
  pubv == N_PUBV[t] - 1
}
const ESC: &str = "P-256\"\\\u{e9}";
fn ec_profile(pubv: u8) -> (String, String, String) {
  let s = |a: &str| a.to_string();
  match pubv {
    0 => (s("P-256"), s(EC_X), s(EC_Y)),
    1 => (s("P-384"), synth(1, 64), synth(2, 64)),
    2 => (s("P-521"), synth(3, 88), synth(4, 88)),
    3 => (s("secp256k1"), synth(5, 43), synth(6, 43)),
    4 => (s("BLS12381G1"), synth(7, 64), synth(8, 64)),
    5 => (s("BLS12381G2"), synth(9, 128), synth(10, 128)),
    6 => (s("BLS48581G1"), synth(11, 98), synth(12, 98)),
    7 => (s("BLS48581G2"), synth(13, 776), synth(14, 776)),
    8 => (s(""), s(EC_X), s(EC_Y)),
    9 => (s("P-256"), s(""), s("")),
    10 => (s("P-256"), synth(15, LONG), s(EC_Y)),
    11 => (s("P-256"), s(EC_X), synth(16, LONG)),
    12 => (s("P-256K-unknown"), s(EC_X), s(EC_Y)),
    _ => (s(ESC), s(EC_X), s(EC_Y)),
  }
}
fn okp_profile(pubv: u8) -> (String, String) {
  let s = |a: &str| a.to_string();
  match pubv {
    0 => (s("Ed25519"), s(OKP_X)),
    1 => (s("Ed448"), synth(17, 76)),
    2 => (s("X25519"), s(X25519_X)),
    3 => (s("X448"), synth(18, 75)),
    4 => (s(""), s(OKP_X)),
    5 => (s("Ed25519"), s("")),
    6 => (s("Ed25519"), synth(19, LONG)),
    7 => (s("Ed25519-unknown"), s(OKP_X)),
    _ => (s(ESC), s(OKP_X)),
  }
}
fn rsa_profile(pubv: u8) -> (String, String) {
  let s = |a: &str| a.to_string();
  match pubv {
    0 => (s(RSA_N), s("AQAB")),
    1 => (s(RSA_N), s("Aw")),
    2 => (s(""), s("")),
    3 => (synth(20, LONG), s("AQAB")),
    4 => (s(RSA_N), synth(21, LONG)),
    _ => (s(RSA_N), s(ESC)),
  }
}
fn oct_profile(pubv: u8) -> String {
  match pubv {
    0 => OCT_K.to_string(),
    1 => OCT_K_HMAC.to_string(),
    2 => String::new(),
    3 => secret_synth(22, LONG),
    _ => format!("S3CR3T{ESC}"),
  }
}
fn oth_prime(i: usize) -> Value {
  json!({"r": secret_synth(30 + i, 40), "d": secret_synth(40 + i, 40), "t": secret_synth(50 + i, 40)})
}

/// Value of a type-specific member in a key of declared type `t`. `pubv`: profile of the public members
/// (0 = RFC example key), `privv`: profile of the private members (0 = RFC values, 1 = present but empty,
/// 2 = 4 096 characters / two `oth` primes). A member that does not belong to type `t` gets the public value of
/// its home type or, when it is private there, a marker that is NOT counted as a secret.
fn value_of(name: &str, t: usize, pubv: u8, privv: u8) -> Value {
  if required(t).contains(&name) {
    return json!(match (t, name) {
      (EC, "crv") => ec_profile(pubv).0,
      (EC, "x") => ec_profile(pubv).1,
      (EC, _) => ec_profile(pubv).2,
      (OKP, "crv") => okp_profile(pubv).0,
      (OKP, _) => okp_profile(pubv).1,
      (RSA, "n") => rsa_profile(pubv).0,
      (RSA, _) => rsa_profile(pubv).1,
      _ => oct_profile(pubv),
    });
  }
  if priv_names(t).contains(&name) {
    if name == "oth" {
      return match privv {
        1 => json!([]),
        2 => json!([oth_prime(0), oth_prime(1)]),
        _ => json!([oth_prime(0)]),
      };
    }
    return json!(match (privv, t, name) {
      (1, _, _) => String::new(),
      (2, EC, _) | (2, OKP, _) => secret_synth(23, LONG),
      (_, EC, _) => EC_D.to_string(),
      (_, OKP, _) => OKP_D.to_string(),
      (_, _, "d") => RSA_D.to_string(),
      (_, _, "p") => RSA_P.to_string(),
      (_, _, "q") => RSA_Q.to_string(),
      (_, _, "dp") => RSA_DP.to_string(),
      (_, _, "dq") => RSA_DQ.to_string(),
      _ => RSA_QI.to_string(),
    });
  }
  // foreign member
  match name {
    "crv" => json!("P-256"),
    "x" => json!(EC_X),
    "y" => json!(EC_Y),
    "n" => json!(RSA_N),
    "e" => json!("AQAB"),
    "oth" => json!([{"r": "Zm9yZWlnbi1y", "d": "Zm9yZWlnbi1k", "t": "Zm9yZWlnbi10"}]),
    other => json!(format!("Zm9yZWlnbi0{other}")),
  }
}
fn opt_value(name: &str, ops: u8, kidv: u8) -> Value {
  match name {
    "use" => json!("sig"),
    "key_ops" => json!(OPS_MENU[ops as usize % OPS_MENU.len()]),
    "alg" => json!("EdDSA"),
    "kid" => json!(kid_value(kidv)),
    "x5u" => json!("https://example.com/cert.pem"),
    "x5c" => json!(["MIIBcert"]),
    "x5t" => json!("dGh1bWI"),
    _ => json!("dGh1bWIyNTY"),
  }
}

// ------------------------------------------------------------------ independent RFC 7638
fn b64url(data: &[u8]) -> String {
  let mut s = String::new();
  for c in data.chunks(3) {
    let n = (c[0] as u32) << 16 | (*c.get(1).unwrap_or(&0) as u32) << 8 | *c.get(2).unwrap_or(&0) as u32;
    s.push(B64[(n >> 18) as usize & 63] as char);
    s.push(B64[(n >> 12) as usize & 63] as char);
    if c.len() > 1 {
      s.push(B64[(n >> 6) as usize & 63] as char);
    }
    if c.len() > 2 {
      s.push(B64[n as usize & 63] as char);
    }
  }
  s
}
/// RFC 7638 §3: JSON object with exactly the required members (incl. kty), names in lexicographic
/// order, no whitespace.
fn rfc7638_input(t: usize, get: &dyn Fn(&str) -> Value) -> String {
  let mut names: Vec<&str> = required(t).to_vec();
  names.push("kty");
  names.sort();
  let body: Vec<String> = names
    .iter()
    .map(|n| format!("{}:{}", serde_json::to_string(n).unwrap(), if *n == "kty" { json!(KTY[t]).to_string() } else { get(n).to_string() }))
    .collect();
  format!("{{{}}}", body.join(","))
}
/// ... SHA-256; base64url.
fn rfc7638(t: usize, get: &dyn Fn(&str) -> Value) -> String {
  b64url(&Sha256::digest(rfc7638_input(t, get).as_bytes()))
}

// ------------------------------------------------------------------ cases
#[derive(Serialize, Deserialize, Debug, Clone, PartialEq)]
enum Case {
  /// JSON text: declared kty, set of type-specific members (bits over U), optional members (bits over OPT),
  /// key_ops menu entry, kid menu entry, member order (0 sorted, 1 reversed, 2 rotated by half), way of
  /// deserialisation (see `VIAS`), value profiles of the public / private members.
  Json { kty: u8, members: u16, opts: u8, ops: u8, kidv: u8, order: u8, via: u8, pubv: u8, privv: u8 },
  /// Hand-enumerated edge shape (see `EDGES`) of a key of type `kty`, through `via`.
  Edge { kty: u8, shape: u8, via: u8 },
  /// API path (see `PATHS`), parameter family, declared/target kty, private subset (bits over private_of(fam)),
  /// optional members, key_ops / kid menu entries, value profiles.
  Api { path: u8, fam: u8, declared: u8, privs: u8, opts: u8, ops: u8, kidv: u8, pubv: u8, privv: u8 },
  /// `JwkSet` document with the keys `SET_MENU[i]` in this order.
  Set { keys: Vec<u8> },
  /// VerificationMethod constructor (see `CTORS`) on a JWK of family `fam` with private subset `privs` (value
  /// profile `privv`); `mtype`: method type for the builder (see `method_type`); `kidv`: kid menu entry.
  Method { ctor: u8, fam: u8, privs: u8, privv: u8, mtype: u8, kidv: u8 },
  /// Key generation: key type / algorithm pair (see `GEN_KINDS`), document type (0 core, 1 iota), scope
  /// (0 = VerificationMethod, 1..=5 relationships), explicit fragment?, number of methods generated one after the other.
  Generate { kind: u8, doc: u8, scope: u8, fragment: bool, count: u8 },
  /// A json-proof-token JWK converted with `Jwk::try_from`. `declared`: the kty the json-proof-token key declares
  /// (index into KTY); `shape` 0: crv+x+y (its EC-shaped parameter variant), 1: crv+x (its OKP-shaped variant);
  /// `crv`: index into EXT_CURVES; `private`: with `d`; `route` 0: deserialised by json-proof-token from JSON,
  /// 1: that key's own `to_public()`, 2: built with json-proof-token's constructors (declared is ignored), 3: the
  /// constructors' key through `to_public()`.
  Ext { declared: u8, shape: u8, crv: u8, private: bool, route: u8 },
}
const EXT_CURVES: [&str; 6] = ["P-256", "Ed25519", "X25519", "secp256k1", "BLS12381G1", "BLS12381G2"];

const VIAS: [&str; 6] =
  ["from_json", "from_json_value", "from_json_slice", "JwkSet::from_json", "VerificationMethod::from_json", "DIDJwk::parse+jwk"];
const PATHS: [&str; 8] = [
  "from_params",
  "new+set_params",
  "from_params+set_kty",
  "new+try_params_mut",
  "params_mut-variant-swap",
  "set_params_unchecked",
  "to_json+from_json",
  "from_params+set_kty+set_params",
];
const CTORS: [&str; 6] = [
  "new_from_jwk(fragment)",
  "new_from_jwk(kid)",
  "MethodBuilder::build",
  "DIDJwk->VerificationMethod",
  "CoreDocument::expand_did_jwk",
  "VerificationMethod::from_json",
];
const N_MTYPES: u8 = 5;
#[allow(deprecated)]
fn method_type(i: u8) -> MethodType {
  match i % N_MTYPES {
    0 => MethodType::JSON_WEB_KEY_2020,
    1 => MethodType::JSON_WEB_KEY,
    2 => MethodType::ED25519_VERIFICATION_KEY_2018,
    3 => MethodType::X25519_KEY_AGREEMENT_KEY_2019,
    _ => MethodType::custom("FooKey2042"),
  }
}
const GEN_KINDS: [(&str, &str); 4] = [("Ed25519", "EdDSA"), ("BLS12381G2", "EdDSA"), ("Ed25519", "ES256"), ("NoSuchKeyType", "EdDSA")];

#[derive(Default)]
struct Verdict {
  outcome: String,
  viol: Vec<(String, String)>,
  nontrivial: bool,
}
impl Verdict {
  fn v(&mut self, key: impl Into<String>, what: impl Into<String>) {
    self.viol.push((key.into(), what.into()));
  }
}
/// Vacuity counters (machinery self-checks at the end of the run, never verdicts).
static PRIVATE_ARRIVED: AtomicU64 = AtomicU64::new(0);
static PROJECTIONS: AtomicU64 = AtomicU64::new(0);
static GENERATED_JWKS_SEEN: AtomicU64 = AtomicU64::new(0);

fn clip(s: &str) -> String {
  if s.len() <= 600 {
    return s.to_string();
  }
  let mut cut = 600;
  while !s.is_char_boundary(cut) {
    cut -= 1;
  }
  format!("{}… ({} bytes)", &s[..cut], s.len())
}

#[allow(clippy::too_many_arguments)]
fn json_text(kty: usize, members: u16, opts: u8, ops: u8, kidv: u8, order: u8, pubv: u8, privv: u8) -> String {
  let mut ms: Vec<(String, Value)> = vec![("kty".to_string(), json!(KTY[kty]))];
  for (i, n) in U.iter().enumerate() {
    if members & (1 << i) != 0 {
      ms.push((n.to_string(), value_of(n, kty, pubv, privv)));
    }
  }
  for (i, n) in OPT.iter().enumerate() {
    if opts & (1 << i) != 0 {
      ms.push((n.to_string(), opt_value(n, ops, kidv)));
    }
  }
  ms.sort_by(|a, b| a.0.cmp(&b.0));
  match order {
    1 => ms.reverse(),
    2 => {
      let h = ms.len() / 2;
      ms.rotate_left(h)
    }
    _ => {}
  }
  let body: Vec<String> = ms.iter().map(|(n, v)| format!("{}:{}", serde_json::to_string(n).unwrap(), v)).collect();
  format!("{{{}}}", body.join(","))
}

fn object_of(j: &Jwk) -> Result<serde_json::Map<String, Value>, String> {
  match guard(|| j.to_json_value()) {
    Ok(Ok(Value::Object(m))) => Ok(m),
    Ok(Ok(other)) => Err(format!("not an object: {other}")),
    Ok(Err(e)) => Err(format!("{e}")),
    Err(p) => Err(format!("panic {}", p.msg)),
  }
}
/// Members of `m` that are private in a key of type `t`.
fn private_names(t: usize, m: &serde_json::Map<String, Value>) -> Vec<String> {
  m.keys().filter(|k| priv_names(t).contains(&k.as_str())).cloned().collect()
}
/// Private members by the public fields of `params()` (ground truth on the object itself).
fn private_fields(p: &JwkParams) -> Vec<&'static str> {
  let mut out = Vec::new();
  match p {
    JwkParams::Ec(p) => {
      if p.d.is_some() {
        out.push("d")
      }
    }
    JwkParams::Okp(p) => {
      if p.d.is_some() {
        out.push("d")
      }
    }
    JwkParams::Oct(_) => out.push("k"),
    JwkParams::Rsa(p) => {
      for (n, set) in [("d", p.d.is_some()), ("p", p.p.is_some()), ("q", p.q.is_some()), ("dp", p.dp.is_some()), ("dq", p.dq.is_some()), ("qi", p.qi.is_some()), ("oth", p.oth.is_some())] {
        if set {
          out.push(n)
        }
      }
    }
  }
  out
}
fn public_fields(p: &JwkParams) -> Vec<(&'static str, Value)> {
  match p {
    JwkParams::Ec(p) => vec![("crv", json!(p.crv)), ("x", json!(p.x)), ("y", json!(p.y))],
    JwkParams::Okp(p) => vec![("crv", json!(p.crv)), ("x", json!(p.x))],
    JwkParams::Rsa(p) => vec![("e", json!(p.e)), ("n", json!(p.n))],
    JwkParams::Oct(p) => vec![("k", json!(p.k))],
  }
}
/// In every JSON object anywhere in `v` that looks like a JWK (has a string `kty`): the member names that are
/// private for that key type (an unknown `kty`: for any type).
fn jwk_private_names_deep(v: &Value, out: &mut Vec<String>, jwks: &mut u64) {
  match v {
    Value::Object(m) => {
      if let Some(Value::String(k)) = m.get("kty") {
        *jwks += 1;
        let names: Vec<&str> = match KTY.iter().position(|n| n == k) {
          Some(t) => priv_names(t).to_vec(),
          None => vec!["d", "p", "q", "dp", "dq", "qi", "oth", "k"],
        };
        for n in m.keys() {
          if names.contains(&n.as_str()) {
            out.push(n.clone());
          }
        }
      }
      m.values().for_each(|x| jwk_private_names_deep(x, out, jwks));
    }
    Value::Array(a) => a.iter().for_each(|x| jwk_private_names_deep(x, out, jwks)),
    _ => {}
  }
}
fn scan(v: &Value) -> (Vec<String>, u64) {
  let (mut names, mut jwks) = (Vec::new(), 0);
  jwk_private_names_deep(v, &mut names, &mut jwks);
  names.sort();
  names.dedup();
  (names, jwks)
}

/// What the harness knows about a key: declared type, value profiles (=> expected public values), whether the
/// thumbprint is judged (not for values that need JSON escaping), whether a private member was given.
struct Expect {
  t: usize,
  pubv: u8,
  privv: u8,
  thumb: bool,
  given_private: Option<bool>,
}
impl Expect {
  fn val(&self, n: &str) -> Value {
    value_of(n, self.t, self.pubv, self.privv)
  }
}

/// The oracles on one coherent JWK of declared type `x.t`.
fn judge_jwk(entry: &str, j: &Jwk, x: &Expect, v: &mut Verdict) {
  let t = x.t;
  let entry = &clip(entry);
  let obj = match object_of(j) {
    Ok(o) => o,
    Err(e) => return v.v("Jwk::to_json|failed", e),
  };
  if obj.get("kty") != Some(&json!(KTY[t])) {
    v.v("Jwk::to_json|kty-differs-from-declared", format!("{entry}: kty() = {}, serialised {:?}", KTY[t], obj.get("kty")));
  }
  // the typed accessors agree with the declared type
  let acc = [j.try_ec_params().is_ok(), j.try_rsa_params().is_ok(), j.try_oct_params().is_ok(), j.try_okp_params().is_ok()];
  if (0..4).any(|i| acc[i] != (i == t)) {
    v.v("Jwk::try_params|accessor-disagrees-with-kty", format!("{entry}: kty {}, try_{{ec,rsa,oct,okp}}_params ok = {acc:?}", KTY[t]));
  }
  // ground truth: a private member is present when its field is set or its name is serialised
  let carried = private_names(t, &obj);
  let fields = private_fields(j.params());
  let has_private = !carried.is_empty() || !fields.is_empty();
  match x.given_private {
    Some(true) if has_private => {
      PRIVATE_ARRIVED.fetch_add(1, Ordering::Relaxed);
    }
    Some(true) => v.outcome += "/given-private-member-not-retained(recorded)",
    _ => {}
  }
  if carried.len() != fields.len() {
    v.outcome += "/fields-vs-json-differ(recorded)";
  }
  // is_public <=> no private member
  let is_public = match guard(|| (j.is_public(), j.params().is_public())) {
    Ok((a, b)) => {
      if a != b {
        v.v("JwkParams::is_public|differs-from-Jwk::is_public", format!("{entry}: Jwk {a}, JwkParams {b}"));
      }
      a
    }
    Err(p) => return v.v(format!("Jwk::is_public|{}", p.key()), p.msg),
  };
  if is_public && has_private {
    v.v("Jwk::is_public|true-with-private-member", format!("{entry}: members {carried:?} / fields {fields:?} carried, is_public() = true"));
  }
  if !is_public && !has_private {
    v.v("Jwk::is_public|false-without-private-member", format!("{entry}: no private member, is_public() = false"));
  }
  // is_private: judged only where "all private members set" and "some private member set" agree
  match guard(|| j.is_private()) {
    Err(p) => v.v(format!("Jwk::is_private|{}", p.key()), p.msg),
    Ok(b) => {
      let all = match t {
        RSA => ["d", "p", "q", "dp", "dq", "qi"].iter().all(|n| fields.contains(n)),
        _ => !fields.is_empty(),
      };
      if !has_private && b {
        v.v("Jwk::is_private|true-for-public-key", entry.to_string());
      } else if all && !b {
        v.v("Jwk::is_private|false-with-all-private-members", format!("{entry}: fields {fields:?}"));
      } else if has_private && !all {
        v.outcome += if b { "/is_private:partial=true" } else { "/is_private:partial=false" };
      }
    }
  }
  // thumbprint == independent RFC 7638 over the required members only
  if x.thumb {
    let want_in = rfc7638_input(t, &|n| x.val(n));
    let want_tp = b64url(&Sha256::digest(want_in.as_bytes()));
    match guard(|| (j.thumbprint_sha256_b64(), b64url(&j.thumbprint_sha256()), j.thumbprint_hash_input())) {
      Ok((a, b, input)) => {
        if a != want_tp || b != want_tp {
          v.v("Jwk::thumbprint_sha256_b64|differs-from-rfc7638", format!("{entry}: got {a} / {b}, RFC 7638 gives {want_tp}; hash input {:?}", clip(&input)));
        } else if input != want_in {
          v.v("Jwk::thumbprint_hash_input|differs-from-rfc7638", format!("{entry}: got {:?}, RFC 7638 gives {:?}", clip(&input), clip(&want_in)));
        }
      }
      Err(p) => v.v(format!("Jwk::thumbprint_sha256_b64|{}", p.key()), p.msg),
    }
  } else {
    let same = matches!(guard(|| j.thumbprint_sha256_b64()), Ok(a) if a == rfc7638(t, &|n| x.val(n)));
    v.outcome += if same { "/thumbprint(escape-needed)=rfc7638(recorded)" } else { "/thumbprint(escape-needed)!=rfc7638(recorded)" };
  }
  // parameter-level projection
  match guard(|| j.params().to_public()) {
    Err(p) => v.v(format!("JwkParams::to_public|{}", p.key()), p.msg),
    Ok(None) => {
      if t != OCT {
        v.v("JwkParams::to_public|none-for-asymmetric-key", format!("{entry}: kty {}", KTY[t]));
      }
    }
    Ok(Some(pp)) => {
      let kept = private_fields(&pp);
      if !kept.is_empty() {
        v.v("JwkParams::to_public|private-field-kept", format!("{entry}: {kept:?}"));
      } else if type_index(pp.kty()) != t {
        v.v("JwkParams::to_public|kty-changed", format!("{entry}: {} -> {}", KTY[t], pp.kty()));
      } else if public_fields(&pp).iter().any(|(n, val)| *val != x.val(n)) {
        v.v("JwkParams::to_public|public-parameter-changed", format!("{entry}: {}", clip(&format!("{:?}", public_fields(&pp)))));
      } else if !matches!(guard(|| pp.is_public()), Ok(true)) {
        v.v("JwkParams::to_public|result-not-public", entry.to_string());
      }
    }
  }
  // public projection
  let p = match guard(|| j.to_public()) {
    Ok(p) => p,
    Err(p) => return v.v(format!("Jwk::to_public|{}", p.key()), p.msg),
  };
  let p = match p {
    None => {
      if t != OCT {
        v.v("Jwk::to_public|none-for-asymmetric-key", format!("{entry}: kty {}", KTY[t]));
      }
      v.outcome += "/projection:none";
      return;
    }
    Some(p) => p,
  };
  v.outcome += "/projection:some";
  PROJECTIONS.fetch_add(1, Ordering::Relaxed);
  let pobj = match object_of(&p) {
    Ok(o) => o,
    Err(e) => return v.v("Jwk::to_json|failed", e),
  };
  let ptext = Value::Object(pobj.clone()).to_string();
  // one defect, one key: kept member names first, then (only if none) a private value under another name,
  // then (only if neither) a projection that does not report itself public
  let mut kept = private_names(t, &pobj);
  for f in private_fields(p.params()) {
    if !kept.iter().any(|k| k == f) {
      kept.push(f.to_string());
    }
  }
  let leaks_value = leaks(&ptext);
  for n in &kept {
    v.v(format!("Jwk::to_public|private-member-kept|{n}"), format!("{entry}: projection {}", clip(&ptext)));
  }
  if kept.is_empty() && leaks_value {
    v.v("Jwk::to_public|private-value-kept", format!("{entry}: projection {}", clip(&ptext)));
  }
  if type_index(p.kty()) != t || pobj.get("kty") != Some(&json!(KTY[t])) || type_index(p.params().kty()) != t {
    v.v("Jwk::to_public|kty-changed", format!("{entry}: {} -> {:?}", KTY[t], pobj.get("kty")));
  }
  for n in required(t) {
    if pobj.get(*n) != Some(&x.val(n)) {
      v.v(format!("Jwk::to_public|public-parameter-changed|{n}"), format!("{entry}: {}", clip(&format!("{:?}", pobj.get(*n)))));
    }
  }
  if kept.is_empty() && !leaks_value && !matches!(guard(|| p.is_public()), Ok(true)) {
    v.v("Jwk::to_public|result-not-public", entry.to_string());
  }
  // the thumbprint does not depend on the presence of the private part
  match (guard(|| p.thumbprint_sha256_b64()), guard(|| j.thumbprint_sha256_b64())) {
    (Ok(a), Ok(b)) if a == b => {}
    (a, b) => v.v("Jwk::to_public|thumbprint-changed", format!("{entry}: projection {a:?}, key {b:?}")),
  }
  // idempotence
  match guard(|| p.to_public()) {
    Ok(Some(pp)) => {
      // compared in serialised form (every member of a Jwk is serialised): independent of how `==` is defined
      let ppobj = object_of(&pp).unwrap_or_default();
      if ppobj != pobj {
        let mut names: Vec<&String> = pobj.keys().chain(ppobj.keys()).collect();
        names.sort();
        let m = names.into_iter().find(|n| pobj.get(*n) != ppobj.get(*n)).cloned().unwrap_or_else(|| "?".into());
        v.v(
          format!("Jwk::to_public|not-idempotent|{m}"),
          format!("{entry}: to_public() has {m} = {:?}, to_public().to_public() has {:?}", pobj.get(&m), ppobj.get(&m)),
        );
      }
    }
    Ok(None) => v.v("Jwk::to_public|not-idempotent|none", entry.to_string()),
    Err(pn) => v.v(format!("Jwk::to_public|{}", pn.key()), pn.msg),
  }
}

fn coherent(j: &Jwk, want: Option<usize>) -> Result<(), String> {
  let k = type_index(j.kty());
  let p = type_index(j.params().kty());
  if k != p {
    return Err(format!("kty() = {}, params() are {} parameters", KTY[k], KTY[p]));
  }
  if let Some(w) = want {
    if k != w {
      return Err(format!("declared {}, kty() = {}", KTY[w], KTY[k]));
    }
  }
  Ok(())
}

fn params_of(fam: usize, privs: u8, pubv: u8, privv: u8) -> JwkParams {
  let pv = |n: &str| value_of(n, fam, pubv, privv).as_str().unwrap_or_default().to_string();
  let s = |n: &str, i: u8| if privs & (1 << i) != 0 { Some(pv(n)) } else { None };
  match fam {
    EC => JwkParams::Ec(JwkParamsEc { crv: pv("crv"), x: pv("x"), y: pv("y"), d: s("d", 0) }),
    RSA => JwkParams::Rsa(JwkParamsRsa {
      n: pv("n"),
      e: pv("e"),
      d: s("d", 0),
      p: s("p", 1),
      q: s("q", 2),
      dp: s("dp", 3),
      dq: s("dq", 4),
      qi: s("qi", 5),
      oth: if privs & 64 != 0 {
        let primes = value_of("oth", RSA, pubv, privv);
        let g = |p: &Value, n: &str| p.get(n).and_then(|x| x.as_str()).unwrap_or_default().to_string();
        Some(primes.as_array().cloned().unwrap_or_default().iter().map(|p| JwkParamsRsaPrime { r: g(p, "r"), d: g(p, "d"), t: g(p, "t") }).collect())
      } else {
        None
      },
    }),
    OCT => JwkParams::Oct(JwkParamsOct { k: pv("k") }),
    _ => JwkParams::Okp(JwkParamsOkp { crv: pv("crv"), x: pv("x"), d: s("d", 0) }),
  }
}
fn n_privs(fam: usize) -> u32 {
  1 << private_of(fam).len()
}
fn ops_of(ops: u8) -> Vec<JwkOperation> {
  OPS_MENU[ops as usize % OPS_MENU.len()]
    .iter()
    .map(|o| match *o {
      "sign" => JwkOperation::Sign,
      "verify" => JwkOperation::Verify,
      "encrypt" => JwkOperation::Encrypt,
      "decrypt" => JwkOperation::Decrypt,
      "wrapKey" => JwkOperation::WrapKey,
      "unwrapKey" => JwkOperation::UnwrapKey,
      "deriveKey" => JwkOperation::DeriveKey,
      "deriveBits" => JwkOperation::DeriveBits,
      "proofGeneration" => JwkOperation::ProofGeneration,
      _ => JwkOperation::ProofVerification,
    })
    .collect()
}
fn set_opts(j: &mut Jwk, opts: u8, ops: u8, kidv: u8) {
  if opts & 1 != 0 {
    j.set_use(JwkUse::Signature);
  }
  if opts & 2 != 0 {
    j.set_key_ops(ops_of(ops));
  }
  if opts & 4 != 0 {
    j.set_alg("EdDSA");
  }
  if opts & 8 != 0 {
    j.set_kid(kid_value(kidv));
  }
  if opts & 16 != 0 {
    j.set_x5u(Url::parse("https://example.com/cert.pem").unwrap());
  }
  if opts & 32 != 0 {
    j.set_x5c(["MIIBcert"]);
  }
  if opts & 64 != 0 {
    j.set_x5t("dGh1bWI");
  }
  if opts & 128 != 0 {
    j.set_x5t_s256("dGh1bWIyNTY");
  }
}
fn has_priv(fam: usize, privs: u8) -> bool {
  fam == OCT || privs != 0
}
/// The family on which acceptance is demanded: RFC example key material, no optional member except a plain kid.
fn baseline(opts: u8, kidv: u8, pubv: u8, privv: u8) -> bool {
  (opts == 0 || (opts == OPT_KID && kidv == 0)) && pubv == 0 && privv == 0
}

/// Hand a JSON text to `Jwk`'s deserialiser in one of the ways of `VIAS`.
fn obtain(via: u8, text: &str) -> Result<Result<Jwk, String>, vx::Panicked> {
  guard(|| match via {
    0 => Jwk::from_json(text).map_err(|e| e.to_string()),
    1 => {
      let val: Value = serde_json::from_str(text).map_err(|e| format!("(harness) not JSON: {e}"))?;
      Jwk::from_json_value(val).map_err(|e| e.to_string())
    }
    2 => Jwk::from_json_slice(text.as_bytes()).map_err(|e| e.to_string()),
    3 => JwkSet::from_json(&format!("{{\"keys\":[{text}]}}"))
      .map_err(|e| e.to_string())
      .and_then(|s| s.as_slice().first().cloned().ok_or_else(|| "no key in the set".to_string())),
    4 => VerificationMethod::from_json(&format!(
      r#"{{"id":"did:example:123#k","controller":"did:example:123","type":"JsonWebKey2020","publicKeyJwk":{text}}}"#
    ))
    .map_err(|e| e.to_string())
    .and_then(|m| m.data().public_key_jwk().cloned().ok_or_else(|| "method data is not a JWK".to_string())),
    _ => DIDJwk::parse(&format!("did:jwk:{}", b64url(text.as_bytes()))).map_err(|e| e.to_string()).map(|d| d.jwk()),
  })
}

/// One defect, one key: ways 0-2 are `Deserialize for Jwk` itself; a wrapper (set, method, did:jwk) gets a key of
/// its own only when the same text handed to `Jwk::from_json` does not come out incoherent as well.
fn incoherent_key(via: u8, text: &str) -> String {
  let direct_is_fine = match obtain(0, text) {
    Ok(Ok(j)) => coherent(&j, None).is_ok(),
    _ => true,
  };
  if via <= 2 || !direct_is_fine {
    "Jwk::from_json|accepted|kty-differs-from-params-family".into()
  } else {
    format!("{}|accepted|kty-differs-from-params-family", VIAS[via as usize])
  }
}

const EDGES: [&str; 25] = [
  "dup-kty-other-last",
  "dup-kty-other-first",
  "d-null",
  "d-secret-then-null",
  "d-null-then-secret",
  "oth-null",
  "oth-empty",
  "oth-twice",
  "d-number",
  "d-object",
  "d-array",
  "kty-lowercase",
  "kty-null",
  "kty-number",
  "kty-array",
  "unknown-members",
  "pretty-printed",
  "use-unknown",
  "key_ops-unknown",
  "x5u-not-a-url",
  "required-null",
  "required-number",
  "all-private-null",
  "trailing-garbage",
  "wrapped-in-array",
];
/// Text of an edge shape; `None` when the shape does not exist for the type.
fn edge_text(t: usize, shape: u8) -> Option<String> {
  let other = KTY[(t + 1) % 4];
  let req: Vec<String> = required(t).iter().map(|n| format!("\"{n}\":{}", value_of(n, t, 0, 0))).collect();
  let req = req.join(",");
  let kty = format!("\"kty\":\"{}\"", KTY[t]);
  let d = value_of("d", t, 0, 0);
  let has_d = t != OCT;
  Some(match EDGES[shape as usize] {
    "dup-kty-other-last" => format!("{{{kty},{req},\"kty\":\"{other}\"}}"),
    "dup-kty-other-first" => format!("{{\"kty\":\"{other}\",{kty},{req}}}"),
    "d-null" if has_d => format!("{{{kty},{req},\"d\":null}}"),
    "d-secret-then-null" if has_d => format!("{{{kty},\"d\":{d},{req},\"d\":null}}"),
    "d-null-then-secret" if has_d => format!("{{{kty},\"d\":null,{req},\"d\":{d}}}"),
    "oth-null" if t == RSA => format!("{{{kty},{req},\"oth\":null}}"),
    "oth-empty" if t == RSA => format!("{{{kty},{req},\"oth\":[]}}"),
    "oth-twice" if t == RSA => format!("{{{kty},\"oth\":{o},{req},\"oth\":{o}}}", o = value_of("oth", RSA, 0, 0)),
    "d-number" if has_d => format!("{{{kty},{req},\"d\":5}}"),
    "d-object" if has_d => format!("{{{kty},{req},\"d\":{{\"d\":{d}}}}}"),
    "d-array" if has_d => format!("{{{kty},{req},\"d\":[{d}]}}"),
    "kty-lowercase" => format!("{{\"kty\":\"{}\",{req}}}", if t == OCT { "OCT".to_string() } else { KTY[t].to_lowercase() }),
    "kty-null" => format!("{{\"kty\":null,{req}}}"),
    "kty-number" => format!("{{\"kty\":{t},{req}}}"),
    "kty-array" => format!("{{\"kty\":[\"{}\"],{req}}}", KTY[t]),
    "unknown-members" => format!("{{{kty},{req},\"foo\":{{\"d\":{d},\"kty\":\"{other}\"}},\"D\":\"x\",\"private\":true}}"),
    "pretty-printed" => format!("\n {{ {} }}\n", format!("{kty},{req}").replace(',', " ,\n\t").replace("\":", "\" : ")),
    "use-unknown" => format!("{{{kty},{req},\"use\":\"nope\"}}"),
    "key_ops-unknown" => format!("{{{kty},{req},\"key_ops\":[\"sign\",\"nope\"]}}"),
    "x5u-not-a-url" => format!("{{{kty},{req},\"x5u\":\"not a url\"}}"),
    "required-null" => format!("{{{kty},{}}}", required(t).iter().map(|n| format!("\"{n}\":null")).collect::<Vec<_>>().join(",")),
    "required-number" => format!("{{{kty},{}}}", required(t).iter().map(|n| format!("\"{n}\":7")).collect::<Vec<_>>().join(",")),
    "all-private-null" if t != OCT => format!("{{{kty},{req},{}}}", private_of(t).iter().map(|n| format!("\"{n}\":null")).collect::<Vec<_>>().join(",")),
    "trailing-garbage" => format!("{{{kty},{req}}} x"),
    "wrapped-in-array" => format!("[{{{kty},{req}}}]"),
    _ => return None,
  })
}

/// Menu of key documents for the `set` part: (kty, members besides the required ones, kid menu entry or none).
/// 7 and 8 declare a type that mismatches the members they carry.
const SET_MENU: [(usize, &[&str], Option<u8>); 11] = [
  (EC, &[], Some(0)),
  (EC, &["d"], Some(0)),
  (RSA, &[], Some(2)),
  (RSA, &["d", "p", "q", "dp", "dq", "qi"], None),
  (OCT, &[], Some(0)),
  (OKP, &[], Some(3)),
  (OKP, &["d"], Some(2)),
  (EC, &["MISMATCH-okp"], None),
  (RSA, &["MISMATCH-oct"], Some(0)),
  (RSA, &["d"], Some(1)),
  (OKP, &[], None),
];
fn set_key_text(i: u8) -> String {
  let (t, extra, kid) = SET_MENU[i as usize];
  let (opts, kidv) = match kid {
    Some(k) => (OPT_KID, k),
    None => (0, 0),
  };
  let members = match extra.first() {
    Some(&"MISMATCH-okp") => mask(&["crv", "x"]),
    Some(&"MISMATCH-oct") => mask(&["k"]),
    _ => mask(required(t)) | mask(extra),
  };
  json_text(t, members, opts, 0, kidv, i % 3, 0, 0)
}

fn judge(case: &Case) -> Verdict {
  let mut v = Verdict::default();
  match case {
    &Case::Json { kty, members, opts, ops, kidv, order, via, pubv, privv } => {
      let t = kty as usize;
      let text = json_text(t, members, opts, ops, kidv, order, pubv, privv);
      let ctext = clip(&text);
      let vname = VIAS[via as usize];
      let req = mask(required(t));
      let privm = mask(private_of(t));
      let complete = members & req == req;
      let foreign = members & !(req | privm) != 0;
      let given = members & privm;
      // private sets every conforming producer may emit (RFC 7518 §6.3.2: d alone, or all CRT members, optionally + oth)
      let crt = mask(&["d", "p", "q", "dp", "dq", "qi"]);
      let regular_private = t != RSA || [0, mask(&["d"]), crt, crt | mask(&["oth"])].contains(&given);
      let shape = if !complete {
        "required-missing"
      } else if foreign {
        "foreign-members"
      } else if !regular_private {
        "partial-private"
      } else {
        "well-formed"
      };
      // acceptance is demanded only for the direct entry points on RFC example material (no `oth`: the RFCs have
      // no three-prime example key)
      let must_accept = shape == "well-formed" && via <= 2 && baseline(opts, kidv, pubv, privv) && given & mask(&["oth"]) == 0;
      let r = match obtain(via, &text) {
        Ok(r) => r,
        Err(p) => {
          v.v(format!("{vname}|{}", p.key()), format!("{ctext}: {}", p.msg));
          v.outcome = format!("json:{vname}:{shape}:panic");
          return v;
        }
      };
      let j = match r {
        Err(e) => {
          if must_accept {
            v.v("Jwk::from_json|well-formed-jwk-rejected", format!("{vname} {ctext}: {e}"));
          }
          v.outcome = format!("json:{vname}:{shape}:rejected");
          return v;
        }
        Ok(j) => j,
      };
      v.nontrivial = true;
      if let Err(why) = coherent(&j, Some(t)) {
        v.v(incoherent_key(via, &text), format!("{vname} {ctext}: {why}"));
        v.outcome = format!("json:{vname}:{shape}:accepted-incoherent");
        return v;
      }
      v.outcome = format!("json:{vname}:{shape}:accepted:{}", if given != 0 || t == OCT { "private" } else { "public" });
      if !complete {
        // cannot happen with a coherent result (required members are non-optional strings); nothing more to judge
        return v;
      }
      let x = Expect { t, pubv, privv, thumb: !needs_escape(t, pubv), given_private: Some(given != 0 || t == OCT) };
      judge_jwk(&format!("{vname} {text}"), &j, &x, &mut v);
      // re-serialise and re-parse: the key obtained that way is coherent too
      if let Ok(Ok(s)) = guard(|| j.to_json()) {
        match guard(|| Jwk::from_json(&s)) {
          Ok(Ok(back)) => {
            if let Err(why) = coherent(&back, Some(t)) {
              v.v("Jwk::from_json|accepted|kty-differs-from-params-family", format!("re-parse of own output {}: {why}", clip(&s)));
            }
          }
          Ok(Err(e)) => {
            if must_accept {
              v.v("Jwk::from_json|own-output-rejected", format!("{}: {e}", clip(&s)));
            } else {
              v.outcome += "/own-output-rejected(recorded)";
            }
          }
          Err(p) => v.v(format!("Jwk::from_json|{}", p.key()), p.msg),
        }
      }
    }
    &Case::Edge { kty, shape, via } => {
      let t = kty as usize;
      let name = EDGES[shape as usize];
      let text = match edge_text(t, shape) {
        Some(s) => s,
        None => {
          v.outcome = "edge:not-applicable".into();
          return v;
        }
      };
      let vname = VIAS[via as usize];
      match obtain(via, &text) {
        Err(p) => {
          v.v(format!("{vname}|{}", p.key()), format!("{text}: {}", p.msg));
          v.outcome = format!("edge:{name}:panic");
        }
        Ok(Err(_)) => v.outcome = format!("edge:{name}:rejected"),
        Ok(Ok(j)) => {
          v.nontrivial = true;
          // with a duplicated `kty` either declaration may win; otherwise the declared one
          let want = if name.starts_with("dup-kty") || name.starts_with("kty-") { None } else { Some(t) };
          if let Err(why) = coherent(&j, want) {
            v.v(incoherent_key(via, &text), format!("{vname} {text}: {why}"));
            v.outcome = format!("edge:{name}:accepted-incoherent");
            return v;
          }
          v.outcome = format!("edge:{name}:accepted:{}", if private_fields(j.params()).is_empty() { "public" } else { "private" });
          if type_index(j.kty()) == t {
            let x = Expect { t, pubv: 0, privv: 0, thumb: true, given_private: None };
            judge_jwk(&format!("{vname} {text}"), &j, &x, &mut v);
          }
        }
      }
    }
    &Case::Api { path, fam, declared, privs, opts, ops, kidv, pubv, privv } => {
      let (f, d) = (fam as usize, declared as usize);
      let name = PATHS[path as usize];
      let entry = format!("{name} fam={} declared={} privs={privs:#b} opts={opts:#b} ops={ops} kid={kidv} values={pubv}/{privv}", KTY[f], KTY[d]);
      v.nontrivial = true;
      match path {
        0 | 3 | 6 | 7 => {
          // (7: the key ends up with the `declared` type and its parameters)
          let tt = if path == 7 { d } else { f };
          let built = guard(|| {
            let mut j = match path {
              3 => {
                let mut j = Jwk::new(jwk_type(f));
                let wrong = |_| format!("Jwk::new({}) has no {} parameters", KTY[f], KTY[f]);
                match &params_of(f, privs, pubv, privv) {
                  JwkParams::Ec(p) => *j.try_ec_params_mut().map_err(wrong)? = p.clone(),
                  JwkParams::Rsa(p) => *j.try_rsa_params_mut().map_err(wrong)? = p.clone(),
                  JwkParams::Oct(p) => *j.try_oct_params_mut().map_err(wrong)? = p.clone(),
                  JwkParams::Okp(p) => *j.try_okp_params_mut().map_err(wrong)? = p.clone(),
                }
                j
              }
              7 => {
                // a private key of family f, retyped, then given parameters of the new type
                let mut j = Jwk::from_params(params_of(f, n_privs(f) as u8 - 1, 0, 0));
                j.set_kty(jwk_type(d));
                j.set_params(params_of(d, privs, pubv, privv)).map_err(|e| format!("matching set_params: {e}"))?;
                j
              }
              _ => Jwk::from_params(params_of(f, privs, pubv, privv)),
            };
            set_opts(&mut j, opts, ops, kidv);
            if path == 6 {
              let s = j.to_json().map_err(|e| format!("to_json: {e}"))?;
              return Jwk::from_json(&s).map_err(|e| format!("from_json({}): {e}", clip(&s)));
            }
            Ok::<Jwk, String>(j)
          });
          let crt_or_d = tt != RSA || [0u8, 1, 63].contains(&privs);
          let j = match built {
            Err(p) => {
              v.v(format!("Jwk::{name}|{}", p.key()), p.msg);
              v.outcome = format!("api:{name}:panic");
              return v;
            }
            Ok(Err(e)) => {
              // path 3: Jwk::new gave parameters of another family; path 7: documented acceptance of matching
              // parameters; path 6: acceptance is demanded only on the baseline family
              if path != 6 || (baseline(opts, kidv, pubv, privv) && crt_or_d) {
                v.v(format!("Jwk::{name}|own-key-rejected"), format!("{entry}: {e}"));
              }
              v.outcome = format!("api:{name}:rejected");
              return v;
            }
            Ok(Ok(j)) => j,
          };
          if let Err(why) = coherent(&j, Some(tt)) {
            v.v(format!("Jwk::{name}|kty-differs-from-params-family"), format!("{entry}: {why}"));
            v.outcome = format!("api:{name}:incoherent");
            return v;
          }
          v.outcome = format!("api:{name}:{}", if has_priv(tt, privs) { "private" } else { "public" });
          let x = Expect { t: tt, pubv, privv, thumb: !needs_escape(tt, pubv), given_private: Some(has_priv(tt, privs)) };
          judge_jwk(&entry, &j, &x, &mut v);
          if path == 7 && f != d && matches!(guard(|| j.to_json()), Ok(Ok(s)) if leaks(&s) && !has_priv(tt, privs)) {
            v.v("Jwk::set_kty|previous-private-parameters-survive", entry.clone());
          }
        }
        1 => {
          let mut j = Jwk::new(jwk_type(d));
          let fresh = j.clone();
          match guard(|| j.set_params(params_of(f, privs, pubv, privv))) {
            Err(p) => v.v(format!("Jwk::set_params|{}", p.key()), p.msg),
            Ok(r) => {
              // whatever set_params answers, the key must stay coherent (a set_params that adopts the type of
              // the parameters would be coherent too; the documentation promises an error instead: recorded)
              if let Err(why) = coherent(&j, None) {
                v.v("Jwk::set_params|kty-differs-from-params-family", format!("{entry}: returned {:?}; {why}", r.is_ok()));
              }
              match r {
                Ok(()) => {
                  if f == d && j.params() != &params_of(f, privs, pubv, privv) {
                    v.v("Jwk::set_params|params-not-stored", entry.clone());
                  }
                  v.outcome = format!("api:{name}:{}", if f == d { "matching-accepted" } else { "mismatch-accepted" });
                }
                Err(_) => {
                  if f == d {
                    v.v("Jwk::set_params|matching-params-rejected", entry.clone());
                  }
                  v.outcome = format!(
                    "api:{name}:{}{}",
                    if f == d { "matching-rejected" } else { "mismatch-rejected" },
                    if object_of(&j).ok() != object_of(&fresh).ok() { "-but-changed(recorded)" } else { "" }
                  );
                }
              }
            }
          }
        }
        2 => {
          let mut j = Jwk::from_params(params_of(f, privs, pubv, privv));
          set_opts(&mut j, opts, ops, kidv);
          match guard(|| j.set_kty(jwk_type(d))) {
            Err(p) => v.v(format!("Jwk::set_kty|{}", p.key()), p.msg),
            Ok(()) => {
              if let Err(why) = coherent(&j, Some(d)) {
                v.v("Jwk::set_kty|kty-differs-from-params-family", format!("{entry}: {why}"));
              }
              // a key retyped to ANOTHER type must not keep the old private values anywhere (documented: "Removes
              // any previously set params"); retyping to the same type may be a no-op: recorded
              let s = j.to_json().unwrap_or_default();
              let survive = leaks(&s);
              if survive && f != d {
                v.v("Jwk::set_kty|previous-private-parameters-survive", format!("{entry}: {}", clip(&s)));
              }
              v.outcome = format!("api:{name}:{}", if f != d { "other-type" } else if survive { "same-type:private-values-kept(recorded)" } else { "same-type" });
            }
          }
        }
        _ => {
          // recorded only: these two hand out unchecked access by contract
          let mut j = Jwk::new(jwk_type(d));
          let r = guard(|| {
            if path == 4 {
              *j.params_mut() = params_of(f, privs, pubv, privv)
            } else {
              j.set_params_unchecked(params_of(f, privs, pubv, privv))
            }
            // the observers must not panic on such a key either way; results recorded only
            let _ = (j.is_public(), j.is_private(), j.thumbprint_sha256_b64(), j.to_public().map(|p| p.is_public()));
          });
          v.outcome = match r {
            Err(_) => format!("api:{name}:panic(recorded-only)"),
            Ok(()) => format!("api:{name}:{}(recorded-only)", if coherent(&j, Some(d)).is_ok() { "coherent" } else { "incoherent" }),
          };
        }
      }
    }
    Case::Set { keys } => {
      let n = keys.len();
      let text = format!("{{\"keys\":[{}]}}", keys.iter().map(|k| set_key_text(*k)).collect::<Vec<_>>().join(","));
      let any_mismatch = keys.iter().any(|k| *k == 7 || *k == 8);
      let set = match guard(|| JwkSet::from_json(&text)) {
        Err(p) => {
          v.v(format!("JwkSet::from_json|{}", p.key()), p.msg);
          v.outcome = "set:panic".into();
          return v;
        }
        Ok(Err(_)) => {
          v.outcome = format!("set:rejected:{}", if any_mismatch { "has-mismatching-key" } else { "all-keys-coherent(recorded)" });
          return v;
        }
        Ok(Ok(s)) => s,
      };
      v.nontrivial = true;
      v.outcome = format!("set:accepted:{}", if set.len() == n { "all-keys" } else { "fewer-keys(recorded)" });
      let entry = format!("JwkSet {keys:?}");
      // every key of the set, however it is reached
      let mut reached: Vec<(String, Jwk)> = Vec::new();
      let r = guard(|| {
        let mut out: Vec<(String, Jwk)> = Vec::new();
        for (i, k) in set.iter().enumerate() {
          out.push((format!("iter[{i}]"), k.clone()));
        }
        for i in 0..set.len() {
          out.push((format!("index[{i}]"), set[i].clone()));
        }
        for (i, k) in set.as_slice().iter().enumerate() {
          out.push((format!("as_slice[{i}]"), k.clone()));
        }
        for kv in 0..N_KIDS {
          for (i, k) in set.get(&kid_value(kv)).into_iter().enumerate() {
            out.push((format!("get(kid {kv})[{i}]"), k.clone()));
          }
        }
        let mut copy = set.clone();
        while let Some(k) = copy.pop() {
          out.push(("pop".to_string(), k));
        }
        let rebuilt: JwkSet = set.iter().cloned().collect();
        let mut added = JwkSet::new();
        for k in rebuilt.iter() {
          added.add(k.clone());
        }
        if !added.is_empty() {
          added.del(0);
        }
        for (i, k) in added.iter().enumerate() {
          out.push((format!("collect+add+del(0)[{i}]"), k.clone()));
        }
        out
      });
      match r {
        Ok(out) => reached = out,
        Err(p) => v.v(format!("JwkSet::accessors|{}", p.key()), p.msg),
      }
      for (how, k) in &reached {
        if let Err(why) = coherent(k, None) {
          v.v("JwkSet::from_json|accepted|kty-differs-from-params-family", format!("{entry} {how}: {why}"));
        }
      }
      // position-wise oracles when every key arrived (a lenient reader may drop keys: recorded above)
      if set.len() == n {
        for (i, k) in set.iter().enumerate() {
          let (t, extra, _) = SET_MENU[keys[i] as usize];
          if coherent(k, Some(t)).is_ok() && keys[i] != 7 && keys[i] != 8 {
            let x = Expect { t, pubv: 0, privv: 0, thumb: true, given_private: Some(t == OCT || !extra.is_empty()) };
            let before = v.outcome.len();
            judge_jwk(&format!("{entry}[{i}]"), k, &x, &mut v);
            v.outcome.truncate(before);
          }
        }
      }
      // get(kid): matching semantics recorded only
      let exact = (0..N_KIDS).all(|kv| {
        let kid = kid_value(kv);
        let got = set.get(&kid);
        got.iter().all(|k| k.kid() == Some(kid.as_str())) && got.len() == set.iter().filter(|k| k.kid() == Some(kid.as_str())).count()
      });
      v.outcome += if exact { "/get=exactly-the-keys-with-that-kid" } else { "/get-differs(recorded)" };
      // the serialised set re-parses to coherent keys; the set of public projections carries no private member
      if let Ok(Ok(s)) = guard(|| set.to_json()) {
        match guard(|| JwkSet::from_json(&s)) {
          Ok(Ok(back)) => {
            for k in back.iter() {
              if let Err(why) = coherent(k, None) {
                v.v("JwkSet::from_json|accepted|kty-differs-from-params-family", format!("{entry}, re-parse of own output: {why}"));
              }
            }
          }
          Ok(Err(_)) => v.outcome += "/own-output-rejected(recorded)",
          Err(p) => v.v(format!("JwkSet::from_json|{}", p.key()), p.msg),
        }
      }
      match guard(|| set.iter().filter_map(|k| k.to_public()).collect::<JwkSet>().to_json()) {
        Err(p) => v.v(format!("JwkSet::to_json|{}", p.key()), p.msg),
        Ok(Err(e)) => v.v("JwkSet::to_json|failed", e.to_string()),
        Ok(Ok(s)) => {
          let (names, _) = scan(&serde_json::from_str(&s).unwrap_or(Value::Null));
          if !names.is_empty() || leaks(&s) {
            v.v("JwkSet::to_json|public-projections-carry-private-material", format!("{entry}: private members {names:?} in {}", clip(&s)));
          }
        }
      }
    }
    &Case::Method { ctor, fam, privs, privv, mtype, kidv } => {
      let f = fam as usize;
      let name = CTORS[ctor as usize];
      let entry = format!("{name} on {} key, private subset {privs:#b} (values {privv}), method type {}, kid {kidv}", KTY[f], method_type(mtype));
      v.nontrivial = true;
      let mut jwk = Jwk::from_params(params_of(f, privs, 0, privv));
      jwk.set_kid(kid_value(kidv));
      let did = CoreDID::parse("did:example:123").unwrap();
      let r: Result<Result<String, String>, vx::Panicked> = guard(|| {
        let m = match ctor {
          0 => VerificationMethod::new_from_jwk(did.clone(), jwk.clone(), Some("frag")).map_err(|e| e.to_string()),
          1 => VerificationMethod::new_from_jwk(did.clone(), jwk.clone(), None).map_err(|e| e.to_string()),
          2 => MethodBuilder::default()
            .id(DIDUrl::parse("did:example:123#frag").unwrap())
            .controller(did.clone())
            .type_(method_type(mtype))
            .data(MethodData::PublicKeyJwk(jwk.clone()))
            .build()
            .map_err(|e| e.to_string()),
          3 | 4 => {
            let text = format!("did:jwk:{}", b64url(jwk.to_json().map_err(|e| e.to_string())?.as_bytes()));
            let d = DIDJwk::parse(&text).map_err(|e| format!("did:jwk parse: {e}"))?;
            if ctor == 4 {
              // the whole document is the observed object
              return CoreDocument::expand_did_jwk(d).map_err(|e| e.to_string()).and_then(|doc| doc.to_json().map_err(|e| e.to_string()));
            }
            VerificationMethod::try_from(d).map_err(|e| e.to_string())
          }
          _ => VerificationMethod::from_json(&format!(
            r#"{{"id":"did:example:123#k","controller":"did:example:123","type":"{}","publicKeyJwk":{}}}"#,
            method_type(mtype),
            jwk.to_json().map_err(|e| e.to_string())?
          ))
          .map_err(|e| e.to_string()),
        }?;
        if matches!(m.data(), MethodData::PublicKeyJwk(k) if !k.is_public()) {
          return Ok(format!("NOT-PUBLIC {}", m.to_json().map_err(|e| e.to_string())?));
        }
        m.to_json().map_err(|e| e.to_string())
      });
      let kind = if has_priv(f, privs) { "private-key" } else { "public-key" };
      match r {
        Err(p) => {
          v.v(format!("VerificationMethod::{name}|{}", p.key()), p.msg);
          v.outcome = format!("method:{name}:panic");
        }
        Ok(Err(e)) => {
          v.outcome =
            format!("method:{name}:rejected:{kind}:{}", if e.contains("private") || e.contains("Private") { "as-private-material" } else { "other-reason" });
        }
        Ok(Ok(text)) => {
          v.outcome = format!("method:{name}:accepted:{kind}");
          let not_public = text.starts_with("NOT-PUBLIC ");
          let body = text.trim_start_matches("NOT-PUBLIC ");
          let (names, _) = scan(&serde_json::from_str(body).unwrap_or(Value::Null));
          if !names.is_empty() || leaks(body) || not_public {
            if ctor == 5 {
              // deserialisation is not one of the constructors the statement speaks of
              v.outcome += "(private material, recorded-only)";
            } else {
              // one key per constructor: which members leak is in the description
              v.v(
                format!("VerificationMethod::{name}|accepted|private-key-material"),
                format!("{entry}: private members {names:?}, key.is_public() = {}: {}", !not_public, clip(body)),
              );
            }
          }
        }
      }
    }
    &Case::Ext { declared, shape, crv, private, route } => {
      use jsonprooftoken::jwk::alg_parameters::{JwkAlgorithmParameters, JwkEllipticCurveKeyParameters, JwkOctetKeyPairParameters};
      use jsonprooftoken::jwk::curves::EllipticCurveTypes as C;
      use jsonprooftoken::jwk::key::Jwk as JwkExt;
      const ENTRY: &str = "Jwk::try_from(jsonprooftoken::Jwk)";
      let crv_name = EXT_CURVES[crv as usize % EXT_CURVES.len()];
      let ext: Option<JwkExt> = match route {
        0 | 1 => {
          let mut m = vec![format!("\"kty\":\"{}\"", KTY[declared as usize % 4]), format!("\"crv\":\"{crv_name}\""), "\"x\":\"BwcHBwcHBwcHBwcHBwcHBwcHBwcHBwcHBwcHBwcHBwc\"".to_string()];
          if shape == 0 {
            m.push("\"y\":\"CQkJCQkJCQkJCQkJCQkJCQkJCQkJCQkJCQkJCQkJCQk\"".to_string());
          }
          if private {
            m.push("\"d\":\"BQUFBQUFBQUFBQUFBQUFBQUFBQUFBQUFBQUFBQUFBQU\"".to_string());
          }
          serde_json::from_str::<JwkExt>(&format!("{{{}}}", m.join(","))).ok()
        }
        _ => {
          let c = [C::P256, C::Ed25519, C::X25519, C::Secp256K1, C::BLS12381G1, C::BLS12381G2][crv as usize % 6].clone();
          let (x, y, sk) = ([7u8; 32], [9u8; 32], [5u8; 32]);
          let params = if shape == 0 {
            JwkAlgorithmParameters::EllipticCurve(JwkEllipticCurveKeyParameters::new(c, &x, &y, if private { Some(&sk) } else { None }))
          } else {
            JwkAlgorithmParameters::OctetKeyPair(JwkOctetKeyPairParameters::new(c, &x[..], if private { Some(&sk[..]) } else { None }))
          };
          Some(JwkExt::from_key_params(params))
        }
      };
      let ext = match (ext, route) {
        (Some(k), 1 | 3) => k.to_public(),
        (k, _) => k,
      };
      let Some(ext) = ext else {
        v.outcome = "ext:not-a-json-proof-token-key".into();
        return v;
      };
      v.nontrivial = true;
      match guard(|| Jwk::try_from(ext.clone())) {
        Err(pn) => v.v(format!("{ENTRY}|{}", pn.key()), pn.msg),
        Ok(Err(_)) => v.outcome = "ext:conversion-refused".into(),
        Ok(Ok(j)) => {
          // however the JWK was obtained: the declared key type is the family of the parameters it carries
          if let Err(why) = coherent(&j, None) {
            v.v(format!("{ENTRY}|accepted|kty-differs-from-params-family"), format!("{why}; json-proof-token key: {}", serde_json::to_string(&ext).unwrap_or_default()));
          } else {
            // and the key survives its own JSON form unchanged
            match guard(|| j.to_json().ok().and_then(|t| Jwk::from_json(&t).ok())) {
              Ok(Some(back)) if back == j => {}
              Ok(other) => v.v(format!("{ENTRY}|accepted|own-json-does-not-read-back-equal"), clip(&format!("{other:?}"))),
              Err(pn) => v.v(format!("{ENTRY}|{}", pn.key()), pn.msg),
            }
          }
          v.outcome = format!("ext:converted:{}", KTY[type_index(j.kty())]);
        }
      }
    }
    &Case::Generate { kind, doc, scope, fragment, count } => {
      v.nontrivial = true;
      let storage: Storage<JwkMemStore, KeyIdMemstore> = Storage::new(JwkMemStore::new(), KeyIdMemstore::new());
      let sc = match scope {
        0 => MethodScope::VerificationMethod,
        1 => MethodScope::VerificationRelationship(MethodRelationship::Authentication),
        2 => MethodScope::VerificationRelationship(MethodRelationship::AssertionMethod),
        3 => MethodScope::VerificationRelationship(MethodRelationship::KeyAgreement),
        4 => MethodScope::VerificationRelationship(MethodRelationship::CapabilityDelegation),
        _ => MethodScope::VerificationRelationship(MethodRelationship::CapabilityInvocation),
      };
      let (kt, alg) = GEN_KINDS[kind as usize];
      let key_type = KeyType::new(kt);
      let alg: JwsAlgorithm = alg.parse().expect("algorithm name");
      // raw generator output (whether generation succeeds is not the property's business: recorded)
      let mut raw = "raw-rejected";
      match guard(|| vx::gate::block_on(storage.key_storage().generate(key_type.clone(), alg))) {
        Err(p) => v.v(format!("JwkMemStore::generate|{}", p.key()), p.msg),
        Ok(Err(_)) => {}
        Ok(Ok(out)) => {
          raw = "raw-generated";
          GENERATED_JWKS_SEEN.fetch_add(1, Ordering::Relaxed);
          let t = type_index(out.jwk.kty());
          let obj = object_of(&out.jwk).unwrap_or_default();
          let mut names = private_names(t, &obj);
          names.extend(private_fields(out.jwk.params()).iter().map(|s| s.to_string()));
          let (deep, _) = scan(&out.to_json_value().unwrap_or(Value::Null));
          names.extend(deep);
          names.sort();
          names.dedup();
          if !names.is_empty() || !out.jwk.is_public() {
            v.v(
              "JwkMemStore::generate|output-has-private-key-material",
              format!("JwkGenOutput.jwk has private members {names:?}, is_public() = {}", out.jwk.is_public()),
            );
          }
          if let Err(why) = coherent(&out.jwk, None) {
            v.v("JwkMemStore::generate|kty-differs-from-params-family", why);
          }
        }
      }
      let mut core = CoreDocument::builder(Default::default()).id(CoreDID::parse("did:example:123").unwrap()).build().expect("core document");
      let mut iota = IotaDocument::new(&NetworkName::try_from("smr").unwrap());
      let mut label = "generated";
      for i in 0..count {
        let frag = format!("key-{i}");
        let fr = if fragment { Some(frag.as_str()) } else { None };
        let r = guard(|| {
          vx::gate::block_on(async {
            if doc == 0 {
              core.generate_method(&storage, key_type.clone(), alg, fr, sc).await
            } else {
              iota.generate_method(&storage, key_type.clone(), alg, fr, sc).await
            }
          })
        });
        match r {
          Err(p) => {
            v.v(format!("generate_method|{}", p.key()), p.msg);
            label = "panic";
          }
          Ok(Err(_)) => {
            // not judged: the property is about what generated documents contain, not about generation succeeding
            label = "rejected";
          }
          Ok(Ok(_)) => {}
        }
        let text = if doc == 0 { core.to_json() } else { iota.to_json() }.unwrap_or_default();
        let (names, jwks) = scan(&serde_json::from_str(&text).unwrap_or(Value::Null));
        if label == "generated" {
          GENERATED_JWKS_SEEN.fetch_add(jwks, Ordering::Relaxed);
          if jwks != i as u64 + 1 {
            label = "generated-but-other-number-of-jwks-in-document(recorded)";
          }
        }
        if !names.is_empty() {
          v.v("generate_method|document-has-private-key-material", format!("private member names {names:?} in the JWKs of the document JSON"));
        }
      }
      v.outcome = format!("generate:{kt}+{}:{}:{}:{raw}:{label}", alg.name(), if doc == 0 { "core" } else { "iota" }, sc.as_str());
    }
  }
  v
}

fn eval(ctx: &Ctx, case: &Case) {
  ctx.eval1();
  let v = judge(case);
  for (k, w) in &v.viol {
    ctx.violation(k, w, case);
  }
  ctx.outcome(&v.outcome);
  if v.nontrivial {
    ctx.distinct(&case_key(case));
  }
}
fn case_key(case: &Case) -> String {
  serde_json::to_string(case).unwrap()
}

/// Evaluate a whole family of cases in parallel with local histograms.
fn run_part(ctx: &Ctx, part: &str, cases: &[Case], detail: Value) {
  for i in [0, cases.len() / 3, 2 * cases.len() / 3, cases.len() - 1] {
    ctx.sample(part, &cases[i]);
  }
  cases.par_chunks(512).for_each(|chunk| {
    let mut hist: BTreeMap<String, u64> = BTreeMap::new();
    let mut distinct = Vec::new();
    for c in chunk {
      let v = judge(c);
      for (k, w) in &v.viol {
        ctx.violation(k, w, c);
      }
      *hist.entry(v.outcome).or_insert(0) += 1;
      if v.nontrivial {
        distinct.push(Ctx::hash_of(&case_key(c)));
      }
    }
    ctx.outcomes_merge(&hist);
    ctx.distinct_many(distinct);
    ctx.add_evals(chunk.len() as u64);
  });
  let n = cases.len() as u64;
  ctx.add_states(n);
  ctx.add_transitions(n);
  ctx.add_traces(n);
  ctx.part(part, json!({"engine": "E1 full product", "cases": n, "detail": detail}));
}

/// (opts, ops, kidv): the key_ops / kid menus only multiply sets that contain key_ops / kid
fn opt_sets(max_present: u32) -> Vec<(u8, u8, u8)> {
  let mut out = Vec::new();
  for opts in 0..=255u8 {
    if opts.count_ones() > max_present {
      continue;
    }
    let n_ops = if opts & OPT_KEY_OPS != 0 { OPS_MENU.len() as u8 } else { 1 };
    let n_kid = if opts & OPT_KID != 0 { N_KIDS } else { 1 };
    for ops in 0..n_ops {
      for kidv in 0..n_kid {
        out.push((opts, ops, kidv));
      }
    }
  }
  out
}
/// The 133 well-formed member sets: (kty, members, private subset bits over private_of(kty)).
fn member_sets() -> Vec<(u8, u16, u8)> {
  let mut out = Vec::new();
  for kty in 0..4u8 {
    let t = kty as usize;
    let pn = private_of(t);
    for sub in 0..(1u16 << pn.len()) {
      let mut members = mask(required(t));
      for (i, n) in pn.iter().enumerate() {
        if sub & (1 << i) != 0 {
          members |= bit(n);
        }
      }
      out.push((kty, members, sub as u8));
    }
  }
  out
}

fn self_test(ctx: &Ctx) {
  // the harness's RFC 7638 implementation against the RFCs' own examples (RFC 7638 §3.1, RFC 8037 A.3)
  let rsa = rfc7638(RSA, &|n| value_of(n, RSA, 0, 0));
  ctx.require(rsa == "NzbLsXh8uDCcd-6MNwXF4W_7noWXFZAfHkxZsRGC9Xs", &format!("own RFC 7638 thumbprint of the RFC 7638 example key is {rsa}"));
  let okp = rfc7638(OKP, &|n| value_of(n, OKP, 0, 0));
  ctx.require(okp == "kPrK_qmxVWaYVA9wwBF6Iuo3vVzz7TxHCTwXBygrS4k", &format!("own RFC 7638 thumbprint of the RFC 8037 example key is {okp}"));
  ctx.require(b64url(b"\xfb\xff\xfe") == "-__-" && b64url(b"ab") == "YWI" && b64url(b"a") == "YQ", "own base64url encoder");
  // the leak detector: sees every private value of every profile, and none of the public ones
  for t in 0..4usize {
    for privv in 0..3u8 {
      for n in priv_names(t) {
        let val = value_of(n, t, 0, privv).to_string();
        ctx.require(leaks(&val) == (val.len() > 4), &format!("leak detector on private {n} of {} (profile {privv})", KTY[t]));
      }
    }
    if t != OCT {
      for pubv in 0..N_PUBV[t] {
        for n in required(t) {
          ctx.require(!leaks(&value_of(n, t, pubv, 0).to_string()), &format!("leak detector fires on public {n} of {} (profile {pubv})", KTY[t]));
        }
      }
    }
    for n in U {
      if !required(t).contains(&n) && !priv_names(t).contains(&n) {
        ctx.require(!leaks(&value_of(n, t, 0, 0).to_string()), &format!("leak detector fires on foreign member {n} of {}", KTY[t]));
      }
    }
  }
  for kv in 0..N_KIDS {
    ctx.require(!leaks(&kid_value(kv)), "leak detector fires on a kid");
  }
}

fn generate(ctx: &Ctx) {
  ctx.rule("full products: (a) kty(4) x all 8192 subsets of the 13 type-specific JWK members x optional sets x order x way of deserialisation; (b) 133 well-formed member sets x optional-member subsets x key_ops menu x kid menu x order; (c) 133 member sets x public value profiles x private value profiles x {none, kid} x order x {from_json, from_params}; (d) edge shapes x kty x way; (e) API paths x family x declared x private subsets x optional sets; (f) JwkSet documents: all sequences over the key menu; (g) method constructors x 133 keys x private value profile x method type / kid menu; (h) generation: key type/alg x doc type x scope x fragment x count. distinct_nontrivial = distinct cases in which a Jwk / set / method / document was actually obtained (everything except JSON the parser rejected)");
  ctx.assume("sha2::Sha256 and serde_json are trusted (the harness's RFC 7638 computation is checked against the RFC 7638 and RFC 8037 example thumbprints at start-up)");
  ctx.assume("baseline member values are the RFC 7517 / 7638 / 8037 example keys; the other value profiles are base64url filler the library is not required to accept (acceptance recorded, not judged)");
  ctx.assume("a private member is present when its field in params() is Some(..) or its name is serialised, whatever its value (empty string, empty `oth`)");
  self_test(ctx);
  let thorough = ctx.thorough();

  // (a) every member subset
  let mut a = Vec::new();
  let all_opts: &[u8] = &[0, 255, 1, 2, 4, 8, 16, 32, 64, 128];
  for via in 0..VIAS.len() as u8 {
    let a_opts: &[u8] = match (thorough, via) {
      (true, _) => all_opts,
      (false, 0) => &[0, 255],
      _ => &[0],
    };
    for kty in 0..4u8 {
      for members in 0..(1u16 << 13) {
        for &opts in a_opts {
          for order in 0..3u8 {
            a.push(Case::Json { kty, members, opts, ops: 0, kidv: 0, order, via, pubv: 0, privv: 0 });
          }
        }
      }
    }
  }
  run_part(ctx, "json", &a, json!({"kty": 4, "member_subsets": 8192, "ways": VIAS, "optional_sets": if thorough { "10 (every way)" } else { "2 (from_json), 1 (others)" }, "orders": 3}));
  drop(a);

  // (b) well-formed member sets x optional members
  let sets = member_sets();
  let osets = opt_sets(if thorough { 8 } else { 2 });
  let mut b = Vec::new();
  for &(kty, members, _) in &sets {
    for &(opts, ops, kidv) in &osets {
      for order in 0..3u8 {
        b.push(Case::Json { kty, members, opts, ops, kidv, order, via: 0, pubv: 0, privv: 0 });
      }
    }
  }
  run_part(ctx, "json-optional", &b, json!({"member_sets": sets.len(), "optional_sets_x_key_ops_x_kid": osets.len(), "orders": 3}));
  drop(b);

  // (c) value profiles
  let mut c = Vec::new();
  for &(kty, members, privs) in &sets {
    for pubv in 0..N_PUBV[kty as usize] {
      for privv in 0..3u8 {
        if privv != 0 && privs == 0 {
          continue; // no private member whose value could differ (oct: k is covered by pubv)
        }
        for (opts, kidv) in [(0u8, 0u8), (OPT_KID, 3)] {
          for order in 0..3u8 {
            for via in if thorough { 0..VIAS.len() as u8 } else { 0..1 } {
              c.push(Case::Json { kty, members, opts, ops: 0, kidv, order, via, pubv, privv });
            }
          }
          for path in [0u8, 6] {
            c.push(Case::Api { path, fam: kty, declared: kty, privs, opts, ops: 0, kidv, pubv, privv });
          }
        }
      }
    }
  }
  run_part(ctx, "values", &c, json!({"public_value_profiles": N_PUBV, "private_value_profiles": 3, "member_sets": sets.len()}));
  drop(c);

  // (d) edge shapes
  let mut d = Vec::new();
  for kty in 0..4u8 {
    for shape in 0..EDGES.len() as u8 {
      for via in 0..VIAS.len() as u8 {
        d.push(Case::Edge { kty, shape, via });
      }
    }
  }
  run_part(ctx, "json-edge", &d, json!({"shapes": EDGES, "ways": VIAS}));

  // (e) API paths
  let e_osets = opt_sets(if thorough { 8 } else { 2 });
  let mut e = Vec::new();
  for fam in 0..4u8 {
    for privs in 0..n_privs(fam as usize) as u8 {
      for path in [0u8, 3, 6] {
        for &(opts, ops, kidv) in &e_osets {
          e.push(Case::Api { path, fam, declared: fam, privs, opts, ops, kidv, pubv: 0, privv: 0 });
        }
      }
      for declared in 0..4u8 {
        for path in [1u8, 4, 5] {
          for privv in 0..3u8 {
            e.push(Case::Api { path, fam, declared, privs, opts: 0, ops: 0, kidv: 0, pubv: 0, privv });
          }
        }
        for opts in [0u8, 255] {
          e.push(Case::Api { path: 2, fam, declared, privs, opts, ops: 0, kidv: 0, pubv: 0, privv: 0 });
        }
      }
    }
    // 7: any family retyped to `declared`, then given every private subset of the new type
    for declared in 0..4u8 {
      for privs in 0..n_privs(declared as usize) as u8 {
        for opts in [0u8, 255] {
          e.push(Case::Api { path: 7, fam, declared, privs, opts, ops: 0, kidv: 0, pubv: 0, privv: 0 });
        }
      }
    }
  }
  run_part(ctx, "api", &e, json!({"paths": PATHS, "optional_sets_x_key_ops_x_kid": e_osets.len()}));
  drop(e);

  // (f) JwkSet documents
  let max_len = if thorough { 5 } else { 3 };
  let mut f: Vec<Case> = vec![Case::Set { keys: vec![] }];
  let mut layer: Vec<Vec<u8>> = vec![vec![]];
  for _ in 0..max_len {
    let mut next = Vec::new();
    for s in &layer {
      for k in 0..SET_MENU.len() as u8 {
        let mut s2 = s.clone();
        s2.push(k);
        f.push(Case::Set { keys: s2.clone() });
        next.push(s2);
      }
    }
    layer = next;
  }
  run_part(ctx, "set", &f, json!({"key_menu": SET_MENU.len(), "max_keys": max_len}));

  // (g) verification method constructors
  let mut g = Vec::new();
  for fam in 0..4u8 {
    for privs in 0..n_privs(fam as usize) as u8 {
      for privv in 0..3u8 {
        if privv != 0 && privs == 0 {
          continue;
        }
        for ctor in 0..CTORS.len() as u8 {
          match ctor {
            1 => (0..N_KIDS).for_each(|kidv| g.push(Case::Method { ctor, fam, privs, privv, mtype: 0, kidv })),
            2 | 5 => (0..N_MTYPES).for_each(|mtype| g.push(Case::Method { ctor, fam, privs, privv, mtype, kidv: 0 })),
            _ => g.push(Case::Method { ctor, fam, privs, privv, mtype: 0, kidv: 0 }),
          }
        }
      }
    }
  }
  run_part(ctx, "method", &g, json!({"constructors": CTORS, "keys": 133, "private_value_profiles": 3, "method_types": N_MTYPES, "kids": N_KIDS}));

  // (h) generation (random key material: only names/structure are judged)
  let mut h = Vec::new();
  for kind in 0..GEN_KINDS.len() as u8 {
    for doc in 0..2u8 {
      for scope in 0..6u8 {
        for fragment in [true, false] {
          for count in 1..=(if thorough { 4u8 } else { 2 }) {
            if kind != 0 && (count > 1 || scope > 1) {
              continue; // the unsupported pairs: one attempt per document type / fragment / {method, authentication}
            }
            h.push(Case::Generate { kind, doc, scope, fragment, count });
          }
        }
      }
    }
  }
  // sequential evaluation through `eval` (few cases, async store)
  for c in &h {
    eval(ctx, c);
  }
  ctx.sample("generate", &h[0]);
  ctx.add_states(h.len() as u64);
  ctx.add_transitions(h.len() as u64);
  ctx.add_traces(h.len() as u64);
  ctx.part("generate", json!({"cases": h.len(), "key_type_alg_pairs": GEN_KINDS}));

  // json-proof-token keys converted into the library's Jwk
  let mut x: Vec<Case> = Vec::new();
  for route in 0..4u8 {
    for declared in 0..(if route < 2 { 4u8 } else { 1 }) {
      for shape in 0..2u8 {
        for crv in 0..EXT_CURVES.len() as u8 {
          for private in [false, true] {
            x.push(Case::Ext { declared, shape, crv, private, route });
          }
        }
      }
    }
  }
  run_part(ctx, "json-proof-token conversions", &x, json!({"cases": x.len(), "routes": ["from JSON", "from JSON + to_public", "constructors", "constructors + to_public"], "declared_kty": KTY, "shapes": ["crv+x+y", "crv+x"], "curves": EXT_CURVES}));

  // vacuity guards of the oracles themselves
  ctx.require(PRIVATE_ARRIVED.load(Ordering::Relaxed) > 1000, "vacuous: (almost) no key kept the private members it was given");
  ctx.require(PROJECTIONS.load(Ordering::Relaxed) > 1000, "vacuous: (almost) no public projection was obtained");
  ctx.require(GENERATED_JWKS_SEEN.load(Ordering::Relaxed) > 0, "vacuous: no generated key / no JWK in any generated document was seen");

  ctx.bound("member_subsets", "all 2^13 per declared kty");
  ctx.bound("rsa_private_subsets", 128);
  ctx.bound("optional_members_present", if thorough { "all 256 subsets" } else { "<= 2 of 8 (37 subsets)" });
  ctx.bound("member_orders", ["sorted", "reversed", "rotated"]);
  ctx.bound("key_ops_menu", OPS_MENU);
  ctx.bound("kid_menu", ["key-1", "", "#key-1", "unicode+quote+backslash", "300 x k"]);
  ctx.bound("ways_of_deserialisation", VIAS);
  ctx.bound("public_value_profiles", json!({"EC": "P-256 RFC key, P-384, P-521, secp256k1, BLS12381G1/G2, BLS48581G1/G2, empty crv, empty x+y, 4096-char x, 4096-char y, unknown crv, escape-needing crv (recorded)", "RSA": "RFC key, e=Aw, empty n+e, 4096-char n, 4096-char e, escape-needing e (recorded)", "oct": "RFC A.3 keys (2), empty k, 4096-char k, escape-needing k (recorded)", "OKP": "Ed25519 RFC key, Ed448, X25519, X448, empty crv, empty x, 4096-char x, unknown crv, escape-needing crv (recorded)"}));
  ctx.bound("private_value_profiles", ["RFC example values (+1 oth prime)", "present but empty (\"\", oth [])", "4096 characters (EC/OKP d) / 2 oth primes (RSA)"]);
  ctx.bound("jwk_set_keys", max_len);
  ctx.bound("generated_methods_per_document", if thorough { 4 } else { 2 });
}

fn main() {
  vx::run_main::<Case, _, _>("C18", Level::ModelChecking, generate, eval)
}
