//! C01 — JWS verification binds the signature to exactly the bytes received.
//!
//! (a) E1 full product over a token construction table (serialization x attached/detached x b64 x payload x
//!     protected-header byte spelling x alg placement x algorithm x key.alg pin x signer x verifier verdict).
//!     Tokens are assembled byte by byte by the harness and signed with fixed-seed keys over exactly
//!     ASCII(protected segment) '.' payload-as-sent. A recording `JwsVerifier` observes what the library hands to
//!     the verifier (it delegates the verdict to the real verifiers, or is forced to fail).
//! (b) the REAL verifiers: every baseline token verifies and returns the signed payload; every single-bit flip of
//!     every byte of the protected segment, the payload (attached or detached) and the signature segment — for the
//!     compact serialization of the whole token — must fail. Thorough adds every byte substitution (all 255 other
//!     values for the EdDSA tokens in the plain spelling, a 50-character structural alphabet for the ECDSA ones; quick:
//!     the structural alphabet on a 24-token subset) and the same sweep through `CoreDocument::verify_jws`. Tokens
//!     outside the demanded family that the library verifies (payloads needing JSON escapes, RFC 7797-restricted
//!     compact payloads) are swept as well.
//! (c) the concrete verifiers (`EdDSAJwsVerifier`, `EcDSAJwsVerifier`) called directly, each with EVERY algorithm of the
//!     table (also the ones the other verifier is responsible for): verifier x alg x key shape x signature shape.
//! (d) payload sources {embedded only, detached only} are the attached/detached dimension of (a),(b); here BOTH (the
//!     token carries a non-empty payload Pe and the caller supplies a detached payload Pd, signature valid over h.Pd or
//!     over h.Pe) and NEITHER, for the three serializations and CoreDocument::verify_jws. BOTH with Pd != Pe must never
//!     be reported verified (one of the two received payloads would not be bound by the signature); Pd == Pe and
//!     NEITHER are recorded only. (b) additionally re-submits every verifying detached-payload baseline token with an
//!     embedded payload added.
//!
//! Oracle: safety direction strict on every row (reported verified ⇒ the verifier was called, every call carried
//! the received bytes / protected alg / received signature / caller's key and said Ok, key.alg ∈ {absent, alg},
//! claims = signed payload, decoded according to the PROTECTED header's b64 whatever the unprotected one says). How
//! often the verifier is called and how many items a decoder hands out are recorded, not judged. Acceptance is
//! demanded only for the baseline family (alg in the protected header, right signer, pin absent or equal, payload
//! expressible without JSON escaping / outside RFC 7797's compact restrictions); rows outside it are executed and
//! recorded only.

use identity_core::convert::FromJson;
use identity_document::document::CoreDocument;
use identity_document::verifiable::JwsVerificationOptions;
use identity_jose::error::Error;
use identity_jose::jwk::Jwk;
use identity_jose::jws::{
  Decoder, JwsAlgorithm, JwsValidationItem, JwsVerifier, SignatureVerificationError, SignatureVerificationErrorKind, VerificationInput,
};
use once_cell::sync::Lazy;
use serde::{Deserialize, Serialize};
use std::cell::RefCell;
use std::collections::BTreeMap;
use std::ops::Range;
use vx::fx::{b64, EdKey, K256Key, P256Key, RealVerifier};
use vx::rayon::prelude::*;
use vx::{guard, json, Ctx, Level};

// ------------------------------------------------------------------ keys
static ED: Lazy<[EdKey; 2]> = Lazy::new(|| [EdKey::new(1), EdKey::new(2)]);
static P2: Lazy<[P256Key; 2]> = Lazy::new(|| [P256Key::new(1), P256Key::new(2)]);
static K2: Lazy<[K256Key; 2]> = Lazy::new(|| [K256Key::new(1), K256Key::new(2)]);
const ALG: [&str; 3] = ["EdDSA", "ES256", "ES256K"];

fn sign(alg: u8, which: usize, msg: &[u8]) -> Vec<u8> {
  match alg {
    0 => ED[which].sign(msg),
    1 => P2[which].sign(msg),
    _ => K2[which].sign(msg),
  }
}
fn public(alg: u8, which: usize) -> Jwk {
  match alg {
    0 => ED[which].public.clone(),
    1 => P2[which].public.clone(),
    _ => K2[which].public.clone(),
  }
}
fn jws_alg(alg: u8) -> JwsAlgorithm {
  [JwsAlgorithm::EdDSA, JwsAlgorithm::ES256, JwsAlgorithm::ES256K][alg as usize]
}

// ------------------------------------------------------------------ token construction
#[derive(Serialize, Deserialize, Debug, Clone, PartialEq, Eq, Hash)]
struct Tok {
  /// 0 compact, 1 flattened, 2 general with one signature, 3 general with two signatures
  ser: u8,
  det: bool,
  /// 0 absent, 1 true + crit, 2 false + crit
  b64: u8,
  /// index into PAYLOADS
  pl: u8,
  /// protected-header byte spelling: 0 plain, 1 inner whitespace, 2 members reordered (+kid), 3 extra unknown member
  sp: u8,
  /// alg placement: 0 protected, 1 not in the protected header (JSON: unprotected only), 2 unprotected only and no
  /// protected header at all, 3 protected and unprotected (same value), 4 protected and a DIFFERENT alg in the
  /// unprotected header, 5 alg protected and the unprotected header carries a `b64` member that contradicts the
  /// protected header's (effective) b64
  ap: u8,
  alg: u8,
}
/// #5 is itself valid base64url text: with b64=false the claims must be it, not its decoding. #6 needs every kind of
/// JSON escape (quote, backslash, control character) and carries a non-ASCII character.
const PAYLOADS: [&[u8]; 7] = [b"a", b"{\"x\":1}", b"a.b", &[0xff, 0x00], b"~-_", b"aGk", b"q\"\\\n\xc3\xa9"];
const SER: [&str; 4] = [
  "Decoder::decode_compact_serialization",
  "Decoder::decode_flattened_serialization",
  "Decoder::decode_general_serialization",
  "Decoder::decode_general_serialization",
];

fn prot_text(alg: Option<&str>, b64m: u8, sp: u8, kid: Option<&str>) -> String {
  let mut m: Vec<(String, String)> = Vec::new();
  if let Some(a) = alg {
    m.push(("alg".into(), format!("\"{a}\"")));
  }
  if b64m != 0 {
    m.push(("b64".into(), if b64m == 1 { "true" } else { "false" }.into()));
    m.push(("crit".into(), "[\"b64\"]".into()));
  }
  if let Some(k) = kid {
    m.push(("kid".into(), format!("\"{k}\"")));
  }
  match sp {
    2 => {
      if kid.is_none() {
        m.push(("kid".into(), "\"k-1\"".into()));
      }
      m.reverse();
    }
    3 => m.push(("zz".into(), "[1,{\"a\":null}]".into())),
    _ => {}
  }
  if sp == 1 {
    let inner: Vec<String> = m.iter().map(|(k, v)| format!("\"{k}\" : {v}")).collect();
    format!("{{ {} }}", inner.join(" ,\n\t"))
  } else {
    let inner: Vec<String> = m.iter().map(|(k, v)| format!("\"{k}\":{v}")).collect();
    format!("{{{}}}", inner.join(","))
  }
}

#[derive(Clone, Debug)]
struct SigInfo {
  alg: u8,
  /// alg is named in the protected header
  prot_alg: bool,
  prot_region: Option<Range<usize>>,
  sig_bytes: Vec<u8>,
  sig_region: Range<usize>,
  signing_input: Vec<u8>,
}
#[derive(Clone, Debug)]
struct Built {
  token: Vec<u8>,
  detached: Option<Vec<u8>>,
  sigs: Vec<SigInfo>,
  claims: Vec<u8>,
  payload_region: Option<Range<usize>>,
  /// acceptance of this token is demanded (given right signer / pin / verdict)
  clean: bool,
}

struct Asm {
  buf: Vec<u8>,
}
impl Asm {
  fn s(&mut self, t: &str) {
    self.buf.extend_from_slice(t.as_bytes());
  }
  fn region(&mut self, bytes: &[u8]) -> Range<usize> {
    let a = self.buf.len();
    self.buf.extend_from_slice(bytes);
    a..self.buf.len()
  }
}

/// Assemble the token of `t`. `other_signer`: signatures are made with key #1 instead of the caller's key #0.
/// `kid`: put this kid into the protected header (document part). None if the row is not expressible.
fn build(t: &Tok, other_signer: bool, kid: Option<&str>) -> Option<Built> {
  build_ov(t, other_signer, kid, None)
}

/// Payload `idx` of the menu as it is sent under b64 mode `b64m`.
fn sent_of(b64m: u8, idx: u8) -> Vec<u8> {
  let raw = PAYLOADS[idx as usize];
  if b64m == 2 {
    raw.to_vec()
  } else {
    b64(raw).into_bytes()
  }
}

/// Payload-source override: what the token carries, what the caller supplies, what the signature covers
/// (all as-sent bytes).
struct Ov {
  embed: Option<Vec<u8>>,
  detached: Option<Vec<u8>>,
  signed: Vec<u8>,
}

fn build_ov(t: &Tok, other_signer: bool, kid: Option<&str>, ov: Option<&Ov>) -> Option<Built> {
  let raw = PAYLOADS[t.pl as usize];
  let sent: Vec<u8> = match ov {
    Some(o) => o.signed.clone(),
    None => sent_of(t.b64, t.pl),
  };
  let embed: Option<Vec<u8>> = match ov {
    Some(o) => o.embed.clone(),
    None => (!t.det).then(|| sent.clone()),
  };
  let detached: Option<Vec<u8>> = match ov {
    Some(o) => o.detached.clone(),
    None => t.det.then(|| sent.clone()),
  };
  let json_ser = t.ser != 0;
  if !json_ser && t.ap >= 2 {
    return None; // no unprotected header in the compact serialization
  }
  if t.ap == 2 && t.b64 != 0 {
    return None; // b64 lives in the protected header
  }
  // payload as it appears inside a JSON string
  let mut clean = t.ap == 0;
  let mut json_payload: Option<String> = None;
  if let Some(sent) = &embed {
    if json_ser {
      let s = std::str::from_utf8(sent).ok()?;
      let quoted = serde_json::to_string(s).unwrap();
      let inner = &quoted[1..quoted.len() - 1];
      if inner != s {
        clean = false; // needs JSON escaping (S12 territory: recorded, not demanded)
      }
      json_payload = Some(inner.to_string());
    } else if t.b64 == 2 && !sent.iter().all(|b| matches!(b, 0x20..=0x2d | 0x2f..=0x7e)) {
      clean = false; // RFC 7797 §5.2: not representable in a non-detached compact JWS
    }
  }
  let nsig = if t.ser == 3 { 2 } else { 1 };
  struct Pre {
    alg: u8,
    prot_alg: bool,
    seg: Option<String>,
    unprot: Option<String>,
    sig: Vec<u8>,
    input: Vec<u8>,
  }
  let mut pre = Vec::new();
  for i in 0..nsig {
    let alg = (t.alg + i as u8) % 3;
    let (ap, sp) = if i == 0 { (t.ap, t.sp) } else { (0, (t.sp + 1) % 4) };
    let prot_alg = matches!(ap, 0 | 3 | 4 | 5);
    let seg = if ap == 2 { None } else { Some(b64(prot_text(prot_alg.then_some(ALG[alg as usize]), t.b64, sp, kid))) };
    let unprot = match ap {
      0 => (sp == 3 && json_ser).then(|| "{\"typ\":\"JWT\"}".to_string()),
      1..=3 => json_ser.then(|| format!("{{\"alg\":\"{}\"}}", ALG[alg as usize])),
      4 => Some(format!("{{\"alg\":\"{}\"}}", ALG[((alg + 1) % 3) as usize])),
      // an unprotected b64 that contradicts the protected one: the payload interpretation must not follow it
      _ => Some(format!("{{\"b64\":{}}}", t.b64 == 2)),
    };
    let mut input = seg.clone().unwrap_or_default().into_bytes();
    input.push(b'.');
    input.extend_from_slice(&sent);
    let sig = sign(alg, other_signer as usize, &input);
    pre.push(Pre { alg, prot_alg, seg, unprot, sig, input });
  }
  let mut a = Asm { buf: Vec::new() };
  let mut sigs = Vec::new();
  let mut payload_region = None;
  if !json_ser {
    let p = &pre[0];
    let pr = a.region(p.seg.as_ref().unwrap().as_bytes());
    a.s(".");
    if let Some(e) = &embed {
      payload_region = Some(a.region(e));
    }
    a.s(".");
    let sr = a.region(b64(&p.sig).as_bytes());
    sigs.push(SigInfo { alg: p.alg, prot_alg: p.prot_alg, prot_region: Some(pr), sig_bytes: p.sig.clone(), sig_region: sr, signing_input: p.input.clone() });
  } else {
    a.s("{");
    if let Some(jp) = &json_payload {
      a.s("\"payload\":\"");
      payload_region = Some(a.region(jp.as_bytes()));
      a.s("\",");
    }
    if t.ser >= 2 {
      a.s("\"signatures\":[");
    }
    for (i, p) in pre.iter().enumerate() {
      if i > 0 {
        a.s(",");
      }
      if t.ser >= 2 {
        a.s("{");
      }
      let mut pr = None;
      if let Some(seg) = &p.seg {
        a.s("\"protected\":\"");
        pr = Some(a.region(seg.as_bytes()));
        a.s("\",");
      }
      if let Some(u) = &p.unprot {
        a.s("\"header\":");
        a.s(u);
        a.s(",");
      }
      a.s("\"signature\":\"");
      let sr = a.region(b64(&p.sig).as_bytes());
      a.s("\"");
      if t.ser >= 2 {
        a.s("}");
      }
      sigs.push(SigInfo { alg: p.alg, prot_alg: p.prot_alg, prot_region: pr, sig_bytes: p.sig.clone(), sig_region: sr, signing_input: p.input.clone() });
    }
    if t.ser >= 2 {
      a.s("]");
    }
    a.s("}");
  }
  Some(Built { token: a.buf, detached, sigs, claims: raw.to_vec(), payload_region, clean: clean && ov.is_none() })
}

// ------------------------------------------------------------------ recording verifier
struct Call {
  alg: JwsAlgorithm,
  signing_input: Vec<u8>,
  sig: Vec<u8>,
  key: Jwk,
  said_ok: bool,
}
struct Recorder {
  force_err: bool,
  calls: RefCell<Vec<Call>>,
}
impl JwsVerifier for Recorder {
  fn verify(&self, input: VerificationInput, key: &Jwk) -> Result<(), SignatureVerificationError> {
    let (alg, si, sg) = (input.alg, input.signing_input.to_vec(), input.decoded_signature.to_vec());
    let res = if self.force_err { Err(SignatureVerificationErrorKind::InvalidSignature.into()) } else { RealVerifier.verify(input, key) };
    self.calls.borrow_mut().push(Call { alg, signing_input: si, sig: sg, key: key.clone(), said_ok: res.is_ok() });
    res
  }
}

// ------------------------------------------------------------------ cases
#[derive(Serialize, Deserialize, Debug, Clone, PartialEq)]
enum Case {
  /// (a) pin: 0 key.alg absent, 1 equal, 2.. different (see PINS)
  Rec { t: Tok, pin: u8, other_signer: bool, force_err: bool },
  /// (b) one mutation of a baseline token. region: 0 whole compact token, 1 protected segment, 2 attached payload,
  /// 3 signature segment, 4 detached payload. `xor` != 0: flip those bits; else replace the byte by `with`.
  Mut { t: Tok, region: u8, sig: u8, byte: u32, xor: u8, with: u8 },
  /// (b) baseline only (no mutation)
  Base { t: Tok },
  /// through CoreDocument::verify_jws; pin_other: the method's JWK pins a different alg; other_method: the token names
  /// method #k-<alg> in its kid but is signed with the key of method #k2-<alg> of the same document
  Doc {
    t: Tok,
    pin_other: bool,
    m: Option<(u8, u32, u8, u8)>,
    #[serde(default)]
    other_method: bool,
  },
  /// (c) concrete verifier table; via 0: the verifier responsible for alg, 1: the other library verifier
  Ver {
    alg: u8,
    key: u8,
    sig: u8,
    #[serde(default)]
    via: u8,
  },
  /// (d) payload sources. `t.pl` = Pe. src 2: BOTH (token carries Pe, caller supplies Pd); 3: NEITHER.
  /// over 0: signature over h.Pd; 1: over h.Pe. doc: through CoreDocument::verify_jws (compact).
  Src { t: Tok, src: u8, pd: u8, over: u8, doc: bool },
  /// (e) a general-serialization token whose signature entries are drawn from GENMIX (one index per entry)
  GenMix { entries: Vec<u8> },
  /// (b) one byte `with` inserted into a verifying compact token at `pos` (see INS_POS); `flip` != 0: those bits of the
  /// inserted byte flipped (a single-bit flip of the token with the insertion, which verified)
  Ins {
    t: Tok,
    pos: u8,
    with: u8,
    #[serde(default)]
    flip: u8,
  },
}
const REGION: [&str; 5] = ["compact-token", "protected-segment", "payload", "signature-segment", "detached-payload"];

#[derive(Default)]
struct Acc {
  outcomes: BTreeMap<String, u64>,
  distinct: Vec<u64>,
  evals: u64,
}
impl Acc {
  fn out(&mut self, l: impl Into<String>) {
    *self.outcomes.entry(l.into()).or_insert(0) += 1;
  }
  fn flush(self, ctx: &Ctx) {
    ctx.outcomes_merge(&self.outcomes);
    ctx.distinct_many(self.distinct);
    ctx.add_evals(self.evals);
  }
}

fn err_label(e: &Error) -> String {
  match e {
    Error::SignatureVerificationError(s) => format!("verifier:{}", s.kind()),
    Error::InvalidParam(m) => format!("InvalidParam({m})"),
    Error::InvalidContent(m) => format!("InvalidContent({m})"),
    Error::InvalidClaim(m) => format!("InvalidClaim({m})"),
    Error::MissingHeader(m) => format!("MissingHeader({m})"),
    Error::InvalidJson(_) => "InvalidJson".into(),
    Error::InvalidBase64(_) => "InvalidBase64".into(),
    Error::InvalidUtf8(_) => "InvalidUtf8".into(),
    other => format!("{other:?}").chars().take(32).collect(),
  }
}

/// Decode `token` with the entry point of `ser`; the closure sees the per-signature results.
fn with_items<R>(ser: u8, token: &[u8], detached: Option<&[u8]>, f: impl FnOnce(Result<Vec<Result<JwsValidationItem<'_>, Error>>, Error>) -> R) -> R {
  let dec = Decoder::new();
  match ser {
    0 => f(Ok(vec![dec.decode_compact_serialization(token, detached)])),
    1 => f(Ok(vec![dec.decode_flattened_serialization(token, detached)])),
    _ => match dec.decode_general_serialization(token, detached) {
      Err(e) => f(Err(e)),
      Ok(it) => f(Ok(it.collect())),
    },
  }
}

fn pinned(alg: u8, pin: u8) -> Jwk {
  let mut k = public(alg, 0);
  match pin {
    1 => k.set_alg(ALG[alg as usize]),
    2 => k.set_alg(ALG[((alg + 1) % 3) as usize]),
    3 => k.set_alg(ALG[((alg + 2) % 3) as usize]),
    4 => k.set_alg(ALG[alg as usize].to_ascii_lowercase()),
    5 => k.set_alg(""),
    _ => {}
  }
  k
}
/// key.alg pins: 0 absent, 1 equal to the header's alg, 2/3 the two other algorithms of the table (so that both
/// "ES256 pinned, ES256K in the header" and the converse occur), 4 the header's alg in lower case, 5 the empty string.
const PINS: u8 = 6;

fn eval_rec(ctx: &Ctx, acc: &mut Acc, case: &Case, t: &Tok, pin: u8, other_signer: bool, force_err: bool) {
  let Some(b) = build(t, other_signer, None) else {
    acc.out("rec:row-not-expressible");
    return;
  };
  let ep = SER[t.ser as usize];
  let demanded = b.clean && !other_signer && pin <= 1 && !force_err;
  let r = guard(|| {
    with_items(t.ser, &b.token, b.detached.as_deref(), |items| {
      let mut v: Vec<(String, String)> = Vec::new(); // violations (key, what)
      let mut labels: Vec<String> = Vec::new();
      let items = match items {
        Err(e) => {
          labels.push(format!("rec:token-rejected:{}", err_label(&e)));
          if demanded {
            v.push((format!("{ep}|well-formed-token|rejected"), format!("baseline token rejected as a whole: {}", err_label(&e))));
          }
          return (v, labels);
        }
        Ok(i) => i,
      };
      if items.len() != b.sigs.len() {
        // how many items a decoder hands out is not fixed by the property: recorded; every item is judged against
        // the signature entry it carries
        labels.push("rec:item-count-differs-from-signature-count".into());
      }
      let mut verified_sigs = vec![false; b.sigs.len()];
      for (pos, item) in items.into_iter().enumerate() {
        let item = match item {
          Err(e) => {
            labels.push(format!("rec:decode-rejected:{}", err_label(&e)));
            if demanded {
              v.push((format!("{ep}|well-formed-token|rejected"), format!("baseline token did not decode: {}", err_label(&e))));
            }
            continue;
          }
          Ok(i) => i,
        };
        // the signature entry this item belongs to: the one whose signature it carries, else the one at its position
        let idx = b.sigs.iter().position(|s| s.sig_bytes[..] == *item.decoded_signature()).unwrap_or(pos.min(b.sigs.len() - 1));
        let s = &b.sigs[idx];
        // what the item exposes before verification
        if item.signing_input() != &s.signing_input[..] {
          v.push(("JwsValidationItem::signing_input|differs-from-received-bytes".into(), format!("got {:?}", String::from_utf8_lossy(item.signing_input()))));
        }
        if item.decoded_signature() != &s.sig_bytes[..] {
          v.push(("JwsValidationItem::decoded_signature|differs-from-received-signature".into(), String::new()));
        }
        if item.claims() != &b.claims[..] {
          v.push(("JwsValidationItem::claims|differ-from-signed-payload".into(), format!("got {:?}", String::from_utf8_lossy(item.claims()))));
        }
        let want_alg = s.prot_alg.then(|| jws_alg(s.alg));
        if item.alg() != want_alg {
          v.push(("JwsValidationItem::alg|not-the-protected-header-alg".into(), format!("got {:?} want {:?}", item.alg(), want_alg)));
        }
        let key = pinned(s.alg, pin);
        let rec = Recorder { force_err, calls: RefCell::new(Vec::new()) };
        let res = item.verify(&rec, &key);
        let calls = rec.calls.into_inner();
        if calls.len() > 1 {
          labels.push("rec:verifier-called-more-than-once".into()); // not forbidden: every call is judged
        }
        for c in &calls {
          if !s.prot_alg {
            v.push(("JwsValidationItem::verify|verifier-called-without-alg-in-protected-header".into(), format!("alg handed over: {:?}", c.alg)));
          } else if c.alg != jws_alg(s.alg) {
            v.push(("JwsValidationItem::verify|alg-handed-to-verifier-differs-from-protected-header".into(), format!("{:?}", c.alg)));
          }
          if c.signing_input != s.signing_input {
            v.push(("JwsValidationItem::verify|signing-input-differs-from-received-bytes".into(), format!("got {:?}", String::from_utf8_lossy(&c.signing_input))));
          }
          if c.sig != s.sig_bytes {
            v.push(("JwsValidationItem::verify|signature-handed-to-verifier-differs-from-received".into(), String::new()));
          }
          if c.key != key {
            v.push(("JwsValidationItem::verify|key-handed-to-verifier-differs-from-callers-key".into(), String::new()));
          }
        }
        match res {
          Ok(d) => {
            labels.push("rec:verified".into());
            verified_sigs[idx] = true;
            if calls.is_empty() || calls.iter().any(|c| !c.said_ok) {
              v.push(("JwsValidationItem::verify|reported-verified-without-a-successful-check".into(), format!("{} verifier calls", calls.len())));
            }
            // judged on what the key reports as its pin (a Jwk that normalises a meaningless value away pins nothing)
            if pin >= 2 && key.alg().is_some_and(|a| a != ALG[s.alg as usize]) {
              v.push(("JwsValidationItem::verify|key-alg-differs-from-header-alg|accepted".into(), format!("key.alg = {:?}", key.alg())));
            }
            if !s.prot_alg {
              v.push(("JwsValidationItem::verify|no-alg-in-protected-header|accepted".into(), String::new()));
            }
            if other_signer {
              v.push(("JwsValidationItem::verify|signature-by-another-key|accepted".into(), String::new()));
            }
            if &d.claims[..] != &b.claims[..] {
              v.push(("DecodedJws::claims|differ-from-signed-payload".into(), format!("got {:?}", String::from_utf8_lossy(&d.claims))));
            }
            if d.protected.alg() != Some(jws_alg(s.alg)) {
              v.push(("DecodedJws::protected|alg-differs-from-received".into(), format!("{:?}", d.protected.alg())));
            }
          }
          Err(e) => {
            labels.push(format!("rec:verify-rejected:{}", err_label(&e)));
            if demanded {
              v.push((format!("{ep}+verify|well-formed-token|rejected"), format!("baseline token did not verify: {}", err_label(&e))));
            }
          }
        }
      }
      // (a rejected item of a demanded row has already been reported above)
      if demanded && v.is_empty() && !verified_sigs.iter().all(|x| *x) {
        v.push((format!("{ep}+verify|well-formed-token|rejected"), "a signature entry of the baseline token produced no verified item".into()));
      }
      (v, labels)
    })
  });
  match r {
    Err(p) => ctx.violation(&format!("{ep}|{}", p.key()), &p.msg, case),
    Ok((v, labels)) => {
      for (k, w) in v {
        ctx.violation(&k, &w, case);
      }
      let verified = labels.iter().any(|l| l == "rec:verified");
      for l in labels {
        acc.out(l);
      }
      if verified || !b.clean {
        acc.distinct.push(Ctx::hash_of(&(1u8, t, pin, other_signer, force_err)));
      }
    }
  }
}

/// Verify every signature of a (possibly mutated) token with the real verifiers and the caller's keys.
/// Returns per signature: Ok(claims) or Err(label).
fn real_verify(t: &Tok, b: &Built, token: &[u8], detached: Option<&[u8]>) -> Result<Vec<Result<Vec<u8>, String>>, String> {
  with_items(t.ser, token, detached, |items| match items {
    Err(e) => Err(format!("decode:{}", err_label(&e))),
    Ok(items) => Ok(
      items
        .into_iter()
        .enumerate()
        .map(|(i, it)| match it {
          Err(e) => Err(format!("decode:{}", err_label(&e))),
          Ok(item) => {
            let alg = b.sigs.get(i).map(|s| s.alg).unwrap_or(0);
            item.verify(&RealVerifier, &public(alg, 0)).map(|d| d.claims.to_vec()).map_err(|e| format!("verify:{}", err_label(&e)))
          }
        })
        .collect(),
    ),
  })
}

fn check_baseline(ctx: &Ctx, acc: &mut Acc, case: &Case, t: &Tok, b: &Built) -> bool {
  let ep = SER[t.ser as usize];
  match guard(|| real_verify(t, b, &b.token, b.detached.as_deref())) {
    Err(p) => {
      ctx.violation(&format!("{ep}|{}", p.key()), &p.msg, case);
      false
    }
    Ok(Err(l)) => {
      if b.clean {
        ctx.violation(&format!("{ep}+verify|well-formed-token|rejected"), &format!("baseline token rejected with the real verifiers: {l}"), case);
      } else {
        acc.out(format!("base:open-row:not-verified:{l}"));
      }
      false
    }
    Ok(Ok(items)) => {
      let mut ok = items.len() == b.sigs.len();
      if !ok {
        acc.out("base:item-count-differs-from-signature-count(not-swept)");
      }
      for it in &items {
        match it {
          Ok(c) if *c == b.claims => acc.out(if b.clean { "base:verified" } else { "base:open-row:verified" }),
          Ok(c) => {
            ctx.violation("DecodedJws::claims|differ-from-signed-payload", &format!("got {:?}", String::from_utf8_lossy(c)), case);
            ok = false;
          }
          Err(l) => {
            if b.clean {
              ctx.violation(&format!("{ep}+verify|well-formed-token|rejected"), &format!("baseline token rejected with the real verifiers: {l}"), case);
            } else {
              acc.out(format!("base:open-row:not-verified:{l}"));
            }
            ok = false;
          }
        }
      }
      ok
    }
  }
}

/// The mutable regions of a built token: (region kind, signature index, byte range; kind 4 indexes the detached payload).
fn regions(t: &Tok, b: &Built) -> Vec<(u8, u8, Range<usize>)> {
  let mut r = Vec::new();
  if t.ser == 0 {
    r.push((0, 0, 0..b.token.len()));
  } else {
    for (i, s) in b.sigs.iter().enumerate() {
      if let Some(p) = &s.prot_region {
        r.push((1, i as u8, p.clone()));
      }
      r.push((3, i as u8, s.sig_region.clone()));
    }
    if let Some(p) = &b.payload_region {
      r.push((2, 0, p.clone()));
    }
  }
  if let Some(d) = &b.detached {
    r.push((4, 0, 0..d.len()));
  }
  r
}

fn apply(b: &Built, region: u8, byte: usize, xor: u8, with: u8) -> Option<(Vec<u8>, Option<Vec<u8>>)> {
  let mut token = b.token.clone();
  let mut det = b.detached.clone();
  let target: &mut Vec<u8> = if region == 4 { det.as_mut()? } else { &mut token };
  let old = *target.get(byte)?;
  let new = if xor != 0 { old ^ xor } else { with };
  if new == old {
    return None;
  }
  target[byte] = new;
  Some((token, det))
}

fn eval_mut(ctx: &Ctx, acc: &mut Acc, case: &Case, t: &Tok, b: &Built, region: u8, sig: u8, byte: usize, xor: u8, with: u8) {
  eval_mut_w(ctx, acc, case, t, b, region, sig, byte, xor, with, true)
}
/// `warm`: verify the unmutated token first (always on replay and in the sequential pass; in the parallel sweep once per
/// byte position — the mutants of one byte follow it in the same thread and, being rejected, leave nothing behind).
#[allow(clippy::too_many_arguments)]
fn eval_mut_w(ctx: &Ctx, acc: &mut Acc, case: &Case, t: &Tok, b: &Built, region: u8, sig: u8, byte: usize, xor: u8, with: u8, warm: bool) {
  let Some((token, det)) = apply(b, region, byte, xor, with) else {
    return;
  };
  acc.evals += 1;
  let ep = SER[t.ser as usize];
  // "of a verified token": the token itself is verified immediately before its mutant, in this thread — a verifier
  // that remembers something about its last success (a memo keyed by less than the whole input) is then exercised
  // in the one order that matters, and a replay of this case alone repeats that order
  if warm {
    let _ = guard(|| real_verify(t, b, &b.token, b.detached.as_deref()));
  }
  let kind = if xor != 0 { "single-bit-flip" } else { "byte-substitution" };
  let rn = REGION[region as usize];
  match guard(|| real_verify(t, b, &token, det.as_deref())) {
    Err(p) => ctx.violation(&format!("{ep}|{}", p.key()), &p.msg, case),
    Ok(Err(l)) => acc.out(format!("mut:{rn}:fails:{l}")),
    Ok(Ok(items)) => {
      // which signatures does this region belong to
      let judged: Vec<usize> = match region {
        1 | 3 => vec![sig as usize],
        _ => (0..b.sigs.len()).collect(),
      };
      for i in judged {
        match items.get(i) {
          None => acc.out(format!("mut:{rn}:fails:signature-entry-gone")),
          Some(Err(l)) => acc.out(format!("mut:{rn}:fails:{l}")),
          Some(Ok(claims)) => {
            acc.out(format!("mut:{rn}:STILL-VERIFIES"));
            ctx.violation(
              &format!("{ep}|{kind}-in-{rn}|still-verifies"),
              &format!("byte {byte} of the {rn} changed, signature {i} still verifies (claims {:?})", String::from_utf8_lossy(claims)),
              case,
            );
          }
        }
      }
    }
  }
}

/// Where a byte is inserted into a compact token `h.p.s`.
const INS_POS: [&str; 6] = ["start-of-token", "end-of-protected-segment", "start-of-payload-segment", "end-of-payload-segment", "start-of-signature-segment", "end-of-token"];
/// Inserted bytes: the ASCII whitespace characters, padding, a base64url character, the separator, NUL, `~`, `"`.
const INS: &[u8] = b" \t\n\r\x0c\x0b=A.\x00~\"";
fn inserted(b: &Built, pos: u8, byte: u8) -> Option<Vec<u8>> {
  let dots: Vec<usize> = b.token.iter().enumerate().filter(|(_, c)| **c == b'.').map(|(i, _)| i).collect();
  if dots.len() != 2 {
    return None;
  }
  let at = match pos {
    0 => 0,
    1 => dots[0],
    2 => dots[0] + 1,
    3 => dots[1],
    4 => dots[1] + 1,
    _ => b.token.len(),
  };
  let mut t = b.token.clone();
  t.insert(at, byte);
  Some(t)
}
/// The received protected segment / payload segment are longer than what was signed when a byte is inserted at
/// positions 0..=3: the signature does not cover exactly the received segments, whatever the byte. Positions 4, 5 lie
/// in the signature segment: a decoder that tolerates the byte there is not judged, but every single-bit flip of the
/// tolerated byte is a single-bit flip of a token that verified.
fn eval_ins(ctx: &Ctx, acc: &mut Acc, case: &Case, t: &Tok, b: &Built, pos: u8, with: u8, flip: u8) -> bool {
  let ep = SER[t.ser as usize];
  let first = |tok: &[u8]| -> Option<Vec<u8>> {
    match guard(|| real_verify(t, b, tok, b.detached.as_deref())) {
      Ok(Ok(items)) => items.into_iter().next().and_then(|r| r.ok()),
      _ => None,
    }
  };
  let Some(base) = inserted(b, pos, with) else { return false };
  acc.evals += 1;
  if flip != 0 {
    // the token with the insertion must verify (it is verified here, immediately before its mutant)
    if first(&base).is_none() {
      acc.out("ins:flip-of-a-token-that-does-not-verify(not judged)");
      return false;
    }
  } else {
    let _ = first(&b.token);
  }
  let Some(token) = inserted(b, pos, with ^ flip) else { return false };
  let place = INS_POS[pos as usize];
  match guard(|| real_verify(t, b, &token, b.detached.as_deref())) {
    Err(p) => {
      ctx.violation(&format!("{ep}|{}", p.key()), &p.msg, case);
      false
    }
    Ok(Err(l)) => {
      acc.out(format!("ins:{place}:fails:{l}"));
      false
    }
    Ok(Ok(items)) => match items.first() {
      Some(Ok(claims)) => {
        if flip != 0 {
          ctx.violation(
            &format!("{ep}|single-bit-flip-of-a-tolerated-inserted-byte|still-verifies"),
            &format!("byte {with:#04x} inserted at {place} verifies; with bits {flip:#04x} of that byte flipped ({:#04x}) the token still verifies (claims {:?})", with ^ flip, String::from_utf8_lossy(claims)),
            case,
          );
        } else if pos <= 3 {
          ctx.violation(
            &format!("{ep}|byte-inserted-in-{}|still-verifies", if pos <= 1 { "protected-segment" } else { "payload-segment" }),
            &format!("byte {with:#04x} inserted at {place}: the received segment is not the signed one, the token still verifies (claims {:?})", String::from_utf8_lossy(claims)),
            case,
          );
        } else {
          acc.out(format!("ins:{place}:tolerated-by-the-signature-decoding [open]"));
        }
        true
      }
      Some(Err(l)) => {
        acc.out(format!("ins:{place}:fails:{l}"));
        false
      }
      None => {
        acc.out(format!("ins:{place}:fails:no-item"));
        false
      }
    },
  }
}

/// Byte-substitution alphabets: the structural characters of the formats, and every byte value.
const SUBST: &[u8] = b"ABCDEFGHIJKLMNOPQRSTUVWXYZabcdefghijklmnopqrstuvwxyz0123456789-_.=+/\"\\ ~\x00\x7f\xff";
static ALL_BYTES: Lazy<Vec<u8>> = Lazy::new(|| (0..=255u8).collect());

/// All mutations of one baseline token. Returns the number of mutated tokens evaluated.
fn sweep(ctx: &Ctx, acc: &mut Acc, t: &Tok, subst: &[u8]) -> u64 {
  let Some(b) = build(t, false, None) else { return 0 };
  // rows outside the family whose acceptance is demanded (payload needing JSON escapes, RFC 7797-restricted compact
  // payloads) are swept as well whenever the library verifies them
  acc.evals += 1;
  if !check_baseline(ctx, acc, &Case::Base { t: t.clone() }, t, &b) {
    return 1;
  }
  acc.distinct.push(Ctx::hash_of(&(2u8, t)));
  let before = acc.evals;
  for (region, sig, range) in regions(t, &b) {
    for byte in range {
      for bit in 0..8u8 {
        let c = Case::Mut { t: t.clone(), region, sig, byte: byte as u32, xor: 1 << bit, with: 0 };
        eval_mut_w(ctx, acc, &c, t, &b, region, sig, byte, 1 << bit, 0, bit == 0);
      }
      {
        for &w in subst {
          let c = Case::Mut { t: t.clone(), region, sig, byte: byte as u32, xor: 0, with: w };
          eval_mut_w(ctx, acc, &c, t, &b, region, sig, byte, 0, w, false);
        }
      }
    }
  }
  // byte insertions (compact serialization): at both ends of every segment
  if t.ser == 0 {
    for pos in 0..6u8 {
      if t.det && (pos == 2 || pos == 3) {
        continue; // would add an embedded payload to a detached-payload token: part (d)
      }
      for &with in INS {
        let c = Case::Ins { t: t.clone(), pos, with, flip: 0 };
        if eval_ins(ctx, acc, &c, t, &b, pos, with, 0) && pos >= 4 {
          for bit in 0..8u8 {
            let c = Case::Ins { t: t.clone(), pos, with, flip: 1 << bit };
            eval_ins(ctx, acc, &c, t, &b, pos, with, 1 << bit);
          }
        }
      }
    }
  }
  // attack shape: a verifying detached-payload token re-submitted with a non-empty embedded payload added
  if t.det {
    for pe in 0..PAYLOADS.len() as u8 {
      let c = Case::Src { t: Tok { pl: pe, det: false, ..t.clone() }, src: 2, pd: t.pl, over: 0, doc: false };
      if let Case::Src { t: tt, .. } = &c {
        eval_src(ctx, acc, &c, tt, 2, t.pl, 0, false);
      }
    }
  }
  acc.evals - before + 1
}

// ------------------------------------------------------------------ CoreDocument::verify_jws
const DID: &str = "did:example:123";
fn kid_of(alg: u8) -> String {
  format!("{DID}#k-{}", ALG[alg as usize])
}
fn document(pin_other: bool) -> CoreDocument {
  let methods: Vec<serde_json::Value> = (0..6u8)
    .map(|i| {
      let (a, which) = (i % 3, (i / 3) as usize);
      let mut k = public(a, which);
      if pin_other {
        k.set_alg(ALG[((a + 1) % 3) as usize]);
      }
      let id = if which == 0 { kid_of(a) } else { format!("{DID}#k2-{}", ALG[a as usize]) };
      json!({"id": id, "controller": DID, "type": "JsonWebKey2020", "publicKeyJwk": k})
    })
    .collect();
  CoreDocument::from_json_value(json!({"id": DID, "verificationMethod": methods})).expect("harness document")
}
static DOCS: Lazy<[CoreDocument; 2]> = Lazy::new(|| [document(false), document(true)]);

fn eval_doc(ctx: &Ctx, acc: &mut Acc, case: &Case, t: &Tok, pin_other: bool, m: Option<(u8, u32, u8, u8)>, other_method: bool) {
  acc.evals += 1;
  let kid = kid_of(t.alg);
  let Some(b) = build(t, other_method, Some(&kid)) else {
    acc.out("doc:row-not-expressible");
    return;
  };
  let (token, det) = match m {
    None => (b.token.clone(), b.detached.clone()),
    Some((region, byte, xor, with)) => match apply(&b, region, byte as usize, xor, with) {
      Some(x) => x,
      None => return,
    },
  };
  let Ok(jws) = std::str::from_utf8(&token) else {
    acc.out("doc:mutation-not-a-str(not-expressible-through-this-api)");
    return;
  };
  let doc = &DOCS[pin_other as usize];
  let ep = "CoreDocument::verify_jws";
  let r = guard(|| doc.verify_jws(jws, det.as_deref(), &RealVerifier, &JwsVerificationOptions::default()).map(|d| d.claims.to_vec()));
  match r {
    Err(p) => ctx.violation(&format!("{ep}|{}", p.key()), &p.msg, case),
    Ok(Ok(claims)) => {
      acc.out("doc:verified");
      if pin_other {
        ctx.violation(&format!("{ep}|key-alg-differs-from-header-alg|accepted"), "", case);
      }
      if other_method {
        ctx.violation(&format!("{ep}|signature-by-the-key-of-another-method|accepted"), "the kid names one method of the document, the signature is by the key of another one", case);
      }
      if let Some((region, byte, xor, _)) = m {
        let kind = if xor != 0 { "single-bit-flip" } else { "byte-substitution" };
        ctx.violation(&format!("{ep}|{kind}-in-{}|still-verifies", REGION[region as usize]), &format!("byte {byte} changed, still verifies"), case);
      }
      if claims != b.claims {
        ctx.violation(&format!("{ep}|claims-differ-from-signed-payload"), &format!("got {:?}", String::from_utf8_lossy(&claims)), case);
      }
      acc.distinct.push(Ctx::hash_of(&(3u8, t, pin_other, other_method)));
    }
    Ok(Err(e)) => {
      let l: String = format!("{e}").chars().take(40).collect();
      acc.out(format!("doc:fails:{l}"));
      if m.is_none() && !pin_other && !other_method && b.clean {
        ctx.violation(&format!("{ep}|well-formed-token|rejected"), &format!("{e:?}"), case);
      }
    }
  }
}

// ------------------------------------------------------------------ (d) payload sources
fn eval_src(ctx: &Ctx, acc: &mut Acc, case: &Case, t: &Tok, src: u8, pd: u8, over: u8, doc: bool) {
  acc.evals += 1;
  let pe_sent = sent_of(t.b64, t.pl);
  let pd_sent = sent_of(t.b64, pd);
  let ov = if src == 2 {
    Ov { embed: Some(pe_sent.clone()), detached: Some(pd_sent.clone()), signed: if over == 0 { pd_sent.clone() } else { pe_sent.clone() } }
  } else {
    Ov { embed: None, detached: None, signed: pe_sent.clone() }
  };
  let kid = kid_of(t.alg);
  let Some(b) = build_ov(t, false, doc.then_some(kid.as_str()), Some(&ov)) else {
    acc.out("src:row-not-expressible");
    return;
  };
  let ep: String = if doc { "CoreDocument::verify_jws".into() } else { SER[t.ser as usize].into() };
  // per signature: verified or the reason it was not
  let res: Result<Vec<Result<(), String>>, vx::Panicked> = if doc {
    let Ok(jws) = std::str::from_utf8(&b.token) else {
      acc.out("src:token-not-a-str(not-expressible-through-this-api)");
      return;
    };
    guard(|| {
      vec![DOCS[0]
        .verify_jws(jws, b.detached.as_deref(), &RealVerifier, &JwsVerificationOptions::default())
        .map(|_| ())
        .map_err(|e| format!("{e}").chars().take(40).collect::<String>())]
    })
  } else {
    guard(|| match real_verify(t, &b, &b.token, b.detached.as_deref()) {
      Err(l) => vec![Err(l)],
      Ok(items) => items.into_iter().map(|r| r.map(|_| ())).collect(),
    })
  };
  let class = match (src, pd_sent == pe_sent) {
    (2, false) => "both:pd!=pe",
    (2, true) => "both:pd==pe(open)",
    _ => "neither(open)",
  };
  let over_s = if over == 0 { "sig-over-detached" } else { "sig-over-embedded" };
  match res {
    Err(p) => ctx.violation(&format!("{ep}|{}", p.key()), &p.msg, case),
    Ok(items) => {
      for r in items {
        match r {
          Ok(()) => {
            acc.out(format!("src:{class}:{over_s}:VERIFIED"));
            if src == 2 && pd_sent != pe_sent {
              ctx.violation(
                &format!("{ep}|both-payload-sources|verified"),
                &format!(
                  "token carries payload {:?}, caller supplied detached payload {:?}, {over_s}: reported verified although one of the two received payloads is not covered by the signature",
                  String::from_utf8_lossy(&pe_sent),
                  String::from_utf8_lossy(&pd_sent)
                ),
                case,
              );
            }
          }
          Err(l) => acc.out(format!("src:{class}:{over_s}:not-verified:{l}")),
        }
      }
    }
  }
  acc.distinct.push(Ctx::hash_of(&(5u8, t, src, pd, over, doc)));
}

// ------------------------------------------------------------------ (c) verifier table
const VMSG: &[u8] = b"eyJhbGciOiJFZERTQSJ9.aGk";
const VMSG2: &[u8] = b"eyJhbGciOiJFZERTQSJ9.aGl";
const VKEYS: [&str; 19] = [
  "ed25519",
  "p256",
  "k256",
  "okp-labelled-X25519",
  "ed25519-x-31-bytes",
  "p256-x-31-bytes",
  "p256-labelled-secp256k1",
  "k256-labelled-P-256",
  "ed25519-other",
  "k256-x-31-bytes",
  "p256-y-33-bytes",
  "p256-other",
  "k256-other",
  // the signer's x with a y that is not the signer's (such a key is another key — in general not even a curve point)
  "p256-x-of-signer-y-top-bit-flipped",
  "p256-x-of-signer-y-second-lowest-bit-flipped",
  "p256-x-of-signer-y-of-the-other-key",
  "k256-x-of-signer-y-top-bit-flipped",
  "k256-x-of-signer-y-second-lowest-bit-flipped",
  "k256-x-of-signer-y-of-the-other-key",
];
const VSIGS: [&str; 18] = [
  "valid-ed",
  "valid-p256",
  "valid-k256",
  "ed-truncated",
  "ed-plus-one-byte",
  "p256-truncated",
  "k256-plus-one-byte",
  "empty",
  "64-zero-bytes",
  "ed-over-other-message",
  "p256-plus-one-byte",
  "k256-truncated",
  "p256-over-other-message",
  "k256-over-other-message",
  "p256-r-and-s-swapped",
  "k256-r-and-s-swapped",
  "p256-s-negated",
  "k256-s-negated",
];
const VALGS: [&str; 8] = ["EdDSA", "ES256", "ES256K", "ES384", "HS256", "none", "RS256", "ES512"];
const VALG: [JwsAlgorithm; 8] = [
  JwsAlgorithm::EdDSA,
  JwsAlgorithm::ES256,
  JwsAlgorithm::ES256K,
  JwsAlgorithm::ES384,
  JwsAlgorithm::HS256,
  JwsAlgorithm::NONE,
  JwsAlgorithm::RS256,
  JwsAlgorithm::ES512,
];

fn vkey(k: u8) -> Jwk {
  use identity_jose::jwk::JwkParams;
  let trunc = |s: &str| -> String {
    let mut bytes = identity_jose::jwu::decode_b64(s).unwrap();
    bytes.pop();
    b64(bytes)
  };
  match k {
    0 => public(0, 0),
    1 => public(1, 0),
    2 => public(2, 0),
    3 => {
      let mut j = public(0, 0);
      if let JwkParams::Okp(p) = j.params_mut() {
        p.crv = "X25519".into();
      }
      j
    }
    4 => {
      let mut j = public(0, 0);
      if let JwkParams::Okp(p) = j.params_mut() {
        p.x = trunc(&p.x);
      }
      j
    }
    5 => {
      let mut j = public(1, 0);
      if let JwkParams::Ec(p) = j.params_mut() {
        p.x = trunc(&p.x);
      }
      j
    }
    6 => {
      let mut j = public(1, 0);
      if let JwkParams::Ec(p) = j.params_mut() {
        p.crv = "secp256k1".into();
      }
      j
    }
    7 => {
      let mut j = public(2, 0);
      if let JwkParams::Ec(p) = j.params_mut() {
        p.crv = "P-256".into();
      }
      j
    }
    8 => public(0, 1),
    9 => {
      let mut j = public(2, 0);
      if let JwkParams::Ec(p) = j.params_mut() {
        p.x = trunc(&p.x);
      }
      j
    }
    10 => {
      let mut j = public(1, 0);
      if let JwkParams::Ec(p) = j.params_mut() {
        let mut bytes = identity_jose::jwu::decode_b64(&p.y).unwrap();
        bytes.push(7);
        p.y = b64(bytes);
      }
      j
    }
    11 => public(1, 1),
    12 => public(2, 1),
    n => {
      // 13..=15 P-256, 16..=18 secp256k1
      let alg = if n <= 15 { 1 } else { 2 };
      let shape = (n - 13) % 3;
      let mut j = public(alg, 0);
      let other_y = match public(alg, 1).params() {
        JwkParams::Ec(p) => p.y.clone(),
        _ => String::new(),
      };
      if let JwkParams::Ec(p) = j.params_mut() {
        let mut y = identity_jose::jwu::decode_b64(&p.y).unwrap();
        match shape {
          0 => y[0] ^= 0x80,
          1 => {
            let last = y.len() - 1;
            y[last] ^= 0x02;
          }
          _ => y = identity_jose::jwu::decode_b64(&other_y).unwrap(),
        }
        p.y = b64(y);
      }
      j
    }
  }
}
fn vsig(s: u8) -> Vec<u8> {
  let swapped = |mut v: Vec<u8>| -> Vec<u8> {
    v.rotate_left(32);
    v
  };
  match s {
    0 => sign(0, 0, VMSG),
    1 => sign(1, 0, VMSG),
    2 => sign(2, 0, VMSG),
    3 => {
      let mut v = sign(0, 0, VMSG);
      v.pop();
      v
    }
    4 => {
      let mut v = sign(0, 0, VMSG);
      v.push(0);
      v
    }
    5 => {
      let mut v = sign(1, 0, VMSG);
      v.pop();
      v
    }
    6 => {
      let mut v = sign(2, 0, VMSG);
      v.push(0);
      v
    }
    7 => Vec::new(),
    8 => vec![0; 64],
    9 => sign(0, 0, VMSG2),
    10 => {
      let mut v = sign(1, 0, VMSG);
      v.push(0);
      v
    }
    11 => {
      let mut v = sign(2, 0, VMSG);
      v.pop();
      v
    }
    12 => sign(1, 0, VMSG2),
    13 => sign(2, 0, VMSG2),
    14 => swapped(sign(1, 0, VMSG)),
    15 => swapped(sign(2, 0, VMSG)),
    // (r, n - s): the other ECDSA signature of the same message by the same key
    16 => {
      let sig = p256::ecdsa::Signature::from_slice(&sign(1, 0, VMSG)).expect("harness p256 signature");
      let (r, s) = sig.split_scalars();
      p256::ecdsa::Signature::from_scalars(r, -*s).expect("harness p256 twin").to_bytes().to_vec()
    }
    _ => {
      let sig = k256::ecdsa::Signature::from_slice(&sign(2, 0, VMSG)).expect("harness k256 signature");
      let (r, s) = sig.split_scalars();
      k256::ecdsa::Signature::from_scalars(r, -*s).expect("harness k256 twin").to_bytes().to_vec()
    }
  }
}
/// `via` 0: the library verifier that is responsible for `alg` (EdDSA -> EdDSAJwsVerifier, ES256/ES256K ->
/// EcDSAJwsVerifier; for the algorithms neither supports: EdDSAJwsVerifier); 1: the other one.
fn eval_ver(ctx: &Ctx, acc: &mut Acc, case: &Case, alg: u8, key: u8, sig: u8, via: u8) {
  acc.evals += 1;
  let a = VALG[alg as usize];
  let k = vkey(key);
  let input = VerificationInput { alg: a, signing_input: VMSG.to_vec().into(), decoded_signature: vsig(sig).into() };
  let ed_verifier = matches!(alg, 1 | 2) == (via == 1);
  let who = match (ed_verifier, alg) {
    (true, 0) => "EdDSAJwsVerifier::verify",
    (true, _) => "EdDSAJwsVerifier::verify[alg-is-not-EdDSA]",
    (false, 1) => "EcDSAJwsVerifier::verify[ES256]",
    (false, 2) => "EcDSAJwsVerifier::verify[ES256K]",
    (false, _) => "EcDSAJwsVerifier::verify[alg-is-neither-ES256-nor-ES256K]",
  };
  // the (verifier, alg, key, signature) rows that are a genuine signature by that very key over the message under
  // the algorithm handed to the verifier responsible for it
  // (acceptance is demanded from the responsible verifier only; should the other one accept such a row, it is right)
  let genuine = matches!((alg, key, sig), (0, 0, 0) | (1, 1, 1) | (2, 2, 2));
  // open rows (recorded, not judged): key material genuine for the alg but carrying another curve label or a
  // coordinate with trailing bytes (the statement is about tokens, not about malformed caller keys); the (r, n-s) twin
  // of a genuine ECDSA signature (mathematically a signature of the same message by the same key; whether a
  // verifier insists on one of the two forms is not the property's business)
  let open = matches!((alg, key, sig), (1, 6, 1) | (2, 7, 2) | (1, 10, 1) | (1, 1, 16) | (2, 2, 17) | (1, 6, 16) | (2, 7, 17) | (1, 10, 16));
  let res = guard(|| {
    if ed_verifier {
      identity_eddsa_verifier::EdDSAJwsVerifier::default().verify(input, &k)
    } else {
      identity_ecdsa_verifier::EcDSAJwsVerifier::default().verify(input, &k)
    }
  });
  match res {
    Err(p) => ctx.violation(&format!("{who}|{}", p.key()), &p.msg, case),
    Ok(Ok(())) => {
      if genuine {
        acc.out(if via == 0 { "ver:accepted-genuine" } else { "ver:accepted-genuine(by-the-other-verifier)" });
      } else if open {
        acc.out(format!("ver:open:accepted:{}:{}", VKEYS[key as usize], VSIGS[sig as usize]));
      } else {
        ctx.violation(
          &format!("{who}|not-a-signature-by-this-key-under-this-alg|accepted"),
          &format!("alg {} key {} signature {}", VALGS[alg as usize], VKEYS[key as usize], VSIGS[sig as usize]),
          case,
        );
      }
    }
    Ok(Err(e)) => {
      acc.out(format!("ver:rejected:{}", e.kind()));
      if genuine && via == 0 {
        ctx.violation(&format!("{who}|genuine-signature|rejected"), &format!("{e}"), case);
      }
    }
  }
  acc.distinct.push(Ctx::hash_of(&(4u8, alg, key, sig, via)));
}

// ------------------------------------------------------------------ eval / generate
fn eval_into(ctx: &Ctx, acc: &mut Acc, case: &Case) {
  match case {
    Case::Rec { t, pin, other_signer, force_err } => {
      acc.evals += 1;
      eval_rec(ctx, acc, case, t, *pin, *other_signer, *force_err)
    }
    Case::Base { t } => {
      acc.evals += 1;
      if let Some(b) = build(t, false, None) {
        check_baseline(ctx, acc, case, t, &b);
      }
    }
    Case::Mut { t, region, sig, byte, xor, with } => {
      if let Some(b) = build(t, false, None) {
        eval_mut(ctx, acc, case, t, &b, *region, *sig, *byte as usize, *xor, *with);
      }
    }
    Case::Doc { t, pin_other, m, other_method } => eval_doc(ctx, acc, case, t, *pin_other, *m, *other_method),
    Case::Ver { alg, key, sig, via } => eval_ver(ctx, acc, case, *alg, *key, *sig, *via),
    Case::GenMix { entries } => eval_genmix(ctx, acc, case, entries),
    Case::Ins { t, pos, with, flip } => {
      if let Some(b) = build(t, false, None) {
        eval_ins(ctx, acc, case, t, &b, *pos, *with, *flip);
      }
    }
    Case::Src { t, src, pd, over, doc } => eval_src(ctx, acc, case, t, *src, *pd, *over, *doc),
  }
}
/// Entry kinds of (e). Every entry's signature is a genuine EdDSA signature by key #0 over `<its own protected
/// member as sent>.<payload>` unless said otherwise; only `valid` names EdDSA in a decodable protected header.
const GENMIX: [&str; 7] = [
  "valid",
  "decodable-header|garbage-signature",
  "protected-not-base64",
  "protected-base64-of-non-json",
  "protected-names-an-unknown-alg",
  "alg-only-in-the-unprotected-header",
  "protected-absent|alg-in-unprotected-header",
];
fn eval_genmix(ctx: &Ctx, acc: &mut Acc, case: &Case, entries: &[u8]) {
  acc.evals += 1;
  const EP: &str = "Decoder::decode_general_serialization";
  let payload = b"{\"x\":1}";
  let pb = b64(payload);
  let mut parts = Vec::new();
  let mut sigs: Vec<Vec<u8>> = Vec::new();
  for (n, e) in entries.iter().enumerate() {
    // every entry gets its own kid so that the items can be told apart
    let (prot, unprot): (Option<String>, Option<String>) = match e {
      0 | 1 => (Some(b64(format!("{{\"alg\":\"EdDSA\",\"kid\":\"e{n}\"}}").as_bytes())), None),
      2 => (Some(format!("!!{n}")), None),
      3 => (Some(b64(format!("not-json-{n}").as_bytes())), None),
      4 => (Some(b64(format!("{{\"alg\":\"HS999\",\"kid\":\"e{n}\"}}").as_bytes())), None),
      5 => (Some(b64(format!("{{\"kid\":\"e{n}\"}}").as_bytes())), Some("{\"alg\":\"EdDSA\"}".to_string())),
      _ => (None, Some(format!("{{\"alg\":\"EdDSA\",\"kid\":\"e{n}\"}}"))),
    };
    let input = format!("{}.{pb}", prot.clone().unwrap_or_default());
    let sig = if *e == 1 { vec![n as u8 + 1; 64] } else { sign(0, 0, input.as_bytes()) };
    let mut m = Vec::new();
    if let Some(p) = &prot {
      m.push(format!("\"protected\":\"{p}\""));
    }
    if let Some(u) = &unprot {
      m.push(format!("\"header\":{u}"));
    }
    m.push(format!("\"signature\":\"{}\"", b64(&sig)));
    parts.push(format!("{{{}}}", m.join(",")));
    sigs.push(sig);
  }
  let token = format!("{{\"payload\":\"{pb}\",\"signatures\":[{}]}}", parts.join(","));
  let names: Vec<&str> = entries.iter().map(|e| GENMIX[*e as usize]).collect();
  let r = guard(|| {
    with_items(2, token.as_bytes(), None, |items| -> Result<Vec<(usize, Result<(Option<String>, Vec<u8>), String>)>, String> {
      let items = items.map_err(|e| err_label(&e))?;
      let mut out = Vec::new();
      for (pos, item) in items.into_iter().enumerate() {
        match item {
          Err(e) => out.push((pos, Err(format!("decode:{}", err_label(&e))))),
          Ok(item) => {
            // the entry this item carries: by its signature bytes
            let idx = sigs.iter().position(|s| s[..] == *item.decoded_signature()).unwrap_or(pos);
            let alg = item.protected_header().and_then(|h| h.alg()).map(|a| a.name().to_string());
            out.push((idx, item.verify(&RealVerifier, &public(0, 0)).map(|d| (alg, d.claims.to_vec())).map_err(|e| format!("verify:{}", err_label(&e)))));
          }
        }
      }
      Ok(out)
    })
  });
  match r {
    Err(p) => ctx.violation(&format!("{EP}|{}", p.key()), &format!("{} | entries {names:?}", p.msg), case),
    Ok(Err(l)) => {
      // the whole token refused: fail-closed; demanded is acceptance only when every entry is valid
      if entries.iter().all(|e| *e == 0) {
        ctx.violation(&format!("{EP}|well-formed-token|rejected"), &format!("{l} | entries {names:?}"), case);
      }
      acc.out(format!("genmix:token-rejected:{l}"));
    }
    Ok(Ok(items)) => {
      let mut verified = vec![false; entries.len()];
      for (idx, res) in items {
        let kind = entries.get(idx).copied().unwrap_or(0);
        match res {
          Ok((alg, claims)) => {
            if kind != 0 {
              ctx.violation(
                &format!("JwsValidationItem::verify|general-entry:{}|accepted", GENMIX[kind as usize]),
                &format!("entry #{idx} of {names:?} was reported verified (protected alg handed out: {alg:?}); token {token}"),
                case,
              );
            } else if claims != payload || alg.as_deref() != Some("EdDSA") {
              ctx.violation("JwsValidationItem::verify|general-entry|claims-or-alg-differ-from-received", &format!("entry #{idx} of {names:?}: alg {alg:?}"), case);
            } else if let Some(v) = verified.get_mut(idx) {
              *v = true;
            }
            acc.out(format!("genmix:{}:verified", GENMIX[kind as usize]));
          }
          Err(l) => acc.out(format!("genmix:{}:fails:{l}", GENMIX[kind as usize])),
        }
      }
      // liveness only where every entry is valid (what a decoder does with the valid siblings of a bad entry is not fixed)
      if entries.iter().all(|e| *e == 0) && verified.iter().any(|v| !*v) {
        ctx.violation(&format!("{EP}|well-formed-token|rejected"), &format!("a valid entry of an all-valid token did not verify | entries {names:?}"), case);
      }
    }
  }
  ctx.distinct(&(9u8, entries.to_vec()));
}
fn eval(ctx: &Ctx, case: &Case) {
  let mut acc = Acc::default();
  eval_into(ctx, &mut acc, case);
  acc.flush(ctx);
}

fn toks(algs: &[u8], sps: &[u8], pls: &[u8], aps: &[u8]) -> Vec<Tok> {
  let mut v = Vec::new();
  for &alg in algs {
    for ser in 0..4u8 {
      for det in [false, true] {
        for b64 in 0..3u8 {
          for &pl in pls {
            for &sp in sps {
              for &ap in aps {
                v.push(Tok { ser, det, b64, pl, sp, ap, alg });
              }
            }
          }
        }
      }
    }
  }
  v
}

fn account(ctx: &Ctx, name: &str, n: u64, mut detail: serde_json::Value) {
  detail["elapsed_s_at_end"] = json!((ctx.elapsed_s() * 10.0).round() / 10.0);
  ctx.add_states(n);
  ctx.add_transitions(n);
  ctx.add_traces(n);
  ctx.part(name, detail);
}

fn generate(ctx: &Ctx) {
  ctx.rule("(a) full product of the token construction table, each token assembled and signed by the harness, decoded and verified with a recording verifier; (b) every single-bit flip (plus byte substitutions: quick a structural alphabet on the EdDSA/payload-#5 tokens; thorough all 255 other values on every EdDSA token in the plain spelling and the structural alphabet on the ECDSA ones) of every byte of the protected segment / payload / signature segment (compact: whole token) of every baseline token, executed with the real verifiers, also through CoreDocument::verify_jws; (c) verifier x alg x key x signature table on the two concrete library verifiers; (d) payload-source product alg x serialization x b64 x spelling x Pe x Pd x {signature over h.Pd, over h.Pe} with both an embedded and a detached payload, plus NEITHER, also through verify_jws. distinct_nontrivial = distinct construction rows that verified or lie outside the baseline family, distinct tokens swept (baseline family, and rows outside it that the library verifies), distinct verifier-table rows");
  ctx.assume("fixed-seed keys; p256/k256/iota-crypto signing in the harness is trusted to produce genuine signatures; a changed signing input or signature verifying by chance is ignored (2^-128)");
  let all: Vec<u8> = (0..PAYLOADS.len() as u8).collect();
  let aps = [0u8, 1, 2, 3, 4, 5];
  // ---- (a)
  let mut rows: Vec<Tok> = toks(&[0], &[0, 1, 2, 3], &all, &aps);
  if ctx.quick() {
    rows.extend(toks(&[1, 2], &[0, 3], &[1, 5, 6], &aps));
  } else {
    rows.extend(toks(&[1, 2], &[0, 1, 2, 3], &all, &aps));
  }
  rows.retain(|t| build(t, false, None).is_some());
  let mut cases = Vec::new();
  for t in &rows {
    for pin in 0..PINS {
      for other_signer in [false, true] {
        for force_err in [false, true] {
          cases.push(Case::Rec { t: t.clone(), pin, other_signer, force_err });
        }
      }
    }
  }
  ctx.sample("recording verifier", &cases[cases.len() / 2]);
  ctx.sample("recording verifier", &cases[7]);
  cases.par_chunks(256).for_each(|chunk| {
    let mut acc = Acc::default();
    for c in chunk {
      eval_into(ctx, &mut acc, c);
    }
    acc.flush(ctx);
  });
  account(ctx, "(a) construction table with recording verifier", cases.len() as u64, json!({"engine":"E1 full product","rows": cases.len(), "tokens": rows.len()}));
  ctx.bound("construction_rows", cases.len());

  // ---- (b)
  let mut base: Vec<Tok>;
  if ctx.quick() {
    base = toks(&[0], &[0, 2], &all, &[0]);
    base.extend(toks(&[1, 2], &[0], &[1, 6], &[0]));
  } else {
    base = toks(&[0, 1, 2], &[0, 1, 2, 3], &all, &[0]);
  }
  // (b0) one thread, nothing else running: every baseline token is verified and then, straight away, its first
  // single-bit mutant of every region — deterministic even if a verifier keeps process-wide state between calls
  {
    let mut acc = Acc::default();
    let mut n = 0u64;
    for t in &base {
      let Some(b) = build(t, false, None) else { continue };
      for (region, sig, range) in regions(t, &b) {
        if let Some(byte) = range.clone().next() {
          let c = Case::Mut { t: t.clone(), region, sig, byte: byte as u32, xor: 1, with: 0 };
          eval_mut(ctx, &mut acc, &c, t, &b, region, sig, byte, 1, 0);
          n += 1;
        }
        if let Some(byte) = range.last() {
          let c = Case::Mut { t: t.clone(), region, sig, byte: byte as u32, xor: 0x80, with: 0 };
          eval_mut(ctx, &mut acc, &c, t, &b, region, sig, byte, 0x80, 0);
          n += 1;
        }
      }
    }
    acc.flush(ctx);
    account(ctx, "(b0) sequential pass: token verified, then its mutant, one thread", n, json!({"engine":"E1 full product","mutants": n, "baseline_tokens": base.len()}));
  }
  let swept = std::sync::atomic::AtomicU64::new(0);
  let tokens = std::sync::atomic::AtomicU64::new(0);
  base.par_iter().for_each(|t| {
    let mut acc = Acc::default();
    // thorough: every other value of every byte for the EdDSA tokens in the plain spelling (this contains every
    // multi-bit change within one byte), the structural alphabet for the ECDSA tokens in the plain spelling
    // quick: the structural alphabet for the EdDSA tokens in the plain spelling that carry payload #5
    let subst: &[u8] = match (ctx.thorough(), t.sp == 0, t.alg) {
      (true, true, 0) => &ALL_BYTES,
      (true, true, _) => SUBST,
      (false, true, 0) if t.pl == 5 => SUBST,
      _ => &[],
    };
    let n = sweep(ctx, &mut acc, t, subst);
    if n > 0 {
      tokens.fetch_add(1, std::sync::atomic::Ordering::Relaxed);
    }
    swept.fetch_add(n, std::sync::atomic::Ordering::Relaxed);
    acc.flush(ctx);
  });
  let (swept, tokens) = (swept.into_inner(), tokens.into_inner());
  ctx.sample("mutation sweep", &Case::Mut { t: base[0].clone(), region: 0, sig: 0, byte: 3, xor: 4, with: 0 });
  ctx.sample("mutation sweep", &Case::Base { t: base[base.len() / 2].clone() });
  account(ctx, "(b) single-bit flips / byte substitutions with the real verifiers", swept, json!({"engine":"E1 full product","baseline_tokens": tokens, "mutated_tokens_verified": swept, "byte_substitutions": ctx.by_tier("EdDSA plain spelling with payload #5: structural alphabet", "EdDSA plain spelling: all 255 other byte values; ES256/ES256K plain spelling: structural alphabet")}));
  ctx.bound("baseline_tokens_swept", tokens);
  ctx.require(tokens > 0, "no baseline token was swept");

  // ---- (b') CoreDocument::verify_jws
  let mut cases = Vec::new();
  let algs: &[u8] = if ctx.quick() { &[0] } else { &[0, 1, 2] };
  for &alg in algs {
    for det in [false, true] {
      for b64m in 0..3u8 {
        for pl in [0u8, 1, 5, 6] {
          for sp in [0u8, 2] {
            let t = Tok { ser: 0, det, b64: b64m, pl, sp, ap: 0, alg };
            let kid = kid_of(alg);
            let Some(b) = build(&t, false, Some(&kid)) else { continue };
            cases.push(Case::Doc { t: t.clone(), pin_other: false, m: None, other_method: false });
            cases.push(Case::Doc { t: t.clone(), pin_other: true, m: None, other_method: false });
            cases.push(Case::Doc { t: t.clone(), pin_other: false, m: None, other_method: true });
            if !b.clean || (ctx.quick() && sp != 0) {
              continue;
            }
            for (region, _, range) in regions(&t, &b) {
              for byte in range {
                for bit in 0..8u8 {
                  cases.push(Case::Doc { t: t.clone(), pin_other: false, m: Some((region, byte as u32, 1 << bit, 0)), other_method: false });
                }
              }
            }
          }
        }
      }
    }
  }
  ctx.sample("verify_jws", &cases[0]);
  ctx.sample("verify_jws", &cases[cases.len() / 2]);
  cases.par_chunks(256).for_each(|chunk| {
    let mut acc = Acc::default();
    for c in chunk {
      eval_into(ctx, &mut acc, c);
    }
    acc.flush(ctx);
  });
  account(ctx, "(b') CoreDocument::verify_jws baseline + single-bit flips", cases.len() as u64, json!({"engine":"E1 full product","rows": cases.len()}));

  // ---- (d) payload sources
  let mut cases = Vec::new();
  let n = PAYLOADS.len() as u8;
  for alg in 0..3u8 {
    for ser in 0..4u8 {
      for b64m in 0..3u8 {
        for sp in 0..4u8 {
          for pe in 0..n {
            let t = Tok { ser, det: false, b64: b64m, pl: pe, sp, ap: 0, alg };
            for pd in 0..n {
              for over in 0..2u8 {
                cases.push(Case::Src { t: t.clone(), src: 2, pd, over, doc: false });
                if ser == 0 {
                  cases.push(Case::Src { t: t.clone(), src: 2, pd, over, doc: true });
                }
              }
            }
            cases.push(Case::Src { t: t.clone(), src: 3, pd: pe, over: 1, doc: false });
            if ser == 0 {
              cases.push(Case::Src { t: t.clone(), src: 3, pd: pe, over: 1, doc: true });
            }
          }
        }
      }
    }
  }
  ctx.sample("payload sources", &cases[1]);
  ctx.sample("payload sources", &cases[cases.len() / 2]);
  cases.par_chunks(128).for_each(|chunk| {
    let mut acc = Acc::default();
    for c in chunk {
      eval_into(ctx, &mut acc, c);
    }
    acc.flush(ctx);
  });
  account(ctx, "(d) payload sources: BOTH (embedded Pe + detached Pd, signature over either) and NEITHER, all serializations + verify_jws", cases.len() as u64, json!({"engine":"E1 full product","rows": cases.len()}));

  // ---- (c)
  let mut cases = Vec::new();
  for alg in 0..VALGS.len() as u8 {
    for key in 0..VKEYS.len() as u8 {
      for sig in 0..VSIGS.len() as u8 {
        for via in 0..2u8 {
          cases.push(Case::Ver { alg, key, sig, via });
        }
      }
    }
  }
  ctx.sample("verifier table", &cases[0]);
  cases.par_iter().for_each(|c| eval(ctx, c));
  account(ctx, "(c) concrete verifier table", cases.len() as u64, json!({"engine":"E1 full product","rows": cases.len(), "algs": VALGS, "keys": VKEYS, "signatures": VSIGS}));
  // (e) general serialization, every sequence of 1..=3 entries over the GENMIX alphabet
  let mut cases = Vec::new();
  for n in 1..=3usize {
    let mut idx = vec![0u8; n];
    loop {
      cases.push(Case::GenMix { entries: idx.clone() });
      let mut k = 0;
      while k < n {
        idx[k] += 1;
        if (idx[k] as usize) < GENMIX.len() {
          break;
        }
        idx[k] = 0;
        k += 1;
      }
      if k == n {
        break;
      }
    }
  }
  ctx.sample("general entries", &cases[cases.len() / 2]);
  cases.par_iter().for_each(|c| eval(ctx, c));
  account(ctx, "(e) general serialization, mixed signature entries", cases.len() as u64, json!({"engine":"E1 full product","tokens": cases.len(), "entry_alphabet": GENMIX, "entries_per_token": "1..=3"}));
  ctx.bound("payloads", PAYLOADS.iter().map(|p| String::from_utf8_lossy(p).to_string()).collect::<Vec<_>>());
  ctx.bound("substitution_alphabet_len", json!({"EdDSA plain spelling": ctx.by_tier(SUBST.len(), 255), "ES256/ES256K plain spelling": ctx.by_tier(0, SUBST.len())}));
  ctx.bound("key_alg_pins", PINS);
}

fn main() {
  vx::run_main::<Case, _, _>("C01", Level::ModelChecking, generate, eval)
}
