//! C06 — revocation bitmaps round-trip and revoke exactly the requested indices.
//!
//! (a) full products / complete structured families of u32 sets (all 4 096 subsets of a 12-index universe,
//!     prefix sets, strided sets, multiplicative-hash sets, run unions, dense sets with holes): the set is built
//!     through `RevocationBitmap::revoke`, `to_service` -> `RevocationBitmap::try_from(&Service)` (also through the
//!     JSON form of the service and through `resolve_revocation_bitmap` of a document holding it) must return the
//!     same set; the harness builds the legacy double encoding of the same set with its own roaring / zlib /
//!     base64 code, which must decode to the same set too.
//! (b) E2 to closure: revoke/unrevoke batch histories on a document with two bitmap services (CoreDocument and
//!     IotaDocument; fresh and legacy start endpoints). Batches are ORDERED index sequences with duplicates (every
//!     sequence of length 0..=2 / 0..=3 over the universe); `BTreeSet<u32>` model per service; after every step the
//!     membership of every universe index and its +-1 neighbours is compared for BOTH services and the rest of the
//!     document must be untouched.
//! (c) after every step of (b): `JwtCredentialValidatorUtils::check_status` on a credential pointing at each probe
//!     index of each service reports `Revoked` iff the index is a member; once per distinct document state also the
//!     status-entry variants (no index query, query != property, malformed index, dangling / wrong-type service,
//!     issuer document missing), several offered issuer documents in both orders, the direct entry point
//!     `check_revocation_bitmap_status`, and the issuer document extended by a service `other-did#<same fragment>`
//!     holding the complement set (before / after its own services): a status entry naming either service is answered
//!     by exactly that service; an entry naming a same-fragment service the document does not hold never passes.
//! (d) endpoints written by OTHER implementations of the RevocationBitmap2022 specification for the same sets: the
//!     run-container variant of the roaring portable format (cookie 12347; all-run, alternating and size-optimal
//!     container choices, written by a harness-side writer from the format specification) must decode to the same
//!     set, and the decoded bitmap must survive `to_service` / document updates again; the same serialisation
//!     compressed at other zlib levels is executed and recorded (only "decodes to ANOTHER set" is judged).
//!
//! Oracle discipline: the statement ties no case to a particular error variant or message; judged are only
//! (i) membership / the decoded set, (ii) `Revoked` iff member for the canonical status entry, (iii) "never `Ok` for
//! a member, never `Revoked` for a non-member" for the entry forms the statement leaves open. Everything else
//! (error variants, acceptance of malformed entries, document metadata, service order, exact data-url prefix) is
//! executed and recorded in the outcome histogram.

use identity_core::common::{Object, Url, Value};
use identity_core::convert::{FromJson, ToJson};
use identity_credential::credential::{Credential, CredentialBuilder, RevocationBitmapStatus, Status, Subject};
use identity_credential::revocation::{RevocationBitmap, RevocationDocumentExt};
use identity_credential::validator::{JwtCredentialValidatorUtils, JwtValidationError, StatusCheck};
use identity_did::{DIDUrl, DID};
use identity_document::document::CoreDocument;
use identity_document::service::{Service, ServiceEndpoint};
use identity_iota_core::IotaDocument;
use serde::{Deserialize, Serialize};
use std::collections::{BTreeMap, BTreeSet, HashSet};
use std::hash::{Hash, Hasher};
use std::sync::{Arc, Mutex};
use vx::rayon::prelude::*;
use vx::sr::Collector;
use vx::stateright::{Model, Property};
use vx::{guard, json, Ctx, Level};

const DATA_URL: &str = "data:application/octet-stream;base64,";
const CORE_DID: &str = "did:example:1234";
const IOTA_DID: &str = "did:iota:0xaaaaaaaaaaaaaaaaaaaaaaaaaaaaaaaaaaaaaaaaaaaaaaaaaaaaaaaaaaaaaaaa";

// violation keys (one defect, one key)
const K_OWN_REJECTED: &str = "RevocationBitmap::try_from(&Service)|round-trip|own-encoding-rejected";
const K_OWN_DIFFERS: &str = "RevocationBitmap::try_from(&Service)|round-trip|decoded-set-differs";
const K_LEGACY_REJECTED: &str = "RevocationBitmap::try_from(&Service)|legacy-endpoint|rejected";
const K_LEGACY_DIFFERS: &str = "RevocationBitmap::try_from(&Service)|legacy-endpoint|decoded-set-differs";
/// a legacy endpoint whose outer base64 layer ends in `=` padding (two of three legacy endpoints do)
const K_LEGACY_PADDED_REJECTED: &str = "RevocationBitmap::try_from(&Service)|legacy-endpoint|padded-outer-layer-rejected";
const K_RUN_REJECTED: &str = "RevocationBitmap::try_from(&Service)|run-container-stream|rejected";
const K_RUN_DIFFERS: &str = "RevocationBitmap::try_from(&Service)|run-container-stream|decoded-set-differs";
const K_REENC_REJECTED: &str = "RevocationBitmap::try_from(&Service)|re-encoded-foreign-bitmap|rejected";
const K_REENC_DIFFERS: &str = "RevocationBitmap::try_from(&Service)|re-encoded-foreign-bitmap|decoded-set-differs";
const K_FOREIGN_DIFFERS: &str = "RevocationBitmap::try_from(&Service)|other-zlib-level|decoded-set-differs";

/// The 12-index universe of the subset family.
const U12: [u32; 12] = [0, 1, 2, 4095, 4096, 65535, 65536, 65537, 0x7fff_ffff, 0x8000_0000, 0xffff_fffe, 0xffff_ffff];

#[derive(Serialize, Deserialize, Debug, Clone, PartialEq)]
enum Case {
  /// subset of `U12` selected by the bits of `mask`
  Subset { mask: u16 },
  /// [0, n)
  Prefix { n: u32 },
  /// { start + i*step mod 2^32 | i < size }
  Stride { start: u32, step: u32, size: u32 },
  /// { (i + seed) * 2654435761 mod 2^32 | i < size }
  Hashed { seed: u32, size: u32 },
  /// union of `runs` runs of `len` consecutive indices, run k starting at start + k*(len+gap)
  Runs { start: u32, runs: u32, len: u32, gap: u32 },
  /// { i in [0, span) | i mod step != 0 }
  Holes { span: u32, step: u32 },
  /// (b)/(c): document kind (0 CoreDocument, 1 IotaDocument), initial endpoints (0 fresh, 1 legacy, 2 run-container
  /// stream + dense set — see `init_members`), universe id, ops (service, revoke?, batch id — see `batch`)
  Hist { kind: u8, init: u8, uni: u8, ops: Vec<(u8, bool, u8)> },
  /// (b') dense universe base..base+5: service rev-a starts with the members selected by the bits of `start`, then ONE
  /// revoke (or unrevoke) of the ordered batch `batch` (offsets from `base`, duplicates allowed) through the document
  Dense { kind: u8, base: u32, start: u8, revoke: bool, batch: Vec<u8> },
}

// ------------------------------------------------------------------ harness-side codecs (boring on purpose)
fn b64(data: &[u8], url: bool, pad: bool) -> String {
  let std_abc = b"ABCDEFGHIJKLMNOPQRSTUVWXYZabcdefghijklmnopqrstuvwxyz0123456789+/";
  let url_abc = b"ABCDEFGHIJKLMNOPQRSTUVWXYZabcdefghijklmnopqrstuvwxyz0123456789-_";
  let abc = if url { url_abc } else { std_abc };
  let mut out = String::with_capacity(data.len() * 4 / 3 + 4);
  for chunk in data.chunks(3) {
    let b0 = chunk[0] as u32;
    let b1 = *chunk.get(1).unwrap_or(&0) as u32;
    let b2 = *chunk.get(2).unwrap_or(&0) as u32;
    let n = (b0 << 16) | (b1 << 8) | b2;
    out.push(abc[(n >> 18) as usize & 63] as char);
    out.push(abc[(n >> 12) as usize & 63] as char);
    if chunk.len() > 1 {
      out.push(abc[(n >> 6) as usize & 63] as char);
    } else if pad {
      out.push('=');
    }
    if chunk.len() > 2 {
      out.push(abc[n as usize & 63] as char);
    } else if pad {
      out.push('=');
    }
  }
  out
}

/// Roaring portable serialisation (no run containers) of a sorted, duplicate-free index list — built with the roaring
/// crate directly (trusted base), not through the subject.
fn roaring_std(elems: &[u32]) -> Vec<u8> {
  let rb = roaring::RoaringBitmap::from_sorted_iter(elems.iter().copied()).expect("sorted, duplicate-free");
  let mut ser = Vec::with_capacity(rb.serialized_size());
  rb.serialize_into(&mut ser).expect("serialise into a Vec");
  ser
}
/// zlib at the default level (what the specification's reference encoder uses).
fn zlib_default(data: &[u8]) -> Vec<u8> {
  use std::io::Write;
  let mut e = vx::fx::zlib_encoder();
  e.write_all(data).expect("zlib into a Vec");
  e.finish().expect("zlib into a Vec")
}
/// zlib at an explicit level 0..=9 (flate2, trusted base).
fn zlib_level(data: &[u8], level: u32) -> Vec<u8> {
  use std::io::Write;
  let mut e = flate2::write::ZlibEncoder::new(Vec::new(), flate2::Compression::new(level));
  e.write_all(data).expect("zlib into a Vec");
  e.finish().expect("zlib into a Vec")
}
fn zlib_roaring(elems: &[u32]) -> Vec<u8> {
  zlib_default(&roaring_std(elems))
}

/// Which containers a foreign writer stores as run containers.
#[derive(Clone, Copy, Debug, PartialEq)]
enum RunPolicy {
  /// every container
  All,
  /// containers at even positions; the others as array (<= 4096 members) / bitmap containers
  Alternate,
  /// a container is a run container iff that is strictly the smallest form (what `runOptimize` of the C / Java /
  /// Go implementations does)
  Smallest,
}
impl RunPolicy {
  fn name(self) -> &'static str {
    match self {
      RunPolicy::All => "all-run",
      RunPolicy::Alternate => "alternating",
      RunPolicy::Smallest => "size-optimal",
    }
  }
}
/// The run-container variant of the roaring portable format (cookie 12347), written from the format specification
/// (https://github.com/RoaringBitmap/RoaringFormatSpec): cookie | (containers-1) << 16, run-flag bitset, per container
/// (key, cardinality-1), offsets only for >= 4 containers, then the containers: run = count + (start, length-1)
/// pairs, array = sorted u16 values, bitmap = 1024 little-endian words. `None` if no container would be a run
/// container (such a stream has the other cookie) or the set is empty. `empty_run_at` additionally inserts a run
/// container WITHOUT runs under that (unused) key — not a valid stream, used for recorded cases only.
fn run_stream(elems: &[u32], policy: RunPolicy, empty_run_at: Option<u16>) -> Option<Vec<u8>> {
  struct Cont {
    key: u16,
    vals: Vec<u16>,
    runs: Vec<(u16, u16)>,
    run: bool,
  }
  let mut conts: Vec<Cont> = Vec::new();
  for e in elems {
    let (key, low) = ((e >> 16) as u16, *e as u16);
    match conts.last_mut() {
      Some(c) if c.key == key => c.vals.push(low),
      _ => conts.push(Cont { key, vals: vec![low], runs: vec![], run: false }),
    }
  }
  if let Some(k) = empty_run_at {
    if conts.iter().any(|c| c.key == k) {
      return None;
    }
    let pos = conts.iter().position(|c| c.key > k).unwrap_or(conts.len());
    conts.insert(pos, Cont { key: k, vals: vec![], runs: vec![], run: true });
  }
  for (pos, c) in conts.iter_mut().enumerate() {
    for v in &c.vals {
      match c.runs.last_mut() {
        Some((start, len1)) if *start as u32 + *len1 as u32 + 1 == *v as u32 => *len1 += 1,
        _ => c.runs.push((*v, 0)),
      }
    }
    if c.vals.is_empty() {
      continue; // the inserted empty run container
    }
    let run_bytes = 2 + 4 * c.runs.len();
    let other_bytes = if c.vals.len() <= 4096 { 2 * c.vals.len() } else { 8192 };
    c.run = match policy {
      RunPolicy::All => true,
      RunPolicy::Alternate => pos % 2 == 0,
      RunPolicy::Smallest => run_bytes < other_bytes,
    };
  }
  if conts.is_empty() || !conts.iter().any(|c| c.run && !c.vals.is_empty()) {
    return None;
  }
  let n = conts.len();
  let mut out: Vec<u8> = Vec::new();
  out.extend_from_slice(&(12347u32 | ((n as u32 - 1) << 16)).to_le_bytes());
  let mut flags = vec![0u8; (n + 7) / 8];
  for (i, c) in conts.iter().enumerate() {
    if c.run {
      flags[i / 8] |= 1 << (i % 8);
    }
  }
  out.extend_from_slice(&flags);
  for c in &conts {
    out.extend_from_slice(&c.key.to_le_bytes());
    out.extend_from_slice(&((c.vals.len().max(1) - 1) as u16).to_le_bytes());
  }
  let size_of = |c: &Cont| if c.run { 2 + 4 * c.runs.len() } else if c.vals.len() <= 4096 { 2 * c.vals.len() } else { 8192 };
  if n >= 4 {
    let mut offset = out.len() + 4 * n;
    for c in &conts {
      out.extend_from_slice(&(offset as u32).to_le_bytes());
      offset += size_of(c);
    }
  }
  for c in &conts {
    if c.run {
      out.extend_from_slice(&(c.runs.len() as u16).to_le_bytes());
      for (start, len1) in &c.runs {
        out.extend_from_slice(&start.to_le_bytes());
        out.extend_from_slice(&len1.to_le_bytes());
      }
    } else if c.vals.len() <= 4096 {
      for v in &c.vals {
        out.extend_from_slice(&v.to_le_bytes());
      }
    } else {
      let mut words = [0u64; 1024];
      for v in &c.vals {
        words[*v as usize / 64] |= 1u64 << (*v % 64);
      }
      for w in words {
        out.extend_from_slice(&w.to_le_bytes());
      }
    }
  }
  Some(out)
}
/// The single ("current") text form: Base64Url-nopad(zlib(roaring)).
fn single_text(z: &[u8]) -> String {
  b64(z, true, false)
}
/// The legacy double encoding, as the versions before the fix of issue #1291 wrote it: the single text form,
/// base64-encoded once more by the data-url layer with the STANDARD alphabet AND padding (RFC 4648 section 4) — e.g.
/// the endpoint of an empty bitmap was `ZUp5ek1tQUFBd0FES0FCcg==` (= Base64("eJyzMmAAAwADKABr")). The outer layer
/// encodes ASCII only, so it never contains a symbol on which the standard and the url-safe alphabet differ.
fn legacy_text(z: &[u8]) -> String {
  b64(single_text(z).as_bytes(), false, true)
}
/// The same without the padding (differs from `legacy_text` iff the single text form's length is no multiple of 3);
/// no version of the library wrote this: recorded only.
fn legacy_text_unpadded(z: &[u8]) -> String {
  b64(single_text(z).as_bytes(), false, false)
}

fn svc_url(did: &str, frag: &str) -> DIDUrl {
  DIDUrl::parse(format!("{did}#{frag}")).expect("service id")
}
/// A `RevocationBitmap2022` service holding a harness-built endpoint text.
fn service_with_text(did: &str, frag: &str, text: &str) -> Service {
  Service::builder(Object::new())
    .id(svc_url(did, frag))
    .type_(RevocationBitmap::TYPE)
    .service_endpoint(ServiceEndpoint::One(Url::parse(format!("{DATA_URL}{text}")).expect("data url")))
    .build()
    .expect("service")
}
fn endpoint_text(svc: &Service) -> Option<String> {
  match svc.service_endpoint() {
    ServiceEndpoint::One(u) => u.as_str().strip_prefix(DATA_URL).map(|s| s.to_string()),
    _ => None,
  }
}

// ------------------------------------------------------------------ (a) families
fn elems_of(case: &Case) -> (&'static str, Vec<u32>) {
  let mut v: Vec<u32> = match case {
    Case::Subset { mask } => (0..12).filter(|b| mask & (1 << b) != 0).map(|b| U12[b]).collect(),
    Case::Prefix { n } => (0..*n).collect(),
    Case::Stride { start, step, size } => (0..*size).map(|i| start.wrapping_add(i.wrapping_mul(*step))).collect(),
    Case::Hashed { seed, size } => (0..*size).map(|i| i.wrapping_add(*seed).wrapping_mul(2654435761)).collect(),
    Case::Runs { start, runs, len, gap } => {
      let mut v = Vec::new();
      for k in 0..*runs {
        let s = *start as u64 + k as u64 * (*len as u64 + *gap as u64);
        for j in 0..*len as u64 {
          if s + j <= u32::MAX as u64 {
            v.push((s + j) as u32);
          }
        }
      }
      v
    }
    Case::Holes { span, step } => (0..*span).filter(|i| i % step != 0).collect(),
    Case::Hist { .. } | Case::Dense { .. } => unreachable!("not a set case"),
  };
  v.sort_unstable();
  v.dedup();
  let fam = match case {
    Case::Subset { .. } => "subset12",
    Case::Prefix { .. } => "prefix",
    Case::Stride { .. } => "stride",
    Case::Hashed { .. } => "hashed",
    Case::Runs { .. } => "runs",
    Case::Holes { .. } => "holes",
    Case::Hist { .. } => "hist",
    Case::Dense { .. } => "dense",
  };
  (fam, v)
}

/// Indices that must NOT be members: neighbours of (a spread of) members and fixed probes, minus the members.
fn non_member_probes(elems: &[u32]) -> Vec<u32> {
  let mut p: BTreeSet<u32> = [0u32, 1, 4095, 4096, 65535, 65536, 65537, 0x7fff_ffff, 0x8000_0000, u32::MAX - 1, u32::MAX].into_iter().collect();
  let stride = (elems.len() / 64).max(1);
  for (k, e) in elems.iter().enumerate() {
    if k % stride == 0 || k + 1 == elems.len() {
      p.insert(e.wrapping_sub(1));
      p.insert(e.wrapping_add(1));
    }
  }
  p.into_iter().filter(|i| elems.binary_search(i).is_err()).collect()
}

/// `None` if `bm` holds exactly `elems`; otherwise a description of the first difference.
fn set_diff(bm: &RevocationBitmap, elems: &[u32], probes: &[u32]) -> Option<String> {
  if bm.len() != elems.len() as u64 {
    return Some(format!("len {} instead of {}", bm.len(), elems.len()));
  }
  if bm.is_empty() != elems.is_empty() {
    return Some(format!("is_empty {} for {} members", bm.is_empty(), elems.len()));
  }
  // same cardinality + every model member present  =>  same set
  if let Some(e) = elems.iter().find(|e| !bm.is_revoked(**e)) {
    return Some(format!("member {e} lost"));
  }
  if let Some(e) = probes.iter().find(|e| bm.is_revoked(**e)) {
    return Some(format!("non-member {e} reported revoked"));
  }
  None
}

/// Decode `svc` and compare with `elems`. Returns a coarse label; reports under `k_rej` / `k_diff`.
fn decode_and_compare(ctx: &Ctx, case: &Case, svc: &Service, elems: &[u32], probes: &[u32], k_rej: &str, k_diff: &str, what: &str) -> &'static str {
  match guard(|| RevocationBitmap::try_from(svc)) {
    Err(p) => {
      ctx.violation(&format!("RevocationBitmap::try_from(&Service)|{}", p.key()), &format!("{what}: {}", p.msg), case);
      "panic"
    }
    Ok(Err(e)) => {
      let text = endpoint_text(svc).unwrap_or_default();
      let head: String = text.chars().take(12).collect();
      ctx.violation(k_rej, &format!("{what} of a {}-member set (endpoint text starts `{head}`) is rejected: {e}", elems.len()), case);
      "rejected"
    }
    Ok(Ok(back)) => match guard(|| set_diff(&back, elems, probes)) {
      Ok(None) => "ok",
      Ok(Some(d)) => {
        ctx.violation(k_diff, &format!("{what}: {d}"), case);
        "differs"
      }
      Err(p) => {
        ctx.violation(&format!("RevocationBitmap::is_revoked|{}", p.key()), &p.msg, case);
        "panic"
      }
    },
  }
}

/// Whether a set case also runs the extended paths (second construction, one-batch document updates, foreign
/// encodings). Every case of every family does, except the bulk of the thorough tier's 70 000 prefix sets, where a
/// fixed grid does: all n <= 5000, the chunk boundary 65 400..=65 700, every 251st n, and n >= 70 000.
fn extended(case: &Case) -> bool {
  match case {
    Case::Prefix { n } => *n <= 5_000 || (65_400..=65_700).contains(n) || n % 251 == 0 || *n >= 70_000,
    _ => true,
  }
}

/// A fresh CoreDocument / IotaDocument whose only service is `svc`.
fn doc_with_service(kind: u8, svc: &Service) -> Option<RealDoc> {
  let did = if kind == 0 { CORE_DID } else { IOTA_DID };
  let core = json!({"id": did, "service": [serde_json::to_value(svc).ok()?]});
  if kind == 0 {
    CoreDocument::from_json_value(core).ok().map(RealDoc::Core)
  } else {
    IotaDocument::from_json_value(json!({"doc": core, "meta": {"created": "2023-01-01T00:00:00Z", "updated": "2023-01-02T00:00:00Z"}}))
      .ok()
      .map(RealDoc::Iota)
  }
}

/// The set held by service `frag` of `doc`, compared with `want`: `Ok(None)` = equal.
/// `Err((key, text))`: the service does not decode; `key` = the violation key to report it under.
fn doc_set_diff(doc: &RealDoc, frag: &str, want: &[u32], probes: &[u32], k_rejected: &str) -> Result<Option<String>, (String, String)> {
  let q = svc_url(doc.did(), frag);
  match guard(|| doc.core().resolve_revocation_bitmap((&q).into())) {
    Err(p) => Err((format!("resolve_revocation_bitmap|{}", p.key()), p.msg)),
    Ok(Err(e)) => Err((k_rejected.to_string(), format!("{e}"))),
    Ok(Ok(bm)) => Ok(guard(|| set_diff(&bm, want, probes)).unwrap_or_else(|p| Some(format!("panic: {}", p.msg)))),
  }
}

fn eval_set(ctx: &Ctx, case: &Case) {
  let (fam, elems) = elems_of(case);
  let probes = non_member_probes(&elems);
  let mut local: BTreeMap<String, u64> = BTreeMap::new();
  // build through the public mutators, checking their documented return values
  let mut bm = RevocationBitmap::new();
  let built = guard(|| {
    for e in &elems {
      if !bm.revoke(*e) {
        return Some(format!("revoke({e}) of an absent index returned false"));
      }
    }
    if let Some(e) = elems.first() {
      if bm.revoke(*e) {
        return Some(format!("revoke({e}) of a present index returned true"));
      }
    }
    if let Some(e) = probes.first() {
      if bm.unrevoke(*e) {
        return Some(format!("unrevoke({e}) of an absent index returned true"));
      }
    }
    None
  });
  match built {
    Err(p) => return ctx.violation(&format!("RevocationBitmap::revoke|{}", p.key()), &p.msg, case),
    Ok(Some(d)) => return ctx.violation("RevocationBitmap::revoke|return-value", &d, case),
    Ok(None) => {}
  }
  if let Ok(Some(d)) = guard(|| set_diff(&bm, &elems, &probes)) {
    return ctx.violation("RevocationBitmap::revoke|membership-differs-from-model", &d, case);
  }
  let ext = extended(case);
  // the same set reached another way: descending insertion of the members AND of the probe indices, then removal
  // of the probe indices (a superset shrinking to the set; containers change representation on the way down)
  let mut bm_alt = RevocationBitmap::new();
  let alt = guard(|| {
    if !ext {
      return None;
    }
    for e in elems.iter().rev() {
      if !bm_alt.revoke(*e) {
        return Some(format!("revoke({e}) of an absent index returned false"));
      }
    }
    for e in probes.iter().rev() {
      if !bm_alt.revoke(*e) {
        return Some(format!("revoke({e}) of an absent index returned false"));
      }
    }
    if bm_alt.len() != (elems.len() + probes.len()) as u64 {
      return Some(format!("len {} after {} distinct revocations", bm_alt.len(), elems.len() + probes.len()));
    }
    for e in &probes {
      if !bm_alt.unrevoke(*e) {
        return Some(format!("unrevoke({e}) of a present index returned false"));
      }
      if bm_alt.is_revoked(*e) {
        return Some(format!("{e} still revoked after unrevoke"));
      }
    }
    None
  });
  match alt {
    Err(p) => return ctx.violation(&format!("RevocationBitmap::unrevoke|{}", p.key()), &p.msg, case),
    Ok(Some(d)) => return ctx.violation("RevocationBitmap::unrevoke|return-value-or-membership", &d, case),
    Ok(None) => {}
  }
  if ext {
    if let Ok(Some(d)) = guard(|| set_diff(&bm_alt, &elems, &probes)) {
      return ctx.violation("RevocationBitmap::unrevoke|membership-differs-from-model", &d, case);
    }
    *local.entry(format!("unjudged:same-set-built-two-ways-compares-equal={}", bm_alt == bm)).or_insert(0) += 1;
  }
  *local.entry(format!("extended-paths={ext}")).or_insert(0) += 1;
  // encode
  let id = svc_url(CORE_DID, "rev-a");
  let svc = match guard(|| bm.to_service(id.clone())) {
    Err(p) => return ctx.violation(&format!("RevocationBitmap::to_service|{}", p.key()), &p.msg, case),
    Ok(Err(e)) => return ctx.violation("RevocationBitmap::to_service|rejected", &format!("{e}"), case),
    Ok(Ok(s)) => s,
  };
  // documented: id = the given id, type RevocationBitmap2022, the bitmap in a data url in the endpoint. The exact
  // media-type prefix is the specification's; a differing prefix is recorded, not judged.
  let data_url = match svc.service_endpoint() {
    ServiceEndpoint::One(u) if u.as_str().starts_with("data:") => Some(u.as_str().to_owned()),
    _ => None,
  };
  let text = match data_url {
    Some(u) if svc.type_().contains(RevocationBitmap::TYPE) && svc.id() == &id => match u.strip_prefix(DATA_URL) {
      Some(t) => t.to_owned(),
      None => {
        *local.entry("unjudged:to_service:data-url-prefix-differs-from-the-specification".into()).or_insert(0) += 1;
        u.split_once(',').map(|(_, t)| t.to_owned()).unwrap_or_default()
      }
    },
    _ => return ctx.violation("RevocationBitmap::to_service|not-a-bitmap-service-with-data-url", &format!("{svc:?}"), case),
  };
  let third: String = text.chars().take(3).collect();
  // decode: directly, through the JSON form of the service, and through a document
  let own = decode_and_compare(ctx, case, &svc, &elems, &probes, K_OWN_REJECTED, K_OWN_DIFFERS, "to_service output");
  if own == "ok" {
    match guard(|| svc.to_json().ok().and_then(|j| Service::from_json(&j).ok())) {
      Ok(Some(svc2)) => {
        decode_and_compare(ctx, case, &svc2, &elems, &probes, K_OWN_REJECTED, K_OWN_DIFFERS, "to_service output after a JSON round trip of the service");
      }
      other => ctx.violation("RevocationBitmap::to_service|service-json-round-trip-failed", &format!("{:?}", other.map(|o| o.is_some())), case),
    }
    // the other construction of the same set encodes to something that decodes to the same set
    match guard(|| if ext { Some(bm_alt.to_service(id.clone())) } else { None }) {
      Ok(None) => {}
      Ok(Some(Ok(svc_alt))) => {
        decode_and_compare(ctx, case, &svc_alt, &elems, &probes, K_OWN_REJECTED, K_OWN_DIFFERS, "to_service output of the set built by shrinking a superset");
      }
      Ok(Some(Err(e))) => ctx.violation("RevocationBitmap::to_service|rejected", &format!("set built by shrinking a superset: {e}"), case),
      Err(p) => ctx.violation(&format!("RevocationBitmap::to_service|{}", p.key()), &p.msg, case),
    }
    if elems.len() <= 4096 {
      let doc = guard(|| CoreDocument::builder(Object::new()).id(id.did().clone()).service(svc.clone()).build());
      match doc {
        Ok(Ok(doc)) => match guard(|| doc.resolve_revocation_bitmap((&id).into())) {
          Ok(Ok(back)) => {
            if let Some(d) = guard(|| set_diff(&back, &elems, &probes)).unwrap_or_else(|p| Some(p.msg)) {
              ctx.violation("resolve_revocation_bitmap|round-trip|decoded-set-differs", &d, case);
            } else if back != bm {
              // "decoding back unchanged": the decoded value compares equal to the encoded one
              ctx.violation("resolve_revocation_bitmap|round-trip|same-set-but-not-equal-to-the-original", &format!("{} members", back.len()), case);
            }
          }
          Ok(Err(e)) => ctx.violation("resolve_revocation_bitmap|round-trip|rejected", &format!("{e}"), case),
          Err(p) => ctx.violation(&format!("resolve_revocation_bitmap|{}", p.key()), &p.msg, case),
        },
        other => ctx.violation("CoreDocument::builder|bitmap-service-rejected", &format!("{:?}", other.map(|r| r.is_ok())), case),
      }
    }
    if ext {
      eval_set_through_documents(ctx, case, &elems, &probes, &mut local);
    }
  }
  // harness-built twins
  let ser = roaring_std(&elems);
  let z = zlib_default(&ser);
  let single = single_text(&z);
  let legacy = legacy_text(&z);
  let legacy_unpadded = legacy_text_unpadded(&z);
  let twin_same = single == text;
  let leg = decode_and_compare(
    ctx,
    case,
    &service_with_text(CORE_DID, "rev-a", &legacy),
    &elems,
    &probes,
    if legacy == legacy_unpadded { K_LEGACY_REJECTED } else { K_LEGACY_PADDED_REJECTED },
    K_LEGACY_DIFFERS,
    "legacy double encoding Base64-padded(Base64Url(zlib(roaring)))",
  );
  macro_rules! bump {
    ($l:expr) => {
      *local.entry($l).or_insert(0) += 1
    };
  }
  bump!(format!("set:{fam}:prefix={third}:own={own}:legacy={leg}"));
  bump!(format!("deflate-class:{third}"));
  bump!(format!("harness-single-text-identical-to-library={twin_same}"));
  // recorded, not judged: forms the statement does not pin down
  let unjudged = |svc: Service| -> &'static str {
    match guard(|| RevocationBitmap::try_from(&svc)) {
      Ok(Ok(b)) => {
        if guard(|| set_diff(&b, &elems, &probes)).ok().flatten().is_none() {
          "decodes"
        } else {
          "decodes-to-other-set"
        }
      }
      Ok(Err(_)) => "rejected",
      Err(_) => "panic",
    }
  };
  if !twin_same {
    bump!(format!("unjudged:harness-single-text:{}", unjudged(service_with_text(CORE_DID, "rev-a", &single))));
  }
  bump!(format!("legacy-outer-layer-{}", if legacy == legacy_unpadded { "needs-no-padding" } else { "padded" }));
  if legacy != legacy_unpadded {
    bump!(format!("unjudged:legacy-with-unpadded-outer-layer:{}", unjudged(service_with_text(CORE_DID, "rev-a", &legacy_unpadded))));
  }
  let inner_std = b64(&z, false, false);
  if inner_std != single {
    let lit = b64(inner_std.as_bytes(), true, false);
    bump!(format!("unjudged:legacy-with-standard-alphabet-inner-layer:{}", unjudged(service_with_text(CORE_DID, "rev-a", &lit))));
  }
  // (d) the same serialisation compressed at other zlib levels (a conformant endpoint of another implementation):
  // whether it decodes is recorded; decoding to ANOTHER set is judged.
  for level in [0u32, 1, 9].into_iter().filter(|_| ext) {
    let t = single_text(&zlib_level(&ser, level));
    let head: String = t.chars().take(2).collect();
    let r = unjudged(service_with_text(CORE_DID, "rev-a", &t));
    if r == "decodes-to-other-set" {
      ctx.violation(K_FOREIGN_DIFFERS, &format!("zlib level {level} endpoint (starts `{head}`) of a {}-member set decodes to another set", elems.len()), case);
    }
    bump!(format!("unjudged:zlib-level-{level}:starts-{head}:{r}"));
  }
  // (d) run-container streams
  for policy in [RunPolicy::All, RunPolicy::Alternate, RunPolicy::Smallest].into_iter().filter(|_| ext) {
    let Some(stream) = run_stream(&elems, policy, None) else {
      bump!(format!("run-stream:{}:not-applicable(no run container)", policy.name()));
      continue;
    };
    eval_run_stream(ctx, case, &elems, &probes, policy, &stream, &bm, &mut local);
  }
  // recorded: a run container without runs next to the real ones (not a valid stream; roaring accepts it)
  let free_key = if ext && elems.len() <= 4096 { (0..=u16::MAX).rev().find(|k| elems.iter().all(|e| (e >> 16) as u16 != *k)) } else { None };
  if let Some(free_key) = free_key {
    if let Some(stream) = run_stream(&elems, RunPolicy::All, Some(free_key)) {
      let svc = service_with_text(CORE_DID, "rev-a", &single_text(&zlib_default(&stream)));
      let label = match guard(|| RevocationBitmap::try_from(&svc)) {
        Err(p) => {
          ctx.violation(&format!("RevocationBitmap::try_from(&Service)|{}", p.key()), &format!("stream with an empty run container: {}", p.msg), case);
          "panic"
        }
        Ok(Err(_)) => "rejected",
        Ok(Ok(b)) => {
          // accepted: then it is a bitmap like any other and must hold the set and survive re-encoding
          if let Some(d) = guard(|| set_diff(&b, &elems, &probes)).unwrap_or_else(|p| Some(format!("panic: {}", p.msg))) {
            ctx.violation(K_RUN_DIFFERS, &format!("stream with an additional empty run container: {d}"), case);
          }
          reencode(ctx, case, &b, &elems, &probes, "bitmap decoded from a stream with an empty run container");
          "accepted"
        }
      };
      *local.entry(format!("unjudged:stream-with-empty-run-container:{label}")).or_insert(0) += 1;
    }
  }
  ctx.outcomes_merge(&local);
  ctx.distinct(&serde_json::to_string(case).unwrap_or_default());
}

/// `b` (decoded from a foreign endpoint) must itself survive `to_service` -> `try_from`.
fn reencode(ctx: &Ctx, case: &Case, b: &RevocationBitmap, elems: &[u32], probes: &[u32], what: &str) {
  match guard(|| b.to_service(svc_url(CORE_DID, "rev-a"))) {
    Err(p) => ctx.violation(&format!("RevocationBitmap::to_service|{}", p.key()), &format!("{what}: {}", p.msg), case),
    Ok(Err(e)) => ctx.violation("RevocationBitmap::to_service|rejected", &format!("{what}: {e}"), case),
    Ok(Ok(svc)) => {
      decode_and_compare(ctx, case, &svc, elems, probes, K_REENC_REJECTED, K_REENC_DIFFERS, &format!("re-encoded {what}"));
    }
  }
}

/// (d) one run-container stream of the set: decode (judged), re-encode (judged), update through a document (judged).
#[allow(clippy::too_many_arguments)]
fn eval_run_stream(ctx: &Ctx, case: &Case, elems: &[u32], probes: &[u32], policy: RunPolicy, stream: &[u8], bm: &RevocationBitmap, local: &mut BTreeMap<String, u64>) {
  // harness self-check: the trusted decoder reads the harness-written stream as the intended set
  match roaring::RoaringBitmap::deserialize_from(stream) {
    Ok(rb) if rb.len() == elems.len() as u64 && rb.iter().eq(elems.iter().copied()) => {}
    other => ctx.require(false, &format!("harness run-container writer ({}) produced a stream the roaring crate reads as {:?}", policy.name(), other.map(|r| r.len()))),
  }
  let text = single_text(&zlib_default(stream));
  let svc = service_with_text(CORE_DID, "rev-a", &text);
  let what = format!("run-container stream ({} containers as runs)", policy.name());
  let label = match guard(|| RevocationBitmap::try_from(&svc)) {
    Err(p) => {
      ctx.violation(&format!("RevocationBitmap::try_from(&Service)|{}", p.key()), &format!("{what}: {}", p.msg), case);
      "panic"
    }
    Ok(Err(e)) => {
      ctx.violation(K_RUN_REJECTED, &format!("{what} of a {}-member set is rejected: {e}", elems.len()), case);
      "rejected"
    }
    Ok(Ok(b)) => match guard(|| set_diff(&b, elems, probes)) {
      Err(p) => {
        ctx.violation(&format!("RevocationBitmap::is_revoked|{}", p.key()), &p.msg, case);
        "panic"
      }
      Ok(Some(d)) => {
        ctx.violation(K_RUN_DIFFERS, &format!("{what}: {d}"), case);
        "differs"
      }
      Ok(None) => {
        *local.entry(format!("unjudged:bitmap-from-run-stream-compares-equal-to-built-one={}", &b == bm)).or_insert(0) += 1;
        reencode(ctx, case, &b, elems, probes, &format!("bitmap decoded from a {what}"));
        // through a document: one index in, one index out
        if let Some(doc) = doc_with_service(0, &svc) {
          let add = probes.first().copied();
          let del = elems.last().copied();
          let mut d = doc.clone();
          let q = svc_url(CORE_DID, "rev-a");
          let mut want: Vec<u32> = elems.to_vec();
          let mut ok = true;
          if let Some(x) = add {
            match guard(|| d.apply(&q, true, &[x])) {
              Err(p) => {
                ctx.violation(&format!("revoke_credentials|{}", p.key()), &format!("{what}: {}", p.msg), case);
                ok = false;
              }
              Ok(Err(e)) => {
                ctx.violation("revoke_credentials|permitted-op-rejected", &format!("service holding a {what}: {e}"), case);
                ok = false;
              }
              Ok(Ok(())) => {
                want.push(x);
                want.sort_unstable();
              }
            }
          }
          if let (true, Some(x)) = (ok, del) {
            match guard(|| d.apply(&q, false, &[x])) {
              Err(p) => {
                ctx.violation(&format!("unrevoke_credentials|{}", p.key()), &format!("{what}: {}", p.msg), case);
                ok = false;
              }
              Ok(Err(e)) => {
                ctx.violation("unrevoke_credentials|permitted-op-rejected", &format!("service holding a {what}: {e}"), case);
                ok = false;
              }
              Ok(Ok(())) => want.retain(|e| *e != x),
            }
          }
          if ok {
            let p2: Vec<u32> = probes.iter().copied().filter(|p| Some(*p) != add).chain(del).collect();
            match doc_set_diff(&d, "rev-a", &want, &p2, K_REENC_REJECTED) {
              Ok(None) => {}
              Ok(Some(diff)) => ctx.violation("revoke_credentials|run-container-endpoint|resulting-set-differs", &format!("{what}, +{add:?} -{del:?}: {diff}"), case),
              Err((key, e)) => ctx.violation(&key, &format!("endpoint written by revoke/unrevoke_credentials over a {what}: {e}"), case),
            }
          }
        }
        "ok"
      }
    },
  };
  *local.entry(format!("run-stream:{}:{label}", policy.name())).or_insert(0) += 1;
}

/// The whole set revoked through a document in ONE batch (CoreDocument; IotaDocument too for small sets), then every
/// second member un-revoked in one batch; `check_status` of the first / last member and one non-member.
fn eval_set_through_documents(ctx: &Ctx, case: &Case, elems: &[u32], probes: &[u32], local: &mut BTreeMap<String, u64>) {
  let kinds: &[u8] = if elems.len() <= 64 { &[0, 1] } else { &[0] };
  for &kind in kinds {
    let did = if kind == 0 { CORE_DID } else { IOTA_DID };
    let q = svc_url(did, "rev-a");
    let Ok(Ok(empty)) = guard(|| RevocationBitmap::new().to_service(q.clone())) else {
      return ctx.violation("RevocationBitmap::to_service|rejected", "empty bitmap", case);
    };
    let Some(mut doc) = doc_with_service(kind, &empty) else {
      return ctx.violation("CoreDocument::builder|bitmap-service-rejected", "document with an empty bitmap service", case);
    };
    let steps: [(bool, Vec<u32>, Vec<u32>); 2] = [
      (true, elems.to_vec(), elems.to_vec()),
      (false, elems.iter().copied().skip(1).step_by(2).collect(), elems.iter().copied().step_by(2).collect()),
    ];
    for (revoke, batch, want) in steps {
      let op = if revoke { "revoke_credentials" } else { "unrevoke_credentials" };
      match guard(|| doc.apply(&q, revoke, &batch)) {
        Err(p) => return ctx.violation(&format!("{op}|{}", p.key()), &p.msg, case),
        Ok(Err(e)) => return ctx.violation(&format!("{op}|permitted-op-rejected"), &format!("{} batch of {} indices: {e}", doc.kind(), batch.len()), case),
        Ok(Ok(())) => {}
      }
      // non-members now: the fixed probes plus what the batch removed
      let mut p2: Vec<u32> = probes.to_vec();
      if !revoke {
        p2.extend(batch.iter().copied());
      }
      match doc_set_diff(&doc, "rev-a", &want, &p2, K_OWN_REJECTED) {
        Ok(None) => {}
        Ok(Some(d)) => return ctx.violation(&format!("{op}|one-batch|resulting-set-differs"), &format!("{} batch of {} indices: {d}", doc.kind(), batch.len()), case),
        Err((key, e)) => return ctx.violation(&key, &format!("{}: the endpoint written by {op} with a batch of {} indices is rejected: {e}", doc.kind(), batch.len()), case),
      }
      // validation against the large bitmap
      let mut idx: Vec<(u32, bool)> = Vec::new();
      idx.extend(want.first().map(|i| (*i, true)));
      idx.extend(want.last().map(|i| (*i, true)));
      idx.extend(p2.last().map(|i| (*i, false)));
      for (i, member) in idx {
        let cred = credential(did, Some(RevocationBitmapStatus::new(q.clone(), i).into()));
        match guard(|| doc.check_status(&cred, StatusCheck::Strict)) {
          Err(p) => ctx.violation(&format!("check_status|{}", p.key()), &p.msg, case),
          Ok(r) => {
            let got = res_label(&r);
            let want = if member { "Revoked" } else { "Ok" };
            if got != want {
              let class = if member { format!("member|reported-{}", if got == "Ok" { "valid" } else { got }) } else { format!("non-member|reported-{got}") };
              ctx.violation(&format!("check_status|{class}"), &format!("{} index {i} after {op} of {} indices: got {got}", doc.kind(), batch.len()), case);
            }
            *local.entry(format!("status:after-one-batch:{got}")).or_insert(0) += 1;
          }
        }
      }
    }
  }
}

// ------------------------------------------------------------------ (b) + (c): histories on a real document
const UNI4: [u32; 4] = [0, 1, 65536, u32::MAX];
const UNI5: [u32; 5] = [0, 1, 65535, 65536, u32::MAX];
fn universe(uni: u8) -> &'static [u32] {
  if uni == 0 {
    &UNI4
  } else {
    &UNI5
  }
}
/// Batches are ORDERED index sequences (duplicates allowed): id 0 = [], then every sequence of length 1, then of
/// length 2, then of length 3 over the universe, each block in lexicographic order of universe positions.
fn batch(uni: u8, id: u8) -> Vec<u32> {
  let u = universe(uni);
  let n = u.len() as u32;
  let mut id = id as u32;
  let mut len = 0u32;
  let mut block = 1u32;
  while id >= block {
    id -= block;
    len += 1;
    block *= n;
  }
  let mut out = vec![0u32; len as usize];
  for slot in out.iter_mut().rev() {
    *slot = u[(id % n) as usize];
    id /= n;
  }
  out
}
/// Number of batches of length 0..=max_len.
fn batch_count(uni: u8, max_len: u8) -> u8 {
  let n = universe(uni).len() as u32;
  let total: u32 = (0..=max_len as u32).map(|l| n.pow(l)).sum();
  u8::try_from(total).expect("batch ids fit a u8")
}
/// Coarse class of a batch relative to the pre-state (for the outcome histogram).
fn batch_class(idx: &[u32], pre: &BTreeSet<u32>, revoke: bool) -> &'static str {
  if idx.is_empty() {
    return "empty";
  }
  let distinct: BTreeSet<u32> = idx.iter().copied().collect();
  let dup = distinct.len() < idx.len();
  // "already" = the index is in the requested state before the op
  let already = distinct.iter().filter(|i| pre.contains(i) == revoke).count();
  match (dup, already == 0, already == distinct.len()) {
    (false, true, _) => "all-to-change",
    (false, _, true) => "all-already-in-requested-state",
    (false, false, false) => "mixed:some-already-in-requested-state",
    (true, true, _) => "duplicates:all-to-change",
    (true, _, true) => "duplicates:all-already-in-requested-state",
    (true, false, false) => "duplicates+mixed",
  }
}
fn probes_of(uni: u8) -> Vec<u32> {
  let mut p = BTreeSet::new();
  for i in universe(uni) {
    p.insert(*i);
    p.insert(i.wrapping_add(1));
    p.insert(i.wrapping_sub(1));
  }
  p.into_iter().collect()
}
const SVC: [&str; 2] = ["rev-a", "rev-b"];
/// Initial members of the two services. init 0: both fresh (empty, written by the library); init 1: legacy double
/// encoding; init 2: rev-a is a run-container stream of another implementation holding three runs over three
/// containers (overlapping the universe), rev-b a library-written dense set of 4097 members — un-revoking universe
/// indices 0 / 1 takes its container across the 4096-member representation switch and back.
fn init_members(init: u8, k: usize) -> Vec<u32> {
  match (init, k) {
    (1, _) => legacy_start_members(k),
    (2, 0) => (10..20).chain(65_530..65_542).chain([u32::MAX - 1, u32::MAX]).collect(),
    (2, _) => (0..4097).collect(),
    _ => vec![],
  }
}
/// Start sets of the legacy start state: the first set of a fixed candidate list whose legacy endpoint needs no
/// padding (padded and unpadded form coincide, so the start state decodes whichever of the two a tree accepts and the
/// model does not become vacuous on a tree that refuses one of them). rev-a: subsets of the 4-index universe holding
/// at least two indices, rev-b: the empty set first, then small sets.
fn legacy_start_members(k: usize) -> Vec<u32> {
  let mut cands: Vec<Vec<u32>> = Vec::new();
  if k == 0 {
    cands.push(vec![1, 65536]);
    for mask in 1u32..16 {
      let v: Vec<u32> = (0..4).filter(|b| mask & (1 << b) != 0).map(|b| UNI4[b]).collect();
      if v.len() >= 2 {
        cands.push(v);
      }
    }
  } else {
    cands.push(vec![]);
    for a in [2u32, 3, 5, 7, 70_000, 0x7fff_ffff] {
      cands.push(vec![a]);
      cands.push(vec![a, a + 2]);
    }
  }
  cands
    .into_iter()
    .find(|m| single_text(&zlib_roaring(m)).len() % 3 == 0)
    .expect("a candidate start set whose legacy endpoint needs no padding")
}
fn init_name(init: u8) -> &'static str {
  match init {
    0 => "fresh",
    1 => "legacy",
    _ => "run-container-stream+dense",
  }
}
/// Key under which a start endpoint that does not decode (or decodes to another set) is reported.
fn start_keys(init: u8, k: usize) -> (&'static str, &'static str) {
  match (init, k) {
    (1, _) => (K_LEGACY_REJECTED, K_LEGACY_DIFFERS),
    (2, 0) => (K_RUN_REJECTED, K_RUN_DIFFERS),
    _ => (K_OWN_REJECTED, K_OWN_DIFFERS),
  }
}
const OTHER_CORE_DID: &str = "did:example:5678";
const OTHER_IOTA_DID: &str = "did:iota:0xbbbbbbbbbbbbbbbbbbbbbbbbbbbbbbbbbbbbbbbbbbbbbbbbbbbbbbbbbbbbbbbb";

#[derive(Clone, Debug)]
enum RealDoc {
  Core(CoreDocument),
  Iota(IotaDocument),
}
impl RealDoc {
  fn did(&self) -> &'static str {
    match self {
      RealDoc::Core(_) => CORE_DID,
      RealDoc::Iota(_) => IOTA_DID,
    }
  }
  /// the document's actual DID (the `other` document lives under another one)
  fn did_str(&self) -> &str {
    self.core().id().as_str()
  }
  fn kind(&self) -> &'static str {
    match self {
      RealDoc::Core(_) => "CoreDocument",
      RealDoc::Iota(_) => "IotaDocument",
    }
  }
  fn core(&self) -> &CoreDocument {
    match self {
      RealDoc::Core(d) => d,
      RealDoc::Iota(d) => d.core_document(),
    }
  }
  fn json(&self) -> String {
    match self {
      RealDoc::Core(d) => d.to_json(),
      RealDoc::Iota(d) => d.to_json(),
    }
    .unwrap_or_else(|e| format!("unserialisable: {e}"))
  }
  fn from_json(&self, j: &str) -> Option<RealDoc> {
    match self {
      RealDoc::Core(_) => CoreDocument::from_json(j).ok().map(RealDoc::Core),
      RealDoc::Iota(_) => IotaDocument::from_json(j).ok().map(RealDoc::Iota),
    }
  }
  fn apply(&mut self, q: &DIDUrl, revoke: bool, idx: &[u32]) -> Result<(), String> {
    match (self, revoke) {
      (RealDoc::Core(d), true) => d.revoke_credentials(q, idx).map_err(|e| e.to_string()),
      (RealDoc::Core(d), false) => d.unrevoke_credentials(q, idx).map_err(|e| e.to_string()),
      (RealDoc::Iota(d), true) => d.revoke_credentials(q, idx).map_err(|e| e.to_string()),
      (RealDoc::Iota(d), false) => d.unrevoke_credentials(q, idx).map_err(|e| e.to_string()),
    }
  }
  /// The same ops with the service named by a string query (fragment, `#fragment`, full DID URL text).
  fn apply_str(&mut self, q: &str, revoke: bool, idx: &[u32]) -> Result<(), String> {
    match (self, revoke) {
      (RealDoc::Core(d), true) => d.revoke_credentials(q, idx).map_err(|e| e.to_string()),
      (RealDoc::Core(d), false) => d.unrevoke_credentials(q, idx).map_err(|e| e.to_string()),
      (RealDoc::Iota(d), true) => d.revoke_credentials(q, idx).map_err(|e| e.to_string()),
      (RealDoc::Iota(d), false) => d.unrevoke_credentials(q, idx).map_err(|e| e.to_string()),
    }
  }
  fn check_status(&self, cred: &Credential, mode: StatusCheck) -> Result<(), JwtValidationError> {
    match self {
      RealDoc::Core(d) => JwtCredentialValidatorUtils::check_status(cred, std::slice::from_ref(d), mode),
      RealDoc::Iota(d) => JwtCredentialValidatorUtils::check_status(cred, std::slice::from_ref(d), mode),
    }
  }
  /// `check_status` with two offered issuer documents: `other` (same kind) before or after `self`.
  fn check_status_with(&self, other: &RealDoc, other_first: bool, cred: &Credential, mode: StatusCheck) -> Result<(), JwtValidationError> {
    match (self, other) {
      (RealDoc::Core(d), RealDoc::Core(o)) => {
        let v = if other_first { [o.clone(), d.clone()] } else { [d.clone(), o.clone()] };
        JwtCredentialValidatorUtils::check_status(cred, &v, mode)
      }
      (RealDoc::Iota(d), RealDoc::Iota(o)) => {
        let v = if other_first { [o.clone(), d.clone()] } else { [d.clone(), o.clone()] };
        JwtCredentialValidatorUtils::check_status(cred, &v, mode)
      }
      _ => unreachable!("documents of one kind"),
    }
  }
  /// The direct entry point below `check_status`.
  fn check_bitmap_status(&self, status: RevocationBitmapStatus) -> Result<(), JwtValidationError> {
    match self {
      RealDoc::Core(d) => JwtCredentialValidatorUtils::check_revocation_bitmap_status(d, status),
      RealDoc::Iota(d) => JwtCredentialValidatorUtils::check_revocation_bitmap_status(d, status),
    }
  }
}

fn doc_json(did: &str, texts: &[String; 2]) -> serde_json::Value {
  json!({
    "id": did,
    "verificationMethod": [{"id": format!("{did}#key-1"), "controller": did, "type": "Ed25519VerificationKey2018", "publicKeyMultibase": "zJdzr2UvC"}],
    "authentication": [
      {"id": format!("{did}#auth-key"), "controller": did, "type": "Ed25519VerificationKey2018", "publicKeyMultibase": "zT7yhPEwJZL4G"},
      format!("{did}#key-1")
    ],
    "service": [
      {"id": format!("{did}#rev-a"), "type": "RevocationBitmap2022", "serviceEndpoint": format!("{DATA_URL}{}", texts[0])},
      {"id": format!("{did}#linked"), "type": "LinkedDomains", "serviceEndpoint": "https://example.com/"},
      {"id": format!("{did}#rev-b"), "type": "RevocationBitmap2022", "serviceEndpoint": format!("{DATA_URL}{}", texts[1])}
    ]
  })
}
fn real_doc(kind: u8, core: serde_json::Value) -> RealDoc {
  if kind == 0 {
    RealDoc::Core(CoreDocument::from_json_value(core).expect("CoreDocument"))
  } else {
    RealDoc::Iota(
      IotaDocument::from_json_value(json!({"doc": core, "meta": {"created": "2023-01-01T00:00:00Z", "updated": "2023-01-02T00:00:00Z"}})).expect("IotaDocument"),
    )
  }
}
/// Endpoint text of a set written by the library itself.
fn library_text(did: &str, frag: &str, members: &[u32]) -> String {
  let mut bm = RevocationBitmap::new();
  for m in members {
    bm.revoke(*m);
  }
  endpoint_text(&bm.to_service(svc_url(did, frag)).expect("service")).expect("data url endpoint")
}

fn start_doc(kind: u8, init: u8) -> (RealDoc, [BTreeSet<u32>; 2]) {
  let did = if kind == 0 { CORE_DID } else { IOTA_DID };
  let mut model: [BTreeSet<u32>; 2] = [BTreeSet::new(), BTreeSet::new()];
  let mut texts: [String; 2] = [String::new(), String::new()];
  for k in 0..2 {
    let m = init_members(init, k);
    texts[k] = match (init, k) {
      (1, _) => legacy_text(&zlib_roaring(&m)),
      (2, 0) => single_text(&zlib_default(&run_stream(&m, RunPolicy::All, None).expect("run stream"))),
      _ => library_text(did, SVC[k], &m),
    };
    model[k] = m.into_iter().collect();
  }
  (real_doc(kind, doc_json(did, &texts)), model)
}

/// A second document of the same kind under ANOTHER DID whose services carry the same fragments and hold exactly the
/// probe indices that `model` does not hold.
fn other_doc(kind: u8, uni: u8, model: &[BTreeSet<u32>; 2]) -> RealDoc {
  let did = if kind == 0 { OTHER_CORE_DID } else { OTHER_IOTA_DID };
  let texts: [String; 2] = [0, 1].map(|k| {
    let comp: Vec<u32> = probes_of(uni).into_iter().filter(|i| !model[k].contains(i)).collect();
    library_text(did, SVC[k], &comp)
  });
  real_doc(kind, doc_json(did, &texts))
}

/// The real document `json` (its own services untouched, so `did#frag` keeps its actual endpoint text) with one more
/// RevocationBitmap2022 service `other_did#frag` — same fragment, another DID — holding `members`, inserted before
/// or after the document's own services. `None` if the document kind refuses such a service.
fn with_same_fragment_service(doc: &RealDoc, json: &str, other_did: &str, frag: &str, members: &[u32], first: bool) -> Option<RealDoc> {
  let mut v: serde_json::Value = serde_json::from_str(json).ok()?;
  let extra = json!({"id": format!("{other_did}#{frag}"), "type": "RevocationBitmap2022", "serviceEndpoint": format!("{DATA_URL}{}", library_text(other_did, frag, members))});
  let core = if v.get("doc").is_some() { &mut v["doc"] } else { &mut v };
  let list = core.get_mut("service")?.as_array_mut()?;
  if first {
    list.insert(0, extra);
  } else {
    list.push(extra);
  }
  let text = serde_json::to_string(&v).ok()?;
  guard(|| doc.from_json(&text)).ok().flatten()
}
/// The document of this state with a second type added to its service `frag` (DID core: `type` is a set of strings;
/// the library's conversion asks whether that set CONTAINS RevocationBitmap2022). `first`: the added type comes first.
fn with_second_service_type(doc: &RealDoc, json: &str, did: &str, frag: &str, first: bool) -> Option<RealDoc> {
  let mut v: serde_json::Value = serde_json::from_str(json).ok()?;
  let id = format!("{did}#{frag}");
  let core = if v.get("doc").is_some() { &mut v["doc"] } else { &mut v };
  let list = core.get_mut("service")?.as_array_mut()?;
  let svc = list.iter_mut().find(|s| s.get("id").and_then(|i| i.as_str()) == Some(&id))?;
  svc["type"] = if first { json!(["CredentialRegistry", "RevocationBitmap2022"]) } else { json!(["RevocationBitmap2022", "CredentialRegistry"]) };
  let text = serde_json::to_string(&v).ok()?;
  guard(|| doc.from_json(&text)).ok().flatten()
}
const THIRD_CORE_DID: &str = "did:example:9999";
const THIRD_IOTA_DID: &str = "did:iota:0xcccccccccccccccccccccccccccccccccccccccccccccccccccccccccccccccc";

/// (core document as a JSON tree with the endpoint of service `frag` blanked and the services sorted by id — no order
/// of services is promised —, metadata of an IotaDocument).
fn masked(json: &str, did: &str, frag: &str) -> (serde_json::Value, serde_json::Value) {
  let mut v: serde_json::Value = serde_json::from_str(json).unwrap_or(serde_json::Value::Null);
  let id = format!("{did}#{frag}");
  let (mut doc, meta) = if v.get("doc").is_some() { (v["doc"].take(), v["meta"].take()) } else { (v, serde_json::Value::Null) };
  if let Some(list) = doc.get_mut("service").and_then(|s| s.as_array_mut()) {
    for s in list.iter_mut() {
      if s.get("id").and_then(|i| i.as_str()) == Some(&id) {
        s["serviceEndpoint"] = serde_json::Value::Null;
      }
    }
    list.sort_by_key(|s| s.get("id").map(|i| i.to_string()).unwrap_or_default());
  }
  (doc, meta)
}

fn credential(issuer: &str, status: Option<Status>) -> Credential {
  let mut b = CredentialBuilder::default()
    .id(Url::parse("https://example.edu/credentials/3732").unwrap())
    .issuer(Url::parse(issuer).unwrap())
    .type_("UniversityDegreeCredential")
    .subject(Subject::with_id(Url::parse("did:example:subject").unwrap()))
    .issuance_date(vx::fx::ts(vx::fx::NOW));
  if let Some(s) = status {
    b = b.status(s);
  }
  b.build().expect("credential")
}
fn raw_status(id: &str, index_prop: Option<&str>) -> Status {
  let mut o = Object::new();
  if let Some(i) = index_prop {
    o.insert("revocationBitmapIndex".to_owned(), Value::String(i.to_owned()));
  }
  Status::new_with_properties(Url::parse(id).expect("status id"), "RevocationBitmap2022".to_owned(), o)
}
fn res_label(r: &Result<(), JwtValidationError>) -> &'static str {
  match r {
    Ok(()) => "Ok",
    Err(JwtValidationError::Revoked) => "Revoked",
    Err(JwtValidationError::InvalidStatus(_)) => "InvalidStatus",
    Err(JwtValidationError::ServiceLookupError { .. }) => "ServiceLookupError",
    Err(JwtValidationError::DocumentMismatch { .. }) => "DocumentMismatch",
    Err(_) => "other-error",
  }
}

#[derive(Clone, Debug)]
struct HState {
  doc: RealDoc,
  model: [BTreeSet<u32>; 2],
  hist: Vec<(u8, bool, u8)>,
  fp: String,
}
impl PartialEq for HState {
  fn eq(&self, o: &Self) -> bool {
    self.fp == o.fp
  }
}
impl Eq for HState {}
impl Hash for HState {
  fn hash<H: Hasher>(&self, h: &mut H) {
    self.fp.hash(h) // fingerprint = canonical JSON of the REAL document
  }
}

struct HModel {
  kind: u8,
  init: u8,
  uni: u8,
  /// longest batch enumerated by `actions` (batch ids do not depend on it)
  max_len: u8,
  /// canonical-status credentials per service and probe index (built once)
  creds: Vec<Vec<(u32, Credential)>>,
  /// indices whose membership is compared after every step: the universe and its +-1 neighbours, every initial
  /// member and its +-1 neighbours
  mprobes: Vec<u32>,
  col: Arc<Collector>,
  /// fingerprints whose per-state checks (validation, dangling queries) have been done
  seen: Mutex<HashSet<String>>,
}

/// First difference between the bitmaps held by a real document and the model.
enum Diff {
  Panic(vx::guard::Panicked),
  Rejected(usize, String),
  Member(usize, u32, bool),
  Card(usize, u64),
}
impl Diff {
  fn describe(&self) -> String {
    match self {
      Diff::Panic(p) => format!("panic: {}", p.msg),
      Diff::Rejected(k, e) => format!("service {} does not decode: {e}", SVC[*k]),
      Diff::Member(k, i, got) => format!("service {}: index {i} reads {got}", SVC[*k]),
      Diff::Card(k, n) => format!("service {} holds {n} members", SVC[*k]),
    }
  }
}

impl HModel {
  fn new(kind: u8, init: u8, uni: u8, max_len: u8, col: Arc<Collector>) -> HModel {
    let did = if kind == 0 { CORE_DID } else { IOTA_DID };
    let creds = (0..2)
      .map(|k| {
        probes_of(uni)
          .into_iter()
          .map(|i| (i, credential(did, Some(RevocationBitmapStatus::new(svc_url(did, SVC[k]), i).into()))))
          .collect()
      })
      .collect();
    let mut mp: BTreeSet<u32> = probes_of(uni).into_iter().collect();
    for k in 0..2 {
      for i in init_members(init, k) {
        mp.insert(i);
        mp.insert(i.wrapping_add(1));
        mp.insert(i.wrapping_sub(1));
      }
    }
    HModel { kind, init, uni, max_len, creds, mprobes: mp.into_iter().collect(), col, seen: Mutex::new(HashSet::new()) }
  }
  fn case(&self, hist: &[(u8, bool, u8)]) -> Case {
    Case::Hist { kind: self.kind, init: self.init, uni: self.uni, ops: hist.to_vec() }
  }

  fn diff(&self, doc: &RealDoc, model: &[BTreeSet<u32>; 2]) -> Option<Diff> {
    let did = doc.did();
    for k in 0..2 {
      let q = svc_url(did, SVC[k]);
      let bm = match guard(|| doc.core().resolve_revocation_bitmap((&q).into())) {
        Err(p) => return Some(Diff::Panic(p)),
        Ok(Err(e)) => return Some(Diff::Rejected(k, e.to_string())),
        Ok(Ok(bm)) => bm,
      };
      for &i in &self.mprobes {
        let got = bm.is_revoked(i);
        if got != model[k].contains(&i) {
          return Some(Diff::Member(k, i, got));
        }
      }
      if bm.len() != model[k].len() as u64 {
        return Some(Diff::Card(k, bm.len()));
      }
    }
    None
  }

  /// Both services decode and agree with the model on every probe index. `target` = (service, batch, op name) of
  /// the op that led here, if any.
  fn check_membership(&self, s: &HState, target: Option<(usize, &[u32], &str)>, case: &Case) -> bool {
    match self.diff(&s.doc, &s.model) {
      None => true,
      Some(Diff::Panic(p)) => {
        self.col.violation(&format!("resolve_revocation_bitmap|{}", p.key()), &p.msg, case);
        false
      }
      Some(Diff::Rejected(k, e)) => {
        match target {
          Some((t, _, op)) if t == k => self.col.violation(
            K_OWN_REJECTED,
            &format!("{}: the endpoint written by {op} ({} members) is rejected: {e}", s.doc.kind(), s.model[k].len()),
            case,
          ),
          Some((_, _, op)) => self.col.violation(&format!("{op}|untouched-service-no-longer-decodes"), &format!("service {}: {e}", SVC[k]), case),
          None => self.col.violation(start_keys(self.init, k).0, &format!("start endpoint of {} is rejected: {e}", SVC[k]), case),
        }
        false
      }
      Some(Diff::Member(k, i, got)) => {
        match target {
          Some((t, b, op)) => {
            let class = if t != k {
              "other-service-changed"
            } else if b.contains(&i) {
              "requested-index-not-changed"
            } else {
              "other-index-changed"
            };
            self.col.violation(
              &format!("{op}|membership|{class}"),
              &format!("{} service {} index {i}: is_revoked = {got}, model {}, after {:?}", s.doc.kind(), SVC[k], !got, s.hist),
              case,
            );
          }
          None => self.col.violation(start_keys(self.init, k).1, &format!("start endpoint of {}: index {i} is_revoked = {got}", SVC[k]), case),
        }
        false
      }
      Some(Diff::Card(k, len)) => {
        match target {
          Some((_, _, op)) => self.col.violation(&format!("{op}|membership|cardinality-differs"), &format!("service {}: len {len} model {}", SVC[k], s.model[k].len()), case),
          None => self.col.violation(start_keys(self.init, k).1, &format!("start endpoint of {}: len {len} model {}", SVC[k], s.model[k].len()), case),
        }
        false
      }
    }
  }

  /// (c), every step: `check_status` (Strict) of a credential whose canonical status entry points at each probe
  /// index of each service reports `Revoked` iff the model holds the index.
  fn validate_step(&self, s: &HState, case: &Case) {
    for k in 0..2 {
      for (i, cred) in &self.creds[k] {
        let member = s.model[k].contains(i);
        self.col.eval1();
        let r = guard(|| s.doc.check_status(cred, StatusCheck::Strict));
        self.judge_canonical(s, "check_status", &format!("Strict service {} index {i}", SVC[k]), r, member, case);
      }
    }
  }
  /// Canonical entry (written by `RevocationBitmapStatus::new`), service present, issuer document offered: the family
  /// the statement describes — `Revoked` iff member, otherwise the check passes.
  fn judge_canonical(&self, s: &HState, entry: &str, what: &str, r: Result<Result<(), JwtValidationError>, vx::guard::Panicked>, member: bool, case: &Case) -> &'static str {
    match r {
      Err(p) => {
        self.col.violation(&format!("{entry}|{}", p.key()), &p.msg, case);
        "panic"
      }
      Ok(r) => {
        let got = res_label(&r);
        let want = if member { "Revoked" } else { "Ok" };
        if got != want {
          let class = if member { format!("member|reported-{}", if got == "Ok" { "valid" } else { got }) } else { format!("non-member|reported-{got}") };
          self.col.violation(&format!("{entry}|{class}"), &format!("{} {what}: got {got}, after {:?}", s.doc.kind(), s.hist), case);
        }
        got
      }
    }
  }

  /// (c) variants + dangling queries; done once per distinct real state.
  fn per_state_checks(&self, s: &HState, case: &Case) {
    if !self.seen.lock().unwrap().insert(s.fp.clone()) {
      return;
    }
    let did = s.doc.did();
    let u = universe(self.uni);
    let other = other_doc(self.kind, self.uni, &s.model);
    for k in 0..2 {
      let svc = format!("{did}#{}", SVC[k]);
      for i in probes_of(self.uni) {
        let member = s.model[k].contains(&i);
        // canonical status entry
        let rbs = RevocationBitmapStatus::new(svc_url(did, SVC[k]), i);
        // documented on `RevocationBitmapStatus::new`: index() is the index, the id carries `?index=<index>`
        match guard(|| (rbs.index().ok(), rbs.id().ok().map(|u| u.to_string()))) {
          Ok((Some(ix), Some(id))) if ix == i && id == format!("{did}?index={i}#{}", SVC[k]) => {}
          other => self.col.violation("RevocationBitmapStatus::new|index-or-id-differs-from-documentation", &format!("index {i}: {other:?}"), case),
        }
        let st: Status = rbs.clone().into();
        let cred = credential(did, Some(st));
        for (mode, mname) in [(StatusCheck::Strict, "Strict"), (StatusCheck::SkipUnsupported, "SkipUnsupported")] {
          self.col.eval1();
          let r = guard(|| s.doc.check_status(&cred, mode));
          let got = self.judge_canonical(s, "check_status", &format!("{mname} service {} index {i}", SVC[k]), r, member, case);
          self.col.outcome(&format!("status:canonical:{mname}:{got}"));
          // the issuer's document is one of two offered documents; the other one (another DID) has services with the
          // same fragments holding the complement
          for other_first in [true, false] {
            self.col.eval1();
            let r = guard(|| s.doc.check_status_with(&other, other_first, &cred, mode));
            let got = self.judge_canonical(
              s,
              "check_status|two-issuer-documents",
              &format!("{mname} service {} index {i}, issuer document {}", SVC[k], if other_first { "second" } else { "first" }),
              r,
              member,
              case,
            );
            self.col.outcome(&format!("status:two-issuer-documents:{got}"));
          }
        }
        // the entry point below check_status
        self.col.eval1();
        let r = guard(|| s.doc.check_bitmap_status(rbs.clone()));
        let got = self.judge_canonical(s, "check_revocation_bitmap_status", &format!("service {} index {i}", SVC[k]), r, member, case);
        self.col.outcome(&format!("status:direct:{got}"));
        // SkipAll: recorded only
        if let Ok(r) = guard(|| s.doc.check_status(&cred, StatusCheck::SkipAll)) {
          self.col.outcome(&format!("status:canonical:SkipAll:{}", res_label(&r)));
        }
        // no index query (older form of the spec): safety both ways, liveness recorded only
        let cred = credential(did, Some(raw_status(&svc, Some(&i.to_string()))));
        self.judge_open(s, &cred, "no-index-query", &[member], case);
        // index query != index property
        for j in u.iter().copied().filter(|j| *j != i) {
          let id = format!("{did}?index={j}#{}", SVC[k]);
          let cred = credential(did, Some(raw_status(&id, Some(&i.to_string()))));
          self.judge_open(s, &cred, "index-query-differs-from-property", &[member, s.model[k].contains(&j)], case);
        }
        // the index query names i, the property is missing / not a u32 / not decimal: whether such an entry is refused
        // is recorded; judged is only that a member is never reported valid and a non-member never reported revoked
        for (what, prop) in [
          ("index-property-missing", None),
          ("index-property-not-u32", Some("4294967296".to_string())),
          ("index-property-not-decimal", Some("0x1".to_string())),
          ("index-property-with-sign", Some(format!("+{i}"))),
          ("index-property-with-leading-zero", Some(format!("0{i}"))),
        ] {
          let id = format!("{did}?index={i}#{}", SVC[k]);
          let cred = credential(did, Some(raw_status(&id, prop.as_deref())));
          self.judge_open(s, &cred, what, &[member], case);
        }
        // an index outside the u32 range is no member of any bitmap: never `Revoked` (2^32 + i wraps to i)
        for (what, id) in [("index-beyond-u32|no-index-query", svc.clone()), ("index-beyond-u32|same-index-query", format!("{did}?index={}#{}", (1u64 << 32) + i as u64, SVC[k]))] {
          let cred = credential(did, Some(raw_status(&id, Some(&((1u64 << 32) + i as u64).to_string()))));
          self.judge_open(s, &cred, what, &[false], case);
        }
        // the status id names the OTHER document's service (same fragment, another DID) while the credential is issued
        // by this document, which holds no such service: the status cannot be established, so the check must not pass
        // (in particular it must not be answered from this document's own service with that fragment)
        let rbs_other = RevocationBitmapStatus::new(svc_url(other.did_str(), SVC[k]), i);
        let cred_other = credential(did, Some(rbs_other.clone().into()));
        self.col.eval1();
        match guard(|| s.doc.check_status_with(&other, false, &cred_other, StatusCheck::Strict)) {
          Err(p) => self.col.violation(&format!("check_status|{}", p.key()), &p.msg, case),
          Ok(r) => {
            if r.is_ok() {
              self.col.violation("check_status|status-id-names-a-service-the-issuer-document-does-not-hold|accepted", &format!("{} service {} index {i} after {:?}", s.doc.kind(), SVC[k], s.hist), case);
            }
            self.col.outcome(&format!("status:status-id-under-another-did:{}", res_label(&r)));
          }
        }
        self.col.eval1();
        match guard(|| s.doc.check_bitmap_status(rbs_other)) {
          Err(p) => self.col.violation(&format!("check_revocation_bitmap_status|{}", p.key()), &p.msg, case),
          Ok(r) => {
            if r.is_ok() {
              self.col.violation("check_revocation_bitmap_status|status-id-names-a-service-the-issuer-document-does-not-hold|accepted", &format!("{} service {} index {i} after {:?}", s.doc.kind(), SVC[k], s.hist), case);
            }
            self.col.outcome(&format!("status:direct:status-id-under-another-did:{}", res_label(&r)));
          }
        }
      }
      // the issuer document ALSO holds `other-did#<same fragment>` with the complement set, before / after its own
      // services: a status entry naming either service is answered by exactly that service
      let comp: Vec<u32> = probes_of(self.uni).into_iter().filter(|i| !s.model[k].contains(i)).collect();
      let third = if self.kind == 0 { THIRD_CORE_DID } else { THIRD_IOTA_DID };
      for first in [true, false] {
        let Some(doc2) = with_same_fragment_service(&s.doc, &s.fp, other.did_str(), SVC[k], &comp, first) else {
          self.col.outcome(&format!("two-same-fragment-services:{}:document-kind-refuses-a-service-under-another-did", s.doc.kind()));
          continue;
        };
        self.col.outcome(&format!("two-same-fragment-services:{}:built", s.doc.kind()));
        for i in probes_of(self.uni) {
          let in_own = s.model[k].contains(&i);
          for (which, sdid, member) in [("own-did", did, in_own), ("other-did", other.did_str(), !in_own)] {
            let rbs = RevocationBitmapStatus::new(svc_url(sdid, SVC[k]), i);
            let cred = credential(did, Some(rbs.clone().into()));
            let what = format!("service {sdid}#{} index {i}, the other-did service {} the own one", SVC[k], if first { "before" } else { "after" });
            self.col.eval1();
            let r = guard(|| doc2.check_status(&cred, StatusCheck::Strict));
            let got = self.judge_canonical(s, "check_status|two-same-fragment-services", &what, r, member, case);
            self.col.outcome(&format!("status:two-same-fragment-services:{which}:{got}"));
            self.col.eval1();
            let r = guard(|| doc2.check_bitmap_status(rbs));
            let got = self.judge_canonical(s, "check_revocation_bitmap_status|two-same-fragment-services", &what, r, member, case);
            self.col.outcome(&format!("status:direct:two-same-fragment-services:{which}:{got}"));
          }
          // a third DID with the same fragment: no such service in the document
          let rbs = RevocationBitmapStatus::new(svc_url(third, SVC[k]), i);
          let cred = credential(did, Some(rbs.clone().into()));
          for (entry, r) in [("check_status", guard(|| doc2.check_status(&cred, StatusCheck::Strict))), ("check_revocation_bitmap_status", guard(|| doc2.check_bitmap_status(rbs.clone())))] {
            self.col.eval1();
            match r {
              Err(p) => self.col.violation(&format!("{entry}|{}", p.key()), &p.msg, case),
              Ok(r) => {
                if r.is_ok() {
                  self.col.violation(&format!("{entry}|status-id-names-a-service-the-issuer-document-does-not-hold|accepted"), &format!("{} third DID, service {} index {i} after {:?}", s.doc.kind(), SVC[k], s.hist), case);
                }
                self.col.outcome(&format!("status:two-same-fragment-services:third-did:{}", res_label(&r)));
              }
            }
          }
        }
      }
    }
    // the bitmap service carries a second type besides RevocationBitmap2022 (either order): it is still the service
    // the bitmap was encoded into — it decodes to the same set, answers status checks, and is updated through the document
    for k in 0..2 {
      for first in [true, false] {
        let Some(mut doc2) = with_second_service_type(&s.doc, &s.fp, did, SVC[k], first) else {
          self.col.outcome(&format!("service-with-a-second-type:{}:document-not-rebuilt(unjudged)", s.doc.kind()));
          continue;
        };
        self.col.eval1();
        match self.diff(&doc2, &s.model) {
          None => self.col.outcome("service-with-a-second-type:decodes-to-the-same-sets"),
          Some(Diff::Panic(p)) => self.col.violation(&format!("resolve_revocation_bitmap|{}", p.key()), &p.msg, case),
          Some(d) => self.col.violation(
            "resolve_revocation_bitmap|service-with-a-second-type|bitmap-not-read-back",
            &format!("{} service {} typed {}: {} after {:?}", s.doc.kind(), SVC[k], if first { "[other, RevocationBitmap2022]" } else { "[RevocationBitmap2022, other]" }, d.describe(), s.hist),
            case,
          ),
        }
        for i in probes_of(self.uni) {
          let member = s.model[k].contains(&i);
          let rbs = RevocationBitmapStatus::new(svc_url(did, SVC[k]), i);
          let cred = credential(did, Some(rbs.clone().into()));
          let what = format!("service {} (second type {}) index {i}", SVC[k], if first { "first" } else { "last" });
          self.col.eval1();
          let r = guard(|| doc2.check_status(&cred, StatusCheck::Strict));
          let got = self.judge_canonical(s, "check_status|service-with-a-second-type", &what, r, member, case);
          self.col.outcome(&format!("status:service-with-a-second-type:{got}"));
          self.col.eval1();
          let r = guard(|| doc2.check_bitmap_status(rbs));
          let got = self.judge_canonical(s, "check_revocation_bitmap_status|service-with-a-second-type", &what, r, member, case);
          self.col.outcome(&format!("status:direct:service-with-a-second-type:{got}"));
        }
        // one revoke and one unrevoke of the first probe index through the document
        let i = probes_of(self.uni)[0];
        let q = svc_url(did, SVC[k]);
        for revoke in [true, false] {
          self.col.eval1();
          match guard(|| doc2.apply(&q, revoke, &[i])) {
            Err(p) => self.col.violation(&format!("{}|{}", if revoke { "revoke_credentials" } else { "unrevoke_credentials" }, p.key()), &p.msg, case),
            Ok(Err(e)) => self.col.violation(
              &format!("{}|service-with-a-second-type|refused", if revoke { "revoke_credentials" } else { "unrevoke_credentials" }),
              &format!("{} service {}: {e} after {:?}", s.doc.kind(), SVC[k], s.hist),
              case,
            ),
            Ok(Ok(())) => {
              let mut m = s.model.clone();
              if revoke {
                m[k].insert(i);
              } else {
                m[k].remove(&i);
              }
              // (the unrevoke follows the revoke on the same document)
              if let Some(d) = self.diff(&doc2, &m) {
                self.col.violation(
                  &format!("{}|service-with-a-second-type|membership-differs", if revoke { "revoke_credentials" } else { "unrevoke_credentials" }),
                  &format!("{} service {}: {} after {:?}", s.doc.kind(), SVC[k], d.describe(), s.hist),
                  case,
                );
              }
            }
          }
        }
      }
    }
    // dangling / wrong-type service, unknown issuer document
    let i = u[0];
    let st: Status = RevocationBitmapStatus::new(svc_url(did, "nope"), i).into();
    self.must_not_pass(s, &credential(did, Some(st)), "unresolvable-service", case);
    let st: Status = RevocationBitmapStatus::new(svc_url(did, "linked"), i).into();
    self.must_not_pass(s, &credential(did, Some(st)), "non-bitmap-service", case);
    let st: Status = RevocationBitmapStatus::new(svc_url(did, SVC[0]), i).into();
    self.must_not_pass(s, &credential("did:example:someone-else", Some(st)), "issuer-document-not-offered", case);
    // a credential without status: recorded (the statement speaks about credentials that have a status entry)
    match guard(|| s.doc.check_status(&credential(did, None), StatusCheck::Strict)) {
      Ok(r) => self.col.outcome(&format!("status:unjudged:no-status:{}", res_label(&r))),
      Err(p) => self.col.violation(&format!("check_status|{}", p.key()), &p.msg, case),
    }
    // revoke/unrevoke through a dangling or wrong-type query: whether the op is refused is recorded; the bitmaps of
    // the document keep their members either way
    for (frag, what) in [("nope", "unknown-service"), ("linked", "non-bitmap-service"), ("key-1", "method-id")] {
      for revoke in [true, false] {
        let op = if revoke { "revoke_credentials" } else { "unrevoke_credentials" };
        let mut d = s.doc.clone();
        let q = svc_url(did, frag);
        let x = if revoke { u.iter().find(|i| !s.model[0].contains(i)) } else { u.iter().find(|i| s.model[0].contains(i)) }.copied().unwrap_or(u[0]);
        match guard(|| d.apply(&q, revoke, &[x])) {
          Err(p) => self.col.violation(&format!("{op}|{}", p.key()), &p.msg, case),
          Ok(r) => {
            if self.diff(&d, &s.model).is_some() {
              self.col.violation(&format!("{op}|{what}|membership-of-a-bitmap-service-changed"), &format!("query #{frag}, index {x}, after {:?}", s.hist), case);
            }
            let same = d.json() == s.fp;
            self.col.outcome(&format!("op:{what}:{}:{}", if r.is_ok() { "accepted" } else { "refused" }, if same { "document-unchanged" } else { "document-changed" }));
          }
        }
      }
    }
    // the service named by a string query instead of a DIDUrl: if the op is accepted it has the same effect
    for k in 0..2 {
      for (form, q) in [("#fragment", format!("#{}", SVC[k])), ("bare-fragment", SVC[k].to_string()), ("did-url-text", format!("{did}#{}", SVC[k]))] {
        for revoke in [true, false] {
          let op = if revoke { "revoke_credentials" } else { "unrevoke_credentials" };
          let mut d = s.doc.clone();
          // one index that changes state and one that does not
          let batch: Vec<u32> = vec![u[1], u[0]];
          match guard(|| d.apply_str(&q, revoke, &batch)) {
            Err(p) => self.col.violation(&format!("{op}|{}", p.key()), &p.msg, case),
            Ok(r) => {
              let mut want = s.model.clone();
              if r.is_ok() {
                for i in &batch {
                  if revoke {
                    want[k].insert(*i);
                  } else {
                    want[k].remove(i);
                  }
                }
              }
              if self.diff(&d, &want).is_some() {
                self.col.violation(
                  &format!("{op}|string-query|{}", if r.is_ok() { "membership-differs-from-model" } else { "refused-op-changed-membership" }),
                  &format!("{} query `{q}` batch {batch:?} after {:?}", s.doc.kind(), s.hist),
                  case,
                );
              }
              self.col.outcome(&format!("op:string-query:{form}:{}", if r.is_ok() { "accepted" } else { "refused" }));
            }
          }
        }
      }
    }
  }
  /// `members[x]` = membership of every index the status entry names. All members => must not be Ok;
  /// none a member => must not be Revoked; anything else is recorded only.
  fn judge_open(&self, s: &HState, cred: &Credential, what: &str, members: &[bool], case: &Case) {
    self.col.eval1();
    match guard(|| s.doc.check_status(cred, StatusCheck::Strict)) {
      Err(p) => self.col.violation(&format!("check_status|{}", p.key()), &p.msg, case),
      Ok(r) => {
        let got = res_label(&r);
        if members.iter().all(|m| *m) && got == "Ok" {
          self.col.violation(&format!("check_status|{what}|member|reported-valid"), &format!("{} after {:?}", s.doc.kind(), s.hist), case);
        }
        if members.iter().all(|m| !*m) && got == "Revoked" {
          self.col.violation(&format!("check_status|{what}|non-member|reported-Revoked"), &format!("{} after {:?}", s.doc.kind(), s.hist), case);
        }
        self.col.outcome(&format!("status:{what}:{got}"));
      }
    }
  }
  /// The bitmap the status entry names cannot be read at all: the check must not pass (whatever the error).
  fn must_not_pass(&self, s: &HState, cred: &Credential, what: &str, case: &Case) {
    self.col.eval1();
    for mode in [StatusCheck::Strict, StatusCheck::SkipUnsupported] {
      match guard(|| s.doc.check_status(cred, mode)) {
        Err(p) => self.col.violation(&format!("check_status|{}", p.key()), &p.msg, case),
        Ok(r) => {
          let got = res_label(&r);
          if got == "Ok" {
            self.col.violation(&format!("check_status|{what}|accepted"), &format!("{} after {:?}", s.doc.kind(), s.hist), case);
          }
          self.col.outcome(&format!("status:{what}:{got}"));
        }
      }
    }
  }
}

impl Model for HModel {
  type State = HState;
  type Action = (u8, bool, u8);
  fn init_states(&self) -> Vec<HState> {
    let (doc, model) = start_doc(self.kind, self.init);
    let fp = doc.json();
    let s = HState { doc, model, hist: vec![], fp };
    let case = self.case(&[]);
    if !self.check_membership(&s, None, &case) {
      return vec![];
    }
    self.per_state_checks(&s, &case);
    vec![s]
  }
  fn actions(&self, _s: &HState, out: &mut Vec<Self::Action>) {
    for svc in 0..2u8 {
      for revoke in [true, false] {
        for b in 0..batch_count(self.uni, self.max_len) {
          out.push((svc, revoke, b));
        }
      }
    }
  }
  fn next_state(&self, s: &HState, (svc, revoke, b): Self::Action) -> Option<HState> {
    self.col.eval1();
    let mut n = s.clone();
    n.hist.push((svc, revoke, b));
    let case = self.case(&n.hist);
    let op = if revoke { "revoke_credentials" } else { "unrevoke_credentials" };
    let did = s.doc.did();
    let k = svc as usize;
    let q = svc_url(did, SVC[k]);
    let idx = batch(self.uni, b);
    match guard(|| n.doc.apply(&q, revoke, &idx)) {
      Err(p) => {
        self.col.violation(&format!("{op}|{}", p.key()), &p.msg, &case);
        return None;
      }
      Ok(Err(e)) => {
        self.col.violation(&format!("{op}|permitted-op-rejected"), &format!("{} batch {idx:?} after {:?}: {e}", s.doc.kind(), s.hist), &case);
        return None;
      }
      Ok(Ok(())) => {}
    }
    for i in &idx {
      if revoke {
        n.model[k].insert(*i);
      } else {
        n.model[k].remove(i);
      }
    }
    n.fp = n.doc.json();
    // nothing but the target endpoint changed in the core document (methods, the other services and their endpoints,
    // id and type of the target service); document metadata is recorded only
    let (after, meta_after) = masked(&n.fp, did, SVC[k]);
    let (before, meta_before) = masked(&s.fp, did, SVC[k]);
    if after != before {
      self.col.violation(&format!("{op}|rest-of-document-changed"), &format!("{} after {:?}", s.doc.kind(), n.hist), &case);
      return None;
    }
    if meta_after != meta_before {
      self.col.outcome("unjudged:op-changed-document-metadata");
    }
    if !self.check_membership(&n, Some((k, &idx, op)), &case) {
      return None;
    }
    // the serialised document parses back to a document holding the same bitmaps (that the text is a fixpoint is
    // recorded only)
    match guard(|| n.doc.from_json(&n.fp)) {
      Ok(Some(back)) => {
        if self.diff(&back, &n.model).is_some() {
          self.col.violation(&format!("{op}|document-json-round-trip|bitmaps-differ"), &format!("{} after {:?}", s.doc.kind(), n.hist), &case);
          return None;
        }
        if back.json() != n.fp {
          self.col.outcome("unjudged:document-json-not-a-fixpoint");
        }
      }
      Ok(None) => {
        self.col.violation(&format!("{op}|document-json-round-trip|rejected"), &format!("{} after {:?}", s.doc.kind(), n.hist), &case);
        return None;
      }
      Err(p) => {
        self.col.violation(&format!("{op}|document-json-round-trip|{}", p.key()), &p.msg, &case);
        return None;
      }
    }
    // validation after EVERY step: a credential pointing at each probe index of each service
    self.validate_step(&n, &case);
    self.per_state_checks(&n, &case);
    let changed = n.model[k] != s.model[k];
    self.col.outcome(&format!(
      "op:{op}:batch-len-{}:{}:{}",
      idx.len(),
      batch_class(&idx, &s.model[k], revoke),
      if changed { "membership-changed" } else { "membership-unchanged" }
    ));
    self.col.sample(&case);
    Some(n)
  }
  fn properties(&self) -> Vec<Property<Self>> {
    vec![Property::always("violations are collected on the side", |_, _| true)]
  }
}

fn eval(ctx: &Ctx, case: &Case) {
  ctx.eval1();
  match case {
    Case::Hist { kind, init, uni, ops } => {
      let col = Collector::new();
      let m = HModel::new(*kind, *init, *uni, 3, col.clone());
      if let Some(mut st) = m.init_states().pop() {
        for a in ops {
          match m.next_state(&st, *a) {
            Some(n) => st = n,
            None => break,
          }
        }
      }
      col.drain_into(ctx, "history-replay");
    }
    Case::Dense { kind, base, start, revoke, batch } => eval_dense(ctx, case, *kind, *base, *start, *revoke, batch),
    _ => eval_set(ctx, case),
  }
}

/// Every state of a dense 5-index universe x every ordered batch: all transitions of the closure over that universe
/// (every subset is a start state), without the per-state extras of (b)/(c).
fn eval_dense(ctx: &Ctx, case: &Case, kind: u8, base: u32, start: u8, revoke: bool, batch: &[u8]) {
  let did = if kind == 0 { CORE_DID } else { IOTA_DID };
  let before: BTreeSet<u32> = (0..5u32).filter(|b| (start >> b) & 1 == 1).map(|b| base + b).collect();
  let members: Vec<u32> = before.iter().copied().collect();
  let mut doc = real_doc(kind, doc_json(did, &[library_text(did, SVC[0], &members), library_text(did, SVC[1], &[])]));
  let idx: Vec<u32> = batch.iter().map(|b| base + *b as u32).collect();
  let op = if revoke { "revoke_credentials" } else { "unrevoke_credentials" };
  let q = svc_url(did, SVC[0]);
  match guard(|| doc.apply(&q, revoke, &idx)) {
    Err(p) => return ctx.violation(&format!("{op}|{}", p.key()), &p.msg, case),
    Ok(Err(e)) => return ctx.violation(&format!("{op}|permitted-op-rejected"), &format!("{e}; start {members:?}, batch {idx:?}"), case),
    Ok(Ok(())) => {}
  }
  let mut want = before.clone();
  for i in &idx {
    if revoke {
      want.insert(*i);
    } else {
      want.remove(i);
    }
  }
  let want: Vec<u32> = want.into_iter().collect();
  // indices that must not be members afterwards: the rest of the universe and its two neighbours
  let mut around: Vec<u32> = (0..=5u32).map(|b| base + b).collect();
  if base > 0 {
    around.push(base - 1);
  }
  let probes: Vec<u32> = around.iter().copied().filter(|i| !want.contains(i)).collect();
  match doc_set_diff(&doc, SVC[0], &want, &probes, &format!("{op}|service-no-longer-decodes")) {
    Err((k, w)) => ctx.violation(&k, &w, case),
    Ok(Some(d)) => {
      ctx.violation(&format!("{op}|membership|differs-from-model"), &format!("start {members:?}, batch {idx:?}: {d}"), case)
    }
    Ok(None) => {}
  }
  match doc_set_diff(&doc, SVC[1], &[], &around, &format!("{op}|other-service-no-longer-decodes")) {
    Err((k, w)) => ctx.violation(&k, &w, case),
    Ok(Some(d)) => ctx.violation(&format!("{op}|membership|other-service-changed"), &d, case),
    Ok(None) => {}
  }
  ctx.outcome(&format!("dense:{op}:{}", if want == members { "membership-unchanged" } else { "membership-changed" }));
  ctx.distinct(&(11u8, kind, base, start, revoke, batch.to_vec()));
}

fn run_sets(ctx: &Ctx, name: &str, cases: Vec<Case>) {
  if cases.is_empty() {
    return;
  }
  for i in [0, cases.len() / 3, cases.len() - 1] {
    ctx.sample(name, &cases[i]);
  }
  cases.par_iter().for_each(|c| eval(ctx, c));
  ctx.add_states(cases.len() as u64);
  ctx.add_transitions(cases.len() as u64);
  ctx.add_traces(cases.len() as u64);
  ctx.part(name, json!({"engine": "E1 full product / complete family", "sets": cases.len()}));
}

fn generate(ctx: &Ctx) {
  ctx.rule("(a) complete families of u32 sets (all 4096 subsets of a 12-index universe; prefix sets; strided, multiplicative-hash, run-union and dense-with-holes sets over full parameter products), each built two ways through revoke/unrevoke, encoded by the library and decoded back (directly, through the service's JSON, through a document), revoked through a document in one batch and half un-revoked in one batch, + harness-built legacy twin; (d) for every such set the endpoints another implementation would write: run-container streams (3 container-choice policies; decode, re-encode, update through a document: judged) and zlib levels 0/1/9 (recorded; only a wrong decoded set is judged); (b),(c) stateright BFS to closure over revoke/unrevoke batch histories on real documents from three start states (fresh, legacy, run-container stream + dense 4097-member set), batches are ordered index sequences with duplicates; membership of both services and check_status of every probe index judged after every step, status-entry variants, two offered issuer documents, two same-fragment services under different DIDs in one issuer document, check_revocation_bitmap_status and string service queries once per distinct real document state. distinct_nontrivial = distinct set cases (every one runs the whole encode/decode path) + unique document states of (b)");
  ctx.assume("roaring (portable serialisation, also as the reader that cross-checks the harness-written run-container streams) and flate2 (zlib) are trusted lossless codecs; the harness builds legacy endpoints with them and its own base64 encoder");
  ctx.assume("legacy form = the single text form Base64Url-nopad(zlib(roaring)) base64-encoded once more with the standard alphabet and padding, as the versions before the fix of issue #1291 wrote it through their data-url layer (empty bitmap: ZUp5ek1tQUFBd0FES0FCcg==); the unpadded variant and the variant with a standard-alphabet inner layer are recorded, not judged");
  ctx.assume("a run-container stream (roaring format specification, cookie 12347) compressed with zlib at the default level is a conformant RevocationBitmap2022 endpoint that must decode; conformant endpoints compressed at other zlib levels are recorded only (the library tells legacy from current endpoints by the text prefix that the default level produces)");
  let max = ctx.by_tier(20_000u32, 100_000u32);

  // subsets of the 12-index universe
  run_sets(ctx, "subset12", (0..4096u16).map(|mask| Case::Subset { mask }).collect());

  // prefix sets
  let mut ns: BTreeSet<u32> = BTreeSet::new();
  if ctx.quick() {
    ns.extend(0..=512);
    ns.extend(4064..=4128);
    ns.extend((512..=5000).step_by(97));
    ns.extend(65_530..=65_542);
  } else {
    ns.extend(0..=70_000);
    ns.extend([100_000, 131_071, 131_072, 131_073]);
  }
  run_sets(ctx, "prefix", ns.into_iter().map(|n| Case::Prefix { n }).collect());

  // strided and hashed sets
  let mut sizes: Vec<u32> = (1..=64).collect();
  sizes.extend([100, 256, 1_000, 5_000, 20_000, 100_000]);
  sizes.retain(|s| *s <= max);
  let mut v = Vec::new();
  for start in [0u32, 65_530] {
    for step in [2u32, 3, 7, 64, 4096, 65_536, 65_537] {
      for &size in &sizes {
        v.push(Case::Stride { start, step, size });
      }
    }
  }
  run_sets(ctx, "stride", v);
  let mut v = Vec::new();
  for seed in [0u32, 1, 12_345] {
    for &size in &sizes {
      v.push(Case::Hashed { seed, size });
    }
  }
  run_sets(ctx, "hashed", v);

  // run unions
  let cap = ctx.by_tier(70_000u64, 300_000u64);
  let mut v = Vec::new();
  for start in [0u32, 4_090, 65_530, u32::MAX - 70_000] {
    for runs in [1u32, 2, 3, 8, 100] {
      for len in [1u32, 2, 16, 17, 255, 4_096, 65_536, 70_000] {
        for gap in [1u32, 2, 65_536] {
          if runs as u64 * len as u64 <= cap {
            v.push(Case::Runs { start, runs, len, gap });
          }
        }
      }
    }
  }
  run_sets(ctx, "runs", v);

  // dense sets with holes
  let mut v = Vec::new();
  for span in [4_097u32, 65_536, 65_537, 131_072] {
    for step in [2u32, 3, 7, 64, 4_096] {
      v.push(Case::Holes { span, step });
    }
  }
  run_sets(ctx, "holes", v);

  // (b) + (c): ordered batches of length 0..=2 (quick) / 0..=3 (thorough) on the 4-index universe; thorough adds
  // the 5-index universe with batches of length 0..=2
  // (universe, longest batch, start state). The run-container + dense start state costs ~3x per transition (an 8 KiB
  // container is inflated / deflated at every step), so it gets shorter batches; closure is reached all the same.
  let plan: &[(u8, u8, u8)] = if ctx.quick() { &[(0, 2, 0), (0, 2, 1), (0, 1, 2)] } else { &[(0, 3, 0), (0, 3, 1), (0, 2, 2), (1, 2, 0), (1, 2, 1), (1, 1, 2)] };
  // stateright's BFS gets little parallelism out of these small, wide graphs; the independent models run side by side
  std::thread::scope(|sc| {
    for &(uni, max_len, init) in plan {
      for kind in 0..2u8 {
        sc.spawn(move || {
          let name = format!(
            "history {} start={} universe={:?} ordered batches of length 0..={max_len} ({} per op and service)",
            if kind == 0 { "CoreDocument" } else { "IotaDocument" },
            init_name(init),
            universe(uni),
            batch_count(uni, max_len)
          );
          let st = vx::sr::run(ctx, &name, None, |col| HModel::new(kind, init, uni, max_len, col));
          for i in 0..st.unique {
            ctx.distinct(&("hist", uni, kind, init, i));
          }
        });
      }
    }
  });
  // (b') dense universes: every subset of 5 consecutive indices x revoke/unrevoke x every ordered batch of length 1..=3,
  // at 0 and across the container boundary 65535/65536
  {
    let mut dense = Vec::new();
    let mut batches: Vec<Vec<u8>> = Vec::new();
    for a in 0..5u8 {
      batches.push(vec![a]);
      for b in 0..5u8 {
        batches.push(vec![a, b]);
        for c in 0..5u8 {
          batches.push(vec![a, b, c]);
        }
      }
    }
    for kind in 0..2u8 {
      for base in [0u32, 65_534] {
        for start in 0..32u8 {
          for revoke in [true, false] {
            for b in &batches {
              dense.push(Case::Dense { kind, base, start, revoke, batch: b.clone() });
            }
          }
        }
      }
    }
    let n = dense.len();
    run_sets(ctx, "dense universe, single batch from every state", dense);
    ctx.bound("dense_universe", json!({"bases": [0, 65534], "indices": 5, "start_states": 32, "ordered_batches_of_length_1_to_3": batches.len(), "cases": n}));
  }
  ctx.bound("max_set_size", max);
  ctx.bound("subset_universe", U12);
  ctx.bound("history_universe", UNI4);
  ctx.bound("history_universe_thorough_extra", UNI5);
  ctx.bound(
    "history_batches",
    ctx.by_tier(
      "every ordered sequence (duplicates allowed) of length 0..=2 over the universe (0..=1 from the run-container + dense start state)",
      "length 0..=3 over the 4-index universe, 0..=2 over the 5-index universe (one shorter from the run-container + dense start state)",
    ),
  );
  ctx.bound("history_depth", "closure");
  ctx.bound("history_start_states", ["fresh", &format!("legacy {:?} / {:?}", legacy_start_members(0), legacy_start_members(1)), "run-container stream [10,20)+[65530,65542)+{2^32-2,2^32-1} / library-written [0,4097)"]);
  ctx.bound("foreign_encodings", ["run containers: all / alternating / size-optimal", "zlib levels 0, 1, 9 (recorded)"]);
  ctx.bound("not_reached", "decompressed sizes near the 512 MiB + 8 bound of decompress_zlib (a set of ~2^32 indices): out of reach; the largest serialisation exercised is ~1 MB");
}

fn main() {
  vx::run_main::<Case, _, _>("C06", Level::ModelChecking, generate, eval)
}
