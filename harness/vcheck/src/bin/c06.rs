//! C06 — revocation bitmaps round-trip and revoke exactly the requested indices.
//!
//! (a) full products / complete structured families of u32 sets (all 4 096 subsets of a 12-index universe,
//!     prefix sets, strided sets, multiplicative-hash sets, run unions, dense sets with holes): the set is built
//!     through `RevocationBitmap::revoke`, `to_service` -> `RevocationBitmap::try_from(&Service)` (also through the
//!     JSON form of the service and through `resolve_revocation_bitmap` of a document holding it) must return the
//!     same set; the harness builds the legacy double encoding of the same set with its own roaring / zlib /
//!     base64 code, which must decode to the same set too.
//! (b) E2 to closure: revoke/unrevoke batch histories on a document with two bitmap services (CoreDocument and
//!     IotaDocument; fresh and legacy start endpoints). Batches are ORDERED index sequences with duplicates (every
//!     sequence of length 0..=2 / 0..=3 over the universe); `BTreeSet<u32>` model per service; after every step the
//!     membership of every universe index and its +-1 neighbours is compared for BOTH services and the rest of the
//!     document must be untouched.
//! (c) after every step of (b): `JwtCredentialValidatorUtils::check_status` on a credential pointing at each probe
//!     index of each service reports `Revoked` iff the index is a member; once per distinct document state also the
//!     status-entry variants (no index query, query != property, malformed index, dangling / wrong-type service,
//!     issuer document missing), which must never pass.

use identity_core::common::{Object, Url, Value};
use identity_core::convert::{FromJson, ToJson};
use identity_credential::credential::{Credential, CredentialBuilder, RevocationBitmapStatus, Status, Subject};
use identity_credential::revocation::{RevocationBitmap, RevocationDocumentExt};
use identity_credential::validator::{JwtCredentialValidatorUtils, JwtValidationError, StatusCheck};
use identity_did::DIDUrl;
use identity_document::document::CoreDocument;
use identity_document::service::{Service, ServiceEndpoint};
use identity_iota_core::IotaDocument;
use serde::{Deserialize, Serialize};
use std::collections::{BTreeMap, BTreeSet, HashSet};
use std::hash::{Hash, Hasher};
use std::sync::{Arc, Mutex};
use vx::rayon::prelude::*;
use vx::sr::Collector;
use vx::stateright::{Model, Property};
use vx::{guard, json, Ctx, Level};

const DATA_URL: &str = "data:application/octet-stream;base64,";
const CORE_DID: &str = "did:example:1234";
const IOTA_DID: &str = "did:iota:0xaaaaaaaaaaaaaaaaaaaaaaaaaaaaaaaaaaaaaaaaaaaaaaaaaaaaaaaaaaaaaaaa";

// violation keys (one defect, one key)
const K_OWN_REJECTED: &str = "RevocationBitmap::try_from(&Service)|round-trip|own-encoding-rejected";
const K_OWN_DIFFERS: &str = "RevocationBitmap::try_from(&Service)|round-trip|decoded-set-differs";
const K_LEGACY_REJECTED: &str = "RevocationBitmap::try_from(&Service)|legacy-endpoint|rejected";
const K_LEGACY_DIFFERS: &str = "RevocationBitmap::try_from(&Service)|legacy-endpoint|decoded-set-differs";

/// The 12-index universe of the subset family.
const U12: [u32; 12] = [0, 1, 2, 4095, 4096, 65535, 65536, 65537, 0x7fff_ffff, 0x8000_0000, 0xffff_fffe, 0xffff_ffff];

#[derive(Serialize, Deserialize, Debug, Clone, PartialEq)]
enum Case {
  /// subset of `U12` selected by the bits of `mask`
  Subset { mask: u16 },
  /// [0, n)
  Prefix { n: u32 },
  /// { start + i*step mod 2^32 | i < size }
  Stride { start: u32, step: u32, size: u32 },
  /// { (i + seed) * 2654435761 mod 2^32 | i < size }
  Hashed { seed: u32, size: u32 },
  /// union of `runs` runs of `len` consecutive indices, run k starting at start + k*(len+gap)
  Runs { start: u32, runs: u32, len: u32, gap: u32 },
  /// { i in [0, span) | i mod step != 0 }
  Holes { span: u32, step: u32 },
  /// (b)/(c): document kind (0 CoreDocument, 1 IotaDocument), initial endpoints (0 fresh, 1 legacy),
  /// universe id, ops (service, revoke?, batch id — see `batch`)
  Hist { kind: u8, init: u8, uni: u8, ops: Vec<(u8, bool, u8)> },
}

// ------------------------------------------------------------------ harness-side codecs (boring on purpose)
fn b64(data: &[u8], url: bool, pad: bool) -> String {
  let std_abc = b"ABCDEFGHIJKLMNOPQRSTUVWXYZabcdefghijklmnopqrstuvwxyz0123456789+/";
  let url_abc = b"ABCDEFGHIJKLMNOPQRSTUVWXYZabcdefghijklmnopqrstuvwxyz0123456789-_";
  let abc = if url { url_abc } else { std_abc };
  let mut out = String::with_capacity(data.len() * 4 / 3 + 4);
  for chunk in data.chunks(3) {
    let b0 = chunk[0] as u32;
    let b1 = *chunk.get(1).unwrap_or(&0) as u32;
    let b2 = *chunk.get(2).unwrap_or(&0) as u32;
    let n = (b0 << 16) | (b1 << 8) | b2;
    out.push(abc[(n >> 18) as usize & 63] as char);
    out.push(abc[(n >> 12) as usize & 63] as char);
    if chunk.len() > 1 {
      out.push(abc[(n >> 6) as usize & 63] as char);
    } else if pad {
      out.push('=');
    }
    if chunk.len() > 2 {
      out.push(abc[n as usize & 63] as char);
    } else if pad {
      out.push('=');
    }
  }
  out
}

/// zlib(roaring portable serialisation) of a sorted, duplicate-free index list — built with the roaring and flate2
/// crates directly (trusted base), not through the subject.
fn zlib_roaring(elems: &[u32]) -> Vec<u8> {
  use std::io::Write;
  let rb = roaring::RoaringBitmap::from_sorted_iter(elems.iter().copied()).expect("sorted, duplicate-free");
  let mut ser = Vec::with_capacity(rb.serialized_size());
  rb.serialize_into(&mut ser).expect("serialise into a Vec");
  let mut e = vx::fx::zlib_encoder();
  e.write_all(&ser).expect("zlib into a Vec");
  e.finish().expect("zlib into a Vec")
}
/// The single ("current") text form: Base64Url-nopad(zlib(roaring)).
fn single_text(z: &[u8]) -> String {
  b64(z, true, false)
}
/// The legacy double encoding: the single text form, base64-encoded once more. The outer layer encodes ASCII only,
/// so it never contains a symbol on which the standard and the url-safe alphabet differ.
fn legacy_text(z: &[u8]) -> String {
  b64(single_text(z).as_bytes(), false, false)
}

fn svc_url(did: &str, frag: &str) -> DIDUrl {
  DIDUrl::parse(format!("{did}#{frag}")).expect("service id")
}
/// A `RevocationBitmap2022` service holding a harness-built endpoint text.
fn service_with_text(did: &str, frag: &str, text: &str) -> Service {
  Service::builder(Object::new())
    .id(svc_url(did, frag))
    .type_(RevocationBitmap::TYPE)
    .service_endpoint(ServiceEndpoint::One(Url::parse(format!("{DATA_URL}{text}")).expect("data url")))
    .build()
    .expect("service")
}
fn endpoint_text(svc: &Service) -> Option<String> {
  match svc.service_endpoint() {
    ServiceEndpoint::One(u) => u.as_str().strip_prefix(DATA_URL).map(|s| s.to_string()),
    _ => None,
  }
}

// ------------------------------------------------------------------ (a) families
fn elems_of(case: &Case) -> (&'static str, Vec<u32>) {
  let mut v: Vec<u32> = match case {
    Case::Subset { mask } => (0..12).filter(|b| mask & (1 << b) != 0).map(|b| U12[b]).collect(),
    Case::Prefix { n } => (0..*n).collect(),
    Case::Stride { start, step, size } => (0..*size).map(|i| start.wrapping_add(i.wrapping_mul(*step))).collect(),
    Case::Hashed { seed, size } => (0..*size).map(|i| i.wrapping_add(*seed).wrapping_mul(2654435761)).collect(),
    Case::Runs { start, runs, len, gap } => {
      let mut v = Vec::new();
      for k in 0..*runs {
        let s = *start as u64 + k as u64 * (*len as u64 + *gap as u64);
        for j in 0..*len as u64 {
          if s + j <= u32::MAX as u64 {
            v.push((s + j) as u32);
          }
        }
      }
      v
    }
    Case::Holes { span, step } => (0..*span).filter(|i| i % step != 0).collect(),
    Case::Hist { .. } => unreachable!("not a set case"),
  };
  v.sort_unstable();
  v.dedup();
  let fam = match case {
    Case::Subset { .. } => "subset12",
    Case::Prefix { .. } => "prefix",
    Case::Stride { .. } => "stride",
    Case::Hashed { .. } => "hashed",
    Case::Runs { .. } => "runs",
    Case::Holes { .. } => "holes",
    Case::Hist { .. } => "hist",
  };
  (fam, v)
}

/// Indices that must NOT be members: neighbours of (a spread of) members and fixed probes, minus the members.
fn non_member_probes(elems: &[u32]) -> Vec<u32> {
  let mut p: BTreeSet<u32> = [0u32, 1, 4095, 4096, 65535, 65536, 65537, 0x7fff_ffff, 0x8000_0000, u32::MAX - 1, u32::MAX].into_iter().collect();
  let stride = (elems.len() / 64).max(1);
  for (k, e) in elems.iter().enumerate() {
    if k % stride == 0 || k + 1 == elems.len() {
      p.insert(e.wrapping_sub(1));
      p.insert(e.wrapping_add(1));
    }
  }
  p.into_iter().filter(|i| elems.binary_search(i).is_err()).collect()
}

/// `None` if `bm` holds exactly `elems`; otherwise a description of the first difference.
fn set_diff(bm: &RevocationBitmap, elems: &[u32], probes: &[u32]) -> Option<String> {
  if bm.len() != elems.len() as u64 {
    return Some(format!("len {} instead of {}", bm.len(), elems.len()));
  }
  if bm.is_empty() != elems.is_empty() {
    return Some(format!("is_empty {} for {} members", bm.is_empty(), elems.len()));
  }
  // same cardinality + every model member present  =>  same set
  if let Some(e) = elems.iter().find(|e| !bm.is_revoked(**e)) {
    return Some(format!("member {e} lost"));
  }
  if let Some(e) = probes.iter().find(|e| bm.is_revoked(**e)) {
    return Some(format!("non-member {e} reported revoked"));
  }
  None
}

/// Decode `svc` and compare with `elems`. Returns a coarse label; reports under `k_rej` / `k_diff`.
fn decode_and_compare(ctx: &Ctx, case: &Case, svc: &Service, elems: &[u32], probes: &[u32], k_rej: &str, k_diff: &str, what: &str) -> &'static str {
  match guard(|| RevocationBitmap::try_from(svc)) {
    Err(p) => {
      ctx.violation(&format!("RevocationBitmap::try_from(&Service)|{}", p.key()), &format!("{what}: {}", p.msg), case);
      "panic"
    }
    Ok(Err(e)) => {
      let text = endpoint_text(svc).unwrap_or_default();
      let head: String = text.chars().take(12).collect();
      ctx.violation(k_rej, &format!("{what} of a {}-member set (endpoint text starts `{head}`) is rejected: {e}", elems.len()), case);
      "rejected"
    }
    Ok(Ok(back)) => match guard(|| set_diff(&back, elems, probes)) {
      Ok(None) => "ok",
      Ok(Some(d)) => {
        ctx.violation(k_diff, &format!("{what}: {d}"), case);
        "differs"
      }
      Err(p) => {
        ctx.violation(&format!("RevocationBitmap::is_revoked|{}", p.key()), &p.msg, case);
        "panic"
      }
    },
  }
}

fn eval_set(ctx: &Ctx, case: &Case) {
  let (fam, elems) = elems_of(case);
  let probes = non_member_probes(&elems);
  // build through the public mutators, checking their documented return values
  let mut bm = RevocationBitmap::new();
  let built = guard(|| {
    for e in &elems {
      if !bm.revoke(*e) {
        return Some(format!("revoke({e}) of an absent index returned false"));
      }
    }
    if let Some(e) = elems.first() {
      if bm.revoke(*e) {
        return Some(format!("revoke({e}) of a present index returned true"));
      }
    }
    if let Some(e) = probes.first() {
      if bm.unrevoke(*e) {
        return Some(format!("unrevoke({e}) of an absent index returned true"));
      }
    }
    None
  });
  match built {
    Err(p) => return ctx.violation(&format!("RevocationBitmap::revoke|{}", p.key()), &p.msg, case),
    Ok(Some(d)) => return ctx.violation("RevocationBitmap::revoke|return-value", &d, case),
    Ok(None) => {}
  }
  if let Ok(Some(d)) = guard(|| set_diff(&bm, &elems, &probes)) {
    return ctx.violation("RevocationBitmap::revoke|membership-differs-from-model", &d, case);
  }
  // encode
  let id = svc_url(CORE_DID, "rev-a");
  let svc = match guard(|| bm.to_service(id.clone())) {
    Err(p) => return ctx.violation(&format!("RevocationBitmap::to_service|{}", p.key()), &p.msg, case),
    Ok(Err(e)) => return ctx.violation("RevocationBitmap::to_service|rejected", &format!("{e}"), case),
    Ok(Ok(s)) => s,
  };
  let text = match endpoint_text(&svc) {
    Some(t) if svc.type_().contains(RevocationBitmap::TYPE) && svc.id() == &id => t,
    _ => return ctx.violation("RevocationBitmap::to_service|not-a-bitmap-service-with-data-url", &format!("{svc:?}"), case),
  };
  let third: String = text.chars().take(3).collect();
  // decode: directly, through the JSON form of the service, and through a document
  let own = decode_and_compare(ctx, case, &svc, &elems, &probes, K_OWN_REJECTED, K_OWN_DIFFERS, "to_service output");
  if own == "ok" {
    match guard(|| svc.to_json().ok().and_then(|j| Service::from_json(&j).ok())) {
      Ok(Some(svc2)) => {
        decode_and_compare(ctx, case, &svc2, &elems, &probes, K_OWN_REJECTED, K_OWN_DIFFERS, "to_service output after a JSON round trip of the service");
      }
      other => ctx.violation("RevocationBitmap::to_service|service-json-round-trip-failed", &format!("{:?}", other.map(|o| o.is_some())), case),
    }
    if elems.len() <= 4096 {
      let doc = guard(|| CoreDocument::builder(Object::new()).id(id.did().clone()).service(svc.clone()).build());
      match doc {
        Ok(Ok(doc)) => match guard(|| doc.resolve_revocation_bitmap((&id).into())) {
          Ok(Ok(back)) if guard(|| set_diff(&back, &elems, &probes)).ok().flatten().is_none() && back == bm => {}
          other => ctx.violation("resolve_revocation_bitmap|round-trip|differs-or-rejected", &format!("{:?}", other.map(|r| r.map(|b| b.len()))), case),
        },
        other => ctx.violation("CoreDocument::builder|bitmap-service-rejected", &format!("{:?}", other.map(|r| r.is_ok())), case),
      }
    }
  }
  // harness-built twins
  let z = zlib_roaring(&elems);
  let single = single_text(&z);
  let legacy = legacy_text(&z);
  let twin_same = single == text;
  let leg = decode_and_compare(
    ctx,
    case,
    &service_with_text(CORE_DID, "rev-a", &legacy),
    &elems,
    &probes,
    K_LEGACY_REJECTED,
    K_LEGACY_DIFFERS,
    "legacy double encoding Base64(Base64Url(zlib(roaring)))",
  );
  let mut local: BTreeMap<String, u64> = BTreeMap::new();
  let mut bump = |l: String| *local.entry(l).or_insert(0) += 1;
  bump(format!("set:{fam}:prefix={third}:own={own}:legacy={leg}"));
  bump(format!("deflate-class:{third}"));
  bump(format!("harness-single-text-identical-to-library={twin_same}"));
  // recorded, not judged: forms the statement does not pin down
  let unjudged = |svc: Service| -> &'static str {
    match guard(|| RevocationBitmap::try_from(&svc)) {
      Ok(Ok(b)) => {
        if guard(|| set_diff(&b, &elems, &probes)).ok().flatten().is_none() {
          "decodes"
        } else {
          "decodes-to-other-set"
        }
      }
      Ok(Err(_)) => "rejected",
      Err(_) => "panic",
    }
  };
  if !twin_same {
    bump(format!("unjudged:harness-single-text:{}", unjudged(service_with_text(CORE_DID, "rev-a", &single))));
  }
  if single.len() % 3 != 0 {
    let padded = b64(single.as_bytes(), false, true);
    bump(format!("unjudged:legacy-with-padded-outer-layer:{}", unjudged(service_with_text(CORE_DID, "rev-a", &padded))));
  }
  let inner_std = b64(&z, false, false);
  if inner_std != single {
    let lit = b64(inner_std.as_bytes(), true, false);
    bump(format!("unjudged:legacy-with-standard-alphabet-inner-layer:{}", unjudged(service_with_text(CORE_DID, "rev-a", &lit))));
  }
  ctx.outcomes_merge(&local);
  ctx.distinct(&serde_json::to_string(case).unwrap_or_default());
}

// ------------------------------------------------------------------ (b) + (c): histories on a real document
const UNI4: [u32; 4] = [0, 1, 65536, u32::MAX];
const UNI5: [u32; 5] = [0, 1, 65535, 65536, u32::MAX];
fn universe(uni: u8) -> &'static [u32] {
  if uni == 0 {
    &UNI4
  } else {
    &UNI5
  }
}
/// Batches are ORDERED index sequences (duplicates allowed): id 0 = [], then every sequence of length 1, then of
/// length 2, then of length 3 over the universe, each block in lexicographic order of universe positions.
fn batch(uni: u8, id: u8) -> Vec<u32> {
  let u = universe(uni);
  let n = u.len() as u32;
  let mut id = id as u32;
  let mut len = 0u32;
  let mut block = 1u32;
  while id >= block {
    id -= block;
    len += 1;
    block *= n;
  }
  let mut out = vec![0u32; len as usize];
  for slot in out.iter_mut().rev() {
    *slot = u[(id % n) as usize];
    id /= n;
  }
  out
}
/// Number of batches of length 0..=max_len.
fn batch_count(uni: u8, max_len: u8) -> u8 {
  let n = universe(uni).len() as u32;
  let total: u32 = (0..=max_len as u32).map(|l| n.pow(l)).sum();
  u8::try_from(total).expect("batch ids fit a u8")
}
/// Coarse class of a batch relative to the pre-state (for the outcome histogram).
fn batch_class(idx: &[u32], pre: &BTreeSet<u32>, revoke: bool) -> &'static str {
  if idx.is_empty() {
    return "empty";
  }
  let distinct: BTreeSet<u32> = idx.iter().copied().collect();
  let dup = distinct.len() < idx.len();
  // "already" = the index is in the requested state before the op
  let already = distinct.iter().filter(|i| pre.contains(i) == revoke).count();
  match (dup, already == 0, already == distinct.len()) {
    (false, true, _) => "all-to-change",
    (false, _, true) => "all-already-in-requested-state",
    (false, false, false) => "mixed:some-already-in-requested-state",
    (true, true, _) => "duplicates:all-to-change",
    (true, _, true) => "duplicates:all-already-in-requested-state",
    (true, false, false) => "duplicates+mixed",
  }
}
fn probes_of(uni: u8) -> Vec<u32> {
  let mut p = BTreeSet::new();
  for i in universe(uni) {
    p.insert(*i);
    p.insert(i.wrapping_add(1));
    p.insert(i.wrapping_sub(1));
  }
  p.into_iter().collect()
}
const SVC: [&str; 2] = ["rev-a", "rev-b"];
/// initial members of the two services when the start endpoints are legacy
fn legacy_init(k: usize) -> Vec<u32> {
  if k == 0 {
    vec![1, 65536]
  } else {
    vec![]
  }
}

#[derive(Clone, Debug)]
enum RealDoc {
  Core(CoreDocument),
  Iota(IotaDocument),
}
impl RealDoc {
  fn did(&self) -> &'static str {
    match self {
      RealDoc::Core(_) => CORE_DID,
      RealDoc::Iota(_) => IOTA_DID,
    }
  }
  fn kind(&self) -> &'static str {
    match self {
      RealDoc::Core(_) => "CoreDocument",
      RealDoc::Iota(_) => "IotaDocument",
    }
  }
  fn core(&self) -> &CoreDocument {
    match self {
      RealDoc::Core(d) => d,
      RealDoc::Iota(d) => d.core_document(),
    }
  }
  fn json(&self) -> String {
    match self {
      RealDoc::Core(d) => d.to_json(),
      RealDoc::Iota(d) => d.to_json(),
    }
    .unwrap_or_else(|e| format!("unserialisable: {e}"))
  }
  fn from_json(&self, j: &str) -> Option<RealDoc> {
    match self {
      RealDoc::Core(_) => CoreDocument::from_json(j).ok().map(RealDoc::Core),
      RealDoc::Iota(_) => IotaDocument::from_json(j).ok().map(RealDoc::Iota),
    }
  }
  fn apply(&mut self, q: &DIDUrl, revoke: bool, idx: &[u32]) -> Result<(), String> {
    match (self, revoke) {
      (RealDoc::Core(d), true) => d.revoke_credentials(q, idx).map_err(|e| e.to_string()),
      (RealDoc::Core(d), false) => d.unrevoke_credentials(q, idx).map_err(|e| e.to_string()),
      (RealDoc::Iota(d), true) => d.revoke_credentials(q, idx).map_err(|e| e.to_string()),
      (RealDoc::Iota(d), false) => d.unrevoke_credentials(q, idx).map_err(|e| e.to_string()),
    }
  }
  fn check_status(&self, cred: &Credential, mode: StatusCheck) -> Result<(), JwtValidationError> {
    match self {
      RealDoc::Core(d) => JwtCredentialValidatorUtils::check_status(cred, std::slice::from_ref(d), mode),
      RealDoc::Iota(d) => JwtCredentialValidatorUtils::check_status(cred, std::slice::from_ref(d), mode),
    }
  }
}

fn start_doc(kind: u8, init: u8) -> (RealDoc, [BTreeSet<u32>; 2]) {
  let did = if kind == 0 { CORE_DID } else { IOTA_DID };
  let mut model: [BTreeSet<u32>; 2] = [BTreeSet::new(), BTreeSet::new()];
  let mut texts = Vec::new();
  for k in 0..2 {
    if init == 0 {
      let svc = RevocationBitmap::new().to_service(svc_url(did, SVC[k])).expect("fresh service");
      texts.push(endpoint_text(&svc).expect("fresh endpoint"));
    } else {
      let m = legacy_init(k);
      texts.push(legacy_text(&zlib_roaring(&m)));
      model[k] = m.into_iter().collect();
    }
  }
  let core = json!({
    "id": did,
    "verificationMethod": [{"id": format!("{did}#key-1"), "controller": did, "type": "Ed25519VerificationKey2018", "publicKeyMultibase": "zJdzr2UvC"}],
    "authentication": [
      {"id": format!("{did}#auth-key"), "controller": did, "type": "Ed25519VerificationKey2018", "publicKeyMultibase": "zT7yhPEwJZL4G"},
      format!("{did}#key-1")
    ],
    "service": [
      {"id": format!("{did}#rev-a"), "type": "RevocationBitmap2022", "serviceEndpoint": format!("{DATA_URL}{}", texts[0])},
      {"id": format!("{did}#linked"), "type": "LinkedDomains", "serviceEndpoint": "https://example.com/"},
      {"id": format!("{did}#rev-b"), "type": "RevocationBitmap2022", "serviceEndpoint": format!("{DATA_URL}{}", texts[1])}
    ]
  });
  let doc = if kind == 0 {
    RealDoc::Core(CoreDocument::from_json_value(core).expect("start CoreDocument"))
  } else {
    RealDoc::Iota(
      IotaDocument::from_json_value(json!({"doc": core, "meta": {"created": "2023-01-01T00:00:00Z", "updated": "2023-01-02T00:00:00Z"}}))
        .expect("start IotaDocument"),
    )
  };
  (doc, model)
}

/// The document as a JSON tree with the endpoint of service `frag` blanked.
fn masked(json: &str, did: &str, frag: &str) -> serde_json::Value {
  let mut v: serde_json::Value = serde_json::from_str(json).unwrap_or(serde_json::Value::Null);
  let id = format!("{did}#{frag}");
  let doc = if v.get("doc").is_some() { &mut v["doc"] } else { &mut v };
  if let Some(list) = doc.get_mut("service").and_then(|s| s.as_array_mut()) {
    for s in list {
      if s.get("id").and_then(|i| i.as_str()) == Some(&id) {
        s["serviceEndpoint"] = serde_json::Value::Null;
      }
    }
  }
  v
}

fn credential(issuer: &str, status: Option<Status>) -> Credential {
  let mut b = CredentialBuilder::default()
    .id(Url::parse("https://example.edu/credentials/3732").unwrap())
    .issuer(Url::parse(issuer).unwrap())
    .type_("UniversityDegreeCredential")
    .subject(Subject::with_id(Url::parse("did:example:subject").unwrap()))
    .issuance_date(vx::fx::ts(vx::fx::NOW));
  if let Some(s) = status {
    b = b.status(s);
  }
  b.build().expect("credential")
}
fn raw_status(id: &str, index_prop: Option<&str>) -> Status {
  let mut o = Object::new();
  if let Some(i) = index_prop {
    o.insert("revocationBitmapIndex".to_owned(), Value::String(i.to_owned()));
  }
  Status::new_with_properties(Url::parse(id).expect("status id"), "RevocationBitmap2022".to_owned(), o)
}
fn res_label(r: &Result<(), JwtValidationError>) -> &'static str {
  match r {
    Ok(()) => "Ok",
    Err(JwtValidationError::Revoked) => "Revoked",
    Err(JwtValidationError::InvalidStatus(_)) => "InvalidStatus",
    Err(JwtValidationError::ServiceLookupError { .. }) => "ServiceLookupError",
    Err(JwtValidationError::DocumentMismatch { .. }) => "DocumentMismatch",
    Err(_) => "other-error",
  }
}

#[derive(Clone, Debug)]
struct HState {
  doc: RealDoc,
  model: [BTreeSet<u32>; 2],
  hist: Vec<(u8, bool, u8)>,
  fp: String,
}
impl PartialEq for HState {
  fn eq(&self, o: &Self) -> bool {
    self.fp == o.fp
  }
}
impl Eq for HState {}
impl Hash for HState {
  fn hash<H: Hasher>(&self, h: &mut H) {
    self.fp.hash(h) // fingerprint = canonical JSON of the REAL document
  }
}

struct HModel {
  kind: u8,
  init: u8,
  uni: u8,
  /// longest batch enumerated by `actions` (batch ids do not depend on it)
  max_len: u8,
  /// canonical-status credentials per service and probe index (built once)
  creds: Vec<Vec<(u32, Credential)>>,
  col: Arc<Collector>,
  /// fingerprints whose per-state checks (validation, dangling queries) have been done
  seen: Mutex<HashSet<String>>,
}
impl HModel {
  fn new(kind: u8, init: u8, uni: u8, max_len: u8, col: Arc<Collector>) -> HModel {
    let did = if kind == 0 { CORE_DID } else { IOTA_DID };
    let creds = (0..2)
      .map(|k| {
        probes_of(uni)
          .into_iter()
          .map(|i| (i, credential(did, Some(RevocationBitmapStatus::new(svc_url(did, SVC[k]), i).into()))))
          .collect()
      })
      .collect();
    HModel { kind, init, uni, max_len, creds, col, seen: Mutex::new(HashSet::new()) }
  }
  fn case(&self, hist: &[(u8, bool, u8)]) -> Case {
    Case::Hist { kind: self.kind, init: self.init, uni: self.uni, ops: hist.to_vec() }
  }

  /// Both services decode and agree with the model on every probe index. `target` = (service, batch, op name) of
  /// the op that led here, if any.
  fn check_membership(&self, s: &HState, target: Option<(usize, &[u32], &str)>, case: &Case) -> bool {
    let did = s.doc.did();
    for k in 0..2 {
      let q = svc_url(did, SVC[k]);
      let bm = match guard(|| s.doc.core().resolve_revocation_bitmap((&q).into())) {
        Err(p) => {
          self.col.violation(&format!("resolve_revocation_bitmap|{}", p.key()), &p.msg, case);
          return false;
        }
        Ok(Err(e)) => {
          match target {
            Some((t, _, op)) if t == k => self.col.violation(
              K_OWN_REJECTED,
              &format!("{}: the endpoint written by {op} (members {:?}) is rejected: {e}", s.doc.kind(), s.model[k]),
              case,
            ),
            Some((_, _, op)) => self.col.violation(&format!("{op}|untouched-service-no-longer-decodes"), &format!("service {}: {e}", SVC[k]), case),
            None => self.col.violation(K_LEGACY_REJECTED, &format!("start endpoint of {} is rejected: {e}", SVC[k]), case),
          }
          return false;
        }
        Ok(Ok(bm)) => bm,
      };
      for i in probes_of(self.uni) {
        let want = s.model[k].contains(&i);
        let got = bm.is_revoked(i);
        if got != want {
          match target {
            Some((t, b, op)) => {
              let class = if t != k {
                "other-service-changed"
              } else if b.contains(&i) {
                "requested-index-not-changed"
              } else {
                "other-index-changed"
              };
              self.col.violation(
                &format!("{op}|membership|{class}"),
                &format!("{} service {} index {i}: is_revoked = {got}, model {want}, after {:?}", s.doc.kind(), SVC[k], s.hist),
                case,
              );
            }
            None => self.col.violation(K_LEGACY_DIFFERS, &format!("start endpoint of {}: index {i} is_revoked = {got}", SVC[k]), case),
          }
          return false;
        }
      }
      if bm.len() != s.model[k].len() as u64 {
        let op = target.map(|t| t.2).unwrap_or("start");
        self.col.violation(&format!("{op}|membership|cardinality-differs"), &format!("service {}: len {} model {}", SVC[k], bm.len(), s.model[k].len()), case);
        return false;
      }
    }
    true
  }

  /// (c), every step: `check_status` (Strict) of a credential whose canonical status entry points at each probe
  /// index of each service reports `Revoked` iff the model holds the index.
  fn validate_step(&self, s: &HState, case: &Case) {
    for k in 0..2 {
      for (i, cred) in &self.creds[k] {
        let member = s.model[k].contains(i);
        self.col.eval1();
        match guard(|| s.doc.check_status(cred, StatusCheck::Strict)) {
          Err(p) => self.col.violation(&format!("check_status|{}", p.key()), &p.msg, case),
          Ok(r) => {
            let got = res_label(&r);
            let want = if member { "Revoked" } else { "Ok" };
            if got != want {
              let class = if member { format!("member|reported-{}", if got == "Ok" { "valid" } else { got }) } else { format!("non-member|reported-{got}") };
              self.col.violation(
                &format!("check_status|{class}"),
                &format!("{} Strict service {} index {i}: got {got}, members {:?}, after {:?}", s.doc.kind(), SVC[k], s.model[k], s.hist),
                case,
              );
            }
          }
        }
      }
    }
  }

  /// (c) variants + dangling queries; done once per distinct real state.
  fn per_state_checks(&self, s: &HState, case: &Case) {
    if !self.seen.lock().unwrap().insert(s.fp.clone()) {
      return;
    }
    let did = s.doc.did();
    let u = universe(self.uni);
    for k in 0..2 {
      let svc = format!("{did}#{}", SVC[k]);
      for i in probes_of(self.uni) {
        let member = s.model[k].contains(&i);
        // canonical status entry
        let st: Status = RevocationBitmapStatus::new(svc_url(did, SVC[k]), i).into();
        let cred = credential(did, Some(st));
        for (mode, mname) in [(StatusCheck::Strict, "Strict"), (StatusCheck::SkipUnsupported, "SkipUnsupported")] {
          self.col.eval1();
          match guard(|| s.doc.check_status(&cred, mode)) {
            Err(p) => self.col.violation(&format!("check_status|{}", p.key()), &p.msg, case),
            Ok(r) => {
              let got = res_label(&r);
              let want = if member { "Revoked" } else { "Ok" };
              if got != want {
                let class = if member && got == "Ok" {
                  "member|reported-valid".to_string()
                } else if member {
                  format!("member|reported-{got}")
                } else {
                  format!("non-member|reported-{got}")
                };
                self.col.violation(
                  &format!("check_status|{class}"),
                  &format!("{} {mname} service {} index {i}: got {got}, members {:?}", s.doc.kind(), SVC[k], s.model[k]),
                  case,
                );
              }
              self.col.outcome(&format!("status:canonical:{mname}:{got}"));
            }
          }
        }
        // SkipAll: recorded only
        if let Ok(r) = guard(|| s.doc.check_status(&cred, StatusCheck::SkipAll)) {
          self.col.outcome(&format!("status:canonical:SkipAll:{}", res_label(&r)));
        }
        // no index query (older form of the spec): safety both ways, liveness recorded only
        let cred = credential(did, Some(raw_status(&svc, Some(&i.to_string()))));
        self.judge_open(s, &cred, "no-index-query", &[member], case);
        // index query != index property
        for j in u.iter().copied().filter(|j| *j != i) {
          let id = format!("{did}?index={j}#{}", SVC[k]);
          let cred = credential(did, Some(raw_status(&id, Some(&i.to_string()))));
          self.judge_open(s, &cred, "index-query-differs-from-property", &[member, s.model[k].contains(&j)], case);
        }
        // not a number / no property: must not pass
        for (what, id, prop) in [
          ("index-property-missing", format!("{did}?index={i}#{}", SVC[k]), None),
          ("index-property-not-u32", format!("{did}?index={i}#{}", SVC[k]), Some("4294967296")),
          ("index-property-not-decimal", format!("{did}?index={i}#{}", SVC[k]), Some("0x1")),
        ] {
          let cred = credential(did, Some(raw_status(&id, prop)));
          self.must_not_pass(s, &cred, what, case);
        }
      }
    }
    // dangling / wrong-type service, unknown issuer document
    let i = u[0];
    let st: Status = RevocationBitmapStatus::new(svc_url(did, "nope"), i).into();
    self.must_not_pass(s, &credential(did, Some(st)), "unresolvable-service", case);
    let st: Status = RevocationBitmapStatus::new(svc_url(did, "linked"), i).into();
    self.must_not_pass(s, &credential(did, Some(st)), "non-bitmap-service", case);
    let st: Status = RevocationBitmapStatus::new(svc_url(did, SVC[0]), i).into();
    self.must_not_pass(s, &credential("did:example:someone-else", Some(st)), "issuer-document-not-offered", case);
    // a credential without status passes
    match guard(|| s.doc.check_status(&credential(did, None), StatusCheck::Strict)) {
      Ok(Ok(())) => self.col.outcome("status:no-status:Ok"),
      other => self.col.violation("check_status|no-status|rejected", &format!("{:?}", other.map(|r| res_label(&r))), case),
    }
    // revoke/unrevoke through a dangling or wrong-type query: error, document unchanged
    for (frag, what) in [("nope", "unknown-service"), ("linked", "non-bitmap-service"), ("key-1", "method-id")] {
      for revoke in [true, false] {
        let op = if revoke { "revoke_credentials" } else { "unrevoke_credentials" };
        let mut d = s.doc.clone();
        let q = svc_url(did, frag);
        match guard(|| d.apply(&q, revoke, &[u[0]])) {
          Err(p) => self.col.violation(&format!("{op}|{}", p.key()), &p.msg, case),
          Ok(Ok(())) => self.col.violation(&format!("{op}|{what}|accepted"), &format!("query #{frag}"), case),
          Ok(Err(_)) => {
            if d.json() != s.fp {
              self.col.violation(&format!("{op}|{what}|refused-op-changed-document"), &format!("query #{frag}"), case);
            }
            self.col.outcome(&format!("op:{what}:refused"));
          }
        }
      }
    }
  }
  /// `members[x]` = membership of every index the status entry names. All members => must not be Ok;
  /// none a member => must not be Revoked; anything else is recorded only.
  fn judge_open(&self, s: &HState, cred: &Credential, what: &str, members: &[bool], case: &Case) {
    self.col.eval1();
    match guard(|| s.doc.check_status(cred, StatusCheck::Strict)) {
      Err(p) => self.col.violation(&format!("check_status|{}", p.key()), &p.msg, case),
      Ok(r) => {
        let got = res_label(&r);
        if members.iter().all(|m| *m) && got == "Ok" {
          self.col.violation(&format!("check_status|{what}|member|reported-valid"), &format!("{} after {:?}", s.doc.kind(), s.hist), case);
        }
        if members.iter().all(|m| !*m) && got == "Revoked" {
          self.col.violation(&format!("check_status|{what}|non-member|reported-Revoked"), &format!("{} after {:?}", s.doc.kind(), s.hist), case);
        }
        self.col.outcome(&format!("status:{what}:{got}"));
      }
    }
  }
  fn must_not_pass(&self, s: &HState, cred: &Credential, what: &str, case: &Case) {
    self.col.eval1();
    for mode in [StatusCheck::Strict, StatusCheck::SkipUnsupported] {
      match guard(|| s.doc.check_status(cred, mode)) {
        Err(p) => self.col.violation(&format!("check_status|{}", p.key()), &p.msg, case),
        Ok(r) => {
          let got = res_label(&r);
          if got == "Ok" {
            self.col.violation(&format!("check_status|{what}|accepted"), &format!("{} after {:?}", s.doc.kind(), s.hist), case);
          }
          self.col.outcome(&format!("status:{what}:{got}"));
        }
      }
    }
  }
}

impl Model for HModel {
  type State = HState;
  type Action = (u8, bool, u8);
  fn init_states(&self) -> Vec<HState> {
    let (doc, model) = start_doc(self.kind, self.init);
    let fp = doc.json();
    let s = HState { doc, model, hist: vec![], fp };
    let case = self.case(&[]);
    if !self.check_membership(&s, None, &case) {
      return vec![];
    }
    self.per_state_checks(&s, &case);
    vec![s]
  }
  fn actions(&self, _s: &HState, out: &mut Vec<Self::Action>) {
    for svc in 0..2u8 {
      for revoke in [true, false] {
        for b in 0..batch_count(self.uni, self.max_len) {
          out.push((svc, revoke, b));
        }
      }
    }
  }
  fn next_state(&self, s: &HState, (svc, revoke, b): Self::Action) -> Option<HState> {
    self.col.eval1();
    let mut n = s.clone();
    n.hist.push((svc, revoke, b));
    let case = self.case(&n.hist);
    let op = if revoke { "revoke_credentials" } else { "unrevoke_credentials" };
    let did = s.doc.did();
    let k = svc as usize;
    let q = svc_url(did, SVC[k]);
    let idx = batch(self.uni, b);
    match guard(|| n.doc.apply(&q, revoke, &idx)) {
      Err(p) => {
        self.col.violation(&format!("{op}|{}", p.key()), &p.msg, &case);
        return None;
      }
      Ok(Err(e)) => {
        self.col.violation(&format!("{op}|permitted-op-rejected"), &format!("{} batch {idx:?} after {:?}: {e}", s.doc.kind(), s.hist), &case);
        return None;
      }
      Ok(Ok(())) => {}
    }
    for i in &idx {
      if revoke {
        n.model[k].insert(*i);
      } else {
        n.model[k].remove(i);
      }
    }
    n.fp = n.doc.json();
    // nothing but the target endpoint changed
    if masked(&n.fp, did, SVC[k]) != masked(&s.fp, did, SVC[k]) {
      self.col.violation(&format!("{op}|rest-of-document-changed"), &format!("{} after {:?}", s.doc.kind(), n.hist), &case);
      return None;
    }
    if !self.check_membership(&n, Some((k, &idx, op)), &case) {
      return None;
    }
    // the serialised document parses back to an equal document holding the same bitmaps
    match guard(|| n.doc.from_json(&n.fp)) {
      Ok(Some(back)) if back.json() == n.fp => {}
      other => {
        self.col.violation(&format!("{op}|document-json-round-trip-differs"), &format!("{:?}", other.map(|o| o.is_some())), &case);
        return None;
      }
    }
    // validation after EVERY step: a credential pointing at each probe index of each service
    self.validate_step(&n, &case);
    self.per_state_checks(&n, &case);
    let changed = n.model[k] != s.model[k];
    self.col.outcome(&format!(
      "op:{op}:batch-len-{}:{}:{}",
      idx.len(),
      batch_class(&idx, &s.model[k], revoke),
      if changed { "membership-changed" } else { "membership-unchanged" }
    ));
    self.col.sample(&case);
    Some(n)
  }
  fn properties(&self) -> Vec<Property<Self>> {
    vec![Property::always("violations are collected on the side", |_, _| true)]
  }
}

fn eval(ctx: &Ctx, case: &Case) {
  ctx.eval1();
  match case {
    Case::Hist { kind, init, uni, ops } => {
      let col = Collector::new();
      let m = HModel::new(*kind, *init, *uni, 3, col.clone());
      if let Some(mut st) = m.init_states().pop() {
        for a in ops {
          match m.next_state(&st, *a) {
            Some(n) => st = n,
            None => break,
          }
        }
      }
      col.drain_into(ctx, "history-replay");
    }
    _ => eval_set(ctx, case),
  }
}

fn run_sets(ctx: &Ctx, name: &str, cases: Vec<Case>) {
  if cases.is_empty() {
    return;
  }
  for i in [0, cases.len() / 3, cases.len() - 1] {
    ctx.sample(name, &cases[i]);
  }
  cases.par_iter().for_each(|c| eval(ctx, c));
  ctx.add_states(cases.len() as u64);
  ctx.add_transitions(cases.len() as u64);
  ctx.add_traces(cases.len() as u64);
  ctx.part(name, json!({"engine": "E1 full product / complete family", "sets": cases.len()}));
}

fn generate(ctx: &Ctx) {
  ctx.rule("(a) complete families of u32 sets (all 4096 subsets of a 12-index universe; prefix sets; strided, multiplicative-hash, run-union and dense-with-holes sets over full parameter products), each encoded by the library and decoded back + harness-built legacy twin; (b),(c) stateright BFS to closure over revoke/unrevoke batch histories on real documents, batches are ordered index sequences with duplicates; membership of both services and check_status of every probe index judged after every step, status-entry variants once per distinct real document state. distinct_nontrivial = distinct set cases (every one runs the whole encode/decode path) + unique document states of (b)");
  ctx.assume("roaring (portable serialisation) and flate2 (zlib) are trusted lossless codecs; the harness builds legacy endpoints with them and its own base64 encoder");
  ctx.assume("legacy form = the single text form Base64Url(zlib(roaring)) base64-encoded once more; variants on which standard and url-safe alphabets or padding would differ are recorded, not judged");
  let max = ctx.by_tier(20_000u32, 100_000u32);

  // subsets of the 12-index universe
  run_sets(ctx, "subset12", (0..4096u16).map(|mask| Case::Subset { mask }).collect());

  // prefix sets
  let mut ns: BTreeSet<u32> = BTreeSet::new();
  if ctx.quick() {
    ns.extend(0..=512);
    ns.extend(4064..=4128);
    ns.extend((512..=5000).step_by(97));
    ns.extend(65_530..=65_542);
  } else {
    ns.extend(0..=70_000);
    ns.extend([100_000, 131_071, 131_072, 131_073]);
  }
  run_sets(ctx, "prefix", ns.into_iter().map(|n| Case::Prefix { n }).collect());

  // strided and hashed sets
  let mut sizes: Vec<u32> = (1..=64).collect();
  sizes.extend([100, 256, 1_000, 5_000, 20_000, 100_000]);
  sizes.retain(|s| *s <= max);
  let mut v = Vec::new();
  for start in [0u32, 65_530] {
    for step in [2u32, 3, 7, 64, 4096, 65_536, 65_537] {
      for &size in &sizes {
        v.push(Case::Stride { start, step, size });
      }
    }
  }
  run_sets(ctx, "stride", v);
  let mut v = Vec::new();
  for seed in [0u32, 1, 12_345] {
    for &size in &sizes {
      v.push(Case::Hashed { seed, size });
    }
  }
  run_sets(ctx, "hashed", v);

  // run unions
  let cap = ctx.by_tier(70_000u64, 300_000u64);
  let mut v = Vec::new();
  for start in [0u32, 4_090, 65_530, u32::MAX - 70_000] {
    for runs in [1u32, 2, 3, 8, 100] {
      for len in [1u32, 2, 16, 17, 255, 4_096, 65_536, 70_000] {
        for gap in [1u32, 2, 65_536] {
          if runs as u64 * len as u64 <= cap {
            v.push(Case::Runs { start, runs, len, gap });
          }
        }
      }
    }
  }
  run_sets(ctx, "runs", v);

  // dense sets with holes
  let mut v = Vec::new();
  for span in [4_097u32, 65_536, 65_537, 131_072] {
    for step in [2u32, 3, 7, 64, 4_096] {
      v.push(Case::Holes { span, step });
    }
  }
  run_sets(ctx, "holes", v);

  // (b) + (c): ordered batches of length 0..=2 (quick) / 0..=3 (thorough) on the 4-index universe; thorough adds
  // the 5-index universe with batches of length 0..=2
  let runs: &[(u8, u8)] = if ctx.quick() { &[(0, 2)] } else { &[(0, 3), (1, 2)] };
  // stateright's BFS gets little parallelism out of these small, wide graphs; the independent models run side by side
  std::thread::scope(|sc| {
    for &(uni, max_len) in runs {
      for kind in 0..2u8 {
        for init in 0..2u8 {
          sc.spawn(move || {
            let name = format!(
              "history {} start={} universe={:?} ordered batches of length 0..={max_len} ({} per op and service)",
              if kind == 0 { "CoreDocument" } else { "IotaDocument" },
              if init == 0 { "fresh" } else { "legacy" },
              universe(uni),
              batch_count(uni, max_len)
            );
            let st = vx::sr::run(ctx, &name, None, |col| HModel::new(kind, init, uni, max_len, col));
            for i in 0..st.unique {
              ctx.distinct(&("hist", uni, kind, init, i));
            }
          });
        }
      }
    }
  });
  ctx.bound("max_set_size", max);
  ctx.bound("subset_universe", U12);
  ctx.bound("history_universe", UNI4);
  ctx.bound("history_universe_thorough_extra", UNI5);
  ctx.bound("history_batches", ctx.by_tier("every ordered sequence (duplicates allowed) of length 0..=2 over the universe", "length 0..=3 over the 4-index universe, 0..=2 over the 5-index universe"));
  ctx.bound("history_depth", "closure");
}

fn main() {
  vx::run_main::<Case, _, _>("C06", Level::ModelChecking, generate, eval)
}
