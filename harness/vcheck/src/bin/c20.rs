//! C20 — the resolver dispatches by DID method and is independent of completion order.
//!
//! (a) Σ single `resolve`: every DID of the universe × every handler table / gate count / failure point ×
//!     both `Resolver` flavours: call log, result, unsupported-method error.
//! (b) `resolve_multiple`: every DID list up to the tier's length (duplicates, unsupported methods, a DID whose
//!     handler cannot parse it, a failing DID) × every configuration × both flavours × EVERY order of opening the
//!     gates the harness handlers wait on (E3b gate executor driven by the E1 choice explorer, whole tree).
//!     Per execution: call log, key set, equality with single resolution, must-fail. Per list: the set of
//!     outcomes over all schedules has size 1.
//! (c) did:jwk (E1, whole tree): public / private OKP, EC, RSA, oct JWKs × optional-member subsets × member order
//!     × route (direct `expand_did_jwk`, both resolver flavours, `CoreDID` / `DIDJwk` typed input, resolve_multiple).

use identity_core::common::Object;
use identity_did::{CoreDID, DIDJwk, DID};
use identity_document::document::CoreDocument;
use identity_resolver::{ErrorCause, Resolver, SingleThreadedResolver};
use once_cell::sync::Lazy;
use serde::{Deserialize, Serialize};
use std::collections::{BTreeMap, BTreeSet, HashMap};
use std::future::Future;
use std::pin::Pin;
use std::rc::Rc;
use std::sync::{Arc, Mutex};
use vx::choice::{self, Chooser};
use vx::gate::{run_with_gates, GateRun, Gates};
use vx::rayon::prelude::*;
use vx::{guard, json, Ctx, Level, Panicked, Value};

// ------------------------------------------------------------------ universe

const B64: &[u8; 64] = b"ABCDEFGHIJKLMNOPQRSTUVWXYZabcdefghijklmnopqrstuvwxyz0123456789-_";
/// Hand-written base64url (no padding): the oracle does not use the library's encoder.
fn b64url(data: &[u8]) -> String {
  let mut s = String::new();
  for c in data.chunks(3) {
    let n = (c[0] as u32) << 16 | (*c.get(1).unwrap_or(&0) as u32) << 8 | *c.get(2).unwrap_or(&0) as u32;
    s.push(B64[(n >> 18) as usize & 63] as char);
    s.push(B64[(n >> 12) as usize & 63] as char);
    if c.len() > 1 {
      s.push(B64[(n >> 6) as usize & 63] as char);
    }
    if c.len() > 2 {
      s.push(B64[n as usize & 63] as char);
    }
  }
  s
}
fn bytes(n: usize, mul: u8, add: u8) -> Vec<u8> {
  (0..n).map(|i| (i as u8).wrapping_mul(mul).wrapping_add(add)).collect()
}

/// Universe of DESIGN §2 C20 (indices 0..5) plus three extensions used by the thorough tier.
static UNIVERSE: Lazy<Vec<String>> = Lazy::new(|| {
  let jwk = format!(r#"{{"kty":"OKP","crv":"Ed25519","x":"{}"}}"#, b64url(&bytes(32, 7, 1)));
  vec![
    "did:foo:1".into(),
    "did:foo:2".into(), // the DID the foo handler can be told to fail on
    "did:bar:1".into(),
    "did:baz:1".into(), // no handler for `baz`, ever
    format!("did:jwk:{}", b64url(jwk.as_bytes())),
    "did:bar:2".into(),
    "did:qux:1".into(),     // `qux` has a handler whose DID type (DIDJwk) cannot represent it
    "did:foo:bar:1".into(), // method `foo`, method-specific id `bar:1`
    // single resolution only: methods that extend / are a prefix of / contain a registered method name
    "did:foob:1".into(),
    "did:fo:1".into(),
    "did:barfoo:1".into(),
  ]
});
static DIDS: Lazy<Vec<CoreDID>> = Lazy::new(|| UNIVERSE.iter().map(|s| CoreDID::parse(s).expect("harness universe DID")).collect());
fn uni(i: u8) -> &'static str {
  &UNIVERSE[i as usize]
}
const FAILING_DID: &str = "did:foo:2";

/// table bits
const T_FOO: u8 = 1;
const T_BAR: u8 = 2;
const T_JWK: u8 = 4;
/// a decoy handler `foo-old` is attached for `foo` first and then replaced by the real one
const T_REPLACED: u8 = 8;

#[derive(Serialize, Deserialize, Debug, Clone, PartialEq, Eq, Hash, PartialOrd, Ord)]
struct Cfg {
  table: u8,
  /// gates every `foo` / `bar` handler invocation awaits
  k_foo: u8,
  k_bar: u8,
  /// `Some(j)`: the foo handler fails on did:foo:2 after having awaited j of its gates (0 = before any)
  fail_at: Option<u8>,
}

#[derive(Serialize, Deserialize, Debug, Clone)]
enum Case {
  /// flavour 0 = `Resolver` (Send + Sync handlers), 1 = `SingleThreadedResolver`
  Single { flavour: u8, cfg: Cfg, did: u8 },
  /// one schedule (choice sequence of the gate executor) of one list
  Schedule { flavour: u8, cfg: Cfg, list: Vec<u8>, seq: Vec<u32> },
  /// every schedule of one list + the comparison of the outcomes over all of them
  List { flavour: u8, cfg: Cfg, list: Vec<u8> },
  Jwk { wide: bool, seq: Vec<u32> },
  JwkRaw { payload: u8 },
}

// ------------------------------------------------------------------ harness handlers

#[derive(Debug)]
struct HErr(String);
impl std::fmt::Display for HErr {
  fn fmt(&self, f: &mut std::fmt::Formatter<'_>) -> std::fmt::Result {
    f.write_str(&self.0)
  }
}
impl std::error::Error for HErr {}

type Log = Arc<Mutex<Vec<(String, String)>>>;

/// What the harness handler `name` answers for `did` (built from the DID the handler RECEIVED).
fn doc_for(name: &str, did: &str) -> CoreDocument {
  let mut props = Object::new();
  props.insert("resolvedBy".into(), Value::String(name.into()));
  CoreDocument::builder(props).id(CoreDID::parse(did).expect("did")).build().expect("harness document")
}

async fn handler_steps(name: &'static str, k: u8, fail: Option<u8>, did: CoreDID, gates: Gates) -> Result<CoreDocument, HErr> {
  let fail_here = if did.as_str() == FAILING_DID { fail } else { None };
  for i in 0..k {
    if fail_here == Some(i) {
      return Err(HErr(format!("{name} handler failed on {did}")));
    }
    gates.gate(format!("{did}/{i}")).await;
  }
  if fail_here == Some(k) {
    return Err(HErr(format!("{name} handler failed on {did}")));
  }
  Ok(doc_for(name, did.as_str()))
}

type SendFut = Pin<Box<dyn Future<Output = Result<CoreDocument, HErr>> + Send>>;
fn handler_ss(name: &'static str, k: u8, fail: Option<u8>, log: Log, gates: Gates) -> impl Fn(CoreDID) -> SendFut + Clone + Send + Sync + 'static {
  move |did: CoreDID| {
    log.lock().unwrap().push((name.to_string(), did.as_str().to_string()));
    Box::pin(handler_steps(name, k, fail, did, gates.clone()))
  }
}
type LocalFut = Pin<Box<dyn Future<Output = Result<CoreDocument, HErr>>>>;
/// Same handler for the single-threaded flavour; its future holds an `Rc` across every await (it is not `Send`).
fn handler_st(name: &'static str, k: u8, fail: Option<u8>, log: Log, gates: Gates) -> impl Fn(CoreDID) -> LocalFut + Clone + 'static {
  let token = Rc::new(std::cell::Cell::new(0u32));
  move |did: CoreDID| {
    log.lock().unwrap().push((name.to_string(), did.as_str().to_string()));
    let token = token.clone();
    let gates = gates.clone();
    Box::pin(async move {
      let r = handler_steps(name, k, fail, did, gates).await;
      token.set(token.get() + 1);
      r
    })
  }
}

enum AnyResolver {
  SS(Resolver<CoreDocument>),
  ST(SingleThreadedResolver<CoreDocument>),
}
impl AnyResolver {
  async fn resolve<D: DID>(&self, did: &D) -> identity_resolver::Result<CoreDocument> {
    match self {
      AnyResolver::SS(r) => r.resolve(did).await,
      AnyResolver::ST(r) => r.resolve(did).await,
    }
  }
  async fn resolve_multiple<D: DID>(&self, dids: &[D]) -> identity_resolver::Result<HashMap<D, CoreDocument>> {
    match self {
      AnyResolver::SS(r) => r.resolve_multiple(dids).await,
      AnyResolver::ST(r) => r.resolve_multiple(dids).await,
    }
  }
}

fn build(flavour: u8, cfg: &Cfg, log: &Log, gates: &Gates) -> AnyResolver {
  macro_rules! attach {
    ($r:ident, $h:ident) => {{
      if cfg.table & T_FOO != 0 {
        if cfg.table & T_REPLACED != 0 {
          $r.attach_handler("foo".to_owned(), $h("foo-old", cfg.k_foo, None, log.clone(), gates.clone()));
        }
        $r.attach_handler("foo".to_owned(), $h("foo", cfg.k_foo, cfg.fail_at, log.clone(), gates.clone()));
      }
      if cfg.table & T_BAR != 0 {
        $r.attach_handler("bar".to_owned(), $h("bar", cfg.k_bar, None, log.clone(), gates.clone()));
      }
      if cfg.table & T_JWK != 0 {
        $r.attach_did_jwk_handler();
      }
      // `qux`: a handler whose DID type is DIDJwk; a did:qux DID never converts to it
      let l = log.clone();
      $r.attach_handler("qux".to_owned(), move |did: DIDJwk| {
        l.lock().unwrap().push(("qux".to_string(), did.to_string()));
        async move { Ok::<CoreDocument, HErr>(doc_for("qux", did.as_ref().as_str())) }
      });
    }};
  }
  if flavour == 0 {
    let mut r = Resolver::<CoreDocument>::new();
    attach!(r, handler_ss);
    AnyResolver::SS(r)
  } else {
    let mut r = SingleThreadedResolver::<CoreDocument>::new();
    attach!(r, handler_st);
    AnyResolver::ST(r)
  }
}

// ------------------------------------------------------------------ reference (written from the statement)

#[derive(Debug, Clone, PartialEq)]
enum Exp {
  /// no handler for the method: UnsupportedMethodError, nothing is called
  Unsupported(String),
  /// the method's handler cannot represent the DID: an error, the handler is not called
  Unparsable,
  /// the harness handler `name` is called with the DID; `fails` = it returns Err
  Handler { name: &'static str, fails: bool, gates: u8 },
  /// the built-in did:jwk handler
  Jwk,
}
impl Exp {
  fn fails(&self) -> bool {
    matches!(self, Exp::Unsupported(_) | Exp::Unparsable | Exp::Handler { fails: true, .. })
  }
  fn kind(&self) -> &'static str {
    match self {
      Exp::Unsupported(_) => "unsupported-method",
      Exp::Unparsable => "did-not-parsable-by-handler",
      Exp::Handler { fails: true, .. } => "handler-error",
      Exp::Handler { .. } => "handler-ok",
      Exp::Jwk => "did-jwk",
    }
  }
}
fn method_of(did: &str) -> &str {
  did.split(':').nth(1).unwrap_or("")
}
fn expect(cfg: &Cfg, did: &str) -> Exp {
  let m = method_of(did);
  match m {
    "foo" if cfg.table & T_FOO != 0 => Exp::Handler { name: "foo", fails: did == FAILING_DID && cfg.fail_at.is_some(), gates: cfg.k_foo },
    "bar" if cfg.table & T_BAR != 0 => Exp::Handler { name: "bar", fails: false, gates: cfg.k_bar },
    "jwk" if cfg.table & T_JWK != 0 => Exp::Jwk,
    "qux" => Exp::Unparsable,
    _ => Exp::Unsupported(m.to_string()),
  }
}

// ------------------------------------------------------------------ running the real resolver

#[derive(Debug, Clone, PartialEq)]
enum Res<T> {
  Ok(T),
  /// (variant name of the ErrorCause, description incl. method / source text)
  Err(String, String),
  Deadlock,
  Panic(Panicked2),
}
#[derive(Debug, Clone, PartialEq)]
struct Panicked2 {
  key: String,
  msg: String,
}
impl From<Panicked> for Panicked2 {
  fn from(p: Panicked) -> Self {
    Panicked2 { key: p.key(), msg: p.msg }
  }
}
fn err_desc(e: &identity_resolver::Error) -> (String, String) {
  let cause = e.error_cause();
  let variant: &'static str = cause.into();
  let desc = match cause {
    ErrorCause::UnsupportedMethodError { method } => format!("UnsupportedMethodError({method})"),
    ErrorCause::HandlerError { source, .. } => format!("HandlerError({source})"),
    ErrorCause::DIDParsingError { .. } => "DIDParsingError".to_string(),
    _ => variant.to_string(),
  };
  (variant.to_string(), desc)
}
fn doc_json(d: &CoreDocument) -> String {
  serde_json::to_string(d).unwrap_or_else(|e| format!("unserialisable: {e}"))
}

struct Exec<T> {
  res: Res<T>,
  log: Vec<(String, String)>,
  schedule: Vec<String>,
}

fn run_single(flavour: u8, cfg: &Cfg, did: u8) -> Exec<String> {
  let log: Log = Default::default();
  let gates = Gates::new();
  let target = &DIDS[did as usize];
  let r = guard(|| {
    let resolver = build(flavour, cfg, &log, &gates);
    let mut ch = Chooser::replay(&[]);
    let out = match run_with_gates(resolver.resolve(target), &gates, &mut ch) {
      GateRun::Done(Ok(doc)) => Res::Ok(doc_json(&doc)),
      GateRun::Done(Err(e)) => {
        let (v, d) = err_desc(&e);
        Res::Err(v, d)
      }
      GateRun::Deadlock => Res::Deadlock,
    };
    out
  });
  let res = r.unwrap_or_else(|p| Res::Panic(p.into()));
  let log = log.lock().unwrap().clone();
  Exec { res, log, schedule: gates.schedule() }
}

fn run_multi(flavour: u8, cfg: &Cfg, list: &[u8], ch: &mut Chooser) -> Exec<BTreeMap<String, String>> {
  let log: Log = Default::default();
  let gates = Gates::new();
  let dids: Vec<CoreDID> = list.iter().map(|i| DIDS[*i as usize].clone()).collect();
  let r = guard(|| {
    let resolver = build(flavour, cfg, &log, &gates);
    let out = match run_with_gates(resolver.resolve_multiple(&dids), &gates, ch) {
      // sorted: nothing that came out of a HashMap is compared in its own order
      GateRun::Done(Ok(map)) => Res::Ok(map.iter().map(|(k, v)| (k.as_str().to_string(), doc_json(v))).collect::<BTreeMap<_, _>>()),
      GateRun::Done(Err(e)) => {
        let (v, d) = err_desc(&e);
        Res::Err(v, d)
      }
      GateRun::Deadlock => Res::Deadlock,
    };
    out
  });
  let res = r.unwrap_or_else(|p| Res::Panic(p.into()));
  let log = log.lock().unwrap().clone();
  Exec { res, log, schedule: gates.schedule() }
}

// ------------------------------------------------------------------ (a) single resolution

fn judge_single(ctx: &Ctx, case: &Case, cfg: &Cfg, did: &str, ex: &Exec<String>) -> &'static str {
  let exp = expect(cfg, did);
  let e = "Resolver::resolve";
  let v = |key: String, what: String| ctx.violation(&key, &format!("{what}; did {did}, call log {:?}", ex.log), case);
  // call log
  let want_log: Vec<(String, String)> = match &exp {
    Exp::Handler { name, .. } => vec![(name.to_string(), did.to_string())],
    _ => vec![],
  };
  match &ex.res {
    Res::Panic(p) => {
      v(format!("{e}|{}", p.key), p.msg.clone());
      return "single:panic";
    }
    Res::Deadlock => {
      v(format!("{e}|never-completes"), "future pending with no gate left to open".into());
      return "single:deadlock";
    }
    _ => {}
  }
  if ex.log != want_log {
    let class = match &exp {
      Exp::Unsupported(_) => "unsupported-method|a-handler-was-called",
      Exp::Unparsable => "did-not-parsable-by-handler|a-handler-was-called",
      Exp::Jwk => "did-jwk|a-harness-handler-was-called",
      Exp::Handler { .. } => {
        if ex.log.is_empty() {
          "handler-not-called"
        } else if ex.log.len() > 1 {
          "more-than-one-handler-call"
        } else if ex.log[0].1 != did {
          "handler-called-with-another-did"
        } else {
          "handler-of-another-method-called"
        }
      }
    };
    v(format!("{e}|call-log|{class}"), format!("expected calls {want_log:?}"));
  }
  match (&exp, &ex.res) {
    (Exp::Unsupported(m), Res::Err(variant, desc)) => {
      if variant != "UnsupportedMethodError" || *desc != format!("UnsupportedMethodError({m})") {
        v(format!("{e}|unsupported-method|wrong-error"), format!("got {desc}"));
      }
      "single:unsupported-method"
    }
    (Exp::Unsupported(_), Res::Ok(_)) => {
      v(format!("{e}|unsupported-method|returned-ok"), "a document was returned for a method without handler".into());
      "single:unsupported-method"
    }
    (Exp::Unparsable, Res::Err(_, _)) => "single:did-not-parsable-by-handler",
    (Exp::Unparsable, Res::Ok(_)) => {
      v(format!("{e}|did-not-parsable-by-handler|returned-ok"), "".into());
      "single:did-not-parsable-by-handler"
    }
    (Exp::Handler { name, fails: false, .. }, Res::Ok(doc)) => {
      if *doc != doc_json(&doc_for(name, did)) {
        v(format!("{e}|result-is-not-the-handlers"), format!("got {doc}"));
      }
      "single:handler-ok"
    }
    (Exp::Handler { fails: false, .. }, Res::Err(_, desc)) => {
      v(format!("{e}|handler-ok|returned-err"), format!("got {desc}"));
      "single:handler-ok"
    }
    (Exp::Handler { name, fails: true, .. }, Res::Err(variant, desc)) => {
      if variant != "HandlerError" || !desc.contains(&format!("{name} handler failed on {did}")) {
        v(format!("{e}|handler-error|error-is-not-the-handlers"), format!("got {desc}"));
      }
      "single:handler-error"
    }
    (Exp::Handler { fails: true, .. }, Res::Ok(_)) => {
      v(format!("{e}|handler-error|returned-ok"), "".into());
      "single:handler-error"
    }
    (Exp::Jwk, Res::Ok(doc)) => {
      // the built-in handler's result is what expand_did_jwk gives; its content is judged in part (c)
      let direct = guard(|| DIDJwk::parse(did).ok().and_then(|d| CoreDocument::expand_did_jwk(d).ok()).map(|d| doc_json(&d)));
      if direct.ok().flatten().as_ref() != Some(doc) {
        v(format!("{e}|did:jwk|differs-from-expand_did_jwk"), format!("got {doc}"));
      }
      "single:did-jwk"
    }
    (Exp::Jwk, Res::Err(_, desc)) => {
      v(format!("{e}|did:jwk|public-jwk-rejected"), format!("got {desc}"));
      "single:did-jwk"
    }
    (_, Res::Panic(_)) | (_, Res::Deadlock) => unreachable!(),
  }
}

// ------------------------------------------------------------------ (b) resolve_multiple

struct Judged {
  /// canonical outcome of this execution for the comparison over all schedules
  outcome: String,
  label: String,
  violated: bool,
}

fn judge_multi(
  ctx: &Ctx,
  flavour: u8,
  cfg: &Cfg,
  list: &[u8],
  seq: &[u32],
  ex: &Exec<BTreeMap<String, String>>,
  singles: &BTreeMap<u8, Exec<String>>,
) -> Judged {
  let e = "Resolver::resolve_multiple";
  let distinct: BTreeSet<u8> = list.iter().copied().collect();
  let exps: BTreeMap<&str, (u8, Exp)> = distinct.iter().map(|i| (uni(*i), (*i, expect(cfg, uni(*i))))).collect();
  let failing: Vec<&str> = exps.iter().filter(|(_, (_, x))| x.fails()).map(|(d, _)| *d).collect();
  let fail_kinds: BTreeSet<&str> = failing.iter().map(|d| exps[d].1.kind()).collect();
  let fail_kind = if fail_kinds.len() == 1 { fail_kinds.iter().next().unwrap() } else { "several-kinds" };
  let mut violated = false;
  let mut v = |key: String, what: String| {
    violated = true;
    let case = Case::Schedule { flavour, cfg: cfg.clone(), list: list.to_vec(), seq: seq.to_vec() };
    let names: Vec<&str> = list.iter().map(|i| uni(*i)).collect();
    ctx.violation(&key, &format!("{what}; list {names:?}, gates opened {:?}, call log {:?}", ex.schedule, ex.log), &case);
  };

  // ---- call log: clauses that hold whatever the result is
  let mut seen = BTreeSet::new();
  for (h, d) in &ex.log {
    match exps.get(d.as_str()) {
      None => v(format!("{e}|call-log|handler-called-with-did-not-in-input"), format!("({h},{d})")),
      Some((_, Exp::Handler { name, .. })) => {
        if h != name {
          v(format!("{e}|call-log|handler-of-another-method-called"), format!("({h},{d}), expected handler {name}"));
        }
      }
      Some((_, x)) => v(format!("{e}|call-log|{}|a-handler-was-called", x.kind()), format!("({h},{d})")),
    }
    if !seen.insert((h.clone(), d.clone())) {
      v(format!("{e}|call-log|duplicate-resolved-more-than-once"), format!("({h},{d})"));
    }
  }

  let (outcome, label);
  match &ex.res {
    Res::Panic(p) => {
      v(format!("{e}|{}", p.key), p.msg.clone());
      outcome = format!("panic {}", p.key);
      label = "multi:panic".to_string();
    }
    Res::Deadlock => {
      v(format!("{e}|never-completes"), "future pending with no gate left to open".into());
      outcome = "never-completes".into();
      label = "multi:deadlock".to_string();
    }
    Res::Ok(map) => {
      outcome = format!("Ok {map:?}");
      if !failing.is_empty() {
        v(format!("{e}|must-fail|returned-ok|{fail_kind}"), format!("{failing:?} cannot be resolved, yet Ok with keys {:?}", map.keys().collect::<Vec<_>>()));
        label = format!("multi:ok-although-{fail_kind}");
      } else {
        label = format!("multi:ok/distinct={}", distinct.len());
        let want_keys: BTreeSet<&str> = exps.keys().copied().collect();
        let got_keys: BTreeSet<&str> = map.keys().map(|s| s.as_str()).collect();
        if want_keys != got_keys {
          let class = if got_keys.is_subset(&want_keys) { "entry-missing" } else { "entry-for-did-not-in-input" };
          v(format!("{e}|all-resolve|key-set|{class}"), format!("keys {got_keys:?}, distinct inputs {want_keys:?}"));
        }
        for (d, doc) in map {
          if let Some((i, _)) = exps.get(d.as_str()) {
            match &singles[i].res {
              Res::Ok(single) if single == doc => {}
              other => v(format!("{e}|all-resolve|entry-differs-from-single-resolution"), format!("{d}: multiple gives {doc}, single gives {other:?}")),
            }
          }
        }
        // exactly one call per distinct DID that has a harness handler
        let want_calls: BTreeSet<(String, String)> =
          exps.iter().filter_map(|(d, (_, x))| if let Exp::Handler { name, .. } = x { Some((name.to_string(), d.to_string())) } else { None }).collect();
        if seen != want_calls {
          let class = if seen.is_subset(&want_calls) { "handler-not-called" } else { "unexpected-call" };
          v(format!("{e}|all-resolve|call-log|{class}"), format!("expected calls {want_calls:?}"));
        }
      }
    }
    Res::Err(variant, desc) => {
      if failing.is_empty() {
        v(format!("{e}|all-resolve|returned-err"), format!("every distinct DID resolves on its own, got {desc}"));
        outcome = format!("Err {desc}");
        label = "multi:err-although-all-resolve".to_string();
      } else if failing.len() == 1 {
        // one culprit: the error is comparable (over schedules, and with single resolution by variant)
        outcome = format!("Err {desc}");
        label = format!("multi:err/{fail_kind}");
        let i = exps[failing[0]].0;
        match &singles[&i].res {
          Res::Err(sv, _) if sv == variant => {}
          other => v(format!("{e}|one-fails|error-kind-differs-from-single-resolution"), format!("{}: multiple gives {desc}, single gives {other:?}", failing[0])),
        }
      } else {
        // several culprits: which error surfaces is not compared
        outcome = "Err".to_string();
        label = format!("multi:err/{}-of-{}-fail/{fail_kind}", failing.len(), distinct.len());
      }
    }
  }
  Judged { outcome, label, violated }
}

#[derive(Default, Clone)]
struct Agg {
  lists: u64,
  executions: u64,
  nodes: u64,
  edges: u64,
  max_executions_per_list: u64,
  max_depth: u64,
  lists_with_gt1_schedule: u64,
}
static AGG: Lazy<Mutex<BTreeMap<(u8, usize), Agg>>> = Lazy::new(Default::default);

fn multinomial(ks: &[u64]) -> u64 {
  let mut r: u64 = 1;
  let mut n: u64 = 0;
  for k in ks {
    for j in 1..=*k {
      n += 1;
      r = r * n / j; // exact: r is always a product of binomials
    }
  }
  r
}

fn eval_list(ctx: &Ctx, flavour: u8, cfg: &Cfg, list: &[u8]) {
  let distinct: BTreeSet<u8> = list.iter().copied().collect();
  let singles: BTreeMap<u8, Exec<String>> = distinct.iter().map(|i| (*i, run_single(flavour, cfg, *i))).collect();
  struct Acc {
    outcomes: BTreeMap<String, (u64, Vec<String>)>,
    hist: BTreeMap<String, u64>,
    violated: bool,
  }
  let acc = Mutex::new(Acc { outcomes: BTreeMap::new(), hist: BTreeMap::new(), violated: false });
  let st = choice::explore(None, |ch: &mut Chooser| {
    let ex = run_multi(flavour, cfg, list, ch);
    let seq = ch.seq();
    let j = judge_multi(ctx, flavour, cfg, list, &seq, &ex, &singles);
    let mut a = acc.lock().unwrap();
    *a.hist.entry(j.label).or_insert(0) += 1;
    a.violated |= j.violated;
    let slot = a.outcomes.entry(j.outcome).or_insert_with(|| (0, ex.schedule.clone()));
    slot.0 += 1;
    // keep the smallest schedule as the example, so the report does not depend on worker timing
    if ex.schedule < slot.1 {
      slot.1 = ex.schedule;
    }
  });
  let acc = acc.into_inner().unwrap();
  ctx.add_states(st.states);
  ctx.add_transitions(st.transitions);
  ctx.add_traces(st.executions);
  ctx.add_evals(st.executions);
  let mut hist = acc.hist;
  let case = Case::List { flavour, cfg: cfg.clone(), list: list.to_vec() };
  let names: Vec<&str> = list.iter().map(|i| uni(*i)).collect();
  // ---- the set of outcomes over all schedules of this list has size 1
  if acc.outcomes.len() != 1 {
    let shown: Vec<String> = acc.outcomes.iter().map(|(o, (n, s))| format!("{n} schedules e.g. {s:?} => {o}")).collect();
    ctx.violation(
      "Resolver::resolve_multiple|outcome-depends-on-completion-order",
      &format!("list {names:?}: {} different outcomes over {} schedules: {}", acc.outcomes.len(), st.executions, shown.join(" || ")),
      &case,
    );
  }
  // ---- machinery guard: when everything resolves, the executor must have offered every interleaving
  let exps: Vec<Exp> = distinct.iter().map(|i| expect(cfg, uni(*i))).collect();
  if !acc.violated && exps.iter().all(|x| !x.fails()) {
    let ks: Vec<u64> = exps.iter().filter_map(|x| if let Exp::Handler { gates, .. } = x { Some(*gates as u64) } else { None }).collect();
    let want = multinomial(&ks);
    ctx.require(st.executions == want, &format!("list {names:?} cfg {cfg:?}: {} schedules explored, {want} interleavings exist", st.executions));
  }
  let bucket = match st.executions {
    1 => "list:1-schedule",
    2..=9 => "list:2..9-schedules",
    10..=99 => "list:10..99-schedules",
    100..=999 => "list:100..999-schedules",
    _ => "list:1000+-schedules",
  };
  *hist.entry(bucket.into()).or_insert(0) += 1;
  ctx.outcomes_merge(&hist);
  if st.max_depth >= 1 {
    ctx.distinct(&("list", flavour, cfg, list));
  }
  let mut g = AGG.lock().unwrap();
  let a = g.entry((flavour, list.len())).or_default();
  a.lists += 1;
  a.executions += st.executions;
  a.nodes += st.states;
  a.edges += st.transitions;
  a.max_executions_per_list = a.max_executions_per_list.max(st.executions);
  a.max_depth = a.max_depth.max(st.max_depth);
  if st.executions > 1 {
    a.lists_with_gt1_schedule += 1;
  }
}

// ------------------------------------------------------------------ (c) did:jwk

struct JwkInput {
  text: String,
  did: String,
  secret: bool,
  /// 0 = only registered members with canonical values (key equality is judged)
  extra: usize,
  kty_label: &'static str,
}

fn q(s: &str) -> String {
  format!("\"{s}\"")
}

fn jwk_input(wide: bool, ch: &mut Chooser) -> (JwkInput, usize) {
  let kty = ch.choose("kty", 7);
  let private = match kty {
    5 => ch.choose("private", 3),
    6 => 0,
    _ => ch.choose("private", 2),
  };
  let nv = |w: usize| if wide { w } else { 2 };
  let use_ = ch.choose("use", nv(3));
  let key_ops = ch.choose("key_ops", nv(3));
  let alg = ch.choose("alg", 2);
  let kid = ch.choose("kid", nv(3));
  let x5u = ch.choose("x5u", 2);
  let x5c = ch.choose("x5c", 2);
  let x5t = ch.choose("x5t", 2);
  let x5t256 = ch.choose("x5t#S256", 2);
  let extra = ch.choose("extra", 3);
  let order = ch.choose("order", 2);
  let route = ch.choose("route", 7);

  let b = |n: usize, mul: u8, add: u8| q(&b64url(&bytes(n, mul, add)));
  let mut m: Vec<(&str, String)> = Vec::new();
  let kty_label;
  match kty {
    0 | 1 => {
      kty_label = if kty == 0 { "OKP-Ed25519" } else { "OKP-X25519" };
      m.push(("kty", q("OKP")));
      m.push(("crv", q(if kty == 0 { "Ed25519" } else { "X25519" })));
      m.push(("x", b(32, 7, 1)));
      if private == 1 {
        m.push(("d", b(32, 11, 3)));
      }
    }
    2..=4 => {
      let (crv, n) = [("P-256", 32), ("secp256k1", 32), ("P-384", 48)][kty - 2];
      kty_label = ["EC-P-256", "EC-secp256k1", "EC-P-384"][kty - 2];
      m.push(("kty", q("EC")));
      m.push(("crv", q(crv)));
      m.push(("x", b(n, 5, 9)));
      m.push(("y", b(n, 3, 17)));
      if private == 1 {
        m.push(("d", b(n, 13, 5)));
      }
    }
    5 => {
      kty_label = "RSA";
      m.push(("kty", q("RSA")));
      m.push(("n", b(256, 37, 0xc1)));
      m.push(("e", q("AQAB")));
      if private >= 1 {
        m.push(("d", b(256, 29, 0x41)));
      }
      if private == 1 {
        for (i, name) in ["p", "q", "dp", "dq", "qi"].into_iter().enumerate() {
          m.push((name, b(128, 17 + 2 * i as u8, 0x81)));
        }
      }
    }
    _ => {
      kty_label = "oct";
      m.push(("kty", q("oct")));
      m.push(("k", b(32, 19, 2)));
    }
  }
  if use_ > 0 {
    m.push(("use", q(["sig", "enc"][use_ - 1])));
  }
  if key_ops > 0 {
    m.push(("key_ops", [r#"["verify"]"#, r#"["encrypt","wrapKey"]"#][key_ops - 1].to_string()));
  }
  if alg > 0 {
    m.push(("alg", q(["EdDSA", "ECDH-ES", "ES256", "ES256K", "ES384", "RS256", "HS256"][kty])));
  }
  if kid > 0 {
    m.push(("kid", q(["key-1", "did:example:123#0"][kid - 1])));
  }
  if extra == 2 {
    m.push(("x5u", q("https://EXAMPLE.com"))); // not in the URL crate's normal form
  } else if x5u > 0 {
    m.push(("x5u", q("https://example.com/certs/chain.pem")));
  }
  if x5c > 0 {
    m.push(("x5c", format!("[{}]", q("MIIBszCCAVmgAwIBAgIUQ2VydGlmaWNhdGU="))));
  }
  if x5t > 0 {
    m.push(("x5t", b(20, 23, 4)));
  }
  if x5t256 > 0 {
    m.push(("x5t#S256", b(32, 27, 6)));
  }
  if extra == 1 {
    m.push(("ext", "true".to_string())); // a member RFC 7517 does not register
  }
  if order == 1 {
    m.reverse();
  }
  let text = format!("{{{}}}", m.iter().map(|(k, v)| format!("{}:{v}", q(k))).collect::<Vec<_>>().join(","));
  let did = format!("did:jwk:{}", b64url(text.as_bytes()));
  (JwkInput { text, did, secret: private != 0 || kty == 6, extra, kty_label }, route)
}

const ROUTES: [&str; 7] = [
  "CoreDocument::expand_did_jwk",
  "Resolver::resolve(&CoreDID)",
  "Resolver::resolve(&DIDJwk)",
  "SingleThreadedResolver::resolve(&CoreDID)",
  "SingleThreadedResolver::resolve(&DIDJwk)",
  "Resolver::resolve_multiple",
  "SingleThreadedResolver::resolve_multiple",
];

enum RouteRes {
  Ok(CoreDocument),
  /// (stage that refused, message)
  Err(&'static str, String),
  Panic(Panicked),
}

fn jwk_route(route: usize, did: &str) -> RouteRes {
  let r = guard(|| -> Result<CoreDocument, (&'static str, String)> {
    let typed = || DIDJwk::parse(did).map_err(|e| ("DIDJwk::parse", e.to_string()));
    let core = || CoreDID::parse(did).map_err(|e| ("CoreDID::parse", e.to_string()));
    let resolver = |flavour: u8| {
      if flavour == 0 {
        let mut r = Resolver::<CoreDocument>::new();
        r.attach_did_jwk_handler();
        AnyResolver::SS(r)
      } else {
        let mut r = SingleThreadedResolver::<CoreDocument>::new();
        r.attach_did_jwk_handler();
        AnyResolver::ST(r)
      }
    };
    let rerr = |e: identity_resolver::Error| ("resolver", err_desc(&e).1);
    match route {
      0 => CoreDocument::expand_did_jwk(typed()?).map_err(|e| ("expand_did_jwk", e.to_string())),
      1 | 3 => vx::gate::block_on(resolver((route / 2) as u8).resolve(&core()?)).map_err(rerr),
      2 | 4 => vx::gate::block_on(resolver((route / 2 - 1) as u8).resolve(&typed()?)).map_err(rerr),
      _ => {
        let d = core()?;
        let mut map = vx::gate::block_on(resolver((route - 5) as u8).resolve_multiple(&[d.clone(), d.clone()])).map_err(rerr)?;
        if map.len() != 1 {
          return Err(("map-size", format!("{} entries for one distinct DID", map.len())));
        }
        map.remove(&d).ok_or(("map-key", "the entry is not under the input DID".to_string()))
      }
    }
  });
  match r {
    Ok(Ok(d)) => RouteRes::Ok(d),
    Ok(Err((s, m))) => RouteRes::Err(s, m),
    Err(p) => RouteRes::Panic(p),
  }
}

const RELS: [&str; 5] = ["authentication", "assertionMethod", "keyAgreement", "capabilityInvocation", "capabilityDelegation"];

fn jwk_body(ctx: &Ctx, wide: bool, ch: &mut Chooser) {
  let (inp, route) = jwk_input(wide, ch);
  let case = Case::Jwk { wide, seq: ch.seq() };
  let e0 = ROUTES[0];
  let class = if inp.secret { "private" } else { "public" };
  let base = jwk_route(0, &inp.did);
  let v = |key: String, what: String| ctx.violation(&key, &format!("{what}; JWK {}", inp.text), &case);
  let outcome: &str;
  match &base {
    RouteRes::Panic(p) => {
      v(format!("{e0}|{}", p.key()), p.msg.clone());
      outcome = "panic";
    }
    RouteRes::Err(stage, msg) => {
      outcome = "rejected";
      if !inp.secret && inp.extra == 0 {
        let entry = if *stage == "DIDJwk::parse" { "DIDJwk::parse" } else { e0 };
        v(format!("{entry}|public-jwk|rejected"), format!("{stage}: {msg}"));
      }
    }
    RouteRes::Ok(doc) => {
      outcome = "expanded";
      if inp.secret {
        v(format!("{e0}|private-jwk|accepted"), "a document was built from a JWK with private members".into());
      }
      if route == 0 {
        // the document, as the public (JSON) representation and through the API
        let j = serde_json::to_value(doc).unwrap_or(Value::Null);
        let want_key: Value = serde_json::from_str(&inp.text).expect("harness JWK text is JSON");
        let vm_id = format!("{}#0", inp.did);
        if j["id"] != Value::String(inp.did.clone()) || doc.id().as_str() != inp.did {
          v(format!("{e0}|document-id-is-not-the-did"), format!("id {}", j["id"]));
        }
        let vms = j["verificationMethod"].as_array().cloned().unwrap_or_default();
        let mut embedded = 0;
        let mut rels = 0;
        for r in RELS {
          for ent in j[r].as_array().cloned().unwrap_or_default() {
            rels += 1;
            match ent {
              Value::String(s) if s == vm_id => {}
              Value::String(s) => v(format!("{e0}|relationship-references-something-else"), format!("{r}: {s}")),
              _ => embedded += 1,
            }
          }
        }
        if vms.len() != 1 || embedded != 0 || doc.methods(None).len() != 1 {
          v(format!("{e0}|not-exactly-one-method"), format!("{} verificationMethod entries, {embedded} embedded in relationships", vms.len()));
        }
        if let Some(vm) = vms.first() {
          if vm["id"] != Value::String(vm_id.clone()) {
            v(format!("{e0}|method-id-is-not-did#0"), format!("{}", vm["id"]));
          }
          if vm["controller"] != Value::String(inp.did.clone()) {
            v(format!("{e0}|method-controller-is-not-the-did"), format!("{}", vm["controller"]));
          }
          let same = vm["publicKeyJwk"] == want_key;
          if inp.extra == 0 {
            if !same {
              v(format!("{e0}|method-key-differs-from-the-encoded-jwk"), format!("publicKeyJwk {}", vm["publicKeyJwk"]));
            }
          } else {
            // left open by the statement (unregistered member / URL spelling): recorded only
            ctx.outcome(&format!("jwk:{}:{}", ["", "unregistered-member", "x5u-not-normalised"][inp.extra], if same { "kept-verbatim" } else { "altered" }));
          }
          ctx.outcome(&format!("jwk:method-type={}", vm["type"].as_str().unwrap_or("?")));
        }
        ctx.outcome(&format!("jwk:relationship-entries={rels}"));
      }
    }
  }
  if route != 0 {
    // the resolver returns the handler's result: the same as the direct expansion
    let er = ROUTES[route];
    match (jwk_route(route, &inp.did), &base) {
      (RouteRes::Panic(p), _) => v(format!("{er}|did:jwk|{}", p.key()), p.msg.clone()),
      (RouteRes::Ok(a), RouteRes::Ok(b)) if a == *b => {}
      (RouteRes::Err(..), RouteRes::Err(..)) => {}
      (_, RouteRes::Panic(_)) => {}
      (RouteRes::Ok(_), _) => v(format!("{er}|did:jwk|differs-from-expand_did_jwk|ok-vs-not"), "resolver Ok, direct expansion not (or another document)".into()),
      (RouteRes::Err(s, m), _) => v(format!("{er}|did:jwk|differs-from-expand_did_jwk|err-vs-ok"), format!("{s}: {m}")),
    }
  }
  ctx.outcome(&format!("jwk:{}:{class}:{outcome}", inp.kty_label));
  if outcome == "expanded" {
    ctx.distinct(&("jwk", &inp.text, route));
  }
}

/// Method-specific ids that do not encode a JWK: no unwinding on any route (outcomes recorded, not judged).
static RAW: Lazy<Vec<(&'static str, String)>> = Lazy::new(|| {
  vec![
    ("empty", String::new()),
    ("not-base64url-length", "A".into()),
    ("json-null", b64url(b"null")),
    ("json-array", b64url(b"[1]")),
    ("json-empty-object", b64url(b"{}")),
    ("kty-only", b64url(br#"{"kty":"OKP"}"#)),
    ("unknown-kty", b64url(br#"{"kty":"XYZ","x":"AA"}"#)),
    ("not-utf8", b64url(&[0xff, 0xfe, 0x00, 0x80])),
    ("truncated-json", b64url(br#"{"kty":"OKP","crv":"Ed25519","x":"#)),
    ("okp-with-ec-params", b64url(br#"{"kty":"OKP","crv":"P-256","x":"AQ","y":"Ag"}"#)),
  ]
});

fn eval_raw(ctx: &Ctx, payload: u8, case: &Case) {
  let (name, id) = &RAW[payload as usize];
  let did = format!("did:jwk:{id}");
  let mut outs = Vec::new();
  for route in 0..ROUTES.len() {
    ctx.eval1();
    match jwk_route(route, &did) {
      RouteRes::Panic(p) => {
        ctx.violation(&format!("{}|did:jwk-without-jwk|{}", ROUTES[route], p.key()), &format!("{name}: {did}: {}", p.msg), case);
        outs.push("panic");
      }
      RouteRes::Ok(_) => outs.push("expanded"),
      RouteRes::Err(..) => outs.push("rejected"),
    }
  }
  outs.dedup();
  ctx.outcome(&format!("jwk-raw:{name}:{}", outs.join("+")));
}

// ------------------------------------------------------------------ driver

/// `resolve_multiple` pushes its futures in the iteration order of a `HashSet` with std's `RandomState`, which nothing
/// outside std can control. That order decides nothing but the order of the FIRST poll: it is invisible for gated
/// handlers (all of them register their first gate before any gate is opened) and it is the completion order of the
/// futures that are ready at their first poll (unsupported method, unparsable DID, did:jwk, failure before any gate).
/// On a tree where the verdict of such a list depended on it, a single re-execution might not reproduce a violation;
/// REPLAYS (never the exploration) therefore re-execute such a case this many times (each `HashSet` gets fresh keys)
/// and report the union, so that a replay verdict is reproducible. The controllable twins of those cases (failure after
/// a gate, success after a gate) are enumerated exhaustively by the exploration itself.
fn replay_repeats(cfg: &Cfg, list: &[u8]) -> usize {
  let distinct: BTreeSet<u8> = list.iter().copied().collect();
  let immediate = distinct.iter().any(|i| match expect(cfg, uni(*i)) {
    Exp::Unsupported(_) | Exp::Unparsable | Exp::Jwk => true,
    Exp::Handler { fails, .. } => fails && cfg.fail_at == Some(0),
  });
  if distinct.len() >= 2 && immediate {
    256
  } else {
    1
  }
}

fn eval(ctx: &Ctx, case: &Case) {
  match case {
    Case::Single { flavour, cfg, did } => {
      ctx.eval1();
      let ex = run_single(*flavour, cfg, *did);
      let label = judge_single(ctx, case, cfg, uni(*did), &ex);
      ctx.outcome(label);
      if matches!(expect(cfg, uni(*did)), Exp::Handler { .. } | Exp::Jwk) {
        ctx.distinct(&("single", flavour, cfg, did));
      }
    }
    Case::Schedule { flavour, cfg, list, seq } => {
      let distinct: BTreeSet<u8> = list.iter().copied().collect();
      let mut label = String::new();
      for _ in 0..replay_repeats(cfg, list) {
        ctx.eval1();
        let singles: BTreeMap<u8, Exec<String>> = distinct.iter().map(|i| (*i, run_single(*flavour, cfg, *i))).collect();
        let mut ch = Chooser::replay(seq);
        let ex = run_multi(*flavour, cfg, list, &mut ch);
        label = judge_multi(ctx, *flavour, cfg, list, &ch.seq(), &ex, &singles).label;
      }
      ctx.outcome(&label);
    }
    Case::List { flavour, cfg, list } => {
      for _ in 0..replay_repeats(cfg, list) {
        eval_list(ctx, *flavour, cfg, list)
      }
    }
    Case::Jwk { wide, seq } => {
      ctx.eval1();
      jwk_body(ctx, *wide, &mut Chooser::replay(seq))
    }
    Case::JwkRaw { payload } => eval_raw(ctx, *payload, case),
  }
}

fn cfgs(tables: &[u8]) -> Vec<Cfg> {
  let mut out = Vec::new();
  for &table in tables {
    for k_foo in 1..=2u8 {
      for k_bar in 1..=2u8 {
        let mut fails: Vec<Option<u8>> = vec![None];
        fails.extend((0..=k_foo).map(Some));
        for fail_at in fails {
          out.push(Cfg { table, k_foo, k_bar, fail_at });
        }
      }
    }
  }
  out
}

fn lists(universe: &[u8], max_len: usize) -> Vec<Vec<u8>> {
  let mut all: Vec<Vec<u8>> = vec![vec![]];
  let mut frontier: Vec<Vec<u8>> = vec![vec![]];
  for _ in 0..max_len {
    let mut next = Vec::new();
    for l in &frontier {
      for &u in universe {
        let mut n = l.clone();
        n.push(u);
        next.push(n);
      }
    }
    all.extend(next.iter().cloned());
    frontier = next;
  }
  all
}

fn generate(ctx: &Ctx) {
  ctx.rule(
    "(a) full product flavour x configuration x DID for single resolve; (b) every DID list up to the length bound over the universe x \
     configuration x flavour, and for each the WHOLE tree of gate-opening orders (E1 over the E3b executor, bound None); (c) whole choice tree \
     kty x private x optional members x extra x member order x route. distinct_nontrivial = distinct (flavour, configuration, list) whose \
     exploration opened at least one gate + distinct single resolutions that reach a handler + distinct (JWK text, route) that expand",
  );
  ctx.assume("the gate executor polls the root future on one thread; handlers that spawn onto other threads or use real timers/IO are outside the explored space");
  ctx.assume("the order in which resolve_multiple first polls its futures is the iteration order of a std HashSet (RandomState) and cannot be controlled from outside: for futures that are ready at their first poll (unsupported method, unparsable DID, did:jwk, failure before any gate) the completion order is whatever that order is in the execution at hand; their gated twins (failure / success after a gate) are enumerated exhaustively. Verdicts on the explored tree do not depend on it; replays of such cases are repeated 256 times");
  ctx.assume("serde_json is trusted to parse the harness's own JWK text; base64url of the did:jwk identifiers is the harness's own encoder");
  ctx.assume("the harness handlers are the only source of asynchrony: every suspension point of a handler is a named gate, so all completion orders and all interleavings of 1- and 2-step handlers are enumerated");

  // tables: all subsets of {foo, bar, jwk} and, where foo is present, the variant where foo's handler replaced a decoy
  let mut tables = Vec::new();
  for t in 0..8u8 {
    tables.push(t);
    if t & T_FOO != 0 {
      tables.push(t | T_REPLACED);
    }
  }
  let cfgs = cfgs(&tables);
  let universe: Vec<u8> = ctx.by_tier((0..5).collect(), (0..8).collect());
  let max_len = ctx.by_tier(3, 4);
  ctx.bound("universe", universe.iter().map(|i| uni(*i)).collect::<Vec<_>>());
  ctx.bound("single_resolution_only", (8..UNIVERSE.len() as u8).map(uni).collect::<Vec<_>>());
  ctx.bound("max_list_len", max_len);
  ctx.bound("handler_tables", tables.len());
  ctx.bound("configurations", cfgs.len());
  ctx.bound("gates_per_handler", "1..=2 per method, independently");
  ctx.bound("failure_points_of_did:foo:2", "none, or after 0..=k_foo gates");
  ctx.bound("schedules", "all (deviation bound None)");

  // (a)
  let mut singles = Vec::new();
  for flavour in 0..2u8 {
    for cfg in &cfgs {
      for did in universe.iter().copied().chain(8..UNIVERSE.len() as u8) {
        singles.push(Case::Single { flavour, cfg: cfg.clone(), did });
      }
    }
  }
  ctx.sample("single", &singles[singles.len() / 2]);
  singles.par_iter().for_each(|c| eval(ctx, c));
  ctx.add_states(singles.len() as u64);
  ctx.add_transitions(singles.len() as u64);
  ctx.add_traces(singles.len() as u64);
  ctx.part("single resolve", json!({"engine": "E1 full product", "cases": singles.len()}));

  // (b)
  let lists = lists(&universe, max_len);
  let jobs: Vec<(u8, &Cfg)> = (0..2u8).flat_map(|f| cfgs.iter().map(move |c| (f, c))).collect();
  let full = cfgs.iter().find(|c| c.table == 7 && c.k_foo == 2 && c.k_bar == 2 && c.fail_at.is_none()).expect("full cfg");
  ctx.sample("resolve_multiple", &Case::List { flavour: 0, cfg: full.clone(), list: vec![0, 2, 0] });
  ctx.sample("resolve_multiple", &Case::Schedule { flavour: 1, cfg: full.clone(), list: vec![0, 2], seq: vec![1, 0, 1] });
  jobs.par_iter().for_each(|(flavour, cfg)| {
    lists.par_iter().for_each(|list| eval_list(ctx, *flavour, cfg, list));
  });
  for ((flavour, len), a) in AGG.lock().unwrap().iter() {
    ctx.part(
      &format!("resolve_multiple {} len={len}", if *flavour == 0 { "Resolver" } else { "SingleThreadedResolver" }),
      json!({"engine": "E3b gate executor under E1 choice DFS, whole tree", "list_explorations": a.lists, "executions": a.executions,
        "choice_tree_nodes": a.nodes, "edges": a.edges, "max_schedules_of_one_list": a.max_executions_per_list, "max_gates_opened": a.max_depth,
        "explorations_with_more_than_one_schedule": a.lists_with_gt1_schedule}),
    );
  }
  ctx.bound("lists", lists.len());

  // (c)
  let wide = ctx.thorough();
  choice::explore_into(ctx, "did:jwk", None, |ch| jwk_body(ctx, wide, ch));
  for kty in [0u32, 2, 5] {
    // three of the explored cases: Ed25519 / P-256 / RSA, no optional member, through SingleThreadedResolver::resolve(&CoreDID)
    ctx.sample("did:jwk", &Case::Jwk { wide, seq: vec![kty, 0, 0, 0, 0, 0, 0, 0, 0, 0, 0, 0, 3] });
  }
  let raws: Vec<Case> = (0..RAW.len() as u8).map(|payload| Case::JwkRaw { payload }).collect();
  ctx.sample("did:jwk raw", &raws[5]);
  raws.par_iter().for_each(|c| eval(ctx, c));
  ctx.add_states(raws.len() as u64);
  ctx.add_transitions((raws.len() * ROUTES.len()) as u64);
  ctx.add_traces((raws.len() * ROUTES.len()) as u64);
  ctx.part("did:jwk identifiers that encode no JWK", json!({"cases": raws.len(), "routes": ROUTES.len()}));
  ctx.bound("jwk_optional_member_values", if wide { "use 0..2, key_ops 0..2, kid 0..2, others 0..1 (all subsets)" } else { "every member absent/present (all 256 subsets)" });
}

fn main() {
  vx::run_main::<Case, _, _>("C20", Level::ModelChecking, generate, eval)
}
