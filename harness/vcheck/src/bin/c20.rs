//! C20 — the resolver dispatches by DID method and is independent of completion order.
//!
//! (a) Σ single `resolve`: every DID of the universe × every handler table / gate count / failure point ×
//!     both `Resolver` flavours: call log, result, unsupported-method error; the same resolution once more on the
//!     same resolver (same calls, same result).
//! (b) `resolve_multiple`: every DID list up to the tier's length (duplicates, unsupported methods, a DID whose
//!     handler cannot parse it, a failing DID) × every configuration × both flavours × EVERY order of opening the
//!     gates the harness handlers wait on (E3b gate executor driven by the E1 choice explorer, whole tree).
//!     Per execution: call log, key set, equality with single resolution, must-fail. Per list: the set of
//!     outcomes over all schedules has size 1; the same list given as the handler's own DID type has that outcome.
//!     Not judged (recorded): which error surfaces when several DIDs fail, the ErrorCause variant resolve_multiple
//!     reports for one failing DID, which handler answers after attach_handler("jwk") + attach_did_jwk_handler().
//!     Handler tables also carry: a replaced decoy for `foo`, look-alike keys that no DID method can spell (`FOO`, `foo:bar`, ...),
//!     a custom `jwk` handler attached before / after the built-in one, a `foo` handler whose DID type refuses one DID of its
//!     method, three handler shapes (sequential gates, join of gates, a gate shared by all invocations), a DID for which the
//!     handler answers with a document of another DID. Long lists (5-7 entries, up to 6 distinct gated DIDs) for a few tables.
//! (c) did:jwk (E1, whole tree): public / private OKP, EC, RSA, oct JWKs × optional-member subsets × member order
//!     × route (direct `expand_did_jwk`, both resolver flavours, `CoreDID` / `DIDJwk` typed input, resolve_multiple, also
//!     as a `DIDJwk` list with a second did:jwk DID). Expansion is demanded on public JWKs of registered members whose
//!     use / key_ops / alg agree and that carry no x5c chain; a private JWK must not yield a document with private members.

use identity_core::common::Object;
use identity_did::{CoreDID, DIDJwk, DID};
use identity_document::document::CoreDocument;
use identity_resolver::{ErrorCause, Resolver, SingleThreadedResolver};
use once_cell::sync::Lazy;
use serde::{Deserialize, Serialize};
use std::collections::{BTreeMap, BTreeSet, HashMap};
use std::future::Future;
use std::pin::Pin;
use std::rc::Rc;
use std::sync::{Arc, Mutex};
use vx::choice::{self, Chooser};
use vx::gate::{run_with_gates, GateRun, Gates};
use vx::rayon::prelude::*;
use vx::{guard, json, Ctx, Level, Panicked, Value};

// ------------------------------------------------------------------ universe

const B64: &[u8; 64] = b"ABCDEFGHIJKLMNOPQRSTUVWXYZabcdefghijklmnopqrstuvwxyz0123456789-_";
/// Hand-written base64url (no padding): the oracle does not use the library's encoder.
fn b64url(data: &[u8]) -> String {
  let mut s = String::new();
  for c in data.chunks(3) {
    let n = (c[0] as u32) << 16 | (*c.get(1).unwrap_or(&0) as u32) << 8 | *c.get(2).unwrap_or(&0) as u32;
    s.push(B64[(n >> 18) as usize & 63] as char);
    s.push(B64[(n >> 12) as usize & 63] as char);
    if c.len() > 1 {
      s.push(B64[(n >> 6) as usize & 63] as char);
    }
    if c.len() > 2 {
      s.push(B64[n as usize & 63] as char);
    }
  }
  s
}
fn bytes(n: usize, mul: u8, add: u8) -> Vec<u8> {
  (0..n).map(|i| (i as u8).wrapping_mul(mul).wrapping_add(add)).collect()
}

/// Universe of DESIGN §2 C20 (indices 0..5) plus three extensions used by the thorough tier.
static UNIVERSE: Lazy<Vec<String>> = Lazy::new(|| {
  let jwk = format!(r#"{{"kty":"OKP","crv":"Ed25519","x":"{}"}}"#, b64url(&bytes(32, 7, 1)));
  vec![
    "did:foo:1".into(),
    "did:foo:2".into(), // the DID the foo handler can be told to fail on
    "did:bar:1".into(),
    "did:baz:1".into(), // no handler for `baz`, ever
    format!("did:jwk:{}", b64url(jwk.as_bytes())),
    "did:bar:2".into(),
    "did:qux:1".into(),     // `qux` has a handler whose DID type (DIDJwk) cannot represent it
    "did:foo:bar:1".into(), // method `foo`, method-specific id `bar:1`
    // single resolution only: methods that extend / are a prefix of / contain a registered method name
    "did:foob:1".into(),
    "did:fo:1".into(),
    "did:barfoo:1".into(),
    // 11: every character class of a method-specific id; the foo handler answers it with the document of did:foo:1
    ALIAS_DID.into(),
    // 12: method `foo`, but the foo handler's DID type (PickyDid) refuses it
    PICKY_REJECTED.into(),
    // 13: a second did:jwk DID
    format!("did:jwk:{}", b64url(format!(r#"{{"kty":"OKP","crv":"X25519","use":"enc","x":"{}"}}"#, b64url(&bytes(32, 9, 5))).as_bytes())),
    // 14..=19: further gated DIDs, used by the wide lists of `resolve_multiple` only (more distinct DIDs than any small
    // fixed number a resolver might keep in flight at once)
    "did:foo:3".into(),
    "did:bar:3".into(),
    "did:foo:4".into(),
    "did:bar:4".into(),
    "did:foo:5".into(),
    "did:bar:5".into(),
  ]
});
const ALIAS_DID: &str = "did:foo:A.b-_%41%3a%eF:z"; // (percent-encoded triplets: digits only, lower-case hex, mixed case)
const ALIAS_TARGET: &str = "did:foo:1";
const PICKY_REJECTED: &str = "did:foo:9";
static DIDS: Lazy<Vec<CoreDID>> = Lazy::new(|| UNIVERSE.iter().map(|s| CoreDID::parse(s).expect("harness universe DID")).collect());
fn uni(i: u8) -> &'static str {
  &UNIVERSE[i as usize]
}
const FAILING_DID: &str = "did:foo:2";

/// table bits
const T_FOO: u8 = 1;
const T_BAR: u8 = 2;
const T_JWK: u8 = 4;
/// a decoy handler `foo-old` is attached for `foo` first and then replaced by the real one
const T_REPLACED: u8 = 8;
/// a harness handler `jwk-custom` is attached for `jwk` BEFORE `attach_did_jwk_handler` (the later attachment replaces it)
const T_JWKC_FIRST: u8 = 16;
/// `jwk-custom` is attached with `attach_handler` AFTER `attach_did_jwk_handler` (documented: the later handler replaces)
const T_JWKC_LAST: u8 = 32;
/// Keys no DID method can spell (a method name is 1*(a-z / 0-9)); attached last, in every table; must never be called.
const DECOYS: [(&str, &str); 7] = [
  ("FOO", "decoy:FOO"),
  ("Bar", "decoy:Bar"),
  ("JWK", "decoy:JWK"),
  ("foo:bar", "decoy:foo:bar"),
  ("did:foo", "decoy:did:foo"),
  ("foo ", "decoy:foo-space"),
  ("", "decoy:empty"),
];

#[derive(Serialize, Deserialize, Debug, Clone, PartialEq, Eq, Hash, PartialOrd, Ord)]
struct Cfg {
  table: u8,
  /// gates every `foo` / `bar` handler invocation awaits
  k_foo: u8,
  k_bar: u8,
  /// `Some(j)`: the foo handler fails on did:foo:2 after having awaited j of its gates (0 = before any)
  fail_at: Option<u8>,
  /// shape of every `foo` handler invocation: 0 = its k_foo own gates one after the other; 1 = all its own gates awaited
  /// jointly (it is polled again, and pending again on the still closed gate, whenever one of them opens); 2 = the first
  /// gate is ONE gate shared by all foo invocations (they become ready in the same poll), then k_foo-1 own gates
  #[serde(default)]
  shape: u8,
}

#[derive(Serialize, Deserialize, Debug, Clone)]
enum Case {
  /// flavour 0 = `Resolver` (Send + Sync handlers), 1 = `SingleThreadedResolver`
  Single { flavour: u8, cfg: Cfg, did: u8 },
  /// one schedule (choice sequence of the gate executor) of one list
  Schedule { flavour: u8, cfg: Cfg, list: Vec<u8>, seq: Vec<u32> },
  /// every schedule of one list + the comparison of the outcomes over all of them
  List {
    flavour: u8,
    cfg: Cfg,
    list: Vec<u8>,
    /// deviation bound of the schedule exploration (None = the whole tree); Some only for the wide lists
    #[serde(default)]
    bound: Option<u32>,
  },
  Jwk { wide: bool, seq: Vec<u32> },
  JwkRaw { payload: u8 },
  /// (a2) the DIDs of `dids` resolved one after the other with `resolve` on ONE resolver
  History { flavour: u8, cfg: Cfg, dids: Vec<u8> },
}

// ------------------------------------------------------------------ harness handlers

#[derive(Debug)]
struct HErr(String);
impl std::fmt::Display for HErr {
  fn fmt(&self, f: &mut std::fmt::Formatter<'_>) -> std::fmt::Result {
    f.write_str(&self.0)
  }
}
impl std::error::Error for HErr {}

type Log = Arc<Mutex<Vec<(String, String)>>>;

/// DID type of the harness's `foo` handlers: a `foo` DID whose method-specific id does not end in `9`
/// (stands for a method-specific DID type, like `IotaDID`, that cannot represent every DID of its method).
#[derive(Debug, Clone, PartialEq, Eq, PartialOrd, Ord, Hash)]
struct PickyDid(CoreDID);
impl PickyDid {
  fn check(did: CoreDID) -> Result<Self, HErr> {
    if did.method() == "foo" && !did.method_id().ends_with('9') {
      Ok(PickyDid(did))
    } else {
      Err(HErr(format!("{did} is not a PickyDid")))
    }
  }
}
impl std::str::FromStr for PickyDid {
  type Err = HErr;
  fn from_str(s: &str) -> Result<Self, HErr> {
    CoreDID::parse(s).map_err(|e| HErr(e.to_string())).and_then(PickyDid::check)
  }
}
impl<'a> TryFrom<&'a str> for PickyDid {
  type Error = HErr;
  fn try_from(s: &'a str) -> Result<Self, HErr> {
    s.parse()
  }
}
impl TryFrom<CoreDID> for PickyDid {
  type Error = HErr;
  fn try_from(did: CoreDID) -> Result<Self, HErr> {
    PickyDid::check(did)
  }
}
impl From<PickyDid> for CoreDID {
  fn from(d: PickyDid) -> CoreDID {
    d.0
  }
}
impl From<PickyDid> for String {
  fn from(d: PickyDid) -> String {
    d.0.into_string()
  }
}
impl AsRef<CoreDID> for PickyDid {
  fn as_ref(&self) -> &CoreDID {
    &self.0
  }
}

/// What the harness handler `name` answers when it RECEIVED `did`: a document that names the handler and the DID it was
/// given; its id is that DID, except for ALIAS_DID, which is answered with the document of another DID.
fn doc_for(name: &str, did: &str) -> CoreDocument {
  let mut props = Object::new();
  props.insert("resolvedBy".into(), Value::String(name.into()));
  props.insert("requested".into(), Value::String(did.into()));
  let id = if did == ALIAS_DID { ALIAS_TARGET } else { did };
  CoreDocument::builder(props).id(CoreDID::parse(id).expect("did")).build().expect("harness document")
}

/// Awaits all its gates jointly: ready when every one is open; polled (and pending on the still closed ones) again
/// whenever one of them opens.
struct JoinGates(Vec<Option<vx::gate::Gate>>);
impl Future for JoinGates {
  type Output = ();
  fn poll(mut self: Pin<&mut Self>, cx: &mut std::task::Context<'_>) -> std::task::Poll<()> {
    let mut all = true;
    for slot in self.0.iter_mut() {
      if let Some(g) = slot {
        if Pin::new(g).poll(cx).is_ready() {
          *slot = None;
        } else {
          all = false;
        }
      }
    }
    if all {
      std::task::Poll::Ready(())
    } else {
      std::task::Poll::Pending
    }
  }
}

async fn handler_steps(name: &'static str, k: u8, fail: Option<u8>, shape: u8, did: CoreDID, gates: Gates) -> Result<CoreDocument, HErr> {
  let fail_here = if did.as_str() == FAILING_DID { fail } else { None };
  let failed = || Err(HErr(format!("{name} handler failed on {did}")));
  if shape == 1 {
    if fail_here == Some(0) {
      return failed();
    }
    JoinGates((0..k).map(|i| Some(gates.gate(format!("{did}/{i}")))).collect()).await;
    if fail_here.is_some() {
      return failed();
    }
    return Ok(doc_for(name, did.as_str()));
  }
  for i in 0..k {
    if fail_here == Some(i) {
      return failed();
    }
    if shape == 2 && i == 0 {
      gates.gate(format!("{name}/shared")).await;
    } else {
      gates.gate(format!("{did}/{i}")).await;
    }
  }
  if fail_here == Some(k) {
    return failed();
  }
  Ok(doc_for(name, did.as_str()))
}

type SendFut = Pin<Box<dyn Future<Output = Result<CoreDocument, HErr>> + Send>>;
fn handler_ss<D: Into<CoreDID> + Send + 'static>(
  name: &'static str,
  k: u8,
  fail: Option<u8>,
  shape: u8,
  log: Log,
  gates: Gates,
) -> impl Fn(D) -> SendFut + Clone + Send + Sync + 'static {
  move |did: D| {
    let did: CoreDID = did.into();
    log.lock().unwrap().push((name.to_string(), did.as_str().to_string()));
    Box::pin(handler_steps(name, k, fail, shape, did, gates.clone()))
  }
}
type LocalFut = Pin<Box<dyn Future<Output = Result<CoreDocument, HErr>>>>;
/// Same handler for the single-threaded flavour; its future holds an `Rc` across every await (it is not `Send`).
fn handler_st<D: Into<CoreDID> + 'static>(name: &'static str, k: u8, fail: Option<u8>, shape: u8, log: Log, gates: Gates) -> impl Fn(D) -> LocalFut + Clone + 'static {
  let token = Rc::new(std::cell::Cell::new(0u32));
  move |did: D| {
    let did: CoreDID = did.into();
    log.lock().unwrap().push((name.to_string(), did.as_str().to_string()));
    let token = token.clone();
    let gates = gates.clone();
    Box::pin(async move {
      let r = handler_steps(name, k, fail, shape, did, gates).await;
      token.set(token.get() + 1);
      r
    })
  }
}

enum AnyResolver {
  SS(Resolver<CoreDocument>),
  ST(SingleThreadedResolver<CoreDocument>),
}
impl AnyResolver {
  async fn resolve<D: DID>(&self, did: &D) -> identity_resolver::Result<CoreDocument> {
    match self {
      AnyResolver::SS(r) => r.resolve(did).await,
      AnyResolver::ST(r) => r.resolve(did).await,
    }
  }
  async fn resolve_multiple<D: DID>(&self, dids: &[D]) -> identity_resolver::Result<HashMap<D, CoreDocument>> {
    match self {
      AnyResolver::SS(r) => r.resolve_multiple(dids).await,
      AnyResolver::ST(r) => r.resolve_multiple(dids).await,
    }
  }
}

fn build(flavour: u8, cfg: &Cfg, log: &Log, gates: &Gates) -> AnyResolver {
  macro_rules! attach {
    ($r:ident, $h:ident) => {{
      if cfg.table & T_FOO != 0 {
        if cfg.table & T_REPLACED != 0 {
          // the replaced handler has another DID type (CoreDID) than its replacement
          $r.attach_handler("foo".to_owned(), $h::<CoreDID>("foo-old", cfg.k_foo, None, cfg.shape, log.clone(), gates.clone()));
        }
        $r.attach_handler("foo".to_owned(), $h::<PickyDid>("foo", cfg.k_foo, cfg.fail_at, cfg.shape, log.clone(), gates.clone()));
      }
      if cfg.table & T_BAR != 0 {
        $r.attach_handler("bar".to_owned(), $h::<CoreDID>("bar", cfg.k_bar, None, 0, log.clone(), gates.clone()));
      }
      if cfg.table & T_JWKC_FIRST != 0 {
        $r.attach_handler("jwk".to_owned(), $h::<CoreDID>("jwk-custom", cfg.k_bar, None, 0, log.clone(), gates.clone()));
      }
      if cfg.table & T_JWK != 0 {
        $r.attach_did_jwk_handler();
      }
      if cfg.table & T_JWKC_LAST != 0 {
        $r.attach_handler("jwk".to_owned(), $h::<CoreDID>("jwk-custom", cfg.k_bar, None, 0, log.clone(), gates.clone()));
      }
      // `qux`: a handler whose DID type is DIDJwk; a did:qux DID never converts to it
      let l = log.clone();
      $r.attach_handler("qux".to_owned(), move |did: DIDJwk| {
        l.lock().unwrap().push(("qux".to_string(), did.to_string()));
        async move { Ok::<CoreDocument, HErr>(doc_for("qux", did.as_ref().as_str())) }
      });
      // look-alike keys, attached last: none of them is the method of any DID
      for (key, name) in DECOYS {
        $r.attach_handler(key.to_owned(), $h::<CoreDID>(name, 0, None, 0, log.clone(), gates.clone()));
      }
    }};
  }
  if flavour == 0 {
    let mut r = Resolver::<CoreDocument>::new();
    attach!(r, handler_ss);
    AnyResolver::SS(r)
  } else {
    let mut r = SingleThreadedResolver::<CoreDocument>::new();
    attach!(r, handler_st);
    AnyResolver::ST(r)
  }
}

// ------------------------------------------------------------------ reference (written from the statement)

#[derive(Debug, Clone, PartialEq)]
enum Exp {
  /// no handler for the method: UnsupportedMethodError, nothing is called
  Unsupported(String),
  /// the method's handler cannot represent the DID: an error, the handler is not called
  Unparsable,
  /// the harness handler `name` is called with the DID; `fails` = it returns Err
  Handler { name: &'static str, fails: bool, gates: u8 },
  /// the built-in did:jwk handler
  Jwk,
  /// `attach_handler("jwk", custom)` followed by `attach_did_jwk_handler()`: the documentation of the latter does not say
  /// that it replaces; whichever of the two answers single resolution is taken as the registered one (see `settle`)
  JwkEither,
}
impl Exp {
  fn fails(&self) -> bool {
    matches!(self, Exp::Unsupported(_) | Exp::Unparsable | Exp::Handler { fails: true, .. })
  }
  fn kind(&self) -> &'static str {
    match self {
      Exp::Unsupported(_) => "unsupported-method",
      Exp::Unparsable => "did-not-parsable-by-handler",
      Exp::Handler { fails: true, .. } => "handler-error",
      Exp::Handler { .. } => "handler-ok",
      Exp::Jwk | Exp::JwkEither => "did-jwk",
    }
  }
  /// Resolves `JwkEither` by what single resolution did (a harness handler call was logged, or none).
  fn settle(self, cfg: &Cfg, single_log: &[(String, String)]) -> Exp {
    match self {
      Exp::JwkEither if single_log.iter().any(|(h, _)| h == "jwk-custom") => Exp::Handler { name: "jwk-custom", fails: false, gates: cfg.k_bar },
      Exp::JwkEither => Exp::Jwk,
      x => x,
    }
  }
}
fn method_of(did: &str) -> &str {
  did.split(':').nth(1).unwrap_or("")
}
fn expect(cfg: &Cfg, did: &str) -> Exp {
  let m = method_of(did);
  match m {
    "foo" if cfg.table & T_FOO != 0 && did == PICKY_REJECTED => Exp::Unparsable,
    "foo" if cfg.table & T_FOO != 0 => Exp::Handler { name: "foo", fails: did == FAILING_DID && cfg.fail_at.is_some(), gates: cfg.k_foo },
    "bar" if cfg.table & T_BAR != 0 => Exp::Handler { name: "bar", fails: false, gates: cfg.k_bar },
    "jwk" if cfg.table & T_JWKC_LAST != 0 => Exp::Handler { name: "jwk-custom", fails: false, gates: cfg.k_bar },
    // `attach_did_jwk_handler` "attaches a handler capable of resolving did:jwk DIDs" and attaching is documented as
    // replacing ("If there already exists a handler for this method then it will be replaced with the new handler"):
    // after it returns, the built-in handler is the one registered for `jwk`
    "jwk" if cfg.table & T_JWKC_FIRST != 0 && cfg.table & T_JWK != 0 => Exp::Jwk,
    "jwk" if cfg.table & T_JWKC_FIRST != 0 => Exp::Handler { name: "jwk-custom", fails: false, gates: cfg.k_bar },
    "jwk" if cfg.table & T_JWK != 0 => Exp::Jwk,
    "qux" => Exp::Unparsable,
    _ => Exp::Unsupported(m.to_string()),
  }
}

// ------------------------------------------------------------------ running the real resolver

#[derive(Debug, Clone, PartialEq)]
enum Res<T> {
  Ok(T),
  /// (variant name of the ErrorCause, description incl. method / source text)
  Err(String, String),
  Deadlock,
  Panic(Panicked2),
}
#[derive(Debug, Clone, PartialEq)]
struct Panicked2 {
  key: String,
  msg: String,
}
impl From<Panicked> for Panicked2 {
  fn from(p: Panicked) -> Self {
    Panicked2 { key: p.key(), msg: p.msg }
  }
}
fn err_desc(e: &identity_resolver::Error) -> (String, String) {
  let cause = e.error_cause();
  let variant: &'static str = cause.into();
  let desc = match cause {
    ErrorCause::UnsupportedMethodError { method } => format!("UnsupportedMethodError({method})"),
    ErrorCause::HandlerError { source, .. } => format!("HandlerError({source})"),
    ErrorCause::DIDParsingError { .. } => "DIDParsingError".to_string(),
    _ => variant.to_string(),
  };
  (variant.to_string(), desc)
}
fn doc_json(d: &CoreDocument) -> String {
  serde_json::to_string(d).unwrap_or_else(|e| format!("unserialisable: {e}"))
}

struct Exec<T> {
  res: Res<T>,
  log: Vec<(String, String)>,
  schedule: Vec<String>,
  /// single resolution only: result and call log of a second `resolve` of the same DID on the same resolver
  again: Option<(Res<T>, Vec<(String, String)>)>,
}

fn run_single(flavour: u8, cfg: &Cfg, did: u8) -> Exec<String> {
  let log: Log = Default::default();
  let gates = Gates::new();
  let target = &DIDS[did as usize];
  let r = guard(|| {
    let resolver = build(flavour, cfg, &log, &gates);
    let once = |resolver: &AnyResolver| {
      let mut ch = Chooser::replay(&[]);
      match run_with_gates(resolver.resolve(target), &gates, &mut ch) {
        GateRun::Done(Ok(doc)) => Res::Ok(doc_json(&doc)),
        GateRun::Done(Err(e)) => {
          let (v, d) = err_desc(&e);
          Res::Err(v, d)
        }
        GateRun::Deadlock => Res::Deadlock,
      }
    };
    let first = once(&resolver);
    let split = log.lock().unwrap().len();
    // the same resolver once more (the gates are open by now: the handler is not suspended a second time)
    let second = once(&resolver);
    (first, split, second)
  });
  let mut log = log.lock().unwrap().clone();
  match r {
    Ok((res, split, second)) => {
      let second_log = log.split_off(split);
      Exec { res, log, schedule: gates.schedule(), again: Some((second, second_log)) }
    }
    Err(p) => Exec { res: Res::Panic(p.into()), log, schedule: gates.schedule(), again: None },
  }
}

/// `resolve` of every DID of `dids`, in that order, on one resolver: per step the result and the handler calls it made.
fn run_history(flavour: u8, cfg: &Cfg, dids: &[u8]) -> Vec<(Res<String>, Vec<(String, String)>)> {
  let log: Log = Default::default();
  let gates = Gates::new();
  let mut out = Vec::new();
  let resolver = match guard(|| build(flavour, cfg, &log, &gates)) {
    Ok(r) => r,
    Err(p) => return vec![(Res::Panic(p.into()), vec![])],
  };
  for d in dids {
    let target = &DIDS[*d as usize];
    let before = log.lock().unwrap().len();
    let r = guard(|| {
      let mut ch = Chooser::replay(&[]);
      match run_with_gates(resolver.resolve(target), &gates, &mut ch) {
        GateRun::Done(Ok(doc)) => Res::Ok(doc_json(&doc)),
        GateRun::Done(Err(e)) => {
          let (v, d) = err_desc(&e);
          Res::Err(v, d)
        }
        GateRun::Deadlock => Res::Deadlock,
      }
    });
    let calls = log.lock().unwrap()[before..].to_vec();
    out.push((r.unwrap_or_else(|p| Res::Panic(p.into())), calls));
  }
  out
}

fn run_multi(flavour: u8, cfg: &Cfg, list: &[u8], ch: &mut Chooser) -> Exec<BTreeMap<String, String>> {
  let dids: Vec<CoreDID> = list.iter().map(|i| DIDS[*i as usize].clone()).collect();
  run_multi_as(flavour, cfg, &dids, ch)
}

fn run_multi_as<D: DID>(flavour: u8, cfg: &Cfg, dids: &[D], ch: &mut Chooser) -> Exec<BTreeMap<String, String>> {
  let log: Log = Default::default();
  let gates = Gates::new();
  let r = guard(|| {
    let resolver = build(flavour, cfg, &log, &gates);
    let out = match run_with_gates(resolver.resolve_multiple(dids), &gates, ch) {
      // sorted: nothing that came out of a HashMap is compared in its own order
      GateRun::Done(Ok(map)) => Res::Ok(map.iter().map(|(k, v)| (k.as_str().to_string(), doc_json(v))).collect::<BTreeMap<_, _>>()),
      GateRun::Done(Err(e)) => {
        let (v, d) = err_desc(&e);
        Res::Err(v, d)
      }
      GateRun::Deadlock => Res::Deadlock,
    };
    out
  });
  let res = r.unwrap_or_else(|p| Res::Panic(p.into()));
  let log = log.lock().unwrap().clone();
  Exec { res, log, schedule: gates.schedule(), again: None }
}

// ------------------------------------------------------------------ (a) single resolution

fn judge_single(ctx: &Ctx, case: &Case, cfg: &Cfg, did: &str, ex: &Exec<String>) -> &'static str {
  let raw = expect(cfg, did);
  let exp = raw.clone().settle(cfg, &ex.log);
  if raw == Exp::JwkEither {
    // not judged: which of the two handlers attached for `jwk` answers
    ctx.outcome(if exp == Exp::Jwk { "single:jwk custom-then-built-in: built-in answers" } else { "single:jwk custom-then-built-in: custom answers" });
  }
  let e = "Resolver::resolve";
  let v = |key: String, what: String| ctx.violation(&key, &format!("{what}; did {did}, call log {:?}", ex.log), case);
  // call log
  let want_log: Vec<(String, String)> = match &exp {
    Exp::Handler { name, .. } => vec![(name.to_string(), did.to_string())],
    _ => vec![],
  };
  match &ex.res {
    Res::Panic(p) => {
      v(format!("{e}|{}", p.key), p.msg.clone());
      return "single:panic";
    }
    Res::Deadlock => {
      v(format!("{e}|never-completes"), "future pending with no gate left to open".into());
      return "single:deadlock";
    }
    _ => {}
  }
  // a resolver keeps no state between resolutions: the second one invokes the handler again and returns the same
  if let Some((res2, log2)) = &ex.again {
    if *res2 != ex.res || *log2 != ex.log {
      v(format!("{e}|second-resolution-on-the-same-resolver-differs"), format!("first {:?} with calls {:?}; second {res2:?} with calls {log2:?}", ex.res, ex.log));
    }
  }
  if ex.log != want_log {
    let class = match &exp {
      Exp::Unsupported(_) => "unsupported-method|a-handler-was-called",
      Exp::Unparsable => "did-not-parsable-by-handler|a-handler-was-called",
      Exp::Jwk | Exp::JwkEither => "did-jwk|a-harness-handler-was-called",
      Exp::Handler { .. } => {
        if ex.log.is_empty() {
          "handler-not-called"
        } else if ex.log.len() > 1 {
          "more-than-one-handler-call"
        } else if ex.log[0].1 != did {
          "handler-called-with-another-did"
        } else {
          "handler-of-another-method-called"
        }
      }
    };
    v(format!("{e}|call-log|{class}"), format!("expected calls {want_log:?}"));
  }
  match (&exp, &ex.res) {
    (Exp::Unsupported(m), Res::Err(variant, desc)) => {
      if variant != "UnsupportedMethodError" || *desc != format!("UnsupportedMethodError({m})") {
        v(format!("{e}|unsupported-method|wrong-error"), format!("got {desc}"));
      }
      "single:unsupported-method"
    }
    (Exp::Unsupported(_), Res::Ok(_)) => {
      v(format!("{e}|unsupported-method|returned-ok"), "a document was returned for a method without handler".into());
      "single:unsupported-method"
    }
    (Exp::Unparsable, Res::Err(_, _)) => "single:did-not-parsable-by-handler",
    (Exp::Unparsable, Res::Ok(_)) => {
      v(format!("{e}|did-not-parsable-by-handler|returned-ok"), "".into());
      "single:did-not-parsable-by-handler"
    }
    (Exp::Handler { name, fails: false, .. }, Res::Ok(doc)) => {
      if *doc != doc_json(&doc_for(name, did)) {
        v(format!("{e}|result-is-not-the-handlers"), format!("got {doc}"));
      }
      "single:handler-ok"
    }
    (Exp::Handler { fails: false, .. }, Res::Err(_, desc)) => {
      v(format!("{e}|handler-ok|returned-err"), format!("got {desc}"));
      "single:handler-ok"
    }
    (Exp::Handler { name, fails: true, .. }, Res::Err(variant, desc)) => {
      if variant != "HandlerError" || !desc.contains(&format!("{name} handler failed on {did}")) {
        v(format!("{e}|handler-error|error-is-not-the-handlers"), format!("got {desc}"));
      }
      "single:handler-error"
    }
    (Exp::Handler { fails: true, .. }, Res::Ok(_)) => {
      v(format!("{e}|handler-error|returned-ok"), "".into());
      "single:handler-error"
    }
    (Exp::Jwk, Res::Ok(doc)) => {
      // the built-in handler's result is what expand_did_jwk gives; its content is judged in part (c)
      let direct = guard(|| DIDJwk::parse(did).ok().and_then(|d| CoreDocument::expand_did_jwk(d).ok()).map(|d| doc_json(&d)));
      if direct.ok().flatten().as_ref() != Some(doc) {
        v(format!("{e}|did:jwk|differs-from-expand_did_jwk"), format!("got {doc}"));
      }
      "single:did-jwk"
    }
    (Exp::Jwk, Res::Err(_, desc)) => {
      v(format!("{e}|did:jwk|public-jwk-rejected"), format!("got {desc}"));
      "single:did-jwk"
    }
    (_, Res::Panic(_)) | (_, Res::Deadlock) | (Exp::JwkEither, _) => unreachable!(),
  }
}

// ------------------------------------------------------------------ (b) resolve_multiple

/// Canonical outcome of one execution, for comparisons between executions of the same list: the sorted map; the error
/// when exactly one distinct DID cannot be resolved (it is then the same in every execution); just "Err" when several
/// cannot (which of their errors surfaces depends on the completion order and on the HashSet's iteration order).
fn outcome_of(res: &Res<BTreeMap<String, String>>, failing: usize) -> String {
  match res {
    Res::Panic(p) => format!("panic {}", p.key),
    Res::Deadlock => "never-completes".into(),
    Res::Ok(map) => format!("Ok {map:?}"),
    Res::Err(_, desc) if failing <= 1 => format!("Err {desc}"),
    Res::Err(..) => "Err".into(),
  }
}

struct Judged {
  /// canonical outcome of this execution for the comparison over all schedules
  outcome: String,
  label: String,
  violated: bool,
}

fn judge_multi(
  ctx: &Ctx,
  flavour: u8,
  cfg: &Cfg,
  list: &[u8],
  seq: &[u32],
  ex: &Exec<BTreeMap<String, String>>,
  singles: &BTreeMap<u8, Exec<String>>,
) -> Judged {
  let e = "Resolver::resolve_multiple";
  let distinct: BTreeSet<u8> = list.iter().copied().collect();
  let exps: BTreeMap<&str, (u8, Exp)> = distinct.iter().map(|i| (uni(*i), (*i, expect(cfg, uni(*i)).settle(cfg, &singles[i].log)))).collect();
  let failing: Vec<&str> = exps.iter().filter(|(_, (_, x))| x.fails()).map(|(d, _)| *d).collect();
  let fail_kinds: BTreeSet<&str> = failing.iter().map(|d| exps[d].1.kind()).collect();
  let fail_kind = if fail_kinds.len() == 1 { fail_kinds.iter().next().unwrap() } else { "several-kinds" };
  let mut violated = false;
  let mut v = |key: String, what: String| {
    violated = true;
    let case = Case::Schedule { flavour, cfg: cfg.clone(), list: list.to_vec(), seq: seq.to_vec() };
    let names: Vec<&str> = list.iter().map(|i| uni(*i)).collect();
    ctx.violation(&key, &format!("{what}; list {names:?}, gates opened {:?}, call log {:?}", ex.schedule, ex.log), &case);
  };

  // ---- call log: clauses that hold whatever the result is
  let mut seen = BTreeSet::new();
  for (h, d) in &ex.log {
    match exps.get(d.as_str()) {
      None => v(format!("{e}|call-log|handler-called-with-did-not-in-input"), format!("({h},{d})")),
      Some((_, Exp::Handler { name, .. })) => {
        if h != name {
          v(format!("{e}|call-log|handler-of-another-method-called"), format!("({h},{d}), expected handler {name}"));
        }
      }
      Some((_, x)) => v(format!("{e}|call-log|{}|a-handler-was-called", x.kind()), format!("({h},{d})")),
    }
    if !seen.insert((h.clone(), d.clone())) {
      v(format!("{e}|call-log|duplicate-resolved-more-than-once"), format!("({h},{d})"));
    }
  }

  let outcome = outcome_of(&ex.res, failing.len());
  let label;
  match &ex.res {
    Res::Panic(p) => {
      v(format!("{e}|{}", p.key), p.msg.clone());
      label = "multi:panic".to_string();
    }
    Res::Deadlock => {
      v(format!("{e}|never-completes"), "future pending with no gate left to open".into());
      label = "multi:deadlock".to_string();
    }
    Res::Ok(map) => {
      if !failing.is_empty() {
        v(format!("{e}|must-fail|returned-ok|{fail_kind}"), format!("{failing:?} cannot be resolved, yet Ok with keys {:?}", map.keys().collect::<Vec<_>>()));
        label = format!("multi:ok-although-{fail_kind}");
      } else {
        label = format!("multi:ok/distinct={}", distinct.len());
        let want_keys: BTreeSet<&str> = exps.keys().copied().collect();
        let got_keys: BTreeSet<&str> = map.keys().map(|s| s.as_str()).collect();
        if want_keys != got_keys {
          let class = if got_keys.is_subset(&want_keys) { "entry-missing" } else { "entry-for-did-not-in-input" };
          v(format!("{e}|all-resolve|key-set|{class}"), format!("keys {got_keys:?}, distinct inputs {want_keys:?}"));
        }
        for (d, doc) in map {
          if let Some((i, _)) = exps.get(d.as_str()) {
            match &singles[i].res {
              Res::Ok(single) if single == doc => {}
              other => v(format!("{e}|all-resolve|entry-differs-from-single-resolution"), format!("{d}: multiple gives {doc}, single gives {other:?}")),
            }
          }
        }
        // exactly one call per distinct DID that has a harness handler
        let want_calls: BTreeSet<(String, String)> =
          exps.iter().filter_map(|(d, (_, x))| if let Exp::Handler { name, .. } = x { Some((name.to_string(), d.to_string())) } else { None }).collect();
        if seen != want_calls {
          let class = if seen.is_subset(&want_calls) { "handler-not-called" } else { "unexpected-call" };
          v(format!("{e}|all-resolve|call-log|{class}"), format!("expected calls {want_calls:?}"));
        }
      }
    }
    Res::Err(variant, desc) => {
      if failing.is_empty() {
        v(format!("{e}|all-resolve|returned-err"), format!("every distinct DID resolves on its own, got {desc}"));
        label = "multi:err-although-all-resolve".to_string();
      } else if failing.len() == 1 {
        // one culprit: the error is the same over all schedules. Whether resolve_multiple reports it with the same
        // ErrorCause variant as single resolution does is not promised ("fails if any one of them fails"): recorded.
        let i = exps[failing[0]].0;
        let same = matches!(&singles[&i].res, Res::Err(sv, _) if sv == variant);
        label = format!("multi:err/{fail_kind}/{}", if same { "variant-of-single-resolution" } else { "another-variant-than-single-resolution" });
      } else {
        // several culprits: which error surfaces is not compared
        label = format!("multi:err/{}-of-{}-fail/{fail_kind}", failing.len(), distinct.len());
      }
    }
  }
  Judged { outcome, label, violated }
}

#[derive(Default, Clone)]
struct Agg {
  lists: u64,
  executions: u64,
  nodes: u64,
  edges: u64,
  max_executions_per_list: u64,
  max_depth: u64,
  lists_with_gt1_schedule: u64,
}
static AGG: Lazy<Mutex<BTreeMap<(u8, usize), Agg>>> = Lazy::new(Default::default);
/// lists with more than one schedule for which the executor was offered exactly all interleavings of the handlers' gates
static FULLY_INTERLEAVED: std::sync::atomic::AtomicU64 = std::sync::atomic::AtomicU64::new(0);

/// Number of orders in which the gates of the (all successful) handlers of one list can be opened.
fn expected_schedules(cfg: &Cfg, exps: &[Exp]) -> u64 {
  let mut chains: Vec<u64> = Vec::new(); // sequential gates of one invocation
  let mut foo = 0u64;
  for x in exps {
    if let Exp::Handler { name, gates, .. } = x {
      if *name == "foo" && cfg.shape != 0 {
        foo += 1;
      } else {
        chains.push(*gates as u64);
      }
    }
  }
  let k = cfg.k_foo as u64;
  match cfg.shape {
    // every own gate of a joining invocation is open-able at any time
    1 => {
      chains.extend(std::iter::repeat(1).take((foo * k) as usize));
      multinomial(&chains)
    }
    // the shared gate precedes m chains of k-1 own gates: (orders of that partial order) x (merges with the other chains)
    2 if foo > 0 => {
      let own: Vec<u64> = std::iter::repeat(k - 1).take(foo as usize).collect();
      chains.push(1 + foo * (k - 1));
      multinomial(&own) * multinomial(&chains)
    }
    _ => multinomial(&chains),
  }
}

fn multinomial(ks: &[u64]) -> u64 {
  let mut r: u64 = 1;
  let mut n: u64 = 0;
  for k in ks {
    for j in 1..=*k {
      n += 1;
      r = r * n / j; // exact: r is always a product of binomials
    }
  }
  r
}

fn eval_list(ctx: &Ctx, flavour: u8, cfg: &Cfg, list: &[u8]) {
  eval_list_b(ctx, flavour, cfg, list, None)
}

/// `bound`: None = every gate-opening order; Some(b) = every order with at most b departures from "open the first
/// waiting gate" (wide lists, whose whole tree has n! leaves).
fn eval_list_b(ctx: &Ctx, flavour: u8, cfg: &Cfg, list: &[u8], bound: Option<u32>) {
  let distinct: BTreeSet<u8> = list.iter().copied().collect();
  let singles: BTreeMap<u8, Exec<String>> = distinct.iter().map(|i| (*i, run_single(flavour, cfg, *i))).collect();
  struct Acc {
    outcomes: BTreeMap<String, (u64, Vec<String>)>,
    hist: BTreeMap<String, u64>,
    violated: bool,
  }
  let acc = Mutex::new(Acc { outcomes: BTreeMap::new(), hist: BTreeMap::new(), violated: false });
  let st = choice::explore(bound, |ch: &mut Chooser| {
    let ex = run_multi(flavour, cfg, list, ch);
    let seq = ch.seq();
    let j = judge_multi(ctx, flavour, cfg, list, &seq, &ex, &singles);
    let mut a = acc.lock().unwrap();
    *a.hist.entry(j.label).or_insert(0) += 1;
    a.violated |= j.violated;
    let slot = a.outcomes.entry(j.outcome).or_insert_with(|| (0, ex.schedule.clone()));
    slot.0 += 1;
    // keep the smallest schedule as the example, so the report does not depend on worker timing
    if ex.schedule < slot.1 {
      slot.1 = ex.schedule;
    }
  });
  let acc = acc.into_inner().unwrap();
  ctx.add_states(st.states);
  ctx.add_transitions(st.transitions);
  ctx.add_traces(st.executions);
  ctx.add_evals(st.executions);
  let mut hist = acc.hist;
  let case = Case::List { flavour, cfg: cfg.clone(), list: list.to_vec(), bound };
  let names: Vec<&str> = list.iter().map(|i| uni(*i)).collect();
  // ---- the set of outcomes over all schedules of this list has size 1
  if acc.outcomes.len() != 1 {
    let shown: Vec<String> = acc.outcomes.iter().map(|(o, (n, s))| format!("{n} schedules e.g. {s:?} => {o}")).collect();
    ctx.violation(
      "Resolver::resolve_multiple|outcome-depends-on-completion-order",
      &format!("list {names:?}: {} different outcomes over {} schedules: {}", acc.outcomes.len(), st.executions, shown.join(" || ")),
      &case,
    );
  }
  let exps: Vec<Exp> = distinct.iter().map(|i| expect(cfg, uni(*i)).settle(cfg, &singles[i].log)).collect();
  // ---- the same list given as another DID type (the foo handler's own): same outcome, keyed by the input values
  if !list.is_empty() && acc.outcomes.len() == 1 && !acc.violated {
    if let Ok(typed) = list.iter().map(|i| PickyDid::check(DIDS[*i as usize].clone())).collect::<Result<Vec<PickyDid>, HErr>>() {
      let ex = run_multi_as(flavour, cfg, &typed, &mut Chooser::replay(&[]));
      let typed_outcome = outcome_of(&ex.res, exps.iter().filter(|x| x.fails()).count());
      ctx.add_evals(1);
      *hist.entry("list:also-as-PickyDid-input".into()).or_insert(0) += 1;
      let untyped = acc.outcomes.keys().next().unwrap();
      if typed_outcome != *untyped {
        ctx.violation(
          "Resolver::resolve_multiple|outcome-depends-on-the-DID-type-of-the-input",
          &format!("list {names:?}: given as CoreDID => {untyped}; given as the handler's own DID type => {typed_outcome}"),
          &case,
        );
      }
    }
  }
  // ---- how many schedules the executor was offered, against the number of interleavings of the harness handlers' gates
  // (equal as long as resolve_multiple polls all distinct DIDs concurrently; a resolver that limits concurrency offers
  // fewer and still satisfies the statement: recorded per list, and guarded once for the whole run in `generate`)
  if !acc.violated && exps.iter().all(|x| !x.fails()) {
    let want = expected_schedules(cfg, &exps);
    let l = if st.executions == want {
      if want > 1 {
        FULLY_INTERLEAVED.fetch_add(1, std::sync::atomic::Ordering::Relaxed);
      }
      "list:every-interleaving-of-the-gates-explored"
    } else {
      "list:schedules-differ-from-the-interleavings-of-the-gates"
    };
    *hist.entry(l.into()).or_insert(0) += 1;
  }
  let bucket = match st.executions {
    1 => "list:1-schedule",
    2..=9 => "list:2..9-schedules",
    10..=99 => "list:10..99-schedules",
    100..=999 => "list:100..999-schedules",
    _ => "list:1000+-schedules",
  };
  *hist.entry(bucket.into()).or_insert(0) += 1;
  ctx.outcomes_merge(&hist);
  if st.max_depth >= 1 {
    ctx.distinct(&("list", flavour, cfg, list));
  }
  let mut g = AGG.lock().unwrap();
  let a = g.entry((flavour, list.len())).or_default();
  a.lists += 1;
  a.executions += st.executions;
  a.nodes += st.states;
  a.edges += st.transitions;
  a.max_executions_per_list = a.max_executions_per_list.max(st.executions);
  a.max_depth = a.max_depth.max(st.max_depth);
  if st.executions > 1 {
    a.lists_with_gt1_schedule += 1;
  }
}

// ------------------------------------------------------------------ (c) did:jwk

struct JwkInput {
  text: String,
  did: String,
  secret: bool,
  /// 0 = only registered members with canonical values (key equality is judged)
  extra: usize,
  /// the family on which expansion is demanded: a public JWK of registered members whose `use` / `key_ops` / `alg` agree
  /// with each other and with the key type, without an `x5c` chain (a stricter did:jwk implementation may validate those)
  core: bool,
  kty_label: &'static str,
}

const KID_62_63: &str = "k~~~???>>>-\u{43a}\u{43b}\u{44e}\u{447}";
fn q(s: &str) -> String {
  format!("\"{s}\"")
}

fn jwk_input(wide: bool, ch: &mut Chooser) -> (JwkInput, usize) {
  let kty = ch.choose("kty", 7);
  let private = match kty {
    5 => ch.choose("private", 3),
    6 => 0,
    _ => ch.choose("private", 2),
  };
  let nv = |w: usize| if wide { w } else { 2 };
  // (use and key_ops over all their values in both tiers: their combinations are what a consistency check looks at)
  let use_ = ch.choose("use", 3);
  let key_ops = ch.choose("key_ops", 4);
  let alg = ch.choose("alg", 2);
  let kid = ch.choose("kid", nv(3) + 1);
  let x5u = ch.choose("x5u", 2);
  let x5c = ch.choose("x5c", 2);
  let x5t = ch.choose("x5t", 2);
  let x5t256 = ch.choose("x5t#S256", 2);
  let extra = ch.choose("extra", 3);
  let order = ch.choose("order", 2);
  let route = ch.choose("route", ROUTES.len());

  let b = |n: usize, mul: u8, add: u8| q(&b64url(&bytes(n, mul, add)));
  let mut m: Vec<(&str, String)> = Vec::new();
  let kty_label;
  match kty {
    0 | 1 => {
      kty_label = if kty == 0 { "OKP-Ed25519" } else { "OKP-X25519" };
      m.push(("kty", q("OKP")));
      m.push(("crv", q(if kty == 0 { "Ed25519" } else { "X25519" })));
      m.push(("x", b(32, 7, 1)));
      if private == 1 {
        m.push(("d", b(32, 11, 3)));
      }
    }
    2..=4 => {
      let (crv, n) = [("P-256", 32), ("secp256k1", 32), ("P-384", 48)][kty - 2];
      kty_label = ["EC-P-256", "EC-secp256k1", "EC-P-384"][kty - 2];
      m.push(("kty", q("EC")));
      m.push(("crv", q(crv)));
      m.push(("x", b(n, 5, 9)));
      m.push(("y", b(n, 3, 17)));
      if private == 1 {
        m.push(("d", b(n, 13, 5)));
      }
    }
    5 => {
      kty_label = "RSA";
      m.push(("kty", q("RSA")));
      m.push(("n", b(256, 37, 0xc1)));
      m.push(("e", q("AQAB")));
      if private >= 1 {
        m.push(("d", b(256, 29, 0x41)));
      }
      if private == 1 {
        for (i, name) in ["p", "q", "dp", "dq", "qi"].into_iter().enumerate() {
          m.push((name, b(128, 17 + 2 * i as u8, 0x81)));
        }
      }
    }
    _ => {
      kty_label = "oct";
      m.push(("kty", q("oct")));
      m.push(("k", b(32, 19, 2)));
    }
  }
  if use_ > 0 {
    m.push(("use", q(["sig", "enc"][use_ - 1])));
  }
  if key_ops > 0 {
    m.push(("key_ops", [r#"["verify"]"#, r#"["encrypt","wrapKey"]"#, r#"["deriveKey","deriveBits"]"#][key_ops - 1].to_string()));
  }
  if alg > 0 {
    m.push(("alg", q(["EdDSA", "ECDH-ES", "ES256", "ES256K", "ES384", "RS256", "HS256"][kty])));
  }
  if kid > 0 {
    // KID_62_63: three `~`, `?`, `>` in a row put one of each at every offset mod 3 of the JSON text, so the base64url
    // form of the identifier contains both characters in which base64url differs from base64 (`-`, `_`); plus non-ASCII
    m.push(("kid", q(["key-1", KID_62_63, "did:example:123#0"][kid - 1])));
  }
  if extra == 2 {
    m.push(("x5u", q("https://EXAMPLE.com"))); // not in the URL crate's normal form
  } else if x5u > 0 {
    m.push(("x5u", q("https://example.com/certs/chain.pem")));
  }
  if x5c > 0 {
    m.push(("x5c", format!("[{}]", q("MIIBszCCAVmgAwIBAgIUQ2VydGlmaWNhdGU="))));
  }
  if x5t > 0 {
    m.push(("x5t", b(20, 23, 4)));
  }
  if x5t256 > 0 {
    m.push(("x5t#S256", b(32, 27, 6)));
  }
  if extra == 1 {
    m.push(("ext", "true".to_string())); // a member RFC 7517 does not register
  }
  if order == 1 {
    m.reverse();
  }
  let text = format!("{{{}}}", m.iter().map(|(k, v)| format!("{}:{v}", q(k))).collect::<Vec<_>>().join(","));
  let did = format!("did:jwk:{}", b64url(text.as_bytes()));
  let secret = private != 0 || kty == 6;
  let signs = use_ == 1 || key_ops == 1;
  let encrypts = use_ == 2 || key_ops == 2;
  // key agreement (deriveKey / deriveBits) goes with use "enc" (RFC 7517 4.2) and with the key types that can agree on keys
  let derives = key_ops == 3;
  let consistent = !(signs && encrypts)
    && !(derives && signs)
    && !(derives && !(1..=4).contains(&kty))
    && !(signs && kty == 1) // X25519 does not sign
    && !(encrypts && kty == 0) // Ed25519 does not encrypt
    && !(key_ops == 2 && (2..=4).contains(&kty)) // an EC key agrees on keys, it neither encrypts nor wraps
    && !(encrypts && alg > 0 && kty != 1); // the alg values of the other key types are signature algorithms
  let core = !secret && extra == 0 && x5c == 0 && consistent;
  (JwkInput { text, did, secret, extra, core, kty_label }, route)
}

const ROUTES: [&str; 9] = [
  "CoreDocument::expand_did_jwk",
  "Resolver::resolve(&CoreDID)",
  "Resolver::resolve(&DIDJwk)",
  "SingleThreadedResolver::resolve(&CoreDID)",
  "SingleThreadedResolver::resolve(&DIDJwk)",
  "Resolver::resolve_multiple",
  "SingleThreadedResolver::resolve_multiple",
  "Resolver::resolve_multiple(&[DIDJwk])",
  "SingleThreadedResolver::resolve_multiple(&[DIDJwk])",
];

enum RouteRes {
  Ok(CoreDocument),
  /// (stage that refused, message)
  Err(&'static str, String),
  Panic(Panicked),
}

fn jwk_route(route: usize, did: &str) -> RouteRes {
  let r = guard(|| -> Result<CoreDocument, (&'static str, String)> {
    let typed = || DIDJwk::parse(did).map_err(|e| ("DIDJwk::parse", e.to_string()));
    let core = || CoreDID::parse(did).map_err(|e| ("CoreDID::parse", e.to_string()));
    let resolver = |flavour: u8| {
      if flavour == 0 {
        let mut r = Resolver::<CoreDocument>::new();
        r.attach_did_jwk_handler();
        AnyResolver::SS(r)
      } else {
        let mut r = SingleThreadedResolver::<CoreDocument>::new();
        r.attach_did_jwk_handler();
        AnyResolver::ST(r)
      }
    };
    let rerr = |e: identity_resolver::Error| ("resolver", err_desc(&e).1);
    match route {
      0 => CoreDocument::expand_did_jwk(typed()?).map_err(|e| ("expand_did_jwk", e.to_string())),
      1 | 3 => vx::gate::block_on(resolver((route / 2) as u8).resolve(&core()?)).map_err(rerr),
      2 | 4 => vx::gate::block_on(resolver((route / 2 - 1) as u8).resolve(&typed()?)).map_err(rerr),
      5 | 6 => {
        let d = core()?;
        let mut map = vx::gate::block_on(resolver((route - 5) as u8).resolve_multiple(&[d.clone(), d.clone()])).map_err(rerr)?;
        if map.len() != 1 {
          return Err(("map-size", format!("{} entries for one distinct DID", map.len())));
        }
        map.remove(&d).ok_or(("map-key", "the entry is not under the input DID".to_string()))
      }
      _ => {
        // DIDJwk-typed list together with a second did:jwk DID: [d, other, d]
        let d = typed()?;
        let other = DIDJwk::parse(uni(13)).map_err(|e| ("harness DIDJwk", e.to_string()))?;
        let n = if d == other { 1 } else { 2 };
        let mut map = vx::gate::block_on(resolver((route - 7) as u8).resolve_multiple(&[d.clone(), other.clone(), d.clone()])).map_err(rerr)?;
        if map.len() != n {
          return Err(("map-size", format!("{} entries for {n} distinct DIDs", map.len())));
        }
        let o = map.remove(&other).ok_or(("map-key", "no entry under the second input DID".to_string()))?;
        if Some(&o) != CoreDocument::expand_did_jwk(other.clone()).ok().as_ref() {
          return Err(("map-value", "the entry of the second DID is not its expansion".to_string()));
        }
        if d == other {
          return Ok(o);
        }
        map.remove(&d).ok_or(("map-key", "the entry is not under the input DID".to_string()))
      }
    }
  });
  match r {
    Ok(Ok(d)) => RouteRes::Ok(d),
    Ok(Err((s, m))) => RouteRes::Err(s, m),
    Err(p) => RouteRes::Panic(p),
  }
}

const RELS: [&str; 5] = ["authentication", "assertionMethod", "keyAgreement", "capabilityInvocation", "capabilityDelegation"];

fn jwk_body(ctx: &Ctx, wide: bool, ch: &mut Chooser) {
  let (inp, route) = jwk_input(wide, ch);
  let case = Case::Jwk { wide, seq: ch.seq() };
  let e0 = ROUTES[0];
  let class = if inp.secret { "private" } else { "public" };
  let base = jwk_route(0, &inp.did);
  let v = |key: String, what: String| ctx.violation(&key, &format!("{what}; JWK {}", inp.text), &case);
  let outcome: &str;
  match &base {
    RouteRes::Panic(p) => {
      v(format!("{e0}|{}", p.key()), p.msg.clone());
      outcome = "panic";
    }
    RouteRes::Err(stage, msg) => {
      outcome = "rejected";
      if inp.core {
        let entry = if *stage == "DIDJwk::parse" { "DIDJwk::parse" } else { e0 };
        v(format!("{entry}|public-jwk|rejected"), format!("{stage}: {msg}"));
      } else if !inp.secret && inp.extra == 0 {
        // a public JWK outside the family expansion is demanded on (x5c chain, use / key_ops / alg at odds): recorded
        ctx.outcome("jwk:public-outside-the-core-family:rejected");
      }
    }
    RouteRes::Ok(doc) => {
      outcome = "expanded";
      if !inp.core && !inp.secret && inp.extra == 0 {
        ctx.outcome("jwk:public-outside-the-core-family:expanded");
      }
      if inp.secret {
        // judged: the document must not publish private key material. A document that carries only the public members
        // of a private JWK is not excluded by the statement: recorded.
        let j = serde_json::to_value(doc).unwrap_or(Value::Null);
        let leaked: Vec<String> = j["verificationMethod"]
          .as_array()
          .into_iter()
          .flatten()
          .filter_map(|vm| vm["publicKeyJwk"].as_object())
          .flat_map(|o| o.keys().cloned())
          .filter(|k| ["d", "p", "q", "dp", "dq", "qi", "oth", "k"].contains(&k.as_str()))
          .collect();
        if leaked.is_empty() {
          ctx.outcome("jwk:private:expanded-without-the-private-members");
        } else {
          v(format!("{e0}|private-jwk|accepted"), format!("a document was built from a JWK with private members; it carries {leaked:?}"));
        }
      }
      if route == 0 {
        // the document, as the public (JSON) representation and through the API
        let j = serde_json::to_value(doc).unwrap_or(Value::Null);
        let want_key: Value = serde_json::from_str(&inp.text).expect("harness JWK text is JSON");
        let vm_id = format!("{}#0", inp.did);
        if j["id"] != Value::String(inp.did.clone()) || doc.id().as_str() != inp.did {
          v(format!("{e0}|document-id-is-not-the-did"), format!("id {}", j["id"]));
        }
        let vms = j["verificationMethod"].as_array().cloned().unwrap_or_default();
        let mut embedded = 0;
        let mut rels = 0;
        for r in RELS {
          for ent in j[r].as_array().cloned().unwrap_or_default() {
            rels += 1;
            match ent {
              Value::String(s) if s == vm_id => {}
              Value::String(s) => v(format!("{e0}|relationship-references-something-else"), format!("{r}: {s}")),
              _ => embedded += 1,
            }
          }
        }
        if vms.len() != 1 || embedded != 0 || doc.methods(None).len() != 1 {
          v(format!("{e0}|not-exactly-one-method"), format!("{} verificationMethod entries, {embedded} embedded in relationships", vms.len()));
        }
        if let Some(vm) = vms.first() {
          if vm["id"] != Value::String(vm_id.clone()) {
            v(format!("{e0}|method-id-is-not-did#0"), format!("{}", vm["id"]));
          }
          if vm["controller"] != Value::String(inp.did.clone()) {
            v(format!("{e0}|method-controller-is-not-the-did"), format!("{}", vm["controller"]));
          }
          let same = vm["publicKeyJwk"] == want_key;
          if inp.secret {
            // see above
          } else if inp.extra == 0 {
            if !same {
              v(format!("{e0}|method-key-differs-from-the-encoded-jwk"), format!("publicKeyJwk {}", vm["publicKeyJwk"]));
            }
          } else {
            // left open by the statement (unregistered member / URL spelling): recorded only
            ctx.outcome(&format!("jwk:{}:{}", ["", "unregistered-member", "x5u-not-normalised"][inp.extra], if same { "kept-verbatim" } else { "altered" }));
          }
          ctx.outcome(&format!("jwk:method-type={}", vm["type"].as_str().unwrap_or("?")));
        }
        ctx.outcome(&format!("jwk:relationship-entries={rels}"));
      }
    }
  }
  if route != 0 {
    // the resolver returns the handler's result: the same as the direct expansion
    let er = ROUTES[route];
    match (jwk_route(route, &inp.did), &base) {
      (RouteRes::Panic(p), _) => v(format!("{er}|did:jwk|{}", p.key()), p.msg.clone()),
      (RouteRes::Ok(a), RouteRes::Ok(b)) if a == *b => {}
      (RouteRes::Err(..), RouteRes::Err(..)) => {}
      (_, RouteRes::Panic(_)) => {}
      (RouteRes::Ok(_), _) => v(format!("{er}|did:jwk|differs-from-expand_did_jwk|ok-vs-not"), "resolver Ok, direct expansion not (or another document)".into()),
      (RouteRes::Err(s, m), _) => v(format!("{er}|did:jwk|differs-from-expand_did_jwk|err-vs-ok"), format!("{s}: {m}")),
    }
  }
  ctx.outcome(&format!("jwk:{}:{class}:{outcome}", inp.kty_label));
  if outcome == "expanded" {
    ctx.distinct(&("jwk", &inp.text, route));
  }
}

/// Method-specific ids that do not encode a JWK: no unwinding on any route (outcomes recorded, not judged).
static RAW: Lazy<Vec<(&'static str, String)>> = Lazy::new(|| {
  vec![
    ("empty", String::new()),
    ("not-base64url-length", "A".into()),
    ("json-null", b64url(b"null")),
    ("json-array", b64url(b"[1]")),
    ("json-empty-object", b64url(b"{}")),
    ("kty-only", b64url(br#"{"kty":"OKP"}"#)),
    ("unknown-kty", b64url(br#"{"kty":"XYZ","x":"AA"}"#)),
    ("not-utf8", b64url(&[0xff, 0xfe, 0x00, 0x80])),
    ("truncated-json", b64url(br#"{"kty":"OKP","crv":"Ed25519","x":"#)),
    ("okp-with-ec-params", b64url(br#"{"kty":"OKP","crv":"P-256","x":"AQ","y":"Ag"}"#)),
  ]
});

fn eval_raw(ctx: &Ctx, payload: u8, case: &Case) {
  let (name, id) = &RAW[payload as usize];
  let did = format!("did:jwk:{id}");
  let mut outs = Vec::new();
  for route in 0..ROUTES.len() {
    ctx.eval1();
    match jwk_route(route, &did) {
      RouteRes::Panic(p) => {
        ctx.violation(&format!("{}|did:jwk-without-jwk|{}", ROUTES[route], p.key()), &format!("{name}: {did}: {}", p.msg), case);
        outs.push("panic");
      }
      RouteRes::Ok(_) => outs.push("expanded"),
      RouteRes::Err(..) => outs.push("rejected"),
    }
  }
  outs.dedup();
  ctx.outcome(&format!("jwk-raw:{name}:{}", outs.join("+")));
}

// ------------------------------------------------------------------ driver

/// `resolve_multiple` pushes its futures in the iteration order of a `HashSet` with std's `RandomState`, which nothing
/// outside std can control and which is drawn anew in every execution. On the current tree that order decides nothing
/// but the order of the FIRST poll: it is invisible for gated handlers (all of them register their first gate before
/// any gate is opened) and it is the completion order of the futures that are ready at their first poll (unsupported
/// method, unparsable DID, did:jwk, failure before any gate) and of handlers woken by one shared gate; no verdict of this
/// check on a tree that satisfies the statement depends on it. On a changed tree a verdict may depend on it (e.g. results
/// zipped with that order), and a single re-execution might then not reproduce a violation; REPLAYS (never the
/// exploration) therefore re-execute a case with two or more distinct DIDs many times and report the union, so that a
/// replay verdict is reproducible. `schedules` = upper bound of the executions of one repetition.
fn replay_repeats(cfg: &Cfg, list: &[u8], schedules: u64) -> usize {
  let distinct: BTreeSet<u8> = list.iter().copied().collect();
  if distinct.len() >= 2 {
    (200_000 / schedules.max(1)).clamp(1, 256) as usize
  } else {
    let _ = cfg;
    1
  }
}
/// Upper bound of the number of schedules of one list (as if no handler failed).
fn schedules_bound(cfg: &Cfg, list: &[u8]) -> u64 {
  let distinct: BTreeSet<u8> = list.iter().copied().collect();
  let exps: Vec<Exp> = distinct.iter().map(|i| expect(cfg, uni(*i))).collect();
  expected_schedules(cfg, &exps)
}

fn eval(ctx: &Ctx, case: &Case) {
  match case {
    Case::Single { flavour, cfg, did } => {
      ctx.eval1();
      let ex = run_single(*flavour, cfg, *did);
      let label = judge_single(ctx, case, cfg, uni(*did), &ex);
      ctx.outcome(label);
      if matches!(expect(cfg, uni(*did)), Exp::Handler { .. } | Exp::Jwk) {
        ctx.distinct(&("single", flavour, cfg, did));
      }
    }
    Case::History { flavour, cfg, dids } => {
      ctx.eval1();
      // what a resolver that has resolved nothing yet answers (judged against the statement by part (a))
      let fresh: BTreeMap<u8, Exec<String>> = dids.iter().copied().collect::<BTreeSet<u8>>().into_iter().map(|d| (d, run_single(*flavour, cfg, d))).collect();
      let steps = run_history(*flavour, cfg, dids);
      if steps.len() != dids.len() {
        return ctx.violation("Resolver::resolve|history|panic-while-building-the-resolver", &format!("{steps:?}"), case);
      }
      let mut differs = false;
      for (i, ((res, calls), d)) in steps.iter().zip(dids).enumerate() {
        let f = &fresh[d];
        if *res != f.res || *calls != f.log {
          differs = true;
          let earlier: Vec<&str> = dids[..i].iter().map(|e| uni(*e)).collect();
          ctx.violation(
            &format!("Resolver::resolve|after-earlier-resolutions-on-the-same-resolver|{}", if *calls != f.log { "handler-calls-differ-from-a-fresh-resolver" } else { "result-differs-from-a-fresh-resolver" }),
            &format!("resolve({}) after resolve of {earlier:?} on one resolver: result {res:?}, handler calls {calls:?}; a resolver that has resolved nothing yet: result {:?}, handler calls {:?}", uni(*d), f.res, f.log),
            case,
          );
          break;
        }
      }
      ctx.outcome(if differs { "history:differs-from-fresh-resolver" } else { "history:every-step-as-on-a-fresh-resolver" });
      if dids.iter().any(|d| matches!(expect(cfg, uni(*d)), Exp::Handler { .. } | Exp::Jwk)) {
        ctx.distinct(&("history", flavour, cfg, dids));
      }
    }
    Case::Schedule { flavour, cfg, list, seq } => {
      let distinct: BTreeSet<u8> = list.iter().copied().collect();
      let mut label = String::new();
      for _ in 0..replay_repeats(cfg, list, 1) {
        ctx.eval1();
        let singles: BTreeMap<u8, Exec<String>> = distinct.iter().map(|i| (*i, run_single(*flavour, cfg, *i))).collect();
        let mut ch = Chooser::replay(seq);
        let ex = run_multi(*flavour, cfg, list, &mut ch);
        label = judge_multi(ctx, *flavour, cfg, list, &ch.seq(), &ex, &singles).label;
      }
      ctx.outcome(&label);
    }
    Case::List { flavour, cfg, list, bound } => {
      for _ in 0..replay_repeats(cfg, list, schedules_bound(cfg, list)) {
        eval_list_b(ctx, *flavour, cfg, list, *bound)
      }
    }
    Case::Jwk { wide, seq } => {
      ctx.eval1();
      jwk_body(ctx, *wide, &mut Chooser::replay(seq))
    }
    Case::JwkRaw { payload } => eval_raw(ctx, *payload, case),
  }
}

/// Every configuration of one handler table; parameters of handlers that are not in the table are not varied.
fn cfgs(tables: &[u8]) -> Vec<Cfg> {
  let mut out = Vec::new();
  for &table in tables {
    let foo = table & T_FOO != 0;
    let bar_gates = table & (T_BAR | T_JWKC_FIRST | T_JWKC_LAST) != 0;
    for k_foo in 1..=if foo { 2u8 } else { 1 } {
      for k_bar in 1..=if bar_gates { 2u8 } else { 1 } {
        for shape in 0..if foo { 3u8 } else { 1 } {
          if shape == 1 && k_foo < 2 {
            continue; // a join of one gate is shape 0
          }
          let mut fails: Vec<Option<u8>> = vec![None];
          if foo {
            match shape {
              1 => fails.extend([Some(0), Some(k_foo)]), // before / after the join
              _ => fails.extend((0..=k_foo).map(Some)),
            }
          }
          for fail_at in fails {
            out.push(Cfg { table, k_foo, k_bar, fail_at, shape });
          }
        }
      }
    }
  }
  out
}

fn lists(universe: &[u8], max_len: usize) -> Vec<Vec<u8>> {
  let mut all: Vec<Vec<u8>> = vec![vec![]];
  let mut frontier: Vec<Vec<u8>> = vec![vec![]];
  for _ in 0..max_len {
    let mut next = Vec::new();
    for l in &frontier {
      for &u in universe {
        let mut n = l.clone();
        n.push(u);
        next.push(n);
      }
    }
    all.extend(next.iter().cloned());
    frontier = next;
  }
  all
}

/// Lists of 5 - 7 entries over up to 6 distinct gated DIDs (the whole tree of schedules of each), for the full table with
/// and without the replaced decoy: (list, configurations).
fn long_lists(thorough: bool) -> Vec<(Vec<u8>, Vec<Cfg>)> {
  let base5: Vec<u8> = vec![0, 2, 1, 5, 7]; // foo:1 bar:1 foo:2 bar:2 foo:bar:1
  let with = |l: &[u8], x: u8| l.iter().copied().chain([x]).collect::<Vec<u8>>();
  let cfgs_of = |ks: &[(u8, u8)], all_fail_points: bool| {
    let mut out = Vec::new();
    for table in [T_FOO | T_BAR | T_JWK, T_FOO | T_BAR | T_JWK | T_REPLACED] {
      for &(k_foo, k_bar) in ks {
        let mut fails = vec![None, Some(1)];
        if all_fail_points {
          fails.extend((0..=k_foo).filter(|j| *j != 1).map(Some));
        }
        for fail_at in fails {
          out.push(Cfg { table, k_foo, k_bar, fail_at, shape: 0 });
        }
      }
    }
    out
  };
  let mut out = Vec::new();
  // 5 distinct, and with a duplicate 5 positions away / an unsupported method / did:jwk / a DID the handler cannot parse
  out.push((base5.clone(), cfgs_of(if thorough { &[(1, 1), (2, 1), (1, 2)] } else { &[(1, 1)] }, true)));
  for x in [0u8, 3, 4, 12] {
    out.push((with(&base5, x), cfgs_of(&[(1, 1)], true)));
  }
  if thorough {
    out.push((with(&base5, 0), cfgs_of(&[(2, 1), (1, 2)], true)));
    out.push((base5.clone(), cfgs_of(&[(2, 2)], false))); // 10!/2^5 = 113 400 schedules
    let base6 = with(&base5, 11);
    out.push((base6.clone(), cfgs_of(&[(1, 1)], true)));
    out.push((with(&base6, 0), cfgs_of(&[(1, 1)], true)));
  }
  out
}

fn generate(ctx: &Ctx) {
  ctx.rule(
    "(a) full product flavour x configuration x DID for single resolve; (b) every DID list up to the length bound over the universe x \
     configuration x flavour (plus the long lists of bound long_lists), and for each the WHOLE tree of gate-opening orders (E1 over the E3b \
     executor, bound None); (c) whole choice tree kty x private x optional members x extra x member order x route. distinct_nontrivial = distinct \
     (flavour, configuration, list) whose exploration opened at least one gate + distinct single resolutions that reach a handler + distinct \
     (JWK text, route) that expand",
  );
  ctx.assume("the gate executor polls the root future on one thread; handlers that spawn onto other threads or use real timers/IO are outside the explored space");
  ctx.assume("the order in which resolve_multiple first polls its futures is the iteration order of a std HashSet (RandomState) and cannot be controlled from outside: for futures that are ready at their first poll (unsupported method, unparsable DID, did:jwk, failure before any gate) the completion order is whatever that order is in the execution at hand, and so is the order in which handlers waiting on ONE shared gate complete; their gated twins (failure / success after own gates) are enumerated exhaustively. No verdict on a tree that satisfies the statement depends on it; replays of cases with two or more distinct DIDs are repeated (up to 256 times) so that verdicts on changed trees, which may depend on it, reproduce");
  ctx.assume("resolve_multiple starts the resolution of all distinct DIDs before it waits for any of them (documented: 'Concurrently fetches'); a resolver that bounds the number in flight would register a set of gates that depends on the HashSet order, which the explorer counts as replay divergences (machinery message, never a verdict by itself); the wide lists (9 - 12 distinct DIDs, deviation-bounded schedules) exist so that such a resolver is judged on what it returns: a verdict is reported only for an execution whose own result contradicts the statement (Ok although a DID fails, a missing or extra entry)");
  ctx.assume("serde_json is trusted to parse the harness's own JWK text; base64url of the did:jwk identifiers is the harness's own encoder");
  ctx.assume("the harness handlers are the only source of asynchrony: every suspension point of a handler is a named gate, so all completion orders and all interleavings of 1- and 2-step handlers are enumerated");

  // tables: all subsets of {foo, bar, jwk}; where foo is present, also the variant where foo's handler replaced a decoy;
  // for the full table the three ways of attaching a custom `jwk` handler besides / instead of the built-in one
  let mut tables = Vec::new();
  for t in 0..8u8 {
    tables.push(t);
    if t & T_FOO != 0 {
      tables.push(t | T_REPLACED);
    }
  }
  tables.extend([T_FOO | T_BAR | T_JWK | T_JWKC_FIRST, T_FOO | T_BAR | T_JWK | T_JWKC_LAST, T_FOO | T_BAR | T_JWKC_LAST]);
  let cfgs = cfgs(&tables);
  // lists: quick: length <= 3 over 7 DIDs; thorough: length <= 4 over the 8 DIDs of the first round and length <= 3 over 11
  let core: Vec<u8> = ctx.by_tier(vec![0, 1, 2, 3, 4, 11, 12], (0..8).collect());
  let wide: Vec<u8> = ctx.by_tier(vec![], (0..8).chain(11..14).collect());
  let max_len = ctx.by_tier(3, 4);
  let all_dids: Vec<u8> = (0..14u8).collect(); // 14..=19 only widen lists (they behave like did:foo:1 / did:bar:1)
  ctx.bound("universe", core.iter().map(|i| uni(*i)).collect::<Vec<_>>());
  ctx.bound("max_list_len", max_len);
  if !wide.is_empty() {
    ctx.bound("wider_universe", wide.iter().map(|i| uni(*i)).collect::<Vec<_>>());
    ctx.bound("max_list_len_over_wider_universe", max_len - 1);
  }
  ctx.bound("single_resolution", all_dids.iter().map(|i| uni(*i)).collect::<Vec<_>>());
  ctx.bound("handler_tables", tables.len());
  ctx.bound("keys_attached_that_no_method_spells", DECOYS.iter().map(|d| d.0).collect::<Vec<_>>());
  ctx.bound("configurations", cfgs.len());
  ctx.bound("gates_per_handler", "1..=2 per method, independently");
  ctx.bound("foo_handler_shapes", "own gates in sequence | all own gates joined | one gate shared by all invocations, then own gates");
  ctx.bound("failure_points_of_did:foo:2", "none, or after 0..=k_foo gates (joined gates: before / after the join)");
  ctx.bound("schedules", "all (deviation bound None)");

  // (a)
  let mut singles = Vec::new();
  for flavour in 0..2u8 {
    for cfg in &cfgs {
      for did in all_dids.iter().copied() {
        singles.push(Case::Single { flavour, cfg: cfg.clone(), did });
      }
    }
  }
  ctx.sample("single", &singles[singles.len() / 2]);
  singles.par_iter().for_each(|c| eval(ctx, c));
  ctx.add_states(singles.len() as u64);
  ctx.add_transitions(singles.len() as u64);
  ctx.add_traces(singles.len() as u64);
  ctx.part("single resolve", json!({"engine": "E1 full product", "cases": singles.len()}));

  // (a2) histories of single resolutions on one resolver: every DID sequence up to the bound x flavour x one
  //      configuration per handler table (one gate per handler) + the full table with the foo handler failing at once
  let hist_len = ctx.by_tier(3usize, 4);
  let mut hist_cfgs: Vec<Cfg> = tables.iter().map(|t| Cfg { table: *t, k_foo: 1, k_bar: 1, fail_at: None, shape: 0 }).collect();
  hist_cfgs.push(Cfg { table: T_FOO | T_BAR | T_JWK, k_foo: 1, k_bar: 1, fail_at: Some(0), shape: 0 });
  let mut seqs: Vec<Vec<u8>> = vec![];
  let mut layer: Vec<Vec<u8>> = vec![vec![]];
  for _ in 0..hist_len {
    layer = layer.iter().flat_map(|l| all_dids.iter().map(move |d| { let mut n = l.clone(); n.push(*d); n })).collect();
    seqs.extend(layer.iter().filter(|l| l.len() >= 2).cloned());
  }
  let mut histories = Vec::new();
  for flavour in 0..2u8 {
    for cfg in &hist_cfgs {
      for dids in &seqs {
        histories.push(Case::History { flavour, cfg: cfg.clone(), dids: dids.clone() });
      }
    }
  }
  ctx.sample("history", &histories[histories.len() / 3]);
  histories.par_iter().for_each(|c| eval(ctx, c));
  ctx.add_states(histories.len() as u64);
  ctx.add_transitions(histories.iter().map(|h| if let Case::History { dids, .. } = h { dids.len() as u64 } else { 0 }).sum());
  ctx.add_traces(histories.len() as u64);
  ctx.bound("history_max_len", hist_len);
  ctx.part("histories of single resolutions on one resolver", json!({"engine": "E1 full product", "cases": histories.len(), "sequences": seqs.len(), "configurations": hist_cfgs.len(), "max_len": hist_len}));

  // (b)
  let mut all_lists: BTreeSet<Vec<u8>> = lists(&core, max_len).into_iter().collect();
  if !wide.is_empty() {
    all_lists.extend(lists(&wide, max_len - 1));
  }
  let lists: Vec<Vec<u8>> = all_lists.into_iter().collect();
  let jobs: Vec<(u8, &Cfg)> = (0..2u8).flat_map(|f| cfgs.iter().map(move |c| (f, c))).collect();
  let full = cfgs.iter().find(|c| c.table == 7 && c.k_foo == 2 && c.k_bar == 2 && c.fail_at.is_none() && c.shape == 0).expect("full cfg");
  ctx.sample("resolve_multiple", &Case::List { flavour: 0, cfg: full.clone(), list: vec![0, 2, 0], bound: None });
  ctx.sample("resolve_multiple", &Case::Schedule { flavour: 1, cfg: full.clone(), list: vec![0, 2], seq: vec![1, 0, 1] });
  // the joined / shared-gate shapes multiply the schedules of a list (a join of 2 gates doubles them per invocation):
  // they are explored for the lists up to length 3, the sequential shape for all lists
  let shaped_len = 3;
  jobs.par_iter().for_each(|(flavour, cfg)| {
    lists.par_iter().filter(|l| cfg.shape == 0 || l.len() <= shaped_len).for_each(|list| eval_list(ctx, *flavour, cfg, list));
  });
  ctx.bound("lists", lists.len());
  ctx.bound("max_list_len_for_joined_and_shared_gate_shapes", shaped_len.min(max_len));
  // long lists: few, each with a big tree (the explorer spreads one tree over the pool)
  let long = long_lists(ctx.thorough());
  ctx.bound("long_lists", long.iter().map(|(l, c)| json!({"list": l.iter().map(|i| uni(*i)).collect::<Vec<_>>(), "configurations": c.len()})).collect::<Vec<_>>());
  ctx.sample("resolve_multiple long list", &Case::List { flavour: 0, cfg: long[1].1[0].clone(), list: long[1].0.clone(), bound: None });
  for (list, cs) in &long {
    for flavour in 0..2u8 {
      cs.par_iter().for_each(|cfg| eval_list(ctx, flavour, cfg, list));
    }
  }
  // wide lists: 9 - 12 distinct gated DIDs (+ one that fails at its first poll); the whole tree has n! leaves, so the
  // schedules are explored up to a deviation bound. On a tree that starts all resolutions at once (the documented
  // behaviour) every explored schedule is deterministic and all must agree.
  let wide_bound: u32 = ctx.by_tier(2, 3);
  let wide_lists: Vec<Vec<u8>> = vec![
    vec![0, 1, 2, 5, 7, 14, 15, 16, 17],
    vec![0, 1, 2, 5, 7, 11, 14, 15, 16, 17, 18, 19],
    vec![0, 1, 2, 5, 7, 14, 15, 16, 17, 3],
    vec![0, 1, 2, 5, 7, 14, 15, 16, 17, 0, 1],
  ];
  let mut wide_cfgs = Vec::new();
  for table in [T_FOO | T_BAR | T_JWK, T_FOO | T_BAR | T_JWK | T_REPLACED] {
    for fail_at in [None, Some(0), Some(1)] {
      wide_cfgs.push(Cfg { table, k_foo: 1, k_bar: 1, fail_at, shape: 0 });
    }
  }
  ctx.bound("wide_lists", wide_lists.iter().map(|l| json!({"list": l.iter().map(|i| uni(*i)).collect::<Vec<_>>(), "configurations": wide_cfgs.len()})).collect::<Vec<_>>());
  ctx.bound("wide_lists_schedule_deviation_bound", wide_bound);
  ctx.cap_hit(&format!("resolve_multiple wide lists (9 - 12 distinct gated DIDs): schedules explored up to deviation bound {wide_bound} (complete up to that bound), not the whole tree"));
  for list in &wide_lists {
    for flavour in 0..2u8 {
      wide_cfgs.par_iter().for_each(|cfg| eval_list_b(ctx, flavour, cfg, list, Some(wide_bound)));
    }
  }
  for ((flavour, len), a) in AGG.lock().unwrap().iter() {
    ctx.part(
      &format!("resolve_multiple {} len={len}", if *flavour == 0 { "Resolver" } else { "SingleThreadedResolver" }),
      json!({"engine": if *len >= 9 { "E3b gate executor under E1 choice DFS, deviation-bounded (wide lists)" } else { "E3b gate executor under E1 choice DFS, whole tree" }, "list_explorations": a.lists, "executions": a.executions,
        "choice_tree_nodes": a.nodes, "edges": a.edges, "max_schedules_of_one_list": a.max_executions_per_list, "max_gates_opened": a.max_depth,
        "explorations_with_more_than_one_schedule": a.lists_with_gt1_schedule}),
    );
  }
  // vacuity guard of the schedule quantifier: somewhere the executor was offered every interleaving of more than one schedule
  let fully = FULLY_INTERLEAVED.load(std::sync::atomic::Ordering::Relaxed);
  ctx.part("resolve_multiple schedules", json!({"explorations_with_more_than_one_schedule_that_covered_every_interleaving_of_the_gates": fully}));
  ctx.require(fully > 0, "no list exploration was offered every interleaving of its handlers' gates: the completion-order quantifier is vacuous");

  // (c)
  {
    let id = b64url(format!("{{\"kid\":\"{KID_62_63}\"}}").as_bytes());
    ctx.require(id.contains('-') && id.contains('_'), "did:jwk: the identifier alphabet never reaches the two characters in which base64url differs from base64");
  }
  let wide = ctx.thorough();
  choice::explore_into(ctx, "did:jwk", None, |ch| jwk_body(ctx, wide, ch));
  for kty in [0u32, 2, 5] {
    // three of the explored cases: Ed25519 / P-256 / RSA, no optional member, through SingleThreadedResolver::resolve(&CoreDID)
    ctx.sample("did:jwk", &Case::Jwk { wide, seq: vec![kty, 0, 0, 0, 0, 0, 0, 0, 0, 0, 0, 0, 3] });
  }
  let raws: Vec<Case> = (0..RAW.len() as u8).map(|payload| Case::JwkRaw { payload }).collect();
  ctx.sample("did:jwk raw", &raws[5]);
  raws.par_iter().for_each(|c| eval(ctx, c));
  ctx.add_states(raws.len() as u64);
  ctx.add_transitions((raws.len() * ROUTES.len()) as u64);
  ctx.add_traces((raws.len() * ROUTES.len()) as u64);
  ctx.part("did:jwk identifiers that encode no JWK", json!({"cases": raws.len(), "routes": ROUTES.len()}));
  ctx.bound("jwk_optional_member_values", if wide { "use 0..2, key_ops 0..3, kid 0..3 (incl. a kid that puts `-` and `_` into the identifier), others 0..1 (all subsets)" } else { "use 0..2, key_ops 0..3, kid 0..2 (incl. a kid that puts `-` and `_` into the identifier), every other member absent/present (all subsets)" });
}

fn main() {
  vx::run_main::<Case, _, _>("C20", Level::ModelChecking, generate, eval)
}
