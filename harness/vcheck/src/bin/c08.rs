//! C08 — every JWS the library produces decodes and verifies to what was signed.
//!
//! (a) `encoders` (full products): encoder {Compact::new, Compact(NonDetached Default|UrlSafe), Compact(Detached),
//!     Flattened attached|detached, General attached|detached with 1..3 (thorough: 4) recipients} x per-recipient header
//!     placement (10, incl. a header with every registered parameter, the same split over both headers, and custom
//!     parameters overlapping between the two headers) x b64 mode (5) x payload menu (14). Whatever the encoder ACCEPTS
//!     is signed with a fixed-seed Ed25519 key per recipient, finished with `into_jws` and fed to the matching decoder
//!     (detached payload supplied iff detached). Oracle: decodes; signing input, claims, both headers and signature
//!     bytes equal what was signed; the signing input equals the RFC 7515 §5.1 / RFC 7797 §3 formula evaluated on the
//!     TOKEN text; verifies under the recipient's key and not under another key.
//!     `byte sweep`: every one-byte payload 0x00..0xff alone and embedded in `a?z`, UTF-8 boundary scalars, literal
//!     escape look-alikes (`\u0041`, `\n` as two characters ...), all strings of length <= 2 (thorough: 4) over a
//!     12-byte escape-relevant alphabet, x all 8 encoders x b64 {absent, false+crit}: the same
//!     oracle, which makes every JSON escape (RFC 8259 §7) of an unencoded payload in the JSON serializations demanded,
//!     plus the documented `CharSet::UrlSafe` restriction (accepted unencoded payload => URL-safe characters only).
//! (b) `storage` (E1 choice DFS, deviation-bounded): a CoreDocument AND an IotaDocument (every case runs on both), each
//!     with m1 (assertionMethod, embedded), m2 (general, referenced from keyAgreement and capabilityInvocation), m3
//!     (general, referenced from authentication), m4 (authentication, embedded) generated in JwkMemStore/KeyIdMemstore;
//!     entry {create_jws, create_credential_jwt (credential menu, custom claims), create_presentation_jwt (presentation
//!     menu x JwtPresentationOptions)} x method x payload x JwsSignatureOptions {kid override (custom / other method /
//!     fragment / own id), attach_jwk, b64, typ, cty, url, nonce (none / value / empty string), custom parameters,
//!     detached}. Every produced token: decoded by the library's decoder, compared with the bytes the key store was
//!     asked to sign, header checked against the options, then verified through `CoreDocument::verify_jws` /
//!     `IotaDocument::verify_jws` under EVERY (method_id in {none,m1..m4}) x (scope in {none + 6}) x (nonce in {same,
//!     different, presence flipped, empty/non-empty flipped}) and against a twin document with the same ids and other
//!     keys. Credential / presentation JWTs are additionally pushed through `JwtCredentialValidator::validate` /
//!     `JwtPresentationValidator::validate` with the signing document as issuer / holder under (method_id in {none,
//!     own, other}) x (nonce same / different) x (scope none / containing / excluding): accepted only for the method
//!     they were made for, and what is returned equals the credential (+ custom claims) / presentation (+ aud, exp,
//!     issuance date, custom claims) that was signed.

use async_trait::async_trait;
use identity_core::common::{Object, Url};
use identity_credential::credential::{Credential, CredentialBuilder, Jws, Jwt, Subject};
use identity_credential::presentation::{JwtPresentationOptions, Presentation, PresentationBuilder};
use identity_credential::validator::{
  FailFast, JwtCredentialValidationOptions, JwtCredentialValidator, JwtPresentationValidationOptions, JwtPresentationValidator,
};
use identity_did::{CoreDID, DIDUrl};
use identity_document::document::CoreDocument;
use identity_document::verifiable::JwsVerificationOptions;
use identity_eddsa_verifier::EdDSAJwsVerifier;
use identity_iota_core::{IotaDID, IotaDocument};
use identity_jose::jwk::Jwk;
use identity_jose::jws::{
  CharSet, CompactJwsEncoder, CompactJwsEncodingOptions, Decoder, FlattenedJwsEncoder, GeneralJwsEncoder, JwsAlgorithm, JwsHeader,
  JwsValidationItem, JwsVerifier, Recipient, VerificationInput,
};
use identity_storage::{
  JwkDocumentExt, JwkGenOutput, JwkMemStore, JwkStorage, JwsSignatureOptions, KeyId, KeyIdMemstore, KeyStorageResult, KeyType, Storage,
};
use identity_verification::{MethodData, MethodRelationship, MethodScope};
use serde::{Deserialize, Serialize};
use std::cell::RefCell;
use std::collections::BTreeMap;
use std::sync::atomic::{AtomicU64, Ordering};
use vx::choice::{self, Chooser};
use vx::fx::EdKey;
use vx::rayon::prelude::*;
use vx::{guard, json, Ctx, Level, Value};

// ------------------------------------------------------------------ shared alphabets
fn payloads() -> Vec<Vec<u8>> {
  vec![
    br#"{"x":1}"#.to_vec(),
    b"a".to_vec(),
    b"a.b".to_vec(),
    br#"q"uote"#.to_vec(),
    br"back\slash".to_vec(),
    b"line\nfeed".to_vec(),
    "\u{e9}".as_bytes().to_vec(),
    vec![0xff, 0x00],
    b"~url-safe_".to_vec(),
    b" sp ace ".to_vec(),
    vec![0x7f],
    (0..300).map(|i| b'A' + (i % 26) as u8).collect(),
    b"nul\0tab\t".to_vec(),
    b"{\"iss\":\"joe\",\r\n \"exp\":1300819380}".to_vec(),
  ]
}
const N_PAYLOADS: usize = 14;
/// The byte sweep: every byte alone and embedded, UTF-8 boundary scalars alone and embedded, and texts that LOOK like
/// JSON escapes but are plain characters (they must come back as they went in).
fn sweep_payloads(max_len: usize) -> Vec<Vec<u8>> {
  let mut v: Vec<Vec<u8>> = Vec::new();
  for b in 0..=255u8 {
    v.push(vec![b]);
    v.push(vec![b'a', b, b'z']);
  }
  for c in ['\u{80}', '\u{7ff}', '\u{800}', '\u{2028}', '\u{2029}', '\u{d7ff}', '\u{e000}', '\u{fffd}', '\u{ffff}', '\u{10000}', '\u{10ffff}'] {
    v.push(c.to_string().into_bytes());
    v.push(format!("a{c}z").into_bytes());
  }
  for s in [r"\u0041", r"\n", r#"\""#, r"\\", r"\u00", r#""}"#, r#"","x":""#, "\r\n", "\u{1}\u{1f}", r"\ud800", "/", r"\/", "\u{8}\u{c}"] {
    v.push(s.as_bytes().to_vec());
  }
  // every string of length 2..=max_len over an alphabet of escape-relevant bytes (quote, backslash, the letters that
  // follow a backslash in JSON escapes, control characters, DEL, the period, one two-byte UTF-8 scalar split in halves)
  let mut level: Vec<Vec<u8>> = SWEEP_ALPHABET.iter().map(|b| vec![*b]).collect();
  for _ in 2..=max_len {
    level = level.iter().flat_map(|s| SWEEP_ALPHABET.iter().map(move |b| [&s[..], &[*b]].concat())).collect();
    v.extend(level.iter().cloned());
  }
  let mut seen = std::collections::BTreeSet::new();
  v.retain(|p| seen.insert(p.clone()));
  v
}
const SWEEP_ALPHABET: [u8; 12] = [b'"', b'\\', b'/', b'u', b'n', 0x00, 0x1f, 0x7f, b'a', b'.', 0xc3, 0xa9];
fn url_safe_only(p: &[u8]) -> bool {
  p.iter().all(|b| b.is_ascii_alphanumeric() || matches!(*b, b'-' | b'_' | b'~'))
}
/// Does the JSON string form of this text need an escape (RFC 8259 §7: `"`, `\`, U+0000..U+001F)?
fn needs_json_escape(p: &[u8]) -> bool {
  p.iter().any(|b| *b == b'"' || *b == b'\\' || *b < 0x20)
}

// own base64url (RFC 4648 §5, no padding), independent of the library's
const B64: &[u8; 64] = b"ABCDEFGHIJKLMNOPQRSTUVWXYZabcdefghijklmnopqrstuvwxyz0123456789-_";
fn b64url(data: &[u8]) -> String {
  let mut s = String::new();
  for c in data.chunks(3) {
    let n = (c[0] as u32) << 16 | (*c.get(1).unwrap_or(&0) as u32) << 8 | *c.get(2).unwrap_or(&0) as u32;
    s.push(B64[(n >> 18) as usize & 63] as char);
    s.push(B64[(n >> 12) as usize & 63] as char);
    if c.len() > 1 {
      s.push(B64[(n >> 6) as usize & 63] as char);
    }
    if c.len() > 2 {
      s.push(B64[n as usize & 63] as char);
    }
  }
  s
}
fn b64url_decode(s: &str) -> Option<Vec<u8>> {
  let mut out = Vec::new();
  let mut acc = 0u32;
  let mut bits = 0;
  for ch in s.bytes() {
    let v = B64.iter().position(|c| *c == ch)? as u32;
    acc = acc << 6 | v;
    bits += 6;
    if bits >= 8 {
      bits -= 8;
      out.push((acc >> bits) as u8);
      acc &= (1 << bits) - 1;
    }
  }
  Some(out)
}
/// RFC 7515 §5.1 step 5 / RFC 7797 §3: ASCII(BASE64URL(UTF8(protected header))) || '.' || (b64 ? BASE64URL(payload) : payload)
fn formula(protected_b64: &str, b64: bool, payload: &[u8]) -> Vec<u8> {
  let mut v = protected_b64.as_bytes().to_vec();
  v.push(b'.');
  if b64 {
    v.extend(b64url(payload).as_bytes());
  } else {
    v.extend(payload);
  }
  v
}
fn header_json(h: Option<&JwsHeader>) -> Value {
  match h {
    None => Value::Null,
    Some(h) => serde_json::to_value(h).unwrap_or(json!("unserialisable")),
  }
}
fn err_kind<E: std::fmt::Debug>(e: &E) -> String {
  let s = format!("{e:?}");
  s.split(|c: char| !c.is_alphanumeric()).next().unwrap_or("").to_string()
}

#[derive(Default)]
struct Verdict {
  outcome: String,
  viol: Vec<(String, String)>,
  nontrivial: bool,
}
impl Verdict {
  fn v(&mut self, key: impl Into<String>, what: impl Into<String>) {
    self.viol.push((key.into(), what.into()));
  }
}

#[derive(Serialize, Deserialize, Debug, Clone, PartialEq)]
enum Case {
  /// encoder index (ENC), payload index, per recipient (placement index, b64 mode index)
  Enc { enc: u8, payload: u8, recips: Vec<(u8, u8)> },
  /// byte sweep: encoder index, b64 mode index, the payload bytes; one recipient with placement 0
  Sweep { enc: u8, b64: u8, payload: Vec<u8> },
  /// choice sequence of the storage body (`note` = the labelled choices, informative only)
  Store {
    seq: Vec<u32>,
    #[serde(default)]
    note: Vec<String>,
  },
}

// ================================================================== (a) encoders
const ENC: [&str; 8] = [
  "CompactJwsEncoder::new",
  "CompactJwsEncoder(NonDetached,Default)",
  "CompactJwsEncoder(NonDetached,UrlSafe)",
  "CompactJwsEncoder(Detached)",
  "FlattenedJwsEncoder(attached)",
  "FlattenedJwsEncoder(detached)",
  "GeneralJwsEncoder(attached)",
  "GeneralJwsEncoder(detached)",
];
fn enc_family(enc: u8) -> &'static str {
  match enc {
    0..=3 => "CompactJwsEncoder",
    4 | 5 => "FlattenedJwsEncoder",
    _ => "GeneralJwsEncoder",
  }
}
fn enc_detached(enc: u8) -> bool {
  matches!(enc, 3 | 5 | 7)
}
const PLACEMENT: [&str; 10] = [
  "protected{alg,kid,typ,x-app}",
  "protected{alg,kid}+unprotected{typ,x-app}",
  "protected{kid,typ,x-app}+unprotected{alg}",
  "unprotected{alg,kid,typ,x-app}",
  "protected{alg}",
  "protected{alg,kid}+unprotected{kid,typ} (overlap)",
  "no header",
  "protected{every registered parameter + two custom}",
  "protected{alg,kid,jwk,url,nonce,x-app}+unprotected{typ,cty,jku,x5u,x5c,x5t,x5t#S256,x-other}",
  "protected{alg,x-app}+unprotected{x-app} (custom overlap)",
];
const N_PLACEMENT: u8 = 10;
const B64MODE: [&str; 5] = ["absent", "true+crit", "false+crit", "false, no crit", "false+crit in the unprotected header"];

/// The headers of recipient `i` for (placement, b64 mode).
fn headers(i: usize, placement: u8, b64: u8) -> (Option<JwsHeader>, Option<JwsHeader>) {
  let mut p = JwsHeader::new();
  let mut u = JwsHeader::new();
  let (mut has_p, mut has_u) = (false, false);
  let custom = |h: &mut JwsHeader| {
    let mut m = BTreeMap::new();
    m.insert("x-app".to_string(), json!({"n": i}));
    h.set_custom(m)
  };
  let kid = format!("key-{i}");
  match placement {
    0 => {
      p.set_alg(JwsAlgorithm::EdDSA);
      p.set_kid(kid);
      p.set_typ("example");
      custom(&mut p);
      has_p = true;
    }
    1 => {
      p.set_alg(JwsAlgorithm::EdDSA);
      p.set_kid(kid);
      u.set_typ("example");
      custom(&mut u);
      has_p = true;
      has_u = true;
    }
    2 => {
      p.set_kid(kid);
      p.set_typ("example");
      custom(&mut p);
      u.set_alg(JwsAlgorithm::EdDSA);
      has_p = true;
      has_u = true;
    }
    3 => {
      u.set_alg(JwsAlgorithm::EdDSA);
      u.set_kid(kid);
      u.set_typ("example");
      custom(&mut u);
      has_u = true;
    }
    4 => {
      p.set_alg(JwsAlgorithm::EdDSA);
      has_p = true;
    }
    5 => {
      p.set_alg(JwsAlgorithm::EdDSA);
      p.set_kid(kid.clone());
      u.set_kid(kid);
      u.set_typ("example");
      has_p = true;
      has_u = true;
    }
    7 | 8 => {
      let url = |s: &str| Url::parse(s).unwrap();
      p.set_alg(JwsAlgorithm::EdDSA);
      p.set_kid(kid);
      p.set_jwk(pub_key(i));
      p.set_url(url("https://example.com/acme/new-order"));
      p.set_nonce(format!("n-{i}"));
      let mut m = BTreeMap::new();
      m.insert("x-app".to_string(), json!({"n": i}));
      let other = json!([1, "two", null, {"k": "v\"\\\n"}]);
      // the remaining registered parameters go to the protected header (7) or to the unprotected one (8)
      let (q, mq) = if placement == 7 {
        m.insert("x-other".to_string(), other);
        (&mut p, None)
      } else {
        let mut mu = BTreeMap::new();
        mu.insert("x-other".to_string(), other);
        has_u = true;
        (&mut u, Some(mu))
      };
      q.set_typ("example");
      q.set_cty("application/example+json");
      q.set_jku(url("https://example.com/keys.jwks"));
      q.set_x5u(url("https://example.com/cert.pem"));
      q.set_x5c(["MIIBszCCAVmgAwIBAgIB", "MIIBqDCCAU2gAwIBAgIB"]);
      q.set_x5t("dGhpcyBpcyBhIFNIQS0xIHRodW1i");
      q.set_x5t_s256("dGhpcyBpcyBhIFNIQS0yNTYgdGh1bWJwcmludA");
      if let Some(mu) = mq {
        q.set_custom(mu);
      }
      p.set_custom(m);
      has_p = true;
    }
    9 => {
      p.set_alg(JwsAlgorithm::EdDSA);
      custom(&mut p);
      custom(&mut u);
      has_p = true;
      has_u = true;
    }
    _ => {}
  }
  match b64 {
    1 => {
      p.set_b64(true);
      p.set_crit(["b64"]);
      has_p = true;
    }
    2 => {
      p.set_b64(false);
      p.set_crit(["b64"]);
      has_p = true;
    }
    3 => {
      p.set_b64(false);
      has_p = true;
    }
    4 => {
      u.set_b64(false);
      u.set_crit(["b64"]);
      has_u = true;
    }
    _ => {}
  }
  (has_p.then_some(p), has_u.then_some(u))
}

struct Signed {
  signing_input: Vec<u8>,
  signature: Vec<u8>,
}

fn pub_key(i: usize) -> Jwk {
  EdKey::new(i as u8 + 1).public_with_alg("EdDSA")
}

/// Run the encoder; Ok((token, what was signed per recipient)) or Err(step, error kind) if it refuses.
fn encode(enc: u8, payload: &[u8], hs: &[(Option<JwsHeader>, Option<JwsHeader>)]) -> Result<(String, Vec<Signed>), (String, String)> {
  let rec = |i: usize| Recipient { protected: hs[i].0.as_ref(), unprotected: hs[i].1.as_ref() };
  let mut signed = Vec::new();
  let mut sign = |i: usize, input: &[u8]| {
    let sig = EdKey::new(i as u8 + 1).sign(input);
    signed.push(Signed { signing_input: input.to_vec(), signature: sig.clone() });
    sig
  };
  let e = |step: &str, e: identity_jose::error::Error| (step.to_string(), err_kind(&e));
  let token = match enc {
    0..=3 => {
      let header = hs[0].0.as_ref().expect("compact header");
      let encoder = match enc {
        0 => CompactJwsEncoder::new(payload, header),
        1 => CompactJwsEncoder::new_with_options(payload, header, CompactJwsEncodingOptions::NonDetached { charset_requirements: CharSet::Default }),
        2 => CompactJwsEncoder::new_with_options(payload, header, CompactJwsEncodingOptions::NonDetached { charset_requirements: CharSet::UrlSafe }),
        _ => CompactJwsEncoder::new_with_options(payload, header, CompactJwsEncodingOptions::Detached),
      }
      .map_err(|x| e("new", x))?;
      let sig = sign(0, encoder.signing_input());
      encoder.into_jws(&sig)
    }
    4 | 5 => {
      let encoder = FlattenedJwsEncoder::new(payload, rec(0), enc == 5).map_err(|x| e("new", x))?;
      let sig = sign(0, encoder.signing_input());
      encoder.into_jws(&sig).map_err(|x| e("into_jws", x))?
    }
    _ => {
      let mut processing = GeneralJwsEncoder::new(payload, rec(0), enc == 7).map_err(|x| e("new", x))?;
      let mut i = 0;
      loop {
        let sig = sign(i, processing.signing_input());
        let ready = processing.set_signature(&sig);
        i += 1;
        if i == hs.len() {
          break ready.into_jws().map_err(|x| e("into_jws", x))?;
        }
        processing = ready.add_recipient(rec(i)).map_err(|x| e("add_recipient", x))?;
      }
    }
  };
  Ok((token, signed))
}

/// Where the token carries the protected header of signature `i` (its base64url text).
fn token_protected(enc: u8, token: &str, i: usize) -> Option<String> {
  match enc {
    0..=3 => token.split('.').next().map(|s| s.to_string()),
    4 | 5 => serde_json::from_str::<Value>(token).ok()?.get("protected").and_then(|v| v.as_str()).map(|s| s.to_string()),
    _ => serde_json::from_str::<Value>(token).ok()?.get("signatures")?.get(i)?.get("protected").and_then(|v| v.as_str()).map(|s| s.to_string()),
  }
}

fn decode_all<'a>(enc: u8, token: &'a str, detached: Option<&'a [u8]>) -> Result<Vec<JwsValidationItem<'a>>, identity_jose::error::Error> {
  let d = Decoder::new();
  match enc {
    0..=3 => Ok(vec![d.decode_compact_serialization(token.as_bytes(), detached)?]),
    4 | 5 => Ok(vec![d.decode_flattened_serialization(token.as_bytes(), detached)?]),
    _ => d.decode_general_serialization(token.as_bytes(), detached)?.collect(),
  }
}

fn judge_enc(enc: u8, payload_ix: u8, recips: &[(u8, u8)]) -> Verdict {
  judge_enc_bytes(enc, &payloads()[payload_ix as usize], recips)
}
fn judge_enc_bytes(enc: u8, payload: &[u8], recips: &[(u8, u8)]) -> Verdict {
  let mut v = Verdict::default();
  let name = ENC[enc as usize];
  let fam = enc_family(enc);
  let payload = payload.to_vec();
  let mut hs: Vec<_> = recips.iter().enumerate().map(|(i, (p, b))| headers(i, *p, *b)).collect();
  if enc < 4 && hs[0].0.is_none() {
    // the compact encoders always take a protected header; "no header" is the empty header there
    hs[0].0 = Some(JwsHeader::new());
  }
  let what = || {
    format!(
      "{name}, payload {:?}, recipients {:?}",
      String::from_utf8_lossy(&payload),
      recips.iter().map(|(p, b)| format!("{} / b64 {}", PLACEMENT[*p as usize], B64MODE[*b as usize])).collect::<Vec<_>>()
    )
  };
  let (token, signed) = match guard(|| encode(enc, &payload, &hs)) {
    Err(p) => {
      v.v(format!("{fam}|{}", p.key()), format!("{}: {}", what(), p.msg));
      v.outcome = format!("enc:{name}:panic");
      return v;
    }
    Ok(Err((step, kind))) => {
      v.outcome = format!("enc:{name}:refused@{step}:{kind}");
      return v;
    }
    Ok(Ok(x)) => x,
  };
  v.nontrivial = true;
  let detached = enc_detached(enc);
  let b64_of = |i: usize| hs[i].0.as_ref().and_then(|h| h.b64()).unwrap_or(true);
  // documented restriction of `CharSet::UrlSafe` (the payload "contains only the URL-safe characters 'a'-'z', 'A'-'Z',
  // '0'-'9', '-', '_', '~'"); it applies to what ends up in the token, i.e. to unencoded payloads
  if enc == 2 && !b64_of(0) && !url_safe_only(&payload) {
    v.v("CompactJwsEncoder|accepted-unencoded-payload-outside-charset|UrlSafe", format!("{}: token {token}", what()));
  }
  // The decoder's documented convention (RFC 7515 appendix F, storage tests): the detached payload is handed over in
  // the form it would have had inside the token, i.e. base64url-encoded unless b64 = false.
  let supplied: Vec<u8> = if b64_of(0) { b64url(&payload).into_bytes() } else { payload.clone() };
  let items = match guard(|| decode_all(enc, &token, detached.then_some(&supplied[..]))) {
    Err(p) => {
      v.v(format!("{fam}|own-decoder-{}", p.key()), format!("{}: token {token}: {}", what(), p.msg));
      v.outcome = format!("enc:{name}:produced:decoder-panic");
      return v;
    }
    Ok(Err(e)) => {
      // S12 (fixed): an unencoded payload that needs a JSON escape could not be borrowed by the JSON decoders
      let escape_class = !detached && enc >= 4 && !b64_of(0) && needs_json_escape(&payload) && err_kind(&e) == "InvalidJson";
      if escape_class {
        v.v(
          "FlattenedJwsEncoder+GeneralJwsEncoder|output-rejected-by-own-decoder|unencoded-payload-with-json-escape",
          format!("{}: token {token}: decoder says {e}", what()),
        );
      } else {
        v.v(format!("{fam}|output-rejected-by-own-decoder|{}", err_kind(&e)), format!("{}: token {token}: decoder says {e}", what()));
      }
      v.outcome = format!("enc:{name}:produced:own-decoder-rejects");
      return v;
    }
    Ok(Ok(items)) => items,
  };
  if items.len() != recips.len() || signed.len() != recips.len() {
    v.v(format!("{fam}|signature-count-differs"), format!("{}: {} signatures signed, {} decoded", what(), signed.len(), items.len()));
    v.outcome = format!("enc:{name}:produced:wrong-signature-count");
    return v;
  }
  let mut verified = 0;
  let mut refused = 0;
  for (i, item) in items.into_iter().enumerate() {
    let s = &signed[i];
    if item.signing_input() != &s.signing_input[..] {
      v.v(format!("{fam}|decoded-signing-input-differs-from-signed"), format!("{} signature {i}: token {token}", what()));
    }
    if item.claims() != &payload[..] {
      v.v(
        format!("{fam}|decoded-claims-differ-from-payload"),
        format!("{} signature {i}: token {token}: claims {:?}", what(), String::from_utf8_lossy(item.claims())),
      );
    }
    if header_json(item.protected_header()) != header_json(hs[i].0.as_ref()) {
      v.v(format!("{fam}|decoded-protected-header-differs"), format!("{} signature {i}: {} vs {}", what(), header_json(item.protected_header()), header_json(hs[i].0.as_ref())));
    }
    if header_json(item.unprotected_header()) != header_json(hs[i].1.as_ref()) {
      v.v(format!("{fam}|decoded-unprotected-header-differs"), format!("{} signature {i}: {} vs {}", what(), header_json(item.unprotected_header()), header_json(hs[i].1.as_ref())));
    }
    if item.decoded_signature() != &s.signature[..] {
      v.v(format!("{fam}|decoded-signature-differs"), format!("{} signature {i}", what()));
    }
    // independent formula on the token text
    let tp = token_protected(enc, &token, i);
    match (&tp, hs[i].0.as_ref()) {
      (Some(text), Some(h)) => {
        let same_json = b64url_decode(text).and_then(|b| serde_json::from_slice::<Value>(&b).ok()) == Some(header_json(Some(h)));
        if !same_json {
          v.v(format!("{fam}|token-protected-header-is-not-the-given-header"), format!("{} signature {i}: token {token}", what()));
        }
        if s.signing_input != formula(text, b64_of(i), &payload) {
          v.v(format!("{fam}|signing-input-is-not-the-rfc-formula"), format!("{} signature {i}: token {token}", what()));
        }
      }
      (None, None) => {
        if s.signing_input != formula("", true, &payload) {
          v.v(format!("{fam}|signing-input-is-not-the-rfc-formula"), format!("{} signature {i} (no protected header): token {token}", what()));
        }
      }
      _ => v.v(format!("{fam}|token-protected-header-presence-differs"), format!("{} signature {i}: token {token}", what())),
    }
    // the signature really is over the decoded signing input, under this recipient's key only
    let own = |key: &Jwk, item: &JwsValidationItem<'_>| {
      EdDSAJwsVerifier::default().verify(
        VerificationInput { alg: JwsAlgorithm::EdDSA, signing_input: item.signing_input().into(), decoded_signature: item.decoded_signature().into() },
        key,
      )
    };
    if own(&pub_key(i), &item).is_err() {
      v.v(format!("{fam}|decoded-signature-does-not-verify-under-signing-key"), format!("{} signature {i}: token {token}", what()));
    }
    if own(&pub_key(8), &item).is_ok() {
      v.v(format!("{fam}|decoded-signature-verifies-under-other-key"), format!("{} signature {i}", what()));
    }
    // the library's own verification step; it requires `alg` in the protected header (documented)
    let alg_protected = hs[i].0.as_ref().and_then(|h| h.alg()).is_some();
    match guard(|| item.verify(&EdDSAJwsVerifier::default(), &pub_key(i))) {
      Err(p) => v.v(format!("JwsValidationItem::verify|{}", p.key()), p.msg),
      Ok(Ok(decoded)) => {
        verified += 1;
        if decoded.claims.as_ref() != &payload[..] || header_json(Some(&decoded.protected)) != header_json(hs[i].0.as_ref()) {
          v.v(format!("{fam}|verified-token-differs-from-signed"), format!("{} signature {i}", what()));
        }
      }
      Ok(Err(e)) => {
        refused += 1;
        if alg_protected {
          v.v(format!("{fam}|own-token-does-not-verify-under-signing-key"), format!("{} signature {i}: token {token}: {e}", what()));
        }
      }
    }
  }
  // under another key nothing verifies (decode again: `verify` consumes the item)
  if let Ok(Ok(items)) = guard(|| decode_all(enc, &token, detached.then_some(&supplied[..]))) {
    for (i, item) in items.into_iter().enumerate() {
      if matches!(guard(|| item.verify(&EdDSAJwsVerifier::default(), &pub_key((i + 1) % 3 + 3))), Ok(Ok(_))) {
        v.v(format!("{fam}|own-token-verifies-under-other-key"), format!("{} signature {i}", what()));
      }
    }
  }
  v.outcome = format!("enc:{name}:produced:verified={verified},verify-refused(no protected alg)={refused}");
  v
}

// ================================================================== (b) storage path
/// JwkMemStore behind a recorder: remembers the bytes it was asked to sign.
struct RecStore {
  inner: JwkMemStore,
  signed: RefCell<Vec<Vec<u8>>>,
}
#[async_trait(?Send)]
impl JwkStorage for RecStore {
  async fn generate(&self, key_type: KeyType, alg: JwsAlgorithm) -> KeyStorageResult<JwkGenOutput> {
    self.inner.generate(key_type, alg).await
  }
  async fn insert(&self, jwk: Jwk) -> KeyStorageResult<KeyId> {
    self.inner.insert(jwk).await
  }
  async fn sign(&self, key_id: &KeyId, data: &[u8], public_key: &Jwk) -> KeyStorageResult<Vec<u8>> {
    self.signed.borrow_mut().push(data.to_vec());
    self.inner.sign(key_id, data, public_key).await
  }
  async fn delete(&self, key_id: &KeyId) -> KeyStorageResult<()> {
    self.inner.delete(key_id).await
  }
  async fn exists(&self, key_id: &KeyId) -> KeyStorageResult<bool> {
    self.inner.exists(key_id).await
  }
}
type Store = Storage<RecStore, KeyIdMemstore>;

const DIDS: [&str; 2] = ["did:example:c08", "did:iota:0x0c080c080c080c080c080c080c080c080c080c080c080c080c080c080c080c08"];
const KIND: [&str; 2] = ["CoreDocument", "IotaDocument"];
const FRAGS: [&str; 4] = ["m1", "m2", "m3", "m4"];
const N_METHODS: usize = 4;

enum AnyDoc {
  Core(CoreDocument),
  Iota(IotaDocument),
}
type Verified = Result<(Vec<u8>, Value), String>;
impl AnyDoc {
  fn core(&self) -> &CoreDocument {
    match self {
      AnyDoc::Core(d) => d,
      AnyDoc::Iota(d) => d.as_ref(),
    }
  }
  /// `CoreDocument::verify_jws` / `IotaDocument::verify_jws`
  fn verify_jws(&self, jws: &Jws, detached: Option<&[u8]>, vo: &JwsVerificationOptions) -> Verified {
    let verifier = EdDSAJwsVerifier::default();
    match self {
      AnyDoc::Core(d) => d.verify_jws(jws.as_str(), detached, &verifier, vo).map(|x| (x.claims.to_vec(), header_json(Some(&x.protected)))).map_err(|e| e.to_string()),
      AnyDoc::Iota(d) => d.verify_jws(jws, detached, &verifier, vo).map(|x| (x.claims.to_vec(), header_json(Some(&x.protected)))).map_err(|e| e.to_string()),
    }
  }
}
async fn populate<D: JwkDocumentExt>(doc: &mut D, storage: &Store) {
  let scopes = [MethodScope::assertion_method(), MethodScope::VerificationMethod, MethodScope::VerificationMethod, MethodScope::authentication()];
  for (f, s) in FRAGS.iter().zip(scopes) {
    doc.generate_method(storage, JwkMemStore::ED25519_KEY_TYPE, JwsAlgorithm::EdDSA, Some(f), s).await.expect("generate_method");
  }
}
/// (method index, relationship) references added after generation
const REFERENCES: [(usize, MethodRelationship); 3] =
  [(2, MethodRelationship::Authentication), (1, MethodRelationship::KeyAgreement), (1, MethodRelationship::CapabilityInvocation)];
fn new_doc(kind: usize, storage: &Store) -> AnyDoc {
  match kind {
    0 => {
      let mut doc = CoreDocument::builder(Object::new()).id(CoreDID::parse(DIDS[0]).unwrap()).build().expect("document");
      vx::gate::block_on(populate(&mut doc, storage));
      for (m, r) in REFERENCES {
        assert!(doc.attach_method_relationship(&method_id(kind, m), r).expect("attach"));
      }
      AnyDoc::Core(doc)
    }
    _ => {
      let mut doc = IotaDocument::new_with_id(IotaDID::parse(DIDS[1]).expect("iota did"));
      vx::gate::block_on(populate(&mut doc, storage));
      for (m, r) in REFERENCES {
        assert!(doc.attach_method_relationship(&method_id(kind, m), r).expect("attach"));
      }
      AnyDoc::Iota(doc)
    }
  }
}
struct Side {
  doc: AnyDoc,
  twin: AnyDoc,
  storage: Store,
}
struct Fixture {
  sides: [Side; 2],
}
fn new_store() -> Store {
  Storage::new(RecStore { inner: JwkMemStore::new(), signed: RefCell::new(Vec::new()) }, KeyIdMemstore::new())
}
impl Fixture {
  fn new() -> Fixture {
    let side = |kind: usize| {
      let storage = new_store();
      let doc = new_doc(kind, &storage);
      let twin = new_doc(kind, &new_store());
      Side { doc, twin, storage }
    };
    Fixture { sides: [side(0), side(1)] }
  }
}
thread_local! {
  static FIXTURE: Fixture = Fixture::new();
}
fn method_id(kind: usize, m: usize) -> DIDUrl {
  DIDUrl::parse(format!("{}#{}", DIDS[kind], FRAGS[m])).unwrap()
}
const SCOPES: [Option<MethodScope>; 7] = [
  None,
  Some(MethodScope::VerificationMethod),
  Some(MethodScope::VerificationRelationship(MethodRelationship::Authentication)),
  Some(MethodScope::VerificationRelationship(MethodRelationship::AssertionMethod)),
  Some(MethodScope::VerificationRelationship(MethodRelationship::KeyAgreement)),
  Some(MethodScope::VerificationRelationship(MethodRelationship::CapabilityDelegation)),
  Some(MethodScope::VerificationRelationship(MethodRelationship::CapabilityInvocation)),
];
/// The documents as built above, written down by hand: m1 only embedded in assertionMethod; m2 general + referenced
/// from keyAgreement and capabilityInvocation; m3 general + referenced from authentication; m4 only embedded in
/// authentication. (`MethodScope::VerificationMethod` = the general `verificationMethod` set only.)
fn in_scope(m: usize, scope: usize) -> bool {
  match (m, scope) {
    (_, 0) => true,
    (0, 3) => true,
    (1, 1) | (1, 4) | (1, 6) => true,
    (2, 1) | (2, 2) => true,
    (3, 2) => true,
    _ => false,
  }
}

const ENTRY: [&str; 3] = ["create_jws", "create_credential_jwt", "create_presentation_jwt"];
const KID: [&str; 5] = ["default", "custom-string", "other-method-id", "own-fragment", "own-id"];
const CUSTOM: [&str; 7] = ["none", "x-app+x-n", "shadow:alg", "shadow:b64", "shadow:kid", "shadow:crit", "shadow:nonce"];
const NONCE: [Option<&str>; 3] = [None, Some("nonce-1"), Some("")];
const CREDS: [&str; 3] = ["minimal", "rich", "minimal+custom-claims"];
const PRES: [&str; 4] = ["minimal/default-options", "minimal/exp+iat+aud+custom-claims", "rich/default-options", "rich/exp+iat+aud+custom-claims"];

#[derive(Debug, Clone)]
struct Plan {
  entry: usize,
  method: usize,
  /// create_jws: index into the payload menu; create_credential_jwt: CREDS; create_presentation_jwt: PRES
  payload: usize,
  kid: usize,
  attach_jwk: bool,
  b64: usize,
  typ: bool,
  cty: bool,
  url: bool,
  nonce: usize,
  custom: usize,
  detached: bool,
}
fn plan(ch: &mut Chooser) -> Plan {
  let entry = ch.choose("entry", 3);
  Plan {
    entry,
    method: ch.choose("method", N_METHODS),
    payload: ch.choose("payload", [N_PAYLOADS, CREDS.len(), PRES.len()][entry]),
    kid: ch.choose("kid", KID.len()),
    attach_jwk: ch.flag("attach_jwk"),
    b64: ch.choose("b64", 3),
    typ: ch.flag("typ"),
    cty: ch.flag("cty"),
    url: ch.flag("url"),
    nonce: ch.choose("nonce", NONCE.len()),
    custom: ch.choose("custom", CUSTOM.len()),
    detached: ch.flag("detached"),
  }
}
fn custom_params(c: usize) -> Option<Object> {
  let mut o = Object::new();
  match c {
    0 => return None,
    1 => {
      o.insert("x-app".into(), json!("v"));
      o.insert("x-n".into(), json!([1, {"a": null}]));
    }
    2 => {
      o.insert("alg".into(), json!("ES256"));
    }
    3 => {
      o.insert("b64".into(), json!(false));
    }
    4 => {
      o.insert("kid".into(), json!("shadow-kid"));
    }
    5 => {
      o.insert("crit".into(), json!(["b64"]));
    }
    _ => {
      o.insert("nonce".into(), json!("shadow-nonce"));
    }
  }
  Some(o)
}
fn obj(v: Value) -> Object {
  match v {
    Value::Object(m) => m.into_iter().collect(),
    _ => unreachable!("object literal"),
  }
}
/// The credential of the menu (issuer = the signing document) and the custom claims handed to `create_credential_jwt`.
fn credential(kind: usize, ci: usize) -> (Credential, Option<Object>) {
  let url = |s: &str| Url::parse(s).unwrap();
  let mut b = CredentialBuilder::default()
    .id(url("https://example.edu/credentials/3732"))
    .issuer(url(DIDS[kind]))
    .type_("UniversityDegreeCredential")
    .issuance_date(vx::fx::ts(vx::fx::NOW));
  if ci == 1 {
    b = b
      .context(url("https://www.w3.org/2018/credentials/examples/v1"))
      .type_("AlumniCredential")
      .expiration_date(vx::fx::ts(vx::fx::NOW + 86_400))
      .subject(Subject::with_id_and_properties(
        url("did:example:subject"),
        obj(json!({"degree": {"type": "BachelorDegree", "name": "Bachelor of \"Science\" \\ Arts\n"}, "GPA": "4.0"})),
      ))
      .non_transferable(true)
      .property("x-prop", json!([1, "two", {"three": null}]));
  } else {
    b = b.subject(Subject::with_id(url("did:example:subject")));
  }
  let claims = (ci == 2).then(|| obj(json!({"x-claim": {"a": [1, 2]}, "x-flag": true})));
  (b.build().expect("credential"), claims)
}
/// The presentation of the menu (holder = the signing document) and the options handed to `create_presentation_jwt`.
fn presentation(kind: usize, pi: usize) -> (Presentation<Jwt>, JwtPresentationOptions) {
  let url = |s: &str| Url::parse(s).unwrap();
  let properties = if pi >= 2 { obj(json!({"x-vp": {"k": ["v", 2]}})) } else { Object::new() };
  let mut b = PresentationBuilder::new(url(DIDS[kind]), properties).credential(Jwt::new("eyJhbGciOiJFZERTQSJ9.e30.c2ln".to_string()));
  if pi >= 2 {
    b = b
      .id(url("https://example.org/presentations/1"))
      .context(url("https://www.w3.org/2018/credentials/examples/v1"))
      .type_("ExamplePresentation")
      .credential(Jwt::new("eyJhbGciOiJFZERTQSJ9.eyJ4IjoxfQ.c2lnMg".to_string()));
  }
  let mut o = JwtPresentationOptions::default();
  if pi % 2 == 1 {
    o = o.expiration_date(vx::fx::ts(vx::fx::NOW + 3600)).issuance_date(vx::fx::ts(vx::fx::NOW - 10)).audience(url("https://verifier.example/"));
    o.custom_claims = Some(obj(json!({"x-claim": {"a": [1, 2]}, "x-flag": true})));
  }
  (b.build().expect("presentation"), o)
}

static VERIFICATIONS: AtomicU64 = AtomicU64::new(0);
static VALIDATIONS: AtomicU64 = AtomicU64::new(0);
const VERIFY_PER_TOKEN: usize = (N_METHODS + 1) * 7 * 4 + 2;

/// Why an acceptance is forbidden (None = it is allowed): the statement's "never verifies under another method's key,
/// a different nonce, or a scope that excludes that method" + the documented "kid must identify a method of the document
/// unless the method is set in the options".
fn forbidden(selected: Option<usize>, m: usize, scope: usize, nonce_same: bool) -> Option<&'static str> {
  if !nonce_same {
    Some("nonce-mismatch")
  } else if selected.is_none() {
    Some("unresolvable-kid")
  } else if selected != Some(m) {
    Some("other-method-key")
  } else if !in_scope(m, scope) {
    Some("method-outside-scope")
  } else {
    None
  }
}

async fn produce<D: JwkDocumentExt>(doc: &D, storage: &Store, p: &Plan, kind: usize, payload: &[u8], o: &JwsSignatureOptions) -> Result<String, String> {
  let frag = FRAGS[p.method];
  match p.entry {
    0 => doc.create_jws(storage, frag, payload, o).await.map(|j| j.as_str().to_string()),
    1 => {
      let (c, claims) = credential(kind, p.payload);
      doc.create_credential_jwt(&c, storage, frag, o, claims).await.map(|j| j.as_str().to_string())
    }
    _ => {
      let (pr, po) = presentation(kind, p.payload);
      doc.create_presentation_jwt(&pr, storage, frag, o, &po).await.map(|j| j.as_str().to_string())
    }
  }
  .map_err(|e| err_kind(&e))
}

fn judge_store(p: &Plan) -> Verdict {
  FIXTURE.with(|fx| {
    let mut v = judge_store_on(&fx.sides[0], 0, p);
    let iota = judge_store_on(&fx.sides[1], 1, p);
    // IotaDocument delegates to its CoreDocument: what the CoreDocument run already reported is the same defect, and is
    // reported once, under the CoreDocument key. Only what is wrong on the IotaDocument alone gets an IotaDocument key.
    let norm = |k: &str| k.replace("JwkDocumentExt(IotaDocument)::", "JwkDocumentExt::").replace("IotaDocument::verify_jws", "CoreDocument::verify_jws");
    let core_keys: Vec<String> = v.viol.iter().map(|(k, _)| k.clone()).collect();
    for (k, w) in iota.viol {
      if !core_keys.contains(&norm(&k)) {
        v.viol.push((k, w));
      }
    }
    if iota.outcome != v.outcome {
      v.outcome = format!("{} // IotaDocument: {}", v.outcome, iota.outcome);
    }
    v.nontrivial |= iota.nontrivial;
    v
  })
}
fn judge_store_on(side: &Side, kind: usize, p: &Plan) -> Verdict {
  let mut v = Verdict::default();
  let entry_name = ENTRY[p.entry];
  // create_credential_jwt / create_presentation_jwt are documented to sign through the same options as create_jws:
  // one key prefix for all three (the entry actually called is in the description), so that one defect has one key
  let entry = ["JwkDocumentExt::create_jws*", "JwkDocumentExt(IotaDocument)::create_jws*"][kind];
  let verify_entry = ["CoreDocument::verify_jws", "IotaDocument::verify_jws"][kind];
  let m = p.method;
  let other = (m + 1) % N_METHODS;
  // ---- options
  let mut o = JwsSignatureOptions::new();
  match p.kid {
    1 => o = o.kid("custom-kid"),
    2 => o = o.kid(method_id(kind, other).to_string()),
    3 => o = o.kid(format!("#{}", FRAGS[m])),
    4 => o = o.kid(method_id(kind, m).to_string()),
    _ => {}
  }
  if p.attach_jwk {
    o = o.attach_jwk_to_header(true);
  }
  match p.b64 {
    1 => o = o.b64(true),
    2 => o = o.b64(false),
    _ => {}
  }
  if p.typ {
    o = o.typ("example+jwt");
  }
  if p.cty {
    o = o.cty("vc+ld+json");
  }
  let url = Url::parse("https://example.com/acme/new-order").unwrap();
  if p.url {
    o = o.url(url.clone());
  }
  let token_nonce: Option<&str> = NONCE[p.nonce];
  if let Some(n) = token_nonce {
    o = o.nonce(n);
  }
  if let Some(c) = custom_params(p.custom) {
    o = o.custom_header_parameters(c);
  }
  if p.detached {
    o = o.detached_payload(true);
  }
  // ---- payload (for the JWT entries: the documented claims-set serialization of what is handed in; the conversion
  // itself is C07's subject, the validators below judge the result independently of it)
  let payload: Vec<u8> = match p.entry {
    0 => payloads()[p.payload].clone(),
    1 => {
      let (c, claims) = credential(kind, p.payload);
      c.serialize_jwt(claims).expect("serialize_jwt").into_bytes()
    }
    _ => {
      let (pr, po) = presentation(kind, p.payload);
      pr.serialize_jwt(&po).expect("serialize_jwt").into_bytes()
    }
  };
  let what = format!(
    "{} {entry_name}{} for #{} with {o:?}, payload {:?}",
    KIND[kind],
    match p.entry {
      1 => format!("[{}]", CREDS[p.payload]),
      2 => format!("[{}]", PRES[p.payload]),
      _ => String::new(),
    },
    FRAGS[m],
    String::from_utf8_lossy(&payload)
  );
  // ---- produce
  side.storage.key_storage().signed.borrow_mut().clear();
  let produced: Result<Result<String, String>, vx::Panicked> = guard(|| {
    vx::gate::block_on(async {
      match &side.doc {
        AnyDoc::Core(d) => produce(d, &side.storage, p, kind, &payload, &o).await,
        AnyDoc::Iota(d) => produce(d, &side.storage, p, kind, &payload, &o).await,
      }
    })
  });
  let shape = format!("b64={},{}", ["unset", "true", "false"][p.b64], if p.detached { "detached" } else { "attached" });
  let token = match produced {
    Err(pn) => {
      v.v(format!("{entry}|{}", pn.key()), format!("{what}: {}", pn.msg));
      v.outcome = format!("store:{entry_name}:panic");
      return v;
    }
    Ok(Err(ek)) => {
      v.outcome = format!("store:{entry_name}:refused:{ek}:{shape}");
      return v;
    }
    Ok(Ok(t)) => t,
  };
  v.nontrivial = true;
  let signed: Vec<Vec<u8>> = side.storage.key_storage().signed.borrow().clone();
  // detached payloads are handed to the decoder in their in-token form (base64url unless b64 = false)
  let supplied: Vec<u8> = if p.b64 != 2 { b64url(&payload).into_bytes() } else { payload.clone() };
  let detached_payload: Option<&[u8]> = p.detached.then_some(&supplied[..]);
  let decoded = guard(|| Decoder::new().decode_compact_serialization(token.as_bytes(), detached_payload).map_err(|e| e.to_string()));
  if p.custom >= 2 {
    // custom parameters that shadow registered ones: executed and recorded, not judged
    v.outcome = format!(
      "store:{entry_name}:signed:{}(recorded-only):{}",
      CUSTOM[p.custom],
      match decoded {
        Ok(Ok(_)) => "decodes",
        Ok(Err(_)) => "own-decoder-rejects",
        Err(_) => "decoder-panic",
      }
    );
    return v;
  }
  let item = match decoded {
    Err(pn) => {
      v.v(format!("{entry}|own-decoder-{}", pn.key()), format!("{what}: token {token}: {}", pn.msg));
      v.outcome = format!("store:{entry_name}:signed:decoder-panic");
      return v;
    }
    Ok(Err(e)) => {
      v.v(format!("{entry}|token-rejected-by-own-decoder"), format!("{what}: token {token}: {e}"));
      v.outcome = format!("store:{entry_name}:signed:own-decoder-rejects");
      return v;
    }
    Ok(Ok(item)) => item,
  };
  // ---- what was signed (the key store may be asked more than once; the token must carry one of the signed inputs)
  if !signed.iter().any(|s| item.signing_input() == &s[..]) {
    v.v(format!("{entry}|decoded-signing-input-differs-from-signed-bytes"), format!("{what}: token {token}: {} sign calls", signed.len()));
  }
  if item.claims() != &payload[..] {
    v.v(format!("{entry}|decoded-claims-differ-from-payload"), format!("{what}: token {token}"));
  }
  let want_b64 = p.b64 != 2;
  let seg0 = token.split('.').next().unwrap_or("");
  let rfc = formula(seg0, want_b64, &payload);
  if !signed.iter().any(|s| s[..] == rfc[..]) {
    v.v(format!("{entry}|signed-bytes-are-not-the-rfc-formula"), format!("{what}: token {token}"));
  }
  // ---- header against the options
  let method_jwk: Jwk = match side.doc.core().resolve_method(FRAGS[m], None).map(|x| x.data()) {
    Some(MethodData::PublicKeyJwk(j)) => j.clone(),
    _ => unreachable!("fixture method"),
  };
  let token_header = header_json(item.protected_header());
  match item.protected_header() {
    None => v.v(format!("{entry}|no-protected-header"), what.clone()),
    Some(h) => {
      let mut bad = |param: &str, got: String| v.v(format!("{entry}|header-{param}-not-as-requested"), format!("{what}: got {got}"));
      if h.alg() != Some(JwsAlgorithm::EdDSA) {
        bad("alg", format!("{:?}", h.alg()));
      }
      let want_kid = match p.kid {
        1 => "custom-kid".to_string(),
        2 => method_id(kind, other).to_string(),
        3 => format!("#{}", FRAGS[m]),
        _ => method_id(kind, m).to_string(),
      };
      if h.kid() != Some(want_kid.as_str()) {
        bad("kid", format!("{:?}", h.kid()));
      }
      if h.typ() != Some(if p.typ { "example+jwt" } else { "JWT" }) {
        bad("typ", format!("{:?}", h.typ()));
      }
      if h.cty() != p.cty.then_some("vc+ld+json") {
        bad("cty", format!("{:?}", h.cty()));
      }
      if h.url() != p.url.then_some(&url) {
        bad("url", format!("{:?}", h.url()));
      }
      if h.nonce() != token_nonce {
        bad("nonce", format!("{:?}", h.nonce()));
      }
      if h.jwk() != p.attach_jwk.then_some(&method_jwk) {
        bad("jwk", format!("{:?}", h.jwk().map(|j| j.kid().map(|s| s.to_string()))));
      }
      if p.b64 == 2 {
        if h.b64() != Some(false) || !h.crit().map(|c| c.iter().any(|x| x == "b64")).unwrap_or(false) {
          bad("b64", format!("b64 {:?} crit {:?}", h.b64(), h.crit()));
        }
      } else if h.b64() == Some(false) {
        bad("b64", format!("b64 {:?}", h.b64()));
      }
      let got_custom = h.custom().cloned().unwrap_or_default();
      let want_custom: BTreeMap<String, Value> = custom_params(p.custom).unwrap_or_default().into_iter().collect();
      if got_custom != want_custom {
        bad("custom", format!("{got_custom:?}"));
      }
    }
  }
  drop(item);
  // ---- verification matrix
  // selector the verification is asked to use, by the documented rule: options.method_id, else the token's kid
  let selected_by = |pinned: Option<usize>| -> Option<usize> {
    match (pinned, p.kid) {
      (Some(x), _) => Some(x),
      (None, 1) => None,
      (None, 2) => Some(other),
      (None, _) => Some(m),
    }
  };
  // nonce the verifier expects: same as the token's; a different one; presence flipped; empty / non-empty flipped
  let nonce_variants: [Option<&str>; 4] = [
    token_nonce,
    Some("different-nonce"),
    if token_nonce.is_some() { None } else { Some("nonce-1") },
    if token_nonce == Some("") { Some("nonce-1") } else { Some("") },
  ];
  let jws = Jws::new(token.clone());
  let mut accepted = 0;
  for mid in 0..=N_METHODS {
    let pinned = mid.checked_sub(1);
    let selected = selected_by(pinned);
    for (si, scope) in SCOPES.iter().enumerate() {
      for (nv, expect_nonce) in nonce_variants.iter().enumerate() {
        let mut vo = JwsVerificationOptions::new();
        if let Some(x) = pinned {
          vo = vo.method_id(method_id(kind, x));
        }
        if let Some(s) = scope {
          vo = vo.method_scope(*s);
        }
        if let Some(n) = expect_nonce {
          vo = vo.nonce(*n);
        }
        VERIFICATIONS.fetch_add(1, Ordering::Relaxed);
        let r = guard(|| side.doc.verify_jws(&jws, detached_payload, &vo));
        let ctx_txt = || format!("{what}: token {token}; verify with method_id {:?}, scope {:?}, nonce {:?}", vo.method_id.as_ref().map(|d| d.to_string()), scope.map(|s| s.as_str()), vo.nonce);
        let why_not = forbidden(selected, m, si, nv == 0);
        let must = why_not.is_none() && !(pinned.is_none() && p.kid == 3);
        match r {
          Err(pn) => v.v(format!("{verify_entry}|{}", pn.key()), format!("{}: {}", ctx_txt(), pn.msg)),
          Ok(Ok((claims, header))) => {
            accepted += 1;
            if let Some(why) = why_not {
              v.v(format!("{verify_entry}|accepted|{why}"), ctx_txt());
            } else if claims != payload {
              v.v(format!("{verify_entry}|accepted|claims-differ-from-payload"), ctx_txt());
            } else if header != token_header {
              v.v(format!("{verify_entry}|accepted|header-differs-from-token"), ctx_txt());
            }
          }
          Ok(Err(e)) => {
            if must {
              v.v(format!("{verify_entry}|rejected|own-token-for-its-method"), format!("{}: {e}", ctx_txt()));
            }
          }
        }
      }
    }
  }
  // a document with the same ids but other keys
  for mid in [None, Some(m)] {
    let mut vo = JwsVerificationOptions::new();
    if let Some(x) = mid {
      vo = vo.method_id(method_id(kind, x));
    }
    if let Some(n) = token_nonce {
      vo = vo.nonce(n);
    }
    VERIFICATIONS.fetch_add(1, Ordering::Relaxed);
    if matches!(guard(|| side.twin.verify_jws(&jws, detached_payload, &vo).map(|_| ())), Ok(Ok(()))) {
      v.v(format!("{verify_entry}|accepted|other-document-same-ids"), format!("{what}: token {token}"));
    }
  }
  // ---- credential / presentation JWTs: through the validators, with the signing document as issuer / holder
  let mut validated = 0;
  if p.entry != 0 {
    let validator_entry = ["", "JwtCredentialValidator::validate", "JwtPresentationValidator::validate"][p.entry];
    let jwt = Jwt::new(token.clone());
    let scope_in = (1..7).find(|s| in_scope(m, *s)).expect("every method is in some scope");
    let scope_out = (1..7).find(|s| !in_scope(m, *s)).expect("every method is outside some scope");
    for pinned in [None, Some(m), Some(other)] {
      let selected = selected_by(pinned);
      for si in [0, scope_in, scope_out] {
        for nv in 0..2 {
          let mut vo = JwsVerificationOptions::new();
          if let Some(x) = pinned {
            vo = vo.method_id(method_id(kind, x));
          }
          if let Some(s) = SCOPES[si] {
            vo = vo.method_scope(s);
          }
          if let Some(n) = nonce_variants[nv] {
            vo = vo.nonce(n);
          }
          let ctx_txt = || format!("{what}: token {token}; validate with method_id {:?}, scope {:?}, nonce {:?}", vo.method_id.as_ref().map(|d| d.to_string()), SCOPES[si].map(|s| s.as_str()), vo.nonce);
          let why_not = forbidden(selected, m, si, nv == 0);
          let must = why_not.is_none() && !(pinned.is_none() && p.kid == 3);
          VALIDATIONS.fetch_add(1, Ordering::Relaxed);
          // Ok(list of (field, detail) in which the returned object differs from what was signed) / Err(rejection)
          let r: Result<Result<Vec<(&'static str, String)>, String>, vx::Panicked> = if p.entry == 1 {
            let (cred, claims) = credential(kind, p.payload);
            let opts = JwtCredentialValidationOptions::new()
              .verification_options(vo.clone())
              .latest_issuance_date(vx::fx::ts(vx::fx::NOW))
              .earliest_expiry_date(vx::fx::ts(vx::fx::NOW));
            guard(|| {
              let validator = JwtCredentialValidator::with_signature_verifier(EdDSAJwsVerifier::default());
              let d = match &side.doc {
                AnyDoc::Core(d) => validator.validate::<CoreDocument, Object>(&jwt, d, &opts, FailFast::FirstError),
                AnyDoc::Iota(d) => validator.validate::<IotaDocument, Object>(&jwt, d, &opts, FailFast::FirstError),
              }
              .map_err(|e| e.to_string())?;
              let mut diff = Vec::new();
              if d.credential != cred {
                diff.push(("credential", format!("{}", d.credential)));
              }
              if d.custom_claims.clone().unwrap_or_default() != claims.unwrap_or_default() {
                diff.push(("custom-claims", format!("{:?}", d.custom_claims)));
              }
              if header_json(Some(&d.header)) != token_header {
                diff.push(("header", header_json(Some(&d.header)).to_string()));
              }
              Ok(diff)
            })
          } else {
            let (pres, po) = presentation(kind, p.payload);
            let opts = JwtPresentationValidationOptions::new()
              .presentation_verifier_options(vo.clone())
              .latest_issuance_date(vx::fx::ts(vx::fx::NOW))
              .earliest_expiry_date(vx::fx::ts(vx::fx::NOW));
            guard(|| {
              let validator = JwtPresentationValidator::with_signature_verifier(EdDSAJwsVerifier::default());
              let d = match &side.doc {
                AnyDoc::Core(d) => validator.validate::<CoreDocument, Jwt, Object>(&jwt, d, &opts),
                AnyDoc::Iota(d) => validator.validate::<IotaDocument, Jwt, Object>(&jwt, d, &opts),
              }
              .map_err(|e| e.to_string())?;
              let mut diff = Vec::new();
              if d.presentation != pres {
                diff.push(("presentation", format!("{}", d.presentation)));
              }
              if d.aud != po.audience {
                diff.push(("aud", format!("{:?}", d.aud)));
              }
              if d.expiration_date != po.expiration_date {
                diff.push(("expiration-date", format!("{:?}", d.expiration_date)));
              }
              if d.issuance_date != po.issuance_date {
                diff.push(("issuance-date", format!("{:?}", d.issuance_date)));
              }
              if d.custom_claims.clone().unwrap_or_default() != po.custom_claims.clone().unwrap_or_default() {
                diff.push(("custom-claims", format!("{:?}", d.custom_claims)));
              }
              if header_json(Some(&d.header)) != token_header {
                diff.push(("header", header_json(Some(&d.header)).to_string()));
              }
              Ok(diff)
            })
          };
          match r {
            Err(pn) => v.v(format!("{validator_entry}|{}", pn.key()), format!("{}: {}", ctx_txt(), pn.msg)),
            Ok(Ok(diff)) => {
              validated += 1;
              if let Some(why) = why_not {
                v.v(format!("{validator_entry}|accepted|{why}"), ctx_txt());
              } else {
                for (field, got) in diff {
                  v.v(format!("{validator_entry}|accepted|returned-{field}-differs-from-signed"), format!("{}: got {got}", ctx_txt()));
                }
              }
            }
            Ok(Err(e)) => {
              if must {
                v.v(format!("{validator_entry}|rejected|own-{}-for-its-method", ["", "credential-jwt", "presentation-jwt"][p.entry]), format!("{}: {e}", ctx_txt()));
              }
            }
          }
        }
      }
    }
  }
  v.outcome = format!(
    "store:{entry_name}:signed:{shape}:kid={}:accepting-verifications={accepted}{}",
    KID[p.kid],
    if p.entry != 0 { format!(":accepting-validations={validated}") } else { String::new() }
  );
  v
}

fn store_body(ctx: &Ctx, ch: &mut Chooser) {
  let p = plan(ch);
  let v = judge_store(&p);
  let case = Case::Store { seq: ch.seq(), note: ch.labelled() };
  for (k, w) in &v.viol {
    ctx.violation(k, w, &case);
  }
  ctx.outcome(&v.outcome);
  if v.nontrivial {
    ctx.distinct(&(1u8, ch.seq()));
  }
  if ch.deviations() <= 1 {
    ctx.sample("storage", &case);
  }
}

// ================================================================== driver
fn eval(ctx: &Ctx, case: &Case) {
  ctx.eval1();
  match case {
    Case::Enc { enc, payload, recips } => {
      let v = judge_enc(*enc, *payload, recips);
      for (k, w) in &v.viol {
        ctx.violation(k, w, case);
      }
      ctx.outcome(&v.outcome);
      if v.nontrivial {
        ctx.distinct(&(0u8, enc, payload, recips));
      }
    }
    Case::Sweep { enc, b64, payload } => {
      let v = judge_enc_bytes(*enc, payload, &[(0, *b64)]);
      for (k, w) in &v.viol {
        ctx.violation(k, w, case);
      }
      ctx.outcome(&v.outcome);
      if v.nontrivial {
        ctx.distinct(&(2u8, enc, b64, payload));
      }
    }
    Case::Store { seq, .. } => store_body(ctx, &mut Chooser::replay(seq)),
  }
}

fn run_enc_part(ctx: &Ctx, part: &str, cases: &[Case]) {
  for i in [0, cases.len() / 3, 2 * cases.len() / 3, cases.len() - 1] {
    ctx.sample(part, &cases[i]);
  }
  cases.par_chunks(256).for_each(|chunk| {
    let mut hist: BTreeMap<String, u64> = BTreeMap::new();
    let mut distinct = Vec::new();
    for c in chunk {
      let (v, h) = match c {
        Case::Enc { enc, payload, recips } => (judge_enc(*enc, *payload, recips), Ctx::hash_of(&(0u8, enc, payload, recips))),
        Case::Sweep { enc, b64, payload } => (judge_enc_bytes(*enc, payload, &[(0, *b64)]), Ctx::hash_of(&(2u8, enc, b64, payload))),
        Case::Store { .. } => continue,
      };
      for (k, w) in &v.viol {
        ctx.violation(k, w, c);
      }
      // the sweep would otherwise contribute one label per encoder only: keep its histogram apart
      let label = if matches!(c, Case::Sweep { .. }) { format!("sweep:{}", v.outcome) } else { v.outcome };
      *hist.entry(label).or_insert(0) += 1;
      if v.nontrivial {
        distinct.push(h);
      }
    }
    ctx.outcomes_merge(&hist);
    ctx.distinct_many(distinct);
    ctx.add_evals(chunk.len() as u64);
  });
  let n = cases.len() as u64;
  ctx.add_states(n);
  ctx.add_transitions(n);
  ctx.add_traces(n);
  ctx.part(part, json!({"engine": "E1 full product", "cases": n}));
}

fn self_test(ctx: &Ctx) {
  ctx.require(b64url(b"\xfb\xff\xfe") == "-__-" && b64url(b"ab") == "YWI" && b64url(b"a") == "YQ", "own base64url encoder");
  ctx.require(b64url_decode("YWI") == Some(b"ab".to_vec()) && b64url_decode("-__-") == Some(vec![0xfb, 0xff, 0xfe]), "own base64url decoder");
  // RFC 7515 A.1: signing input of the example starts with the encoded header and a period
  ctx.require(formula("eyJhbGciOiJIUzI1NiJ9", true, b"hi") == b"eyJhbGciOiJIUzI1NiJ9.aGk".to_vec(), "own signing-input formula");
  ctx.require(payloads().len() == N_PAYLOADS, "payload menu size");
}

fn generate(ctx: &Ctx) {
  ctx.rule("(a) full product encoder x payload x per-recipient (header placement x b64 mode), plus the byte sweep (every byte alone / embedded, UTF-8 boundary scalars, escape look-alikes, all strings up to length 2 / 4 over a 12-byte escape-relevant alphabet) x encoder x b64 {absent, false+crit}; (b) choice DFS over (entry, method, payload / credential / presentation+options, kid, attach_jwk, b64, typ, cty, url, nonce, custom, detached), every case on a CoreDocument and on an IotaDocument, each produced token verified under the complete (method_id x scope x nonce) matrix and, for credential / presentation JWTs, through the validators. distinct_nontrivial = distinct cases in which the library actually produced a token (encoder / create_* refusals are the trivial outcome)");
  ctx.assume("Ed25519 (iota-crypto) and the EdDSA verifier crate are trusted as signature primitives; harness keys are fixed-seed, store keys are random opaque handles");
  ctx.assume("verification liveness is demanded only where `alg` is in the protected header (documented precondition of JwsValidationItem::verify) and, on the storage path, where the method is selected by options.method_id or by a kid equal to the method's full id");
  ctx.assume("encoder / create_* refusals are recorded, never judged; custom header parameters that shadow registered ones are recorded, never judged; the claims-set serialization of credentials / presentations (Credential::serialize_jwt, Presentation::serialize_jwt) is C07's subject and is used here to know the payload bytes");
  self_test(ctx);
  let thorough = ctx.thorough();

  // ---------- (a)
  let n_pay = N_PAYLOADS as u8;
  let mut single = Vec::new();
  for enc in 0..4u8 {
    for payload in 0..n_pay {
      for placement in [0u8, 4, 6, 7] {
        for b64 in 0..4u8 {
          single.push(Case::Enc { enc, payload, recips: vec![(placement, b64)] });
        }
      }
    }
  }
  for enc in 4..8u8 {
    for payload in 0..n_pay {
      for placement in 0..N_PLACEMENT {
        for b64 in 0..5u8 {
          single.push(Case::Enc { enc, payload, recips: vec![(placement, b64)] });
        }
      }
    }
  }
  run_enc_part(ctx, "encoders: one signature", &single);
  let mut sweep = Vec::new();
  let sweep_len = if thorough { 4 } else { 2 };
  for payload in sweep_payloads(sweep_len) {
    for enc in 0..8u8 {
      for b64 in [0u8, 2] {
        sweep.push(Case::Sweep { enc, b64, payload: payload.clone() });
      }
    }
  }
  run_enc_part(ctx, "encoders: byte sweep", &sweep);
  let all: Vec<(u8, u8)> = (0..N_PLACEMENT).flat_map(|p| (0..5u8).map(move |b| (p, b))).collect();
  let reduced: Vec<(u8, u8)> = [0u8, 1, 2, 3].iter().flat_map(|p| [0u8, 2].map(move |b| (*p, b))).collect();
  let mut two = Vec::new();
  for enc in 6..8u8 {
    for payload in 0..n_pay {
      for a in &all {
        for b in &all {
          two.push(Case::Enc { enc, payload, recips: vec![*a, *b] });
        }
      }
    }
  }
  run_enc_part(ctx, "encoders: general, two signatures", &two);
  drop(two);
  let mut three = Vec::new();
  let set3: &Vec<(u8, u8)> = if thorough { &all } else { &reduced };
  for enc in 6..8u8 {
    for payload in 0..n_pay {
      for a in set3 {
        for b in set3 {
          for c in set3 {
            three.push(Case::Enc { enc, payload, recips: vec![*a, *b, *c] });
          }
        }
      }
    }
  }
  run_enc_part(ctx, "encoders: general, three signatures", &three);
  drop(three);
  if thorough {
    let mut four = Vec::new();
    for enc in 6..8u8 {
      for payload in 0..n_pay {
        for a in &reduced {
          for b in &reduced {
            for c in &reduced {
              for d in &reduced {
                four.push(Case::Enc { enc, payload, recips: vec![*a, *b, *c, *d] });
              }
            }
          }
        }
      }
    }
    run_enc_part(ctx, "encoders: general, four signatures", &four);
  }
  ctx.bound("general_recipients", if thorough { 4 } else { 3 });
  ctx.bound("three_recipient_alphabet", if thorough { "all 50 (placement, b64) pairs" } else { "8 (placement, b64) pairs: placements 0-3 x b64 {absent, false+crit}" });
  ctx.bound("four_recipient_alphabet", if thorough { "8 (placement, b64) pairs: placements 0-3 x b64 {absent, false+crit}" } else { "not run" });
  if !thorough {
    ctx.cap_hit("encoders: three-signature cases use the reduced 8-pair recipient alphabet in the quick tier (one- and two-signature products are complete)");
  }

  // ---------- (b)
  let bound = if thorough { None } else { Some(4) };
  let st = choice::explore_into(ctx, "storage", bound, |ch| store_body(ctx, ch));
  ctx.part(
    "storage: verify_jws / validator calls",
    json!({"verify_jws_calls": VERIFICATIONS.load(Ordering::Relaxed), "verify_jws_per_token_and_document_kind": VERIFY_PER_TOKEN,
      "validator_calls": VALIDATIONS.load(Ordering::Relaxed), "validator_calls_per_jwt_and_document_kind": 18, "document_kinds": KIND, "cases": st.executions}),
  );
  ctx.bound("storage_deviation_bound", bound);
  ctx.bound("payload_menu", payloads().iter().map(|p| String::from_utf8_lossy(p).into_owned()).collect::<Vec<_>>());
  ctx.bound("sweep_payloads", json!({"count": sweep_payloads(sweep_len).len(), "strings_over_escape_alphabet_up_to_length": sweep_len, "alphabet_bytes": SWEEP_ALPHABET}));
  ctx.bound("credential_menu", CREDS);
  ctx.bound("presentation_menu", PRES);
  ctx.bound("placements", PLACEMENT);
  ctx.bound("b64_modes", B64MODE);
}

fn main() {
  vx::run_main::<Case, _, _>("C08", Level::ModelChecking, generate, eval)
}
