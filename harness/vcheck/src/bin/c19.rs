//! C19 — ordered-set collections keep insertion order and key uniqueness over all op sequences.
//!
//! Element types: `u8` (the key is the value; the library's own `KeyComparable for u8`), `Pair {k, p}`
//! (the key is the projection `k`, the payload `p` tells replaced/kept elements apart) and `Nest {k, m}` (an object
//! whose payload is itself a `OneOrMany<u8>` in one of three shapes: nested collections through the untagged serde).
//! (a) E2 to closure: `OrderedSet` under append / prepend / replace / update / remove / clear with every argument
//!     (replace: every (current key, update element) pair, present or not; remove / replace additionally with the
//!     key given through an ELEMENT of every payload), from start sets built by new(), Default, TryFrom<Vec>,
//!     FromIterator, serde, with_capacity + append and From<OneOrSet>; state = the REAL set (fingerprint =
//!     construction path + its Vec contents), reference = duplicate-free `Vec`.
//! (b) E1 complete: `OrderedSet` built from every vector <= n: `TryFrom<Vec>`, `FromIterator` (16 size-hint
//!     behaviours; judged in full where the hint is honest for the item count, invariants only where it lies), serde.
//! (c) E2 to closure: `OneOrSet` from every start value (new_one, From<T>, TryFrom<Vec>, new_set, serde array,
//!     TryFrom<OrderedSet> of a set shrunk by remove) under `append`.
//! (d) E1 complete: `OneOrSet` constructors (`From<T>`, `new_set` / `TryFrom<OrderedSet>` x 5 ways of building the
//!     operand, `TryFrom<Vec>`, serde arrays and scalars, malformed JSON), `map` / `try_map` with key-collapsing and
//!     failing functions on sources built by TryFrom<Vec>, serde and new_one + append.
//! (e) E1 complete: `OneOrMany` push sequences, `From<Vec>`, `FromIterator` with the same 16 hints, serde.

use identity_core::common::{KeyComparable, OneOrMany, OneOrSet, OrderedSet};
use identity_core::convert::{FromJson, ToJson};
use serde::de::DeserializeOwned;
use serde::{Deserialize, Serialize};
use std::fmt::Debug;
use std::hash::{Hash, Hasher};
use std::sync::Arc;
use vx::rayon::prelude::*;
use vx::sr::Collector;
use vx::stateright::{Model, Property};
use vx::{guard, json, Ctx, Level};

// ------------------------------------------------------------------ element types
#[derive(Clone, PartialEq, Eq, Hash, Debug, Serialize, Deserialize, PartialOrd, Ord)]
struct Pair {
  k: u8,
  p: char,
}
impl KeyComparable for Pair {
  type Key = u8;
  fn key(&self) -> &u8 {
    &self.k
  }
}
/// An object element whose payload is a nested collection. Built from the public enum variants only (no library
/// code runs in `make`). Shapes: 0 = `Many([])`, 1 = `One(k)`, 2 = `Many([k, k])`.
#[derive(Clone, PartialEq, Eq, Hash, Debug, Serialize, Deserialize)]
struct Nest {
  k: u8,
  m: OneOrMany<u8>,
}
impl KeyComparable for Nest {
  type Key = u8;
  fn key(&self) -> &u8 {
    &self.k
  }
}
/// (key, payload) code of an element; `u8` elements have payload 0.
type Code = (u8, u8);
trait Elem: KeyComparable<Key = u8> + Clone + Eq + Hash + Debug + Serialize + DeserializeOwned + Send + Sync + 'static {
  const NAME: &'static str;
  fn make(c: Code) -> Self;
  fn enc(&self) -> Code;
}
impl Elem for u8 {
  const NAME: &'static str = "u8";
  fn make(c: Code) -> u8 {
    c.0
  }
  fn enc(&self) -> Code {
    (*self, 0)
  }
}
impl Elem for Pair {
  const NAME: &'static str = "Pair";
  fn make(c: Code) -> Pair {
    Pair { k: c.0, p: (b'a' + c.1) as char }
  }
  fn enc(&self) -> Code {
    (self.k, self.p as u8 - b'a')
  }
}
impl Elem for Nest {
  const NAME: &'static str = "Nest";
  fn make(c: Code) -> Nest {
    let m = match c.1 {
      0 => OneOrMany::Many(vec![]),
      1 => OneOrMany::One(c.0),
      _ => OneOrMany::Many(vec![c.0, c.0]),
    };
    Nest { k: c.0, m }
  }
  fn enc(&self) -> Code {
    let p = match &self.m {
      OneOrMany::Many(v) if v.is_empty() => 0,
      OneOrMany::One(_) => 1,
      OneOrMany::Many(_) => 2,
    };
    (self.k, p)
  }
}
/// Run `$body` with the type alias `$E` bound to the element type number `$ty`.
macro_rules! with_elem {
  ($ty:expr, $E:ident => $body:expr) => {
    match $ty {
      0 => {
        type $E = u8;
        $body
      }
      1 => {
        type $E = Pair;
        $body
      }
      _ => {
        type $E = Nest;
        $body
      }
    }
  };
}
fn ty_name(ty: u8) -> &'static str {
  with_elem!(ty, E => E::NAME)
}
/// The element codes are faithful for these elements (a deserialised foreign element may lie outside the universe).
fn faithful<E: Elem>(v: &[E]) -> bool {
  v.iter().all(|e| E::make(e.enc()) == *e)
}
fn universe(ty: u8, nk: u8, np: u8) -> Vec<Code> {
  let np = if ty == 0 { 1 } else { np };
  (0..nk).flat_map(|k| (0..np).map(move |p| (k, p))).collect()
}
fn mk<E: Elem>(items: &[Code]) -> Vec<E> {
  items.iter().map(|c| E::make(*c)).collect()
}
fn codes<E: Elem>(v: &[E]) -> Vec<Code> {
  v.iter().map(|e| e.enc()).collect()
}
fn has_key(v: &[Code], k: u8) -> bool {
  v.iter().any(|c| c.0 == k)
}
fn unique(v: &[Code]) -> bool {
  (0..v.len()).all(|i| !has_key(&v[..i], v[i].0))
}
fn first_occurrences(v: &[Code]) -> Vec<Code> {
  let mut out: Vec<Code> = Vec::new();
  for c in v {
    if !has_key(&out, c.0) {
      out.push(*c);
    }
  }
  out
}
/// All vectors of length <= n over the alphabet.
fn vectors(alpha: &[Code], n: usize) -> Vec<Vec<Code>> {
  let mut all = vec![vec![]];
  let mut layer: Vec<Vec<Code>> = vec![vec![]];
  for _ in 0..n {
    let mut next = Vec::new();
    for v in &layer {
      for a in alpha {
        let mut w = v.clone();
        w.push(*a);
        next.push(w);
      }
    }
    all.extend(next.iter().cloned());
    layer = next;
  }
  all
}
fn ejson<E: Elem>(c: Code) -> String {
  serde_json::to_string(&E::make(c)).expect("element json")
}
fn vjson<E: Elem>(v: &[Code]) -> String {
  serde_json::to_string(&mk::<E>(v)).expect("vector json")
}

// ------------------------------------------------------------------ cases
#[derive(Serialize, Deserialize, Debug, Clone, Copy, PartialEq, Eq, Hash)]
enum Op {
  Append(u8, u8),
  Prepend(u8, u8),
  /// replace(current key, update element)
  Replace(u8, u8, u8),
  Update(u8, u8),
  Remove(u8),
  Clear,
}
#[derive(Serialize, Deserialize, Debug, Clone, Copy, PartialEq, Eq, Hash)]
enum Target {
  Set,
  OneOrSet,
  OneOrMany,
}
#[derive(Serialize, Deserialize, Debug, Clone, Copy, PartialEq, Eq, Hash)]
enum Via {
  /// `TryFrom<Vec<T>>` (Set, OneOrSet) / `From<Vec<T>>` (OneOrMany)
  FromVec,
  /// `FromIterator` with size-hint behaviour `HINTS[id]` (Set, OneOrMany)
  Collect(u8),
  /// serde: the JSON array of the items
  Json,
  /// OneOrSet::new_set / TryFrom<OrderedSet> (items duplicate-free); the operand is built through `OPERANDS[id]`
  NewSet(u8),
  TryFromSet(u8),
  /// OneOrSet: `From<T>` (exactly one item)
  FromOne,
}
#[derive(Serialize, Deserialize, Debug, Clone, Copy, PartialEq, Eq, Hash)]
enum Fail {
  Never,
  OnKey(u8),
  OnCall(u8),
}
#[derive(Serialize, Deserialize, Debug, Clone, PartialEq, Eq, Hash)]
enum Start {
  Default,
  One(u8, u8),
  /// the public enum variant `OneOrMany::Many(vec)` written directly (not a constructor)
  RawMany(Vec<Code>),
}
#[derive(Serialize, Deserialize, Debug, Clone, PartialEq)]
enum Case {
  /// (a) ty: 0 = u8, 1 = Pair; the start set is built from `init` through `ORIGINS[origin]`, then `ops` are applied
  SetHist { ty: u8, nk: u8, np: u8, origin: u8, init: Vec<Code>, ops: Vec<Op> },
  /// (c) the start value is built from `init` through `OOS_ORIGINS[origin]`, then `ops` are appended
  OosHist { ty: u8, nk: u8, np: u8, origin: u8, init: Vec<Code>, ops: Vec<Code> },
  /// (b),(d),(e)
  Build { target: Target, ty: u8, via: Via, items: Vec<Code> },
  JsonRaw { target: Target, ty: u8, json: String },
  /// (d) OneOrSet built from `items` (duplicate-free, non-empty) through `MAP_SOURCES[src]`, mapped with function `f`
  Map { ty: u8, src: u8, items: Vec<Code>, f: u8, fail: Fail },
  /// (e)
  Push { ty: u8, start: Start, ops: Vec<Code> },
}

// ------------------------------------------------------------------ (a) OrderedSet histories
enum Want {
  Exact(bool, Vec<Code>),
  /// documentation leaves the outcome open: either refused (false, unchanged) or `x` present once with the
  /// other surviving elements (`rest`) in their old relative order
  Open { rest: Vec<Code>, x: Code },
}
/// The documented semantics on a duplicate-free list. Returns (pre-state class, expectation).
fn model_apply(v: &[Code], op: Op) -> (&'static str, Want) {
  let pos = |k: u8| v.iter().position(|c| c.0 == k);
  match op {
    Op::Append(k, p) => match pos(k) {
      Some(_) => ("key-present", Want::Exact(false, v.to_vec())),
      None => {
        let mut w = v.to_vec();
        w.push((k, p));
        ("key-absent", Want::Exact(true, w))
      }
    },
    Op::Prepend(k, p) => match pos(k) {
      Some(_) => ("key-present", Want::Exact(false, v.to_vec())),
      None => {
        let mut w = v.to_vec();
        w.insert(0, (k, p));
        ("key-absent", Want::Exact(true, w))
      }
    },
    Op::Update(k, p) => match pos(k) {
      Some(i) => {
        let mut w = v.to_vec();
        w[i] = (k, p);
        ("key-present", Want::Exact(true, w))
      }
      None => ("key-absent", Want::Exact(false, v.to_vec())),
    },
    Op::Remove(k) => match pos(k) {
      Some(i) => {
        let mut w = v.to_vec();
        w.remove(i);
        ("key-present", Want::Exact(true, w))
      }
      None => ("key-absent", Want::Exact(false, v.to_vec())),
    },
    Op::Clear => (if v.is_empty() { "empty" } else { "non-empty" }, Want::Exact(true, vec![])),
    Op::Replace(cur, k, p) => match (pos(cur), pos(k)) {
      (None, None) => ("current-absent,update-key-absent", Want::Exact(false, v.to_vec())),
      (Some(i), None) => {
        let mut w = v.to_vec();
        w[i] = (k, p);
        ("current-present,update-key-free", Want::Exact(true, w))
      }
      (Some(i), Some(j)) if i == j => {
        let mut w = v.to_vec();
        w[i] = (k, p);
        ("current-present,update-key-same", Want::Exact(true, w))
      }
      (Some(i), Some(j)) => {
        let rest = v.iter().enumerate().filter(|(n, _)| *n != i && *n != j).map(|(_, c)| *c).collect();
        ("current-present,update-key-elsewhere", Want::Open { rest, x: (k, p) })
      }
      (None, Some(j)) => {
        let rest = v.iter().enumerate().filter(|(n, _)| *n != j).map(|(_, c)| *c).collect();
        ("current-absent,update-key-present", Want::Open { rest, x: (k, p) })
      }
    },
  }
}
fn op_name(op: Op) -> &'static str {
  match op {
    Op::Append(..) => "append",
    Op::Prepend(..) => "prepend",
    Op::Replace(..) => "replace",
    Op::Update(..) => "update",
    Op::Remove(..) => "remove",
    Op::Clear => "clear",
  }
}
/// Apply to the real set; returns (flag, removed element for `remove`).
fn real_apply<E: Elem>(set: &mut OrderedSet<E>, op: Op) -> Result<(bool, Option<Code>), vx::Panicked> {
  guard(|| match op {
    Op::Append(k, p) => (set.append(E::make((k, p))), None),
    Op::Prepend(k, p) => (set.prepend(E::make((k, p))), None),
    Op::Replace(cur, k, p) => (set.replace(&cur, E::make((k, p))), None),
    Op::Update(k, p) => (set.update(E::make((k, p))), None),
    Op::Remove(k) => {
      let r = set.remove(&k);
      (r.is_some(), r.map(|e| e.enc()))
    }
    Op::Clear => {
      set.clear();
      (true, None)
    }
  })
}
/// `remove` / `replace` take the key through any `U: KeyComparable<Key = T::Key>`: the same operation with the key
/// given through an ELEMENT with payload `p` instead of the bare key. `None` for the other ops.
fn real_apply_by_element<E: Elem>(set: &mut OrderedSet<E>, op: Op, p: u8) -> Option<Result<(bool, Option<Code>), vx::Panicked>> {
  match op {
    Op::Replace(cur, k, q) => Some(guard(|| (set.replace(&E::make((cur, p)), E::make((k, q))), None))),
    Op::Remove(k) => Some(guard(|| {
      let r = set.remove(&E::make((k, p)));
      (r.is_some(), r.map(|e| e.enc()))
    })),
    _ => None,
  }
}
/// Every read-only observer of the set against the model list; returns (key, what) discrepancies.
fn observe_set<E: Elem>(set: &OrderedSet<E>, m: &[Code], nk: u8) -> Vec<(String, String)> {
  let mut d = Vec::new();
  let mut bad = |obs: &str, what: String| d.push((format!("OrderedSet::{obs}|inconsistent-with-contents"), what));
  let want: Vec<E> = mk(m);
  if set.len() != m.len() {
    bad("len", format!("{} for {m:?}", set.len()));
  }
  if set.is_empty() != m.is_empty() {
    bad("is_empty", format!("{} for {m:?}", set.is_empty()));
  }
  if set.head() != want.first() || set.tail() != want.last() {
    bad("head/tail", format!("{:?}/{:?} for {m:?}", set.head(), set.tail()));
  }
  if set.iter().cloned().collect::<Vec<E>>() != want || set[..] != want[..] || set.clone().into_vec() != want || set.clone().into_iter().collect::<Vec<E>>() != want {
    bad("iter/deref/into_vec/into_iter", format!("{m:?}"));
  }
  // the `_mut` accessors, used read-only on a copy
  {
    let mut c = set.clone();
    if c.head_mut().map(|e| e.clone()) != want.first().cloned() || c.tail_mut().map(|e| e.clone()) != want.last().cloned() {
      bad("head_mut/tail_mut", format!("{m:?}"));
    }
    if c.iter_mut_unchecked().map(|e| e.clone()).collect::<Vec<E>>() != want {
      bad("iter_mut_unchecked", format!("{m:?}"));
    }
  }
  for k in 0..=nk {
    if set.contains(&k) != has_key(m, k) {
      bad("contains", format!("contains(&{k}) = {} for {m:?}", set.contains(&k)));
    }
    // the key given through an element, whatever its payload
    for p in 0..2 {
      let probe = E::make((k, p));
      if set.contains(&probe) != has_key(m, k) {
        bad("contains", format!("contains(&element {probe:?}) = {} for {m:?}", set.contains(&probe)));
      }
    }
  }
  if set.clone() != *set {
    bad("clone", format!("{m:?}"));
  }
  if !unique(m) {
    d.push(("OrderedSet|duplicate-keys".to_string(), format!("{m:?}")));
  }
  match set.to_json() {
    Ok(js) => {
      if !same_json(&js, &vjson::<E>(m)) {
        d.push(("OrderedSet::serialize|not-the-list-of-elements".into(), format!("{js} for {m:?}")));
      }
      match OrderedSet::<E>::from_json(&js) {
        Ok(back) if back == *set => {}
        other => d.push(("OrderedSet::from_json(to_json)|not-identity".into(), format!("{js} -> {other:?}"))),
      }
    }
    Err(e) => d.push(("OrderedSet::serialize|failed".into(), format!("{e}"))),
  }
  // the same through the other serde_json front end (a `Value` instead of text)
  match serde_json::to_value(set).map(|v| (v.clone(), serde_json::from_value::<OrderedSet<E>>(v))) {
    Ok((_, Ok(back))) if back == *set => {}
    other => d.push(("OrderedSet::from_value(to_value)|not-identity".into(), format!("{m:?} -> {other:?}"))),
  }
  d
}
/// Two JSON texts denote the same value (independent of white space).
fn same_json(a: &str, b: &str) -> bool {
  match (serde_json::from_str::<serde_json::Value>(a), serde_json::from_str::<serde_json::Value>(b)) {
    (Ok(x), Ok(y)) => x == y,
    _ => false,
  }
}

#[derive(Clone, Debug)]
struct SetState<E: Elem> {
  set: OrderedSet<E>,
  /// how the start set of this history was constructed (index into ORIGINS); part of the fingerprint so that
  /// every op x argument is applied from every reachable state of EVERY construction path
  origin: u8,
  init: Vec<Code>,
  model: Vec<Code>,
  hist: Vec<Op>,
}
impl<E: Elem> PartialEq for SetState<E> {
  fn eq(&self, o: &Self) -> bool {
    self.origin == o.origin && self.set == o.set
  }
}
impl<E: Elem> Eq for SetState<E> {}
impl<E: Elem> Hash for SetState<E> {
  fn hash<H: Hasher>(&self, h: &mut H) {
    self.origin.hash(h);
    self.set.hash(h) // fingerprint = the REAL set's Vec contents
  }
}
/// Construction paths of the start sets. 0 and 6: only the empty set; 5: every non-empty duplicate-free list; the
/// others: every duplicate-free list of the universe.
const ORIGINS: [&str; 7] = [
  "OrderedSet::new()",
  "TryFrom<Vec>",
  "FromIterator of the list followed by the list again",
  "serde from the JSON array",
  "with_capacity(len) + append of every item",
  "OrderedSet::from(OneOrSet::try_from(Vec))",
  "Default::default()",
];
fn origin_takes(origin: u8, init: &[Code]) -> bool {
  match origin {
    0 | 6 => init.is_empty(),
    5 => !init.is_empty(),
    _ => true,
  }
}
fn set_from_origin<E: Elem>(origin: u8, init: &[Code]) -> Option<OrderedSet<E>> {
  guard(|| match origin {
    0 => Some(OrderedSet::new()),
    1 => OrderedSet::try_from(mk::<E>(init)).ok(),
    2 => Some(init.iter().chain(init.iter()).map(|c| E::make(*c)).collect::<OrderedSet<E>>()),
    3 => OrderedSet::<E>::from_json(&vjson::<E>(init)).ok(),
    4 => {
      let mut s = OrderedSet::with_capacity(init.len());
      for c in init {
        s.append(E::make(*c));
      }
      Some(s)
    }
    5 => OneOrSet::try_from(mk::<E>(init)).ok().map(OrderedSet::from),
    _ => Some(OrderedSet::default()),
  })
  .ok()
  .flatten()
}
/// All duplicate-free lists over the universe.
fn dupfree_lists(ty: u8, nk: u8, np: u8) -> Vec<Vec<Code>> {
  let alpha = universe(ty, nk, np);
  let mut all: Vec<Vec<Code>> = vec![vec![]];
  let mut layer: Vec<Vec<Code>> = vec![vec![]];
  for _ in 0..nk {
    let mut next = Vec::new();
    for v in &layer {
      for a in &alpha {
        if !has_key(v, a.0) {
          let mut w = v.clone();
          w.push(*a);
          next.push(w);
        }
      }
    }
    all.extend(next.iter().cloned());
    layer = next;
  }
  all
}
struct SetModel<E: Elem> {
  ty: u8,
  nk: u8,
  np: u8,
  /// (origin, list) of every start set
  inits: Vec<(u8, Vec<Code>)>,
  col: Arc<Collector>,
  _e: std::marker::PhantomData<E>,
}
impl<E: Elem> SetModel<E> {
  fn new(ty: u8, nk: u8, np: u8, col: Arc<Collector>) -> Self {
    let mut inits = Vec::new();
    for origin in 0..ORIGINS.len() as u8 {
      inits.extend(dupfree_lists(ty, nk, np).into_iter().filter(|l| origin_takes(origin, l)).map(|l| (origin, l)));
    }
    SetModel { ty, nk, np, inits, col, _e: std::marker::PhantomData }
  }
  fn single(ty: u8, nk: u8, np: u8, origin: u8, init: Vec<Code>, col: Arc<Collector>) -> Self {
    SetModel { ty, nk, np, inits: vec![(origin, init)], col, _e: std::marker::PhantomData }
  }
}
impl<E: Elem> Model for SetModel<E> {
  type State = SetState<E>;
  type Action = Op;
  fn init_states(&self) -> Vec<SetState<E>> {
    // a start set that cannot be built, or whose contents are not the list, is judged by part (b); it is left out here
    self
      .inits
      .iter()
      .filter_map(|(origin, init)| {
        let set = set_from_origin::<E>(*origin, init)?;
        (guard(|| codes(set.as_slice())).ok()? == *init).then(|| SetState { set, origin: *origin, init: init.clone(), model: init.clone(), hist: vec![] })
      })
      .collect()
  }
  fn actions(&self, _s: &SetState<E>, out: &mut Vec<Op>) {
    let u = universe(self.ty, self.nk, self.np);
    for &(k, p) in &u {
      out.push(Op::Append(k, p));
      out.push(Op::Prepend(k, p));
      out.push(Op::Update(k, p));
      for cur in 0..self.nk {
        out.push(Op::Replace(cur, k, p));
      }
    }
    for k in 0..self.nk {
      out.push(Op::Remove(k));
    }
    out.push(Op::Clear);
  }
  fn next_state(&self, s: &SetState<E>, op: Op) -> Option<SetState<E>> {
    self.col.eval1();
    let mut n = s.clone();
    n.hist.push(op);
    let case = Case::SetHist { ty: self.ty, nk: self.nk, np: self.np, origin: s.origin, init: s.init.clone(), ops: n.hist.clone() };
    let name = op_name(op);
    let (class, want) = model_apply(&s.model, op);
    let (flag, removed) = match real_apply(&mut n.set, op) {
      Ok(r) => r,
      Err(p) => {
        self.col.violation(&format!("OrderedSet::{name}|{}", p.key()), &format!("{op:?} on {:?}: {}", s.model, p.msg), &case);
        return None;
      }
    };
    let got = match guard(|| codes(n.set.as_slice())) {
      Ok(g) => g,
      Err(p) => {
        self.col.violation(&format!("OrderedSet::as_slice|{}", p.key()), &p.msg, &case);
        return None;
      }
    };
    // the key given through an element (of every payload) instead of the bare key: same flag, same list, same return
    if self.ty != 0 {
      for p in 0..self.np {
        let mut alt = s.set.clone();
        let Some(r) = real_apply_by_element(&mut alt, op, p) else { break };
        match r.and_then(|fr| guard(|| (fr, codes(alt.as_slice())))) {
          Ok((fr, list)) => {
            if fr != (flag, removed) || list != got {
              self.col.violation(
                &format!("OrderedSet::{name}|key-given-through-an-element-differs-from-bare-key"),
                &format!("{}: {op:?} on {:?}: by key -> {:?}, {got:?}; by element with payload {p} -> {fr:?}, {list:?}", E::NAME, s.model, (flag, removed)),
                &case,
              );
              return None;
            }
          }
          Err(pn) => {
            self.col.violation(&format!("OrderedSet::{name}|{}", pn.key()), &format!("{op:?} (key through an element) on {:?}: {}", s.model, pn.msg), &case);
            return None;
          }
        }
      }
    }
    let say = |exp: &str| format!("{} (start built by {}): {op:?} on {:?} -> flag {flag}, list {got:?}; {exp}", E::NAME, ORIGINS[s.origin as usize], s.model);
    match want {
      Want::Exact(wflag, wlist) => {
        if flag != wflag {
          self.col.violation(&format!("OrderedSet::{name}|flag-differs-from-model|{class}"), &say(&format!("model flag {wflag}, list {wlist:?}")), &case);
          return None;
        }
        if got != wlist {
          self.col.violation(&format!("OrderedSet::{name}|list-differs-from-model|{class}"), &say(&format!("model list {wlist:?}")), &case);
          return None;
        }
        if let Op::Remove(k) = op {
          let was = s.model.iter().find(|c| c.0 == k).copied();
          if removed != was {
            self.col.violation(&format!("OrderedSet::remove|returned-element-differs|{class}"), &say(&format!("returned {removed:?}, model {was:?}")), &case);
            return None;
          }
        }
        n.model = wlist;
      }
      Want::Open { rest, x } => {
        let ok = if flag {
          let without: Vec<Code> = got.iter().filter(|c| c.0 != x.0).copied().collect();
          unique(&got) && got.iter().filter(|c| **c == x).count() == 1 && without == rest
        } else {
          got == s.model
        };
        if !ok {
          let clause = if !unique(&got) {
            "duplicate-keys"
          } else if !flag {
            "false-but-list-changed"
          } else {
            "true-but-update-missing-or-others-disturbed"
          };
          self.col.violation(&format!("OrderedSet::{name}|{clause}|{class}"), &say(&format!("allowed: refused, or {x:?} once among {rest:?} in that order")), &case);
          return None;
        }
        n.model = got.clone();
      }
    }
    match guard(|| observe_set(&n.set, &n.model, self.nk)) {
      Ok(d) => {
        for (k, w) in &d {
          self.col.violation(k, &format!("{} after {:?}: {w}", E::NAME, n.hist), &case);
        }
        if !d.is_empty() {
          return None;
        }
      }
      Err(p) => {
        self.col.violation(&format!("OrderedSet::observers|{}", p.key()), &p.msg, &case);
        return None;
      }
    }
    self.col.outcome(&format!("set:{name}:{class}:{flag}"));
    self.col.sample(&case);
    Some(n)
  }
  fn properties(&self) -> Vec<Property<Self>> {
    vec![Property::always("violations are collected on the side", |_, _| true)]
  }
}

// ------------------------------------------------------------------ OneOrSet / OneOrMany observers
/// `built`: the value was produced by a constructor / mutator (then a singleton must serialise as a bare value).
fn observe_oos<E: Elem>(v: &OneOrSet<E>, m: &[Code], nk: u8, built: bool) -> Vec<(String, String)> {
  let mut d = Vec::new();
  let want: Vec<E> = mk(m);
  if m.is_empty() || v.len() == 0 || v.as_slice().is_empty() {
    d.push(("OneOrSet|empty".to_string(), format!("len {} contents {m:?}", v.len())));
  }
  if !unique(m) {
    d.push(("OneOrSet|duplicate-keys".to_string(), format!("{m:?}")));
  }
  let mut bad = |obs: &str, what: String| d.push((format!("OneOrSet::{obs}|inconsistent-with-contents"), what));
  if v.len() != m.len() {
    bad("len", format!("{} for {m:?}", v.len()));
  }
  for i in 0..=m.len() {
    if v.get(i) != want.get(i) {
      bad("get", format!("get({i}) = {:?} for {m:?}", v.get(i)));
    }
  }
  if v.iter().cloned().collect::<Vec<E>>() != want || v[..] != want[..] || v.clone().into_vec() != want || Vec::<E>::from(v.clone()) != want || AsRef::<[E]>::as_ref(v) != &want[..] {
    bad("iter/deref/into_vec/as_ref", format!("{m:?}"));
  }
  if OrderedSet::<E>::from(v.clone()).as_slice() != &want[..] {
    bad("into OrderedSet", format!("{m:?}"));
  }
  for k in 0..=nk {
    if v.contains(&k) != has_key(m, k) {
      bad("contains", format!("contains(&{k}) = {} for {m:?}", v.contains(&k)));
    }
    for p in 0..2 {
      let probe = E::make((k, p));
      if v.contains(&probe) != has_key(m, k) {
        bad("contains", format!("contains(&element {probe:?}) = {} for {m:?}", v.contains(&probe)));
      }
    }
  }
  if v.clone() != *v {
    bad("clone", format!("{m:?}"));
  }
  match v.to_json() {
    Ok(js) => {
      if built && m.len() == 1 && !same_json(&js, &ejson::<E>(m[0])) {
        d.push(("OneOrSet::serialize|singleton-not-bare-value".into(), format!("{js} for {m:?}")));
      }
      if m.len() > 1 && !same_json(&js, &vjson::<E>(m)) {
        d.push(("OneOrSet::serialize|not-the-list-of-elements".into(), format!("{js} for {m:?}")));
      }
      match OneOrSet::<E>::from_json(&js) {
        Ok(back) if back == *v => {}
        other => d.push(("OneOrSet::from_json(to_json)|not-identity".into(), format!("{js} -> {other:?}"))),
      }
    }
    Err(e) => d.push(("OneOrSet::serialize|failed".into(), format!("{e}"))),
  }
  match serde_json::to_value(v).map(|j| serde_json::from_value::<OneOrSet<E>>(j)) {
    Ok(Ok(back)) if back == *v => {}
    other => d.push(("OneOrSet::from_value(to_value)|not-identity".into(), format!("{m:?} -> {other:?}"))),
  }
  d
}
fn observe_oom<E: Elem>(v: &OneOrMany<E>, m: &[Code], built: bool) -> Vec<(String, String)> {
  let mut d = Vec::new();
  let want: Vec<E> = mk(m);
  let mut bad = |obs: &str, what: String| d.push((format!("OneOrMany::{obs}|inconsistent-with-contents"), what));
  if v.len() != m.len() || v.is_empty() != m.is_empty() {
    bad("len/is_empty", format!("{} / {} for {m:?}", v.len(), v.is_empty()));
  }
  for i in 0..=m.len() {
    if v.get(i) != want.get(i) || v.clone().get_mut(i).map(|e| e.clone()) != want.get(i).cloned() {
      bad("get/get_mut", format!("get({i}) = {:?} for {m:?}", v.get(i)));
    }
  }
  if v.iter().cloned().collect::<Vec<E>>() != want
    || v[..] != want[..]
    || v.as_slice() != &want[..]
    || v.clone().into_vec() != want
    || Vec::<E>::from(v.clone()) != want
    || v.clone().into_iter().collect::<Vec<E>>() != want
  {
    bad("iter/deref/into_vec/into_iter", format!("{m:?}"));
  }
  if AsRef::<[E]>::as_ref(v) != &want[..] || v.clone() != *v {
    bad("as_ref/clone", format!("{m:?}"));
  }
  for c in [(0, 0), (1, 0), (2, 0), (0, 1), (1, 1), (0, 2), (9, 0)] {
    let probe = E::make(c);
    if v.contains(&probe) != want.contains(&probe) {
      bad("contains", format!("contains({probe:?}) for {m:?}"));
    }
  }
  match serde_json::to_value(v).map(|j| serde_json::from_value::<OneOrMany<E>>(j)) {
    Ok(Ok(back)) if back == *v => {}
    other => d.push(("OneOrMany::from_value(to_value)|not-identity".into(), format!("{m:?} -> {other:?}"))),
  }
  match v.to_json() {
    Ok(js) => {
      if built && m.len() == 1 && !same_json(&js, &ejson::<E>(m[0])) {
        d.push(("OneOrMany::serialize|singleton-not-bare-value".into(), format!("{js} for {m:?}")));
      }
      if m.len() != 1 && !same_json(&js, &vjson::<E>(m)) {
        d.push(("OneOrMany::serialize|not-the-list-of-elements".into(), format!("{js} for {m:?}")));
      }
      match OneOrMany::<E>::from_json(&js) {
        Ok(back) if back == *v => {}
        other => d.push(("OneOrMany::from_json(to_json)|not-identity".into(), format!("{js} -> {other:?}"))),
      }
    }
    Err(e) => d.push(("OneOrMany::serialize|failed".into(), format!("{e}"))),
  }
  d
}

// ------------------------------------------------------------------ (c) OneOrSet append histories
#[derive(Clone, Debug)]
struct OosState<E: Elem> {
  v: OneOrSet<E>,
  origin: u8,
  init: Vec<Code>,
  model: Vec<Code>,
  hist: Vec<Code>,
}
impl<E: Elem> PartialEq for OosState<E> {
  fn eq(&self, o: &Self) -> bool {
    self.origin == o.origin && self.v == o.v
  }
}
impl<E: Elem> Eq for OosState<E> {}
impl<E: Elem> Hash for OosState<E> {
  fn hash<H: Hasher>(&self, h: &mut H) {
    self.origin.hash(h);
    self.v.hash(h) // the REAL value (variant + contents)
  }
}
/// Construction paths of the start values. 0 and 4: singletons only; the others: every non-empty duplicate-free list.
const OOS_ORIGINS: [&str; 6] =
  ["new_one", "TryFrom<Vec>", "new_set(FromIterator)", "serde from the JSON array", "From<T>", "TryFrom<OrderedSet> of a set with one more element appended, then removed"];
/// A key outside every universe.
const EXTRA: Code = (200, 0);
fn oos_from_origin<E: Elem>(origin: u8, init: &[Code]) -> Option<OneOrSet<E>> {
  guard(|| match origin {
    0 => (init.len() == 1).then(|| OneOrSet::new_one(E::make(init[0]))),
    1 => OneOrSet::try_from(mk::<E>(init)).ok(),
    2 => OneOrSet::new_set(mk::<E>(init).into_iter().collect()).ok(),
    3 => OneOrSet::<E>::from_json(&vjson::<E>(init)).ok(),
    4 => (init.len() == 1).then(|| OneOrSet::from(E::make(init[0]))),
    _ => operand_set::<E>(3, init).and_then(|s| OneOrSet::try_from(s).ok()),
  })
  .ok()
  .flatten()
}
/// The ways the `OrderedSet` operand of `new_set` / `TryFrom<OrderedSet>` is built from a duplicate-free list.
const OPERANDS: [&str; 5] = ["TryFrom<Vec>", "FromIterator", "new() + prepend in reverse order", "TryFrom<Vec> of the list and one more element, which is then removed", "serde from the JSON array"];
fn operand_set<E: Elem>(id: u8, items: &[Code]) -> Option<OrderedSet<E>> {
  let set = match id {
    0 => OrderedSet::try_from(mk::<E>(items)).ok()?,
    1 => mk::<E>(items).into_iter().collect(),
    2 => {
      let mut s = OrderedSet::new();
      for c in items.iter().rev() {
        s.prepend(E::make(*c));
      }
      s
    }
    3 => {
      let mut longer = items.to_vec();
      longer.push(EXTRA);
      let mut s = OrderedSet::try_from(mk::<E>(&longer)).ok()?;
      s.remove(&EXTRA.0)?;
      s
    }
    _ => OrderedSet::<E>::from_json(&vjson::<E>(items)).ok()?,
  };
  // an operand that does not hold the list is a defect of OrderedSet, judged in parts (a) / (b)
  (codes(set.as_slice()) == items).then_some(set)
}
struct OosModel<E: Elem> {
  ty: u8,
  nk: u8,
  np: u8,
  inits: Vec<(u8, Vec<Code>)>,
  col: Arc<Collector>,
  _e: std::marker::PhantomData<E>,
}
impl<E: Elem> OosModel<E> {
  fn new(ty: u8, nk: u8, np: u8, col: Arc<Collector>) -> Self {
    let lists: Vec<Vec<Code>> = dupfree_lists(ty, nk, np).into_iter().filter(|l| !l.is_empty()).collect();
    let mut inits: Vec<(u8, Vec<Code>)> = Vec::new();
    for origin in 0..OOS_ORIGINS.len() as u8 {
      inits.extend(lists.iter().filter(|l| l.len() == 1 || !matches!(origin, 0 | 4)).map(|l| (origin, l.clone())));
    }
    OosModel { ty, nk, np, inits, col, _e: std::marker::PhantomData }
  }
  fn single(ty: u8, nk: u8, np: u8, origin: u8, init: Vec<Code>, col: Arc<Collector>) -> Self {
    OosModel { ty, nk, np, inits: vec![(origin, init)], col, _e: std::marker::PhantomData }
  }
  fn check(&self, st: &OosState<E>, case: &Case) -> bool {
    // a value deserialised from a one-element array is not constructor-built: the bare-value clause is not applied to it
    // (while it still has one element, i.e. also after refused appends)
    let built = !(st.origin == 3 && st.init.len() == 1);
    match guard(|| observe_oos(&st.v, &st.model, self.nk, built)) {
      Ok(d) => {
        for (k, w) in &d {
          self.col.violation(k, &format!("{} {}({:?}) + append {:?}: {w}", E::NAME, OOS_ORIGINS[st.origin as usize], st.init, st.hist), case);
        }
        d.is_empty()
      }
      Err(p) => {
        self.col.violation(&format!("OneOrSet::observers|{}", p.key()), &p.msg, case);
        false
      }
    }
  }
}
impl<E: Elem> Model for OosModel<E> {
  type State = OosState<E>;
  type Action = Code;
  fn init_states(&self) -> Vec<OosState<E>> {
    // start values that cannot be built or do not hold the list are judged by part (d)
    self
      .inits
      .iter()
      .filter_map(|(origin, init)| {
        let v = oos_from_origin::<E>(*origin, init)?;
        if guard(|| codes(v.as_slice())).ok()? != *init {
          return None;
        }
        let st = OosState { v, origin: *origin, init: init.clone(), model: init.clone(), hist: vec![] };
        let case = Case::OosHist { ty: self.ty, nk: self.nk, np: self.np, origin: *origin, init: init.clone(), ops: vec![] };
        self.check(&st, &case).then_some(st)
      })
      .collect()
  }
  fn actions(&self, _s: &OosState<E>, out: &mut Vec<Code>) {
    out.extend(universe(self.ty, self.nk, self.np));
  }
  fn next_state(&self, s: &OosState<E>, c: Code) -> Option<OosState<E>> {
    self.col.eval1();
    let mut n = s.clone();
    n.hist.push(c);
    let case = Case::OosHist { ty: self.ty, nk: self.nk, np: self.np, origin: s.origin, init: s.init.clone(), ops: n.hist.clone() };
    let present = has_key(&s.model, c.0);
    let class = if present { "key-present" } else { "key-absent" };
    let flag = match guard(|| n.v.append(E::make(c))) {
      Ok(f) => f,
      Err(p) => {
        self.col.violation(&format!("OneOrSet::append|{}", p.key()), &format!("append {c:?} to {:?}: {}", s.model, p.msg), &case);
        return None;
      }
    };
    if !present {
      n.model.push(c);
    }
    let got = match guard(|| codes(n.v.as_slice())) {
      Ok(g) => g,
      Err(p) => {
        self.col.violation(&format!("OneOrSet::as_slice|{}", p.key()), &p.msg, &case);
        return None;
      }
    };
    if flag == present {
      self.col.violation(&format!("OneOrSet::append|flag-differs-from-model|{class}"), &format!("{}: append {c:?} to {:?} returned {flag}", E::NAME, s.model), &case);
      return None;
    }
    if got != n.model {
      self.col.violation(
        &format!("OneOrSet::append|list-differs-from-model|{class}"),
        &format!("{}: append {c:?} to {:?} gives {got:?}, model {:?}", E::NAME, s.model, n.model),
        &case,
      );
      return None;
    }
    if !self.check(&n, &case) {
      return None;
    }
    self.col.outcome(&format!("oneorset:append:{class}:{flag}"));
    self.col.sample(&case);
    Some(n)
  }
  fn properties(&self) -> Vec<Property<Self>> {
    vec![Property::always("violations are collected on the side", |_, _| true)]
  }
}

// ------------------------------------------------------------------ size hints for FromIterator
/// Size-hint behaviours of the iterator handed to `FromIterator`. `r` = items still to come, `n` = items in total.
/// A behaviour is HONEST for an item count n when its hint bounds the remaining count at every point of the
/// iteration; results are judged in full only then. Under a hint that lies the standard library promises memory
/// safety only ("a buggy iterator may yield less than the lower bound or more than the upper bound"), so contents and
/// panics are recorded, and only the invariants of whatever value comes back are judged.
const HINTS: [&str; 16] = [
  "exact (delegates to vec::IntoIter)",
  "(0, None)",
  "std only: (0..usize::MAX).take_while(|i| i < n).map(|i| items[i]), hint (0, Some(usize::MAX))",
  "(0, Some(0)) honest for n=0",
  "(0, Some(1)) honest for n<=1",
  "(min(r,1), Some(1)) honest for n<=1",
  "(n+3, Some(n+3)) lying",
  "(1, None) lying (at the latest when exhausted)",
  "(0, Some(usize::MAX))",
  "(min(r,1), Some(r+1))",
  "(r, None)",
  "(r-1, Some(r))",
  "(min(r,1), None)",
  "(0, Some(r))",
  "std only: once(first).chain(rest followed by two None, filter_map(|x| x)), hint (1, Some(n+2))",
  "(min(r,2), Some(max(r,3)))",
];
fn hint_of(id: u8, r: usize, n: usize) -> (usize, Option<usize>) {
  match id {
    1 => (0, None),
    3 => (0, Some(0)),
    4 => (0, Some(1)),
    5 => (r.min(1), Some(1)),
    6 => (n + 3, Some(n + 3)),
    7 => (1, None),
    8 => (0, Some(usize::MAX)),
    9 => (r.min(1), Some(r + 1)),
    10 => (r, None),
    11 => (r.saturating_sub(1), Some(r)),
    12 => (r.min(1), None),
    13 => (0, Some(r)),
    15 => (r.min(2), Some(r.max(3))),
    _ => (r, Some(r)), // 0, 2, 14: the standard library's own hints, exact or looser
  }
}
fn hint_honest(id: u8, n: usize) -> bool {
  matches!(id, 0 | 2 | 14)
    || (0..=n).all(|r| {
      let (lo, hi) = hint_of(id, r, n);
      lo <= r && hi.map_or(true, |h| r <= h)
    })
}
struct Hinted<E> {
  it: std::vec::IntoIter<E>,
  id: u8,
  n: usize,
}
impl<E> Iterator for Hinted<E> {
  type Item = E;
  fn next(&mut self) -> Option<E> {
    self.it.next()
  }
  fn size_hint(&self) -> (usize, Option<usize>) {
    match self.id {
      0 => self.it.size_hint(),
      id => hint_of(id, self.it.len(), self.n),
    }
  }
}
fn hinted<E: Elem>(items: &[Code], id: u8) -> Box<dyn Iterator<Item = E>> {
  // 2 and 14: no harness iterator involved, adapters of the standard library only
  if id == 2 {
    let v = mk::<E>(items);
    let n = v.len();
    return Box::new((0usize..usize::MAX).take_while(move |i| *i < n).map(move |i| v[i].clone()));
  }
  if id == 14 {
    let mut v = mk::<E>(items).into_iter();
    return match v.next() {
      None => Box::new(std::iter::empty()),
      Some(first) => {
        let rest: Vec<Option<E>> = v.map(Some).chain([None, None]).collect();
        Box::new(std::iter::once(first).chain(rest.into_iter().filter_map(|x| x)))
      }
    };
  }
  Box::new(Hinted { it: mk::<E>(items).into_iter(), id, n: items.len() })
}

// ------------------------------------------------------------------ eval of the E1 cases
fn report(ctx: &Ctx, d: Vec<(String, String)>, pre: &str, case: &Case) -> bool {
  for (k, w) in &d {
    ctx.violation(k, &format!("{pre}: {w}"), case);
  }
  d.is_empty()
}

fn build_set<E: Elem>(ctx: &Ctx, via: Via, items: &[Code], case: &Case) {
  let dup = !unique(items);
  let pre = format!("OrderedSet<{}> from {items:?} via {}", E::NAME, via_name(via));
  let (entry, r): (String, Result<Result<OrderedSet<E>, String>, vx::Panicked>) = match via {
    Via::FromVec => ("OrderedSet::try_from<Vec>".into(), guard(|| OrderedSet::try_from(mk::<E>(items)).map_err(|e| e.to_string()))),
    Via::Collect(h) => ("OrderedSet::from_iter|honest-size-hint".into(), guard(|| Ok(hinted::<E>(items, h).collect::<OrderedSet<E>>()))),
    Via::Json => ("OrderedSet::deserialize".into(), guard(|| OrderedSet::<E>::from_json(&vjson::<E>(items)).map_err(|e| e.to_string()))),
    _ => return,
  };
  let collecting = matches!(via, Via::Collect(_));
  // a hint that lies for this item count: nothing is promised about contents or panics (see HINTS)
  let lying = matches!(via, Via::Collect(h) if !hint_honest(h, items.len()));
  let label = match r {
    Err(p) => {
      if lying {
        "lying-hint:panic(not judged)"
      } else {
        ctx.violation(&format!("{entry}|{}", p.key()), &format!("{pre}: {} @ {}", p.msg, p.loc), case);
        "PANIC"
      }
    }
    Ok(Err(e)) => {
      if !dup {
        ctx.violation(&format!("{entry}|rejected|duplicate-free-list"), &format!("{pre}: {e}"), case);
      }
      "rejected"
    }
    Ok(Ok(set)) if lying => match guard(|| {
      let own = codes(set.as_slice());
      let d = if faithful(set.as_slice()) { observe_set(&set, &own, 3) } else { vec![] };
      (own, d)
    }) {
      // whatever came back is an OrderedSet: no duplicate keys, observers consistent with its own contents
      Ok((own, d)) => {
        report(ctx, d, &pre, case);
        if own == first_occurrences(items) {
          "lying-hint:first-occurrences"
        } else {
          "lying-hint:other-contents(not judged)"
        }
      }
      Err(p) => {
        ctx.violation(&format!("OrderedSet::observers|{}", p.key()), &p.msg, case);
        "PANIC"
      }
    },
    Ok(Ok(set)) => {
      if dup && !collecting {
        ctx.violation(&format!("{entry}|accepted|duplicate-keys"), &format!("{pre}: contents {:?}", guard(|| codes(set.as_slice())).ok()), case);
        "accepted-DUPLICATES"
      } else {
        let want = if collecting { first_occurrences(items) } else { items.to_vec() };
        match guard(|| codes(set.as_slice())) {
          Ok(got) if got == want => match guard(|| observe_set(&set, &want, 3)) {
            Ok(d) => {
              report(ctx, d, &pre, case);
            }
            Err(p) => ctx.violation(&format!("OrderedSet::observers|{}", p.key()), &p.msg, case),
          },
          Ok(got) => ctx.violation(
            &format!("{entry}|{}", if collecting { "not-first-occurrences-in-order" } else { "contents-differ-from-input" }),
            &format!("{pre}: contents {got:?}, expected {want:?}"),
            case,
          ),
          Err(p) => ctx.violation(&format!("OrderedSet::as_slice|{}", p.key()), &p.msg, case),
        }
        if dup {
          "collected-deduplicated"
        } else {
          "accepted"
        }
      }
    }
  };
  ctx.outcome(&format!("set-build:{}:{label}", via_name(via)));
}
fn via_name(via: Via) -> String {
  match via {
    Via::Collect(h) => format!("collect[{}]", HINTS[h as usize]),
    Via::NewSet(o) => format!("new_set[operand: {}]", OPERANDS[o as usize]),
    Via::TryFromSet(o) => format!("try_from<OrderedSet>[operand: {}]", OPERANDS[o as usize]),
    v => format!("{v:?}"),
  }
}

fn build_oos<E: Elem>(ctx: &Ctx, via: Via, items: &[Code], case: &Case) {
  let dup = !unique(items);
  let pre = format!("OneOrSet<{}> from {items:?} via {}", E::NAME, via_name(via));
  let (entry, r): (&str, Result<Result<OneOrSet<E>, String>, vx::Panicked>) = match via {
    Via::FromVec => ("OneOrSet::try_from<Vec>", guard(|| OneOrSet::try_from(mk::<E>(items)).map_err(|e| e.to_string()))),
    Via::FromOne => {
      let [one] = items else { return };
      ("OneOrSet::from<T>", guard(|| Ok(OneOrSet::from(E::make(*one)))))
    }
    Via::NewSet(o) | Via::TryFromSet(o) => {
      let Ok(Some(set)) = guard(|| operand_set::<E>(o, items)) else {
        // an operand that cannot be built from a duplicate-free list is judged in parts (a) / (b)
        ctx.outcome("oneorset-build:operand-not-constructible");
        return;
      };
      if matches!(via, Via::NewSet(_)) {
        ("OneOrSet::new_set", guard(|| OneOrSet::new_set(set).map_err(|e| e.to_string())))
      } else {
        ("OneOrSet::try_from<OrderedSet>", guard(|| OneOrSet::try_from(set).map_err(|e| e.to_string())))
      }
    }
    Via::Json => ("OneOrSet::deserialize", guard(|| OneOrSet::<E>::from_json(&vjson::<E>(items)).map_err(|e| e.to_string()))),
    _ => return,
  };
  let label = match r {
    Err(p) => {
      ctx.violation(&format!("{entry}|{}", p.key()), &format!("{pre}: {} @ {}", p.msg, p.loc), case);
      "PANIC"
    }
    Ok(Err(e)) => {
      // a JSON array with exactly one element is not the JSON of any constructor-built value: left open
      let open = via == Via::Json && items.len() == 1;
      if !dup && !items.is_empty() && !open {
        ctx.violation(&format!("{entry}|rejected|non-empty-duplicate-free-list"), &format!("{pre}: {e}"), case);
      }
      if items.is_empty() {
        "rejected-empty"
      } else if dup {
        "rejected-duplicates"
      } else {
        "rejected-other"
      }
    }
    Ok(Ok(v)) => {
      if items.is_empty() {
        ctx.violation(&format!("{entry}|accepted|empty"), &pre, case);
        "accepted-EMPTY"
      } else if dup {
        ctx.violation(&format!("{entry}|accepted|duplicate-keys"), &format!("{pre}: contents {:?}", guard(|| codes(v.as_slice())).ok()), case);
        "accepted-DUPLICATES"
      } else {
        match guard(|| codes(v.as_slice())) {
          Ok(got) if got == items => match guard(|| observe_oos(&v, items, 3, via != Via::Json)) {
            Ok(d) => {
              report(ctx, d, &pre, case);
            }
            Err(p) => ctx.violation(&format!("OneOrSet::observers|{}", p.key()), &p.msg, case),
          },
          Ok(got) => ctx.violation(&format!("{entry}|contents-differ-from-input"), &format!("{pre}: contents {got:?}"), case),
          Err(p) => ctx.violation(&format!("OneOrSet::as_slice|{}", p.key()), &p.msg, case),
        }
        if items.len() == 1 {
          "accepted-singleton"
        } else {
          "accepted-set"
        }
      }
    }
  };
  ctx.outcome(&format!("oneorset-build:{}:{label}", via_name(via)));
}

fn build_oom<E: Elem>(ctx: &Ctx, via: Via, items: &[Code], case: &Case) {
  let pre = format!("OneOrMany<{}> from {items:?} via {}", E::NAME, via_name(via));
  let (entry, r): (String, Result<Result<OneOrMany<E>, String>, vx::Panicked>) = match via {
    Via::FromVec => ("OneOrMany::from<Vec>".into(), guard(|| Ok(OneOrMany::from(mk::<E>(items))))),
    Via::Collect(h) => ("OneOrMany::from_iter|honest-size-hint".into(), guard(|| Ok(hinted::<E>(items, h).collect::<OneOrMany<E>>()))),
    Via::Json => ("OneOrMany::deserialize".into(), guard(|| OneOrMany::<E>::from_json(&vjson::<E>(items)).map_err(|e| e.to_string()))),
    _ => return,
  };
  // a hint that lies for this item count: nothing is promised about contents, shape or panics (see HINTS)
  let lying = matches!(via, Via::Collect(h) if !hint_honest(h, items.len()));
  let label = match r {
    Err(p) => {
      if lying {
        "lying-hint:panic(not judged)"
      } else {
        ctx.violation(&format!("{entry}|{}", p.key()), &format!("{pre}: {} @ {}", p.msg, p.loc), case);
        "PANIC"
      }
    }
    Ok(Err(e)) => {
      // `[x]` is the JSON of no constructor-built value: left open; every other array is the own JSON of Many(items)
      if items.len() != 1 {
        ctx.violation(&format!("{entry}|rejected|own-json-of-many"), &format!("{pre}: {e}"), case);
      }
      "rejected"
    }
    Ok(Ok(v)) if lying => match guard(|| {
      let own = codes(v.as_slice());
      let d = if faithful(v.as_slice()) { observe_oom(&v, &own, false) } else { vec![] };
      (own, d)
    }) {
      // whatever came back: observers consistent with its own contents, own JSON round trip
      Ok((own, d)) => {
        report(ctx, d, &pre, case);
        if own == items {
          "lying-hint:all-items"
        } else {
          "lying-hint:other-contents(not judged)"
        }
      }
      Err(p) => {
        ctx.violation(&format!("OneOrMany::observers|{}", p.key()), &p.msg, case);
        "PANIC"
      }
    },
    Ok(Ok(v)) => {
      match guard(|| codes(v.as_slice())) {
        Ok(got) if got == items => match guard(|| observe_oom(&v, items, via != Via::Json)) {
          Ok(d) => {
            report(ctx, d, &pre, case);
          }
          Err(p) => ctx.violation(&format!("OneOrMany::observers|{}", p.key()), &p.msg, case),
        },
        Ok(got) => ctx.violation(&format!("{entry}|contents-differ-from-input"), &format!("{pre}: contents {got:?}"), case),
        Err(p) => ctx.violation(&format!("OneOrMany::as_slice|{}", p.key()), &p.msg, case),
      }
      match items.len() {
        0 => "accepted-empty",
        1 => "accepted-singleton",
        _ => "accepted-many",
      }
    }
  };
  ctx.outcome(&format!("oneormany-build:{}:{label}", via_name(via)));
}

/// JSON texts that are not arrays of universe elements: bare elements (must be accepted as singletons) and
/// malformed / foreign values (not judged beyond "no panic, accepted => invariants").
fn json_raw<E: Elem>(ctx: &Ctx, target: Target, js: &str, case: &Case) {
  // is it exactly the JSON of one element?
  // (guarded: parsing a `Nest` runs the library's `OneOrMany` deserialiser)
  let bare: Option<Code> = guard(|| {
    serde_json::from_str::<E>(js).ok().filter(|e| serde_json::to_string(e).ok().as_deref() == Some(js) && faithful(std::slice::from_ref(e))).map(|e| e.enc())
  })
  .ok()
  .flatten();
  let pre = format!("{target:?}<{}> from JSON {js}", E::NAME);
  let tname = match target {
    Target::Set => "OrderedSet",
    Target::OneOrSet => "OneOrSet",
    Target::OneOrMany => "OneOrMany",
  };
  // (contents, discrepancies) of an accepted value
  let r: Result<Result<(Vec<Code>, Vec<(String, String)>), String>, vx::Panicked> = match target {
    Target::Set => guard(|| {
      OrderedSet::<E>::from_json(js).map_err(|e| e.to_string()).map(|v| {
        let c = codes(v.as_slice());
        // elements outside the universe (the codes do not describe them): accepted, contents not observed
        let d = if faithful(v.as_slice()) { observe_set(&v, &c, 3) } else { vec![] };
        (c, d)
      })
    }),
    Target::OneOrSet => guard(|| {
      OneOrSet::<E>::from_json(js).map_err(|e| e.to_string()).map(|v| {
        let c = codes(v.as_slice());
        let d = if faithful(v.as_slice()) { observe_oos(&v, &c, 3, false) } else { vec![] };
        (c, d)
      })
    }),
    Target::OneOrMany => guard(|| {
      OneOrMany::<E>::from_json(js).map_err(|e| e.to_string()).map(|v| {
        let c = codes(v.as_slice());
        let d = if faithful(v.as_slice()) { observe_oom(&v, &c, false) } else { vec![] };
        (c, d)
      })
    }),
  };
  let label = match r {
    Err(p) => {
      ctx.violation(&format!("{tname}::deserialize|{}", p.key()), &format!("{pre}: {} @ {}", p.msg, p.loc), case);
      "PANIC"
    }
    Ok(Err(e)) => {
      if bare.is_some() && target != Target::Set {
        // the bare element is the JSON of new_one(x) / OneOrMany::One(x)
        ctx.violation(&format!("{tname}::deserialize|rejected|bare-element"), &format!("{pre}: {e}"), case);
      }
      "rejected"
    }
    Ok(Ok((contents, d))) => {
      report(ctx, d, &pre, case);
      if let Some(x) = bare {
        // whether an OrderedSet accepts a bare element (as a set of one) is not stated: recorded, not judged
        if target != Target::Set && contents != vec![x] {
          ctx.violation(&format!("{tname}::deserialize|bare-element-not-a-singleton"), &format!("{pre}: contents {contents:?}"), case);
        }
        "accepted-bare-element"
      } else {
        "accepted-other"
      }
    }
  };
  ctx.outcome(&format!("json-raw:{tname}:{}:{label}", if bare.is_some() { "bare-element" } else { "foreign" }));
}

/// The function applied by `map` / `try_map`, on element codes. 0..=2 produce `Pair`, 3..=4 produce `u8`.
const FUNS: [&str; 5] = ["Pair{k,p} (injective)", "Pair{0,k} (all keys collapse)", "Pair{k%2,k} (keys 0 and 2 collapse)", "u8 k (injective on keys)", "u8 7 (all collapse)"];
fn fun(f: u8, c: Code) -> Code {
  match f {
    0 => c,
    1 => (0, c.0),
    2 => (c.0 % 2, c.0),
    3 => (c.0, 0),
    _ => (7, 0),
  }
}
fn judge_mapped<S: Elem>(ctx: &Ctx, entry: &str, r: &OneOrSet<S>, mapped: &[Code], built: bool, pre: &str, case: &Case) {
  let got = match guard(|| codes(r.as_slice())) {
    Ok(g) => g,
    Err(p) => return ctx.violation(&format!("OneOrSet::as_slice|{}", p.key()), &p.msg, case),
  };
  // result is a duplicate-free, non-empty subsequence of the mapped elements that represents every mapped key
  let mut it = mapped.iter();
  let subseq = got.iter().all(|g| it.any(|m| m == g));
  let covers = mapped.iter().all(|m| has_key(&got, m.0));
  if got.is_empty() {
    ctx.violation(&format!("{entry}|result-empty"), pre, case);
  } else if !unique(&got) {
    ctx.violation(&format!("{entry}|result-has-duplicate-keys"), &format!("{pre}: {got:?}"), case);
  } else if !subseq || !covers {
    ctx.violation(&format!("{entry}|result-not-the-mapped-elements"), &format!("{pre}: {got:?} for mapped {mapped:?}"), case);
  } else {
    match guard(|| observe_oos(r, &got, 7, built)) {
      Ok(d) => {
        report(ctx, d, pre, case);
      }
      Err(p) => ctx.violation(&format!("OneOrSet::observers|{}", p.key()), &p.msg, case),
    }
  }
}
/// How the mapped value is built from the (non-empty, duplicate-free) list.
const MAP_SOURCES: [&str; 3] = ["TryFrom<Vec>", "serde from the JSON array", "new_one(first) + append of the others"];
fn map_case<E: Elem, S: Elem>(ctx: &Ctx, src_id: u8, items: &[Code], f: u8, fail: Fail, case: &Case) {
  let built_src = guard(|| {
    let v = match src_id {
      0 => OneOrSet::<E>::try_from(mk::<E>(items)).ok()?,
      1 => OneOrSet::<E>::from_json(&vjson::<E>(items)).ok()?,
      _ => {
        let mut v = OneOrSet::new_one(E::make(items[0]));
        for c in &items[1..] {
          v.append(E::make(*c));
        }
        v
      }
    };
    (codes(v.as_slice()) == items).then_some(v)
  });
  let Ok(Some(src)) = built_src else {
    // a source that cannot be built or does not hold the list is judged by the constructor parts
    ctx.outcome("map:operand-not-constructible");
    return;
  };
  // a set of one deserialised from the array `[x]` is not constructor-built: whether its image is a bare value or a
  // set of one is left open (the singleton clause speaks of values built through the constructors)
  let built = !(src_id == 1 && items.len() == 1);
  let mapped: Vec<Code> = items.iter().map(|c| S::make(fun(f, *c)).enc()).collect();
  let collapse = if unique(&mapped) { "keys-stay-distinct" } else { "keys-collapse" };
  let pre = format!("OneOrSet<{}> {items:?} (built by {}) mapped with {} fail {fail:?}", E::NAME, MAP_SOURCES[src_id as usize], FUNS[f as usize]);
  if fail == Fail::Never {
    match guard(|| src.clone().map(|e| S::make(fun(f, e.enc())))) {
      Ok(r) => judge_mapped(ctx, "OneOrSet::map", &r, &mapped, built, &pre, case),
      Err(p) => ctx.violation(&format!("OneOrSet::map|{}", p.key()), &format!("{pre}: {} @ {}", p.msg, p.loc), case),
    }
    ctx.outcome(&format!("map:{collapse}:len{}:{}", items.len().min(2), if built { "constructor-built" } else { "deserialised-set-of-one" }));
  }
  let fails_on = |i: usize, c: Code| match fail {
    Fail::Never => false,
    Fail::OnKey(k) => c.0 == k,
    Fail::OnCall(n) => i == n as usize,
  };
  let any_fail = items.iter().enumerate().any(|(i, c)| fails_on(i, *c));
  let mut calls = 0usize;
  let r = guard(|| {
    src.clone().try_map(|e| {
      let i = calls;
      calls += 1;
      if fails_on(i, e.enc()) {
        Err(format!("f failed on call {i}"))
      } else {
        Ok(S::make(fun(f, e.enc())))
      }
    })
  });
  let label = match r {
    Err(p) => {
      ctx.violation(&format!("OneOrSet::try_map|{}", p.key()), &format!("{pre}: {} @ {}", p.msg, p.loc), case);
      "PANIC"
    }
    Ok(Err(e)) => {
      if !e.starts_with("f failed on call") {
        ctx.violation("OneOrSet::try_map|error-not-from-f", &format!("{pre}: {e}"), case);
      }
      "err-from-f"
    }
    Ok(Ok(r)) => {
      if any_fail {
        // whether every element must be visited is not stated: recorded, not judged
        "ok-although-f-would-fail-on-an-element"
      } else {
        judge_mapped(ctx, "OneOrSet::try_map", &r, &mapped, built, &pre, case);
        "ok"
      }
    }
  };
  ctx.outcome(&format!("try_map:{collapse}:{label}"));
}

fn push_case<E: Elem>(ctx: &Ctx, start: &Start, ops: &[Code], case: &Case) {
  let (mut v, mut m, built): (OneOrMany<E>, Vec<Code>, bool) = match start {
    Start::Default => (OneOrMany::default(), vec![], true),
    Start::One(k, p) => (OneOrMany::from(E::make((*k, *p))), vec![(*k, *p)], true),
    Start::RawMany(items) => (OneOrMany::Many(mk::<E>(items)), items.clone(), false),
  };
  let pre = format!("OneOrMany<{}> {start:?} push {ops:?}", E::NAME);
  // step 0 = the start value; a raw `Many([x])` is judged only for content and round trip
  for step in 0..=ops.len() {
    if step > 0 {
      let c = ops[step - 1];
      m.push(c);
      if let Err(p) = guard(|| v.push(E::make(c))) {
        ctx.violation(&format!("OneOrMany::push|{}", p.key()), &format!("{pre} (step {step}): {}", p.msg), case);
        ctx.outcome("push:PANIC");
        return;
      }
    }
    let built_now = built || step > 0;
    match guard(|| codes(v.as_slice())) {
      Ok(got) if got == m => match guard(|| observe_oom(&v, &m, built_now)) {
        Ok(d) => {
          if !report(ctx, d, &format!("{pre} (after step {step})"), case) {
            return;
          }
        }
        Err(p) => return ctx.violation(&format!("OneOrMany::observers|{}", p.key()), &p.msg, case),
      },
      Ok(got) => {
        let class = match m.len() {
          1 => "onto-empty",
          2 => "onto-singleton",
          _ => "onto-many",
        };
        ctx.violation(&format!("OneOrMany::push|list-differs-from-model|{class}"), &format!("{pre}: after step {step} contents {got:?}, model {m:?}"), case);
        ctx.outcome("push:DIVERGED");
        return;
      }
      Err(p) => return ctx.violation(&format!("OneOrMany::as_slice|{}", p.key()), &p.msg, case),
    }
  }
  ctx.outcome(&format!(
    "push:{}:final-len{}",
    match start {
      Start::Default => "from-default",
      Start::One(..) => "from-one",
      Start::RawMany(_) => "from-raw-many",
    },
    m.len().min(3)
  ));
}

fn replay<M: Model>(m: &M, acts: impl Iterator<Item = M::Action>) {
  let mut inits = m.init_states();
  if inits.is_empty() {
    return;
  }
  let mut st = inits.remove(0);
  for a in acts {
    match m.next_state(&st, a) {
      Some(n) => st = n,
      None => break,
    }
  }
}

fn eval(ctx: &Ctx, case: &Case) {
  ctx.eval1();
  match case {
    Case::SetHist { ty, nk, np, origin, init, ops } => {
      let col = Collector::new();
      with_elem!(*ty, E => replay(&SetModel::<E>::single(*ty, *nk, *np, *origin, init.clone(), col.clone()), ops.iter().copied()));
      col.drain_into(ctx, "set-history-replay");
    }
    Case::OosHist { ty, nk, np, origin, init, ops } => {
      let col = Collector::new();
      with_elem!(*ty, E => replay(&OosModel::<E>::single(*ty, *nk, *np, *origin, init.clone(), col.clone()), ops.iter().copied()));
      col.drain_into(ctx, "oneorset-history-replay");
    }
    Case::Build { target, ty, via, items } => {
      match target {
        Target::Set => with_elem!(*ty, E => build_set::<E>(ctx, *via, items, case)),
        Target::OneOrSet => with_elem!(*ty, E => build_oos::<E>(ctx, *via, items, case)),
        Target::OneOrMany => with_elem!(*ty, E => build_oom::<E>(ctx, *via, items, case)),
      }
      ctx.distinct(&(1u8, target, ty, via, items));
    }
    Case::JsonRaw { target, ty, json } => {
      with_elem!(*ty, E => json_raw::<E>(ctx, *target, json, case));
      ctx.distinct(&(2u8, target, ty, json));
    }
    Case::Map { ty, src, items, f, fail } => {
      if *f <= 2 {
        with_elem!(*ty, E => map_case::<E, Pair>(ctx, *src, items, *f, *fail, case))
      } else {
        with_elem!(*ty, E => map_case::<E, u8>(ctx, *src, items, *f, *fail, case))
      }
      ctx.distinct(&(3u8, ty, src, items, f, fail));
    }
    Case::Push { ty, start, ops } => {
      with_elem!(*ty, E => push_case::<E>(ctx, start, ops, case));
      ctx.distinct(&(4u8, ty, start, ops));
    }
  }
}

fn run_cases(ctx: &Ctx, part: &str, cases: &[Case]) {
  for c in cases.iter().step_by((cases.len() / 3).max(1)).take(3) {
    ctx.sample(part, c);
  }
  cases.par_iter().for_each(|c| eval(ctx, c));
  let n = cases.len() as u64;
  ctx.add_states(n);
  ctx.add_transitions(n);
  ctx.add_traces(n);
  ctx.part(part, json!({"engine": "E1 complete enumeration", "cases": n}));
}

fn generate(ctx: &Ctx) {
  ctx.rule("(a),(c) stateright BFS to closure: every op with every argument at every reachable REAL set / OneOrSet of every construction path; (b),(d),(e) complete enumeration of all vectors / JSON arrays <= n over the element universe x construction path (x every way of building the operand), all map functions x failure points x source construction paths, all push sequences <= n. distinct_nontrivial = unique states of (a),(c) + distinct (target, element type, path, items) tuples of the enumerations");
  ctx.assume("serde_json is trusted to print/parse the JSON of the element types; element types are u8 (library KeyComparable impl), a harness struct whose key is a projection, and a harness struct whose payload is a OneOrMany<u8> written through the public enum variants");
  ctx.assume("an iterator whose size_hint lies about the number of items it yields is outside the contract of FromIterator: contents, shape and panics of such a collect are recorded, only the invariants of the returned value are judged");

  // ---- (a) OrderedSet histories to closure
  // (type, keys, payloads): value-is-key type over 4 and 5 keys (thorough 6 and 7); projection type over 4 keys x 2 payloads and
  // 3 keys x 3 payloads (thorough 5 x 2, 4 x 3); nested type over 3 keys x 3 shapes (thorough 4 x 3)
  let mut universes: Vec<(u8, u8, u8)> = vec![(0, 4, 1), (1, 4, 2), (0, 5, 1), (1, 3, 3), (2, 3, 3)];
  if ctx.thorough() {
    universes.extend([(0, 6, 1), (1, 5, 2), (1, 4, 3), (0, 7, 1), (2, 4, 3)]);
  }
  for &(ty, nk, np) in &universes {
    let name = format!("OrderedSet<{}> histories keys={nk} payloads={np}", ty_name(ty));
    let st = with_elem!(ty, E => vx::sr::run(ctx, &name, None, |col| SetModel::<E>::new(ty, nk, np, col)));
    // every duplicate-free list of the universe must have been reached on every construction path that takes it
    let all = dupfree_lists(ty, nk, np);
    let lists = all.len() as u64;
    let expected: u64 = (0..ORIGINS.len() as u8).map(|o| if all.iter().any(|l| origin_takes(o, l)) { lists } else { 0 }).sum();
    // (a violating successor is not expanded, so the count is only demanded of a violation-free run)
    ctx.require(st.unique == expected || !ctx.violation_keys().is_empty(), &format!("{name}: reached {} states, expected {lists} duplicate-free lists x {} construction paths = {expected}", st.unique, ORIGINS.len()));
    ctx.bound(&format!("{name}: duplicate-free lists"), lists);
    for i in 0..st.unique {
      ctx.distinct(&(10u8, ty, nk, np, i));
    }
  }
  // ---- (c) OneOrSet append histories to closure
  for &(ty, nk, np) in &universes {
    let name = format!("OneOrSet<{}> start values + append keys={nk} payloads={np}", ty_name(ty));
    let st = with_elem!(ty, E => vx::sr::run(ctx, &name, None, |col| OosModel::<E>::new(ty, nk, np, col)));
    let lists = dupfree_lists(ty, nk, np).len() as u64 - 1;
    ctx.require(
      st.unique >= lists * OOS_ORIGINS.len() as u64 || !ctx.violation_keys().is_empty(),
      &format!("{name}: reached {} states, expected at least {lists} non-empty lists x {} construction paths", st.unique, OOS_ORIGINS.len()),
    );
    for i in 0..st.unique {
      ctx.distinct(&(11u8, ty, nk, np, i));
    }
  }

  // ---- (b) OrderedSet constructors
  let n_vec = ctx.by_tier(5usize, 7);
  let n_arr = ctx.by_tier(4usize, 5);
  let mut b = Vec::new();
  for (ty, nk, np) in [(0u8, 3u8, 1u8), (1, 2, 2), (2, 2, 2)] {
    let alpha = universe(ty, nk, np);
    for items in vectors(&alpha, n_vec) {
      b.push(Case::Build { target: Target::Set, ty, via: Via::FromVec, items: items.clone() });
      b.push(Case::Build { target: Target::Set, ty, via: Via::Json, items: items.clone() });
      for h in 0..HINTS.len() as u8 {
        b.push(Case::Build { target: Target::Set, ty, via: Via::Collect(h), items: items.clone() });
      }
    }
  }
  run_cases(ctx, "OrderedSet from vectors (TryFrom<Vec>, serde, FromIterator x 16 size-hint behaviours)", &b);

  // ---- (d) OneOrSet constructors, serde, map
  let mut d = Vec::new();
  for (ty, nk, np) in [(0u8, 3u8, 1u8), (1, 2, 2), (1, 3, 2), (2, 2, 3), (0, 5, 1)] {
    let alpha = universe(ty, nk, np);
    for items in vectors(&alpha, if nk == 5 { 5 } else { n_arr }) {
      // the 5-key universe is there for the longer duplicate-free lists only
      if nk == 5 && !unique(&items) {
        continue;
      }
      d.push(Case::Build { target: Target::OneOrSet, ty, via: Via::FromVec, items: items.clone() });
      d.push(Case::Build { target: Target::OneOrSet, ty, via: Via::Json, items: items.clone() });
      if items.len() == 1 {
        d.push(Case::Build { target: Target::OneOrSet, ty, via: Via::FromOne, items: items.clone() });
      }
      if unique(&items) {
        for o in 0..OPERANDS.len() as u8 {
          d.push(Case::Build { target: Target::OneOrSet, ty, via: Via::NewSet(o), items: items.clone() });
          d.push(Case::Build { target: Target::OneOrSet, ty, via: Via::TryFromSet(o), items: items.clone() });
        }
        if !items.is_empty() {
          for src in 0..MAP_SOURCES.len() as u8 {
            for f in 0..FUNS.len() as u8 {
              d.push(Case::Map { ty, src, items: items.clone(), f, fail: Fail::Never });
              for k in 0..nk {
                d.push(Case::Map { ty, src, items: items.clone(), f, fail: Fail::OnKey(k) });
              }
              for n in 0..=items.len() as u8 {
                d.push(Case::Map { ty, src, items: items.clone(), f, fail: Fail::OnCall(n) });
              }
            }
          }
        }
      }
    }
  }
  run_cases(ctx, "OneOrSet constructors (x 5 operand paths) + serde arrays + map/try_map (x 3 source paths)", &d);

  // ---- (e) OneOrMany
  let n_push = ctx.by_tier(5usize, 7);
  let mut e = Vec::new();
  for (ty, nk, np) in [(0u8, 3u8, 1u8), (1, 2, 2), (2, 2, 2)] {
    let alpha = universe(ty, nk, np);
    let mut starts = vec![Start::Default, Start::RawMany(vec![]), Start::RawMany(vec![alpha[0]]), Start::RawMany(vec![alpha[0], alpha[0]])];
    starts.extend(alpha.iter().map(|c| Start::One(c.0, c.1)));
    for start in &starts {
      for ops in vectors(&alpha, n_push) {
        e.push(Case::Push { ty, start: start.clone(), ops });
      }
    }
    for items in vectors(&alpha, n_vec) {
      e.push(Case::Build { target: Target::OneOrMany, ty, via: Via::FromVec, items: items.clone() });
      e.push(Case::Build { target: Target::OneOrMany, ty, via: Via::Json, items: items.clone() });
      for h in 0..HINTS.len() as u8 {
        e.push(Case::Build { target: Target::OneOrMany, ty, via: Via::Collect(h), items: items.clone() });
      }
    }
  }
  run_cases(ctx, "OneOrMany push sequences + From<Vec> + FromIterator x 16 size-hint behaviours + serde arrays", &e);

  // ---- scalars and malformed JSON on all three types
  let mut r = Vec::new();
  for ty in [0u8, 1, 2] {
    let mut texts: Vec<String> = universe(ty, 3, 3).iter().map(|c| with_elem!(ty, E => ejson::<E>(*c))).collect();
    texts.extend(
      [
        "null", "true", "\"0\"", "\"a\"", "{}", "[[]]", "[[0]]", "[null]", "[0,null]", "[0,\"a\"]", "256", "-1", "1.5", "[256]", "[0,256]", "[-1]", "0 ", " [0 , 1] ", "[0,1,]", "[0", "",
        "{\"k\":0}", "{\"p\":\"a\"}", "{\"k\":0,\"p\":\"a\",\"x\":1}", "{\"p\":\"a\",\"k\":0}", "{\"k\":0,\"p\":\"ab\"}", "{\"k\":0,\"k\":1,\"p\":\"a\"}", "[{\"k\":0,\"p\":\"a\"},{\"p\":\"b\",\"k\":0}]",
        "[{\"k\":0,\"p\":\"a\"},0]", "[0,\"a\"]", "[[0,\"a\"]]", "[[0,\"a\"],[0,\"b\"]]", "[[0,\"a\"],[1,\"b\"]]",
        // nested collections: shapes outside the universe, the inner collection malformed, duplicate outer keys
        "{\"k\":0,\"m\":5}", "{\"k\":0,\"m\":[5]}", "{\"k\":0,\"m\":[[0]]}", "{\"k\":0,\"m\":null}", "{\"m\":[],\"k\":0}", "[{\"k\":0,\"m\":[]},{\"k\":0,\"m\":0}]", "[{\"k\":0,\"m\":[]},{\"k\":1,\"m\":[1,1]}]",
        "[{\"k\":0,\"m\":[]}]", "[{\"k\":0,\"m\":{}}]",
      ]
      .map(String::from),
    );
    for json in texts {
      for target in [Target::Set, Target::OneOrSet, Target::OneOrMany] {
        r.push(Case::JsonRaw { target, ty, json: json.clone() });
      }
    }
  }
  run_cases(ctx, "bare elements and malformed JSON on OrderedSet / OneOrSet / OneOrMany", &r);

  ctx.bound("set_history_universes(ty,keys,payloads)", &universes);
  ctx.bound("set_construction_paths", ORIGINS);
  ctx.bound("oneorset_construction_paths", OOS_ORIGINS);
  ctx.bound("oneorset_operand_paths", OPERANDS);
  ctx.bound("map_source_paths", MAP_SOURCES);
  ctx.bound("vector_length_max", n_vec);
  ctx.bound("oneorset_array_length_max", n_arr);
  ctx.bound("push_sequence_length_max", n_push);
  ctx.bound("size_hint_behaviours", HINTS);
  ctx.bound("map_functions", FUNS);
}

fn main() {
  vx::run_main::<Case, _, _>("C19", Level::ModelChecking, generate, eval)
}
