//! C09 — storage-backed method generation / purge is all-or-nothing under storage faults.
//!
//! `FaultyJwk` / `FaultyKeyId` implement the public `JwkStorage` / `KeyIdStorage` traits around the real
//! `JwkMemStore` / `KeyIdMemstore`. While an operation under test runs ("armed"), EVERY call occurrence of
//! every trait method is a binary choice point of the E1 explorer (0 = delegate to the real store, 1 = return
//! the trait's error without touching the store). The explorer runs with bound `None`: every subset of failing
//! call occurrences is executed, including calls that only exist on undo paths (discovered dynamically).
//!
//! (A) single operations: generate_method (scope x fragment x key type) and purge_method (target shape) on
//!     CoreDocument and IotaDocument, each on a document that also holds a storage-backed bystander method with
//!     a relationship reference, an unbacked method, a reference to it and a service.
//! (B) histories: every sequence (length <= 3 quick / <= 4 thorough) over an 8-letter alphabet of
//!     generate / attach-reference / purge / create_jws operations, every subset of failing calls over the WHOLE
//!     history, oracle after every operation.
//!
//! (C) cycles: every sequence (length <= 4 quick / <= 6 thorough) over generate / attach / purge / sign of ONE
//!     general method, same fault enumeration (repeated generate-purge cycles with faults anywhere).
//!
//! Oracle (from the property statement): observable state S = (methods with their scope, relationship
//! references, rest of the document, live key ids, digest -> key id map).
//!   Ok                         => complete (method resolves in the requested scope, one new key, its key id recorded
//!                                 under the method's digest, create_jws with it verifies; after purge all three and
//!                                 all references gone) and nothing else changed;
//!   Err(UndoOperationFailed)   => exempt (counted), the execution stops there;
//!   any other Err              => S_after == S_before (order-insensitive).

use async_trait::async_trait;
use identity_core::convert::{FromJson, ToJson};
use identity_credential::credential::Jws;
use identity_did::DIDUrl;
use identity_document::document::CoreDocument;
use identity_document::verifiable::JwsVerificationOptions;
use identity_eddsa_verifier::EdDSAJwsVerifier;
use identity_iota_core::IotaDocument;
use identity_storage::{
  JwkDocumentExt, JwkGenOutput, JwkMemStore, JwkStorage, JwkStorageDocumentError, JwsSignatureOptions, KeyId, KeyIdMemstore,
  KeyIdStorage, KeyIdStorageError, KeyIdStorageErrorKind, KeyIdStorageResult, KeyStorageError, KeyStorageErrorKind,
  KeyStorageResult, KeyType, MethodDigest, Storage,
};
use identity_verification::jose::jwk::Jwk;
use identity_verification::jose::jws::JwsAlgorithm;
use identity_verification::{MethodRelationship, MethodScope, VerificationMethod};
use serde::{Deserialize, Serialize};
use std::cell::{Cell, RefCell};
use std::collections::{BTreeMap, BTreeSet};
use std::rc::Rc;
use std::sync::Mutex;
use vx::choice::{self, Chooser};
use vx::gate::block_on;
use vx::rayon::prelude::*;
use vx::{guard, json, Ctx, Level, Value};

// ------------------------------------------------------------------------------------------------ cases

#[derive(Serialize, Deserialize, Debug, Clone, Copy, PartialEq, Eq, Hash)]
enum DocKind {
  Core,
  Iota,
}
#[derive(Serialize, Deserialize, Debug, Clone, Copy, PartialEq, Eq, Hash)]
enum Scp {
  Vm,
  Auth,
  Assert,
}
/// Fragment passed to generate_method.
#[derive(Serialize, Deserialize, Debug, Clone, Copy, PartialEq, Eq, Hash)]
enum Fr {
  /// `None`: the JWK's kid (thumbprint) becomes the fragment
  Auto,
  /// "#k<n>"
  Named(u8),
  /// "#root": id of the unbacked general method of every base document
  Root,
  /// "#svc": id of the service of every base document
  Svc,
  /// "#dangling": in base 2 a relationship reference (and nothing else) carries this id
  Dangling,
  /// a fragment that cannot be part of a DID URL
  Invalid,
}
#[derive(Serialize, Deserialize, Debug, Clone, Copy, PartialEq, Eq, Hash)]
enum Kt {
  Ed25519EdDsa,
  Ed25519Es256,
  Bogus,
}
/// Target of purge / attach / sign.
#[derive(Serialize, Deserialize, Debug, Clone, Copy, PartialEq, Eq, Hash)]
enum Tg {
  Named(u8),
  /// the fragment returned by the latest successful generate with `Fr::Auto` ("#no-auto-yet" if none)
  Auto,
  Root,
  /// "#undec": in base 1 a general method whose publicKeyMultibase cannot be decoded
  Undec,
  Absent,
}
#[derive(Serialize, Deserialize, Debug, Clone, Copy, PartialEq, Eq, Hash)]
enum Op {
  Gen { scope: Scp, frag: Fr, kt: Kt },
  Purge { target: Tg },
  /// attach_method_relationship (plain document operation, no storage involved, never judged)
  Attach { target: Tg, rel: u8 },
  /// create_jws + verify_jws
  Sign { target: Tg },
}
#[derive(Serialize, Deserialize, Debug, Clone, PartialEq, Eq, Hash)]
struct Scenario {
  doc: DocKind,
  /// 0: root method + reference + service; 1: + undecodable method with a reference; 2: + dangling self-reference
  base: u8,
  /// executed with faults off
  setup: Vec<Op>,
  /// executed with every call occurrence a fault choice point
  ops: Vec<Op>,
}
#[derive(Serialize, Deserialize, Debug, Clone)]
struct Case {
  scn: Scenario,
  /// choice sequence: one entry per storage call occurrence met while armed (1 = that call fails)
  faults: Vec<u32>,
}

const RELS: [MethodRelationship; 5] = [
  MethodRelationship::Authentication,
  MethodRelationship::AssertionMethod,
  MethodRelationship::KeyAgreement,
  MethodRelationship::CapabilityDelegation,
  MethodRelationship::CapabilityInvocation,
];
/// JSON member name -> scope name used in observations.
const SCOPES: [&str; 6] =
  ["verificationMethod", "authentication", "assertionMethod", "keyAgreement", "capabilityDelegation", "capabilityInvocation"];

fn scope_of(s: Scp) -> (MethodScope, &'static str) {
  match s {
    Scp::Vm => (MethodScope::VerificationMethod, "verificationMethod"),
    Scp::Auth => (MethodScope::VerificationRelationship(MethodRelationship::Authentication), "authentication"),
    Scp::Assert => (MethodScope::VerificationRelationship(MethodRelationship::AssertionMethod), "assertionMethod"),
  }
}

// ------------------------------------------------------------------------------------------------ fault injection

struct Ctl<'c, 'p> {
  ch: RefCell<&'c mut Chooser<'p>>,
  armed: Cell<bool>,
  /// calls made during the current armed operation: (label, failed)
  calls: RefCell<Vec<(&'static str, bool)>>,
  /// every key id the real key store ever handed out
  issued: RefCell<Vec<KeyId>>,
  /// every digest that was ever passed to the key-id store
  digests: RefCell<Vec<MethodDigest>>,
}
impl<'c, 'p> Ctl<'c, 'p> {
  /// One call occurrence = one binary choice point (only while armed).
  fn fail(&self, label: &'static str) -> bool {
    if !self.armed.get() {
      return false;
    }
    let f = self.ch.borrow_mut().flag(label);
    self.calls.borrow_mut().push((label, f));
    f
  }
  fn saw(&self, d: &MethodDigest) {
    let mut v = self.digests.borrow_mut();
    if !v.contains(d) {
      v.push(d.clone());
    }
  }
}

struct FaultyJwk<'c, 'p> {
  inner: JwkMemStore,
  ctl: Rc<Ctl<'c, 'p>>,
}
fn kerr() -> KeyStorageError {
  KeyStorageError::new(KeyStorageErrorKind::Unavailable).with_custom_message("injected fault")
}
fn ierr() -> KeyIdStorageError {
  KeyIdStorageError::new(KeyIdStorageErrorKind::Unavailable).with_custom_message("injected fault")
}

#[async_trait(?Send)]
impl<'c, 'p> JwkStorage for FaultyJwk<'c, 'p> {
  async fn generate(&self, key_type: KeyType, alg: JwsAlgorithm) -> KeyStorageResult<JwkGenOutput> {
    if self.ctl.fail("K.generate") {
      return Err(kerr());
    }
    let out = self.inner.generate(key_type, alg).await;
    if let Ok(o) = &out {
      self.ctl.issued.borrow_mut().push(o.key_id.clone());
    }
    out
  }
  async fn insert(&self, jwk: Jwk) -> KeyStorageResult<KeyId> {
    if self.ctl.fail("K.insert") {
      return Err(kerr());
    }
    let out = self.inner.insert(jwk).await;
    if let Ok(k) = &out {
      self.ctl.issued.borrow_mut().push(k.clone());
    }
    out
  }
  async fn sign(&self, key_id: &KeyId, data: &[u8], public_key: &Jwk) -> KeyStorageResult<Vec<u8>> {
    if self.ctl.fail("K.sign") {
      return Err(kerr());
    }
    self.inner.sign(key_id, data, public_key).await
  }
  async fn delete(&self, key_id: &KeyId) -> KeyStorageResult<()> {
    if self.ctl.fail("K.delete") {
      return Err(kerr());
    }
    self.inner.delete(key_id).await
  }
  async fn exists(&self, key_id: &KeyId) -> KeyStorageResult<bool> {
    if self.ctl.fail("K.exists") {
      return Err(kerr());
    }
    self.inner.exists(key_id).await
  }
}

struct FaultyKeyId<'c, 'p> {
  inner: KeyIdMemstore,
  ctl: Rc<Ctl<'c, 'p>>,
}
#[async_trait(?Send)]
impl<'c, 'p> KeyIdStorage for FaultyKeyId<'c, 'p> {
  async fn insert_key_id(&self, method_digest: MethodDigest, key_id: KeyId) -> KeyIdStorageResult<()> {
    self.ctl.saw(&method_digest);
    if self.ctl.fail("I.insert_key_id") {
      return Err(ierr());
    }
    self.inner.insert_key_id(method_digest, key_id).await
  }
  async fn get_key_id(&self, method_digest: &MethodDigest) -> KeyIdStorageResult<KeyId> {
    self.ctl.saw(method_digest);
    if self.ctl.fail("I.get_key_id") {
      return Err(ierr());
    }
    self.inner.get_key_id(method_digest).await
  }
  async fn delete_key_id(&self, method_digest: &MethodDigest) -> KeyIdStorageResult<()> {
    self.ctl.saw(method_digest);
    if self.ctl.fail("I.delete_key_id") {
      return Err(ierr());
    }
    self.inner.delete_key_id(method_digest).await
  }
}

type Store<'c, 'p> = Storage<FaultyJwk<'c, 'p>, FaultyKeyId<'c, 'p>>;

// ------------------------------------------------------------------------------------------------ documents

const CORE_DID: &str = "did:bar:Hyx62wPQGyvXCoihZq1BrbUjBRh2LuNxWiiqMkfAuSZr";
const IOTA_DID: &str = "did:iota:tst:0xdfda8bcfb959c3e6ef261343c3e1a8310e9c8294eeafee326a4e96d65dbeaca0";

fn base_core_json(did: &str, base: u8) -> Value {
  let mut vm = vec![json!({"id": format!("{did}#root"), "controller": did, "type": "Ed25519VerificationKey2018",
    "publicKeyMultibase": "zHyx62wPQGyvXCoihZq1BrbUjBRh2LuNxWiiqMkfAuSZr"})];
  let mut auth = vec![json!(format!("{did}#root"))];
  let mut assertion: Vec<Value> = vec![];
  if base == 1 {
    // '0', 'O', 'I', 'l' are not base58btc digits: MethodData::try_decode fails, hence MethodDigest::new fails
    vm.push(json!({"id": format!("{did}#undec"), "controller": did, "type": "Ed25519VerificationKey2018", "publicKeyMultibase": "z0OIl"}));
    assertion.push(json!(format!("{did}#undec")));
  }
  if base == 2 {
    auth.push(json!(format!("{did}#dangling")));
  }
  let mut doc = json!({
    "id": did,
    "verificationMethod": vm,
    "authentication": auth,
    "service": [{"id": format!("{did}#svc"), "type": "LinkedDomains", "serviceEndpoint": "https://example.com/"}],
  });
  if !assertion.is_empty() {
    doc["assertionMethod"] = Value::Array(assertion);
  }
  doc
}

trait TestDoc: JwkDocumentExt + Sized {
  fn build(base: u8) -> Self;
  fn did_str() -> &'static str;
  fn json(&self) -> Value;
  fn attach(&mut self, id: &DIDUrl, rel: MethodRelationship) -> Result<bool, String>;
  fn verify(&self, jws: &Jws) -> Result<(), String>;
  fn resolves(&self, id: &DIDUrl, scope: Option<MethodScope>) -> bool;
}
impl TestDoc for CoreDocument {
  fn build(base: u8) -> Self {
    CoreDocument::from_json_value(base_core_json(CORE_DID, base)).expect("base core document")
  }
  fn did_str() -> &'static str {
    CORE_DID
  }
  fn json(&self) -> Value {
    self.to_json_value().expect("document serialises")
  }
  fn attach(&mut self, id: &DIDUrl, rel: MethodRelationship) -> Result<bool, String> {
    self.attach_method_relationship(id, rel).map_err(|e| e.to_string())
  }
  fn verify(&self, jws: &Jws) -> Result<(), String> {
    self.verify_jws(jws.as_str(), None, &EdDSAJwsVerifier::default(), &JwsVerificationOptions::default()).map(|_| ()).map_err(|e| e.to_string())
  }
  fn resolves(&self, id: &DIDUrl, scope: Option<MethodScope>) -> bool {
    self.resolve_method(id, scope).is_some()
  }
}
impl TestDoc for IotaDocument {
  fn build(base: u8) -> Self {
    let v = json!({"doc": base_core_json(IOTA_DID, base), "meta": {"created": "2023-05-12T15:09:50Z", "updated": "2023-05-12T15:09:50Z"}});
    IotaDocument::from_json_value(v).expect("base iota document")
  }
  fn did_str() -> &'static str {
    IOTA_DID
  }
  fn json(&self) -> Value {
    self.to_json_value().expect("document serialises")
  }
  fn attach(&mut self, id: &DIDUrl, rel: MethodRelationship) -> Result<bool, String> {
    self.attach_method_relationship(id, rel).map_err(|e| e.to_string())
  }
  fn verify(&self, jws: &Jws) -> Result<(), String> {
    self.verify_jws(jws, None, &EdDSAJwsVerifier::default(), &JwsVerificationOptions::default()).map(|_| ()).map_err(|e| e.to_string())
  }
  fn resolves(&self, id: &DIDUrl, scope: Option<MethodScope>) -> bool {
    self.resolve_method(id, scope).is_some()
  }
}

// ------------------------------------------------------------------------------------------------ observation

#[derive(Clone, Debug, PartialEq)]
struct Obs {
  /// method id -> (scope it is embedded in, its JSON)
  methods: BTreeMap<String, (String, String)>,
  /// a method id that occurs more than once among the embedded methods
  duplicate_ids: BTreeSet<String>,
  /// (relationship, referenced id)
  refs: BTreeSet<(String, String)>,
  /// the document (and, for IotaDocument, its metadata) without the six method arrays
  rest: Value,
  services: BTreeSet<String>,
  keys: BTreeSet<String>,
  key_count: usize,
  /// hex(digest) -> key id
  keyids: BTreeMap<String, String>,
  keyid_count: usize,
}

fn hex(b: &[u8]) -> String {
  b.iter().map(|x| format!("{x:02x}")).collect()
}
fn digest_of_json(method_json: &str) -> Option<MethodDigest> {
  let m = VerificationMethod::from_json(method_json).ok()?;
  MethodDigest::new(&m).ok()
}

fn observe<D: TestDoc>(doc: &D, st: &Store, ctl: &Ctl) -> Obs {
  let mut rest = doc.json();
  let core: &mut Value = if rest.get("doc").is_some() { &mut rest["doc"] } else { &mut rest };
  let mut methods = BTreeMap::new();
  let mut duplicate_ids = BTreeSet::new();
  let mut refs = BTreeSet::new();
  for scope in SCOPES {
    let arr = core.as_object_mut().and_then(|o| o.remove(scope));
    for e in arr.and_then(|a| a.as_array().cloned()).unwrap_or_default() {
      match &e {
        Value::String(id) => {
          refs.insert((scope.to_string(), id.clone()));
        }
        other => {
          let id = other.get("id").and_then(|i| i.as_str()).unwrap_or("?").to_string();
          if methods.insert(id.clone(), (scope.to_string(), other.to_string())).is_some() {
            duplicate_ids.insert(id);
          }
        }
      }
    }
  }
  let services = core
    .get("service")
    .and_then(|s| s.as_array())
    .map(|a| a.iter().filter_map(|s| s.get("id").and_then(|i| i.as_str()).map(String::from)).collect())
    .unwrap_or_default();
  let mut keys = BTreeSet::new();
  for k in ctl.issued.borrow().iter() {
    if matches!(block_on(st.key_storage().inner.exists(k)), Ok(true)) {
      keys.insert(k.as_str().to_string());
    }
  }
  let mut cands: Vec<MethodDigest> = ctl.digests.borrow().clone();
  for (_, (_, mj)) in methods.iter() {
    if let Some(d) = digest_of_json(mj) {
      if !cands.contains(&d) {
        cands.push(d);
      }
    }
  }
  let mut keyids = BTreeMap::new();
  for d in &cands {
    if let Ok(k) = block_on(st.key_id_storage().inner.get_key_id(d)) {
      keyids.insert(hex(&d.pack()), k.as_str().to_string());
    }
  }
  Obs {
    methods,
    duplicate_ids,
    refs,
    rest,
    services,
    keys,
    key_count: block_on(st.key_storage().inner.count()),
    keyid_count: block_on(st.key_id_storage().inner.count()),
    keyids,
  }
}

impl Obs {
  fn ref_ids(&self) -> BTreeSet<&String> {
    self.refs.iter().map(|r| &r.1).collect()
  }
  /// (digest hex, key id) of a method that is backed by both stores
  fn backing(&self, id: &str) -> Option<(String, String)> {
    let (_, mj) = self.methods.get(id)?;
    let d = hex(&digest_of_json(mj)?.pack());
    let k = self.keyids.get(&d)?;
    self.keys.contains(k).then(|| (d, k.clone()))
  }
}

/// Differences between two observations that are NOT explained by `allowed` having been applied; every
/// difference is a class name (the last component of a violation key).
fn diff(before: &Obs, after: &Obs) -> Vec<&'static str> {
  let mut out = Vec::new();
  for (id, (scope, mj)) in &before.methods {
    match after.methods.get(id) {
      None => out.push("method-dropped"),
      Some((s2, m2)) => {
        if s2 != scope {
          out.push("method-scope-changed")
        }
        if m2 != mj {
          out.push("method-content-changed")
        }
      }
    }
  }
  if after.methods.keys().any(|k| !before.methods.contains_key(k)) {
    out.push("method-left-behind");
  }
  if before.refs.difference(&after.refs).next().is_some() {
    out.push("references-dropped");
  }
  if after.refs.difference(&before.refs).next().is_some() {
    out.push("references-added");
  }
  if before.rest != after.rest || after.duplicate_ids != before.duplicate_ids {
    out.push("document-other-part-changed");
  }
  if before.keys.difference(&after.keys).next().is_some() {
    out.push("key-deleted");
  }
  if after.keys.difference(&before.keys).next().is_some() || (after.keys == before.keys && after.key_count != before.key_count) {
    out.push("orphan-key");
  }
  for (d, k) in &before.keyids {
    match after.keyids.get(d) {
      None => out.push("key-id-deleted"),
      Some(k2) if k2 != k => out.push("key-id-remapped"),
      _ => {}
    }
  }
  if after.keyids.keys().any(|d| !before.keyids.contains_key(d)) || (after.keyids == before.keyids && after.keyid_count != before.keyid_count) {
    out.push("orphan-key-id");
  }
  out.sort();
  out.dedup();
  out
}

// ------------------------------------------------------------------------------------------------ one execution

fn err_name(e: &JwkStorageDocumentError) -> String {
  format!("{e:?}").chars().take_while(|c| c.is_ascii_alphanumeric()).collect()
}
fn frag_string(f: Fr) -> Option<&'static str> {
  const K: [&str; 10] = ["#k0", "#k1", "#k2", "#k3", "#k4", "#k5", "#k6", "#k7", "#k8", "#k9"];
  match f {
    Fr::Auto => None,
    Fr::Named(n) => Some(K[n as usize % 10]),
    Fr::Root => Some("#root"),
    Fr::Svc => Some("#svc"),
    Fr::Dangling => Some("#dangling"),
    Fr::Invalid => Some("#bad fragment\u{7f}<>"),
  }
}
fn fault_pattern(calls: &[(&'static str, bool)]) -> String {
  let f: Vec<&str> = calls.iter().filter(|c| c.1).map(|c| c.0).collect();
  if f.is_empty() {
    "none".into()
  } else {
    f.join("+")
  }
}

struct Exec<'a, 'c, 'p, D: TestDoc> {
  ctx: &'a Ctx,
  scn: &'a Scenario,
  ctl: Rc<Ctl<'c, 'p>>,
  st: Store<'c, 'p>,
  doc: D,
  auto: Option<String>,
  /// local outcome histogram, merged once per execution
  hist: BTreeMap<String, u64>,
}

enum Res {
  Gen(Result<Result<String, JwkStorageDocumentError>, vx::Panicked>),
  Purge(Result<Result<(), JwkStorageDocumentError>, vx::Panicked>),
  Sign(Result<Result<Jws, JwkStorageDocumentError>, vx::Panicked>),
  Attach,
}

impl<'a, 'c, 'p, D: TestDoc> Exec<'a, 'c, 'p, D> {
  fn case(&self) -> Case {
    Case { scn: self.scn.clone(), faults: self.ctl.ch.borrow().seq() }
  }
  fn violation(&self, key: &str, what: &str) {
    if std::env::var_os("C09_TRACE").is_some() {
      eprintln!("C09_TRACE {key}: {what} :: {}", serde_json::to_string(&self.case()).unwrap_or_default());
    }
    self.ctx.violation(key, &format!("[{:?}] {what}", self.scn.doc), &self.case());
  }
  fn target_id(&self, t: Tg) -> String {
    let did = D::did_str();
    match t {
      Tg::Named(n) => format!("{did}{}", frag_string(Fr::Named(n)).unwrap()),
      Tg::Auto => format!("{did}#{}", self.auto.clone().unwrap_or_else(|| "no-auto-yet".into())),
      Tg::Root => format!("{did}#root"),
      Tg::Undec => format!("{did}#undec"),
      Tg::Absent => format!("{did}#absent"),
    }
  }

  /// Run the real API for one operation.
  fn apply(&mut self, op: Op) -> Res {
    let st = &self.st;
    let doc = &mut self.doc;
    match op {
      Op::Gen { scope, frag, kt } => {
        let (key_type, alg) = match kt {
          Kt::Ed25519EdDsa => (JwkMemStore::ED25519_KEY_TYPE, JwsAlgorithm::EdDSA),
          Kt::Ed25519Es256 => (JwkMemStore::ED25519_KEY_TYPE, JwsAlgorithm::ES256),
          Kt::Bogus => (KeyType::new("bogus"), JwsAlgorithm::EdDSA),
        };
        let r = guard(|| block_on(doc.generate_method(st, key_type, alg, frag_string(frag), scope_of(scope).0)));
        if let (Ok(Ok(f)), Fr::Auto) = (&r, frag) {
          self.auto = Some(f.trim_start_matches('#').to_string());
        }
        Res::Gen(r)
      }
      Op::Purge { target } => {
        let id = self.target_id(target);
        let doc = &mut self.doc;
        let url = DIDUrl::parse(&id).expect("target id parses");
        Res::Purge(guard(|| block_on(doc.purge_method(st, &url))))
      }
      Op::Attach { target, rel } => {
        let id = self.target_id(target);
        let url = DIDUrl::parse(&id).expect("target id parses");
        let _ = guard(|| self.doc.attach(&url, RELS[rel as usize % 5]));
        Res::Attach
      }
      Op::Sign { target } => {
        let id = self.target_id(target);
        let frag = id.rsplit_once('#').map(|p| format!("#{}", p.1)).unwrap_or_default();
        let doc = &self.doc;
        Res::Sign(guard(|| block_on(doc.create_jws(st, &frag, b"c09 payload", &JwsSignatureOptions::default()))))
      }
    }
  }

  /// (Fragments are passed with their leading '#': a bare fragment that happens to start with "did" — one kid
  /// thumbprint in 64^3 does — is taken for a full DID URL by the document's query parser and not found; that is
  /// not a storage matter and would make the check depend on the random key.)
  /// create_jws with the faults off + verify_jws: `Err(reason)` if the method cannot be used for signing.
  fn usable(&self, id: &str) -> Result<(), String> {
    let frag = id.rsplit_once('#').map(|p| format!("#{}", p.1)).unwrap_or_default();
    debug_assert!(!self.ctl.armed.get());
    match guard(|| block_on(self.doc.create_jws(&self.st, &frag, b"usable?", &JwsSignatureOptions::default()))) {
      Ok(Ok(jws)) => match guard(|| self.doc.verify(&jws)) {
        Ok(Ok(())) => Ok(()),
        Ok(Err(e)) => Err(format!("signature does not verify: {e}")),
        Err(p) => Err(format!("verify_jws panicked: {}", p.msg)),
      },
      Ok(Err(e)) => Err(format!("create_jws: {}", err_name(&e))),
      Err(p) => Err(format!("create_jws panicked: {}", p.msg)),
    }
  }

  /// One armed operation with the oracle. Returns false if the execution must stop (exempt outcome,
  /// violation or panic: the state is no longer one the property speaks about).
  fn step(&mut self, op: Op) -> bool {
    let before = observe(&self.doc, &self.st, &self.ctl);
    self.ctl.calls.borrow_mut().clear();
    self.ctl.armed.set(true);
    let res = self.apply(op);
    self.ctl.armed.set(false);
    let calls = self.ctl.calls.borrow().clone();
    let injected = calls.iter().any(|c| c.1);
    let pat = fault_pattern(&calls);
    let after = observe(&self.doc, &self.st, &self.ctl);
    let did = D::did_str();
    let mut go_on = true;
    let label: String;
    match (op, res) {
      (Op::Attach { .. }, _) | (_, Res::Attach) => {
        label = format!("attach:{}", if before == after { "no-change" } else { "attached" });
      }
      // ------------------------------------------------------------------ generate_method
      (Op::Gen { scope, frag, kt }, Res::Gen(r)) => {
        let want_scope = scope_of(scope).1;
        let req_id = frag_string(frag).map(|f| format!("{did}{f}"));
        let id_free = req_id
          .as_ref()
          .map(|i| !before.methods.contains_key(i) && !before.services.contains(i) && !before.ref_ids().contains(i))
          .unwrap_or(true);
        let expect_ok = id_free && kt == Kt::Ed25519EdDsa && frag != Fr::Invalid;
        // Not judged at all: the requested id is already carried by a relationship reference that points at no
        // method (a dangling self-reference). Such a document is outside the quantifier of the property (what
        // insert_method does with it is C04's business); executed and recorded only.
        let open = req_id.as_ref().map(|i| !before.methods.contains_key(i) && before.ref_ids().contains(i)).unwrap_or(false);
        if open {
          let what = match &r {
            Err(_) => "panic".to_string(),
            Ok(Ok(_)) => format!("ok,method-in-document={}", req_id.as_ref().map(|i| after.methods.contains_key(i)).unwrap_or(false)),
            Ok(Err(e)) => format!("err({}),state-{}", err_name(e), if diff(&before, &after).is_empty() { "unchanged".to_string() } else { diff(&before, &after).join("+") }),
          };
          *self.hist.entry(format!("gen:unjudged-dangling-self-reference:{what}|faults={pat}")).or_insert(0) += 1;
          return false;
        }
        match r {
          Err(p) => {
            self.violation(&format!("generate_method|{}", p.key()), &format!("faults {pat}: {}", p.msg));
            label = "gen:panic".into();
            go_on = false;
          }
          Ok(Ok(fragment)) => {
            let fragment = fragment.trim_start_matches('#').to_string();
            let id = format!("{did}#{fragment}");
            let mut bad: Vec<(&str, String)> = Vec::new();
            if let (Some(r), true) = (&req_id, frag != Fr::Invalid) {
              if *r != id {
                bad.push(("returned-fragment-is-not-the-requested-one", format!("requested {r}, returned {fragment}")));
              }
            }
            if before.methods.contains_key(&id) {
              bad.push(("existing-method-replaced", id.clone()));
            }
            let mut expected = before.clone();
            match after.methods.get(&id) {
              None => bad.push(("method-missing", format!("{id} is not in the document"))),
              Some((s, mj)) => {
                if s != want_scope {
                  bad.push(("method-in-wrong-scope", format!("{id} is in {s}, requested {want_scope}")));
                }
                let url = DIDUrl::parse(&id).ok();
                if !url.map(|u| self.doc.resolves(&u, Some(scope_of(scope).0))).unwrap_or(false) {
                  bad.push(("method-does-not-resolve", format!("resolve_method({id}, {want_scope}) is None")));
                }
                expected.methods.insert(id.clone(), (s.clone(), mj.clone()));
                let newk: Vec<&String> = after.keys.difference(&before.keys).collect();
                match (digest_of_json(mj), newk.as_slice()) {
                  (Some(d), [k]) => {
                    expected.keys.insert((*k).clone());
                    expected.key_count += 1;
                    expected.keyids.insert(hex(&d.pack()), (*k).clone());
                    expected.keyid_count += 1;
                  }
                  (None, _) => bad.push(("method-has-no-digest", id.clone())),
                  (_, ks) => bad.push(("key-store-not-extended-by-one-key", format!("{} new keys", ks.len()))),
                }
              }
            }
            if bad.is_empty() {
              for c in diff(&expected, &after) {
                bad.push((c, format!("state after Ok differs from (state before + new method + its key + its key id): {c}")));
              }
            }
            if bad.is_empty() {
              if let Err(e) = self.usable(&id) {
                bad.push(("signing-fails", e));
              }
            }
            for (c, w) in &bad {
              self.violation(&format!("generate_method|ok|{c}"), &format!("faults {pat}: {w}"));
            }
            go_on = bad.is_empty();
            label = format!("gen:ok{}{}", if injected { "-despite-fault" } else { "" }, if bad.is_empty() { "" } else { "+INCOMPLETE" });
          }
          Ok(Err(JwkStorageDocumentError::UndoOperationFailed { .. })) => {
            label = format!("gen:undo-failed(exempt){}", if injected { "" } else { "-without-injected-fault" });
            go_on = false;
          }
          Ok(Err(e)) => {
            let name = err_name(&e);
            let d = diff(&before, &after);
            let open = false;
            for c in &d {
              self.violation(
                &format!("generate_method|err-without-undo-report|{c}"),
                &format!("faults {pat}: Err({name}) but the observable state changed: {c}"),
              );
            }
            if d.is_empty() && !injected && expect_ok {
              self.violation("generate_method|no-fault|unexpected-error", &format!("Err({name}) although no storage call failed"));
            }
            go_on = d.is_empty() && !open;
            label = format!(
              "gen:err({name})+{}",
              if open { "unjudged:dangling-self-reference-dropped" } else if d.is_empty() { "unchanged" } else { "CHANGED" }
            );
          }
        }
      }
      // ------------------------------------------------------------------ purge_method
      (Op::Purge { target }, Res::Purge(r)) => {
        let id = self.target_id(target);
        let backing = before.backing(&id);
        match r {
          Err(p) => {
            self.violation(&format!("purge_method|{}", p.key()), &format!("faults {pat}: {}", p.msg));
            label = "purge:panic".into();
            go_on = false;
          }
          Ok(Ok(())) => {
            let mut bad: Vec<(&str, String)> = Vec::new();
            let mut expected = before.clone();
            if expected.methods.remove(&id).is_none() {
              bad.push(("method-was-absent", format!("Ok for {id} which the document does not contain")));
            }
            expected.refs.retain(|r| r.1 != id);
            match &backing {
              Some((d, k)) => {
                expected.keys.remove(k);
                expected.key_count -= 1;
                expected.keyids.remove(d);
                expected.keyid_count -= 1;
              }
              None => bad.push(("method-was-not-backed", format!("Ok for {id} which has no key id / key in the stores"))),
            }
            if after.methods.contains_key(&id) || DIDUrl::parse(&id).map(|u| self.doc.resolves(&u, None)).unwrap_or(false) {
              bad.push(("method-still-present", id.clone()));
            }
            if after.ref_ids().contains(&id) {
              bad.push(("reference-left-behind", id.clone()));
            }
            if let Some((d, k)) = &backing {
              if after.keys.contains(k) {
                bad.push(("key-still-live", "the private key survived the purge".into()));
              }
              if after.keyids.contains_key(d) {
                bad.push(("key-id-still-recorded", "the digest -> key id entry survived the purge".into()));
              }
            }
            if bad.is_empty() {
              for c in diff(&expected, &after) {
                bad.push((c, format!("state after Ok differs from (state before - method - references - key - key id): {c}")));
              }
            }
            for (c, w) in &bad {
              self.violation(&format!("purge_method|ok|{c}"), &format!("faults {pat}: {w}"));
            }
            go_on = bad.is_empty();
            label = format!("purge:ok{}{}", if injected { "-despite-fault" } else { "" }, if bad.is_empty() { "" } else { "+INCOMPLETE" });
          }
          Ok(Err(JwkStorageDocumentError::UndoOperationFailed { .. })) => {
            label = format!("purge:undo-failed(exempt){}", if injected { "" } else { "-without-injected-fault" });
            go_on = false;
          }
          Ok(Err(e)) => {
            let name = err_name(&e);
            let d = diff(&before, &after);
            let nrefs = before.refs.iter().filter(|r| r.1 == id).count();
            let shape = match before.methods.get(&id) {
              None => "absent".to_string(),
              Some((s, _)) if s == "verificationMethod" => format!("general method with {nrefs} reference(s)"),
              Some((s, _)) => format!("method embedded in {s}"),
            };
            for c in &d {
              self.violation(
                &format!("purge_method|err-without-undo-report|{c}"),
                &format!("purge of a {shape}, failing calls {pat}: Err({name}) but the observable state changed: {c}"),
              );
            }
            if d.is_empty() && !injected && backing.is_some() {
              self.violation("purge_method|no-fault|unexpected-error", &format!("Err({name}) although no storage call failed"));
            }
            go_on = d.is_empty();
            label = format!("purge:err({name})+{}", if d.is_empty() { "unchanged" } else { "CHANGED" });
          }
        }
      }
      // ------------------------------------------------------------------ create_jws
      (Op::Sign { target }, Res::Sign(r)) => {
        let id = self.target_id(target);
        let backed = before.backing(&id).is_some();
        let changed = diff(&before, &after);
        for c in &changed {
          self.violation(&format!("create_jws|state-changed|{c}"), &format!("faults {pat}"));
        }
        go_on = changed.is_empty();
        match r {
          Err(p) => {
            self.violation(&format!("create_jws|{}", p.key()), &format!("faults {pat}: {}", p.msg));
            label = "sign:panic".into();
            go_on = false;
          }
          Ok(Ok(jws)) => {
            let v = guard(|| self.doc.verify(&jws));
            if !matches!(v, Ok(Ok(()))) {
              self.violation("create_jws|ok|signature-does-not-verify", &format!("faults {pat}: {v:?}"));
              go_on = false;
            }
            label = format!("sign:ok{}", if injected { "-despite-fault" } else { "" });
          }
          Ok(Err(e)) => {
            let name = err_name(&e);
            if backed && !injected {
              self.violation("create_jws|no-fault|unexpected-error", &format!("Err({name}) for a backed method although no storage call failed"));
              go_on = false;
            }
            label = format!("sign:err({name})");
          }
        }
      }
      _ => unreachable!("result kind matches operation kind"),
    }
    *self.hist.entry(format!("{label}|faults={pat}")).or_insert(0) += 1;
    go_on
  }
}

/// The body explored by E1: one execution of a scenario; `ch` decides which call occurrences fail.
fn run<D: TestDoc>(ctx: &Ctx, scn: &Scenario, ch: &mut Chooser) -> (usize, bool) {
  let ctl = Rc::new(Ctl {
    ch: RefCell::new(ch),
    armed: Cell::new(false),
    calls: RefCell::new(Vec::new()),
    issued: RefCell::new(Vec::new()),
    digests: RefCell::new(Vec::new()),
  });
  let st = Storage::new(
    FaultyJwk { inner: JwkMemStore::new(), ctl: ctl.clone() },
    FaultyKeyId { inner: KeyIdMemstore::new(), ctl: ctl.clone() },
  );
  let mut ex = Exec { ctx, scn, ctl, st, doc: D::build(scn.base), auto: None, hist: BTreeMap::new() };
  for op in &scn.setup {
    let ok = match ex.apply(*op) {
      Res::Gen(Ok(Ok(_))) | Res::Purge(Ok(Ok(()))) | Res::Sign(Ok(Ok(_))) | Res::Attach => true,
      _ => false,
    };
    ctx.require(ok, &format!("setup step {op:?} of scenario {scn:?} failed"));
  }
  let mut done = 0;
  let mut complete = true;
  let mut labels: Vec<String> = Vec::new();
  for op in &scn.ops {
    let go_on = ex.step(*op);
    done += 1;
    if !go_on {
      complete = false;
      break;
    }
  }
  // final state of an execution that ended inside the property's domain: every backed method is usable,
  // no key without key id, no key id without key.
  if complete {
    let obs = observe(&ex.doc, &ex.st, &ex.ctl);
    let mut mapped = BTreeSet::new();
    for (id, (_, mj)) in &obs.methods {
      if let Some(d) = digest_of_json(mj) {
        if let Some(k) = obs.keyids.get(&hex(&d.pack())) {
          mapped.insert(k.clone());
          if let Err(e) = ex.usable(id) {
            ex.violation("final-state|method-with-key-id-cannot-sign", &format!("{id}: {e}"));
          }
        }
      }
    }
    if obs.keys.iter().any(|k| !mapped.contains(k)) || obs.key_count != obs.keys.len() {
      ex.violation("final-state|orphan-key", "a live key is not recorded under the digest of any method of the document");
    }
    if obs.keyids.len() != mapped.len() || obs.keyid_count != obs.keyids.len() || mapped.iter().any(|k| !obs.keys.contains(k)) {
      ex.violation("final-state|orphan-key-id", "a key id entry belongs to no method of the document or names a dead key");
    }
  }
  labels.extend(ex.hist.keys().cloned());
  ctx.outcomes_merge(&ex.hist);
  ctx.distinct(&(scn, &labels));
  (done, complete)
}

fn run_kind(ctx: &Ctx, scn: &Scenario, ch: &mut Chooser) -> (usize, bool) {
  match scn.doc {
    DocKind::Core => run::<CoreDocument>(ctx, scn, ch),
    DocKind::Iota => run::<IotaDocument>(ctx, scn, ch),
  }
}

fn eval(ctx: &Ctx, case: &Case) {
  ctx.eval1();
  let mut ch = Chooser::replay(&case.faults);
  run_kind(ctx, &case.scn, &mut ch);
}

// ------------------------------------------------------------------------------------------------ enumeration

fn gen(scope: Scp, frag: Fr) -> Op {
  Op::Gen { scope, frag, kt: Kt::Ed25519EdDsa }
}

/// (name, scenario) of part (A) for one document kind.
fn single_op_scenarios(doc: DocKind) -> Vec<(String, Scenario)> {
  let mut v = Vec::new();
  // a storage-backed bystander (general method #k9 referenced from authentication) is part of every document
  let by = vec![gen(Scp::Vm, Fr::Named(9)), Op::Attach { target: Tg::Named(9), rel: 0 }];
  let mk = |base: u8, extra: Vec<Op>, op: Op| {
    let mut setup = by.clone();
    setup.extend(extra);
    Scenario { doc, base, setup, ops: vec![op] }
  };
  for scope in [Scp::Vm, Scp::Auth, Scp::Assert] {
    for (fname, frag) in [
      ("none", Fr::Auto),
      ("fresh", Fr::Named(0)),
      ("used-by-backed-general-method", Fr::Named(9)),
      ("used-by-unbacked-general-method", Fr::Root),
      ("used-by-service", Fr::Svc),
      ("invalid", Fr::Invalid),
    ] {
      v.push((format!("generate scope={scope:?} fragment={fname}"), mk(0, vec![], gen(scope, frag))));
    }
  }
  for scope in [Scp::Vm, Scp::Auth] {
    v.push((
      format!("generate scope={scope:?} fragment=used-by-embedded-method"),
      mk(0, vec![gen(Scp::Auth, Fr::Named(8))], gen(scope, Fr::Named(8))),
    ));
    v.push((format!("generate scope={scope:?} fragment=carried-by-dangling-reference"), mk(2, vec![], gen(scope, Fr::Dangling))));
  }
  for kt in [Kt::Ed25519Es256, Kt::Bogus] {
    v.push((format!("generate scope=Vm fragment=fresh keytype={kt:?}"), mk(0, vec![], Op::Gen { scope: Scp::Vm, frag: Fr::Named(0), kt })));
  }
  // purge
  for refs in [0u8, 1, 2, 5] {
    let mut extra = vec![gen(Scp::Vm, Fr::Named(0))];
    for r in 0..refs {
      // relationship 0 (authentication) first, then assertionMethod, ...
      extra.push(Op::Attach { target: Tg::Named(0), rel: r });
    }
    v.push((format!("purge general method with {refs} reference(s)"), mk(0, extra, Op::Purge { target: Tg::Named(0) })));
  }
  v.push((
    "purge general method (kid fragment) with 1 reference".into(),
    mk(0, vec![gen(Scp::Vm, Fr::Auto), Op::Attach { target: Tg::Auto, rel: 1 }], Op::Purge { target: Tg::Auto }),
  ));
  v.push(("purge method embedded in authentication".into(), mk(0, vec![gen(Scp::Auth, Fr::Named(0))], Op::Purge { target: Tg::Named(0) })));
  v.push(("purge method embedded in assertionMethod".into(), mk(0, vec![gen(Scp::Assert, Fr::Named(0))], Op::Purge { target: Tg::Named(0) })));
  v.push(("purge absent method".into(), mk(0, vec![], Op::Purge { target: Tg::Absent })));
  v.push(("purge unbacked general method with 1 reference".into(), mk(0, vec![], Op::Purge { target: Tg::Root })));
  v.push(("purge general method with undecodable key data and 1 reference".into(), mk(1, vec![], Op::Purge { target: Tg::Undec })));
  v
}

const ALPHABET: [Op; 8] = [
  Op::Gen { scope: Scp::Vm, frag: Fr::Named(0), kt: Kt::Ed25519EdDsa },
  Op::Gen { scope: Scp::Auth, frag: Fr::Named(1), kt: Kt::Ed25519EdDsa },
  Op::Gen { scope: Scp::Vm, frag: Fr::Auto, kt: Kt::Ed25519EdDsa },
  Op::Attach { target: Tg::Named(0), rel: 1 },
  Op::Purge { target: Tg::Named(0) },
  Op::Purge { target: Tg::Named(1) },
  Op::Purge { target: Tg::Auto },
  Op::Sign { target: Tg::Named(0) },
];

/// (C): repeated life cycles of ONE method (generate as general method, reference it, sign, purge), deeper.
const CYCLE_ALPHABET: [Op; 4] = [
  Op::Gen { scope: Scp::Vm, frag: Fr::Named(0), kt: Kt::Ed25519EdDsa },
  Op::Attach { target: Tg::Named(0), rel: 0 },
  Op::Purge { target: Tg::Named(0) },
  Op::Sign { target: Tg::Named(0) },
];

#[derive(Default)]
struct Agg {
  scenarios: u64,
  executions: u64,
  states: u64,
  transitions: u64,
  max_depth: u64,
  by_dev: Vec<u64>,
  whole: bool,
}
impl Agg {
  fn add(&mut self, st: &choice::ExploreStats) {
    self.scenarios += 1;
    self.executions += st.executions;
    self.states += st.states;
    self.transitions += st.transitions;
    self.max_depth = self.max_depth.max(st.max_depth);
    if self.by_dev.len() < st.by_deviation.len() {
      self.by_dev.resize(st.by_deviation.len(), 0);
    }
    for (i, n) in st.by_deviation.iter().enumerate() {
      self.by_dev[i] += n;
    }
    self.whole &= st.exhaustive;
  }
  fn account(&self, ctx: &Ctx, part: &str, extra: Value) {
    ctx.add_states(self.states);
    ctx.add_transitions(self.transitions);
    ctx.add_traces(self.executions);
    ctx.add_evals(self.executions);
    if !self.whole {
      ctx.cap_hit(&format!("{part}: a fault subset was cut"));
    }
    ctx.part(
      part,
      json!({"engine": "E1 choice DFS, deviation bound None (every subset of failing call occurrences)", "scenarios": self.scenarios,
        "executions": self.executions, "choice_tree_nodes": self.states, "edges": self.transitions, "max_call_occurrences": self.max_depth,
        "executions_by_number_of_failing_calls(last bucket = 8+)": self.by_dev, "whole_tree": self.whole, "detail": extra}),
    );
  }
}

fn generate(ctx: &Ctx) {
  ctx.rule("every scenario is executed once per subset of failing storage-call occurrences (E1 explorer, bound None; choice points = calls actually made, discovered dynamically, incl. undo calls). (A) 34 single-operation scenarios x {CoreDocument, IotaDocument}; (B) all operation sequences up to the tier's length over an 8-letter alphabet x both document kinds, faults anywhere in the history; (C) the same over a 4-letter single-method life-cycle alphabet, deeper. distinct_nontrivial = distinct (scenario, set of per-operation outcome+fault-pattern labels)");
  ctx.assume("JwkMemStore / KeyIdMemstore are the backing stores (their own contract is C15); a fault = the wrapper returns the trait error (kind Unavailable) WITHOUT touching the store; torn operations (effect + error) are not modelled");
  ctx.assume("K.insert and K.exists are choice points of the wrapper as well, but generate_method / purge_method / create_jws never call them");
  ctx.assume("observation: document JSON (method arrays compared as sets), JwkStorage::exists of every key id ever issued + count(), KeyIdStorage::get_key_id of every digest ever seen or derivable from a document method + count()");

  // ---------------------------------------------------------------- (A)
  for doc in [DocKind::Core, DocKind::Iota] {
    let mut agg = Agg { whole: true, ..Default::default() };
    let mut table = serde_json::Map::new();
    for (name, scn) in single_op_scenarios(doc) {
      let first = Mutex::new(None::<Case>);
      let st = choice::explore(None, |ch| {
        run_kind(ctx, &scn, ch);
        if ch.deviations() == 1 {
          let mut f = first.lock().unwrap();
          let seq = ch.seq();
          if f.as_ref().map(|c| seq < c.faults).unwrap_or(true) {
            *f = Some(Case { scn: scn.clone(), faults: seq });
          }
        }
      });
      if let Some(c) = first.lock().unwrap().take() {
        ctx.sample(&format!("single-op {doc:?}"), &c);
      }
      agg.add(&st);
      table.insert(name, json!({"executions": st.executions, "max_call_occurrences": st.max_depth, "by_failing_calls": st.by_deviation[..5]}));
    }
    agg.account(ctx, &format!("(A) single operation, {doc:?}Document"), Value::Object(table));
  }

  // ---------------------------------------------------------------- (B), (C)
  let max_len = ctx.by_tier(3usize, 4usize);
  histories(ctx, "(B) histories", &ALPHABET, max_len);
  let cyc_len = ctx.by_tier(4usize, 6usize);
  histories(ctx, "(C) generate/attach/purge/sign cycles on one method", &CYCLE_ALPHABET, cyc_len);
  ctx.bound("fault_subsets", "all (deviation bound None)");
  ctx.bound("history_length", max_len);
  ctx.bound("history_alphabet", ALPHABET.iter().map(|o| format!("{o:?}")).collect::<Vec<_>>());
  ctx.bound("cycle_length", cyc_len);
  ctx.bound("cycle_alphabet", CYCLE_ALPHABET.iter().map(|o| format!("{o:?}")).collect::<Vec<_>>());
  ctx.bound("references_on_purged_method", [0, 1, 2, 5]);
}

/// Every sequence of length 1..=max_len over `alphabet`, on both document kinds, every fault subset each.
fn histories(ctx: &Ctx, part: &str, alphabet: &[Op], max_len: usize) {
  let mut seqs: Vec<Vec<Op>> = vec![];
  let mut layer: Vec<Vec<Op>> = vec![vec![]];
  for _ in 0..max_len {
    let mut next = Vec::new();
    for s in &layer {
      for op in alphabet {
        let mut t = s.clone();
        t.push(*op);
        next.push(t);
      }
    }
    seqs.extend(next.iter().cloned());
    layer = next;
  }
  for doc in [DocKind::Core, DocKind::Iota] {
    let agg = Mutex::new(Agg { whole: true, ..Default::default() });
    let per_len = Mutex::new(BTreeMap::<usize, (u64, u64)>::new());
    let sample_seq = &seqs[seqs.len() / 2];
    seqs.par_iter().for_each(|ops| {
      let scn = Scenario { doc, base: 0, setup: vec![], ops: ops.clone() };
      let first = Mutex::new(None::<Case>);
      let st = choice::explore(None, |ch| {
        run_kind(ctx, &scn, ch);
        if ops == sample_seq && ch.deviations() == 1 {
          let mut f = first.lock().unwrap();
          let seq = ch.seq();
          if f.as_ref().map(|c| seq < c.faults).unwrap_or(true) {
            *f = Some(Case { scn: scn.clone(), faults: seq });
          }
        }
      });
      if let Some(c) = first.lock().unwrap().take() {
        ctx.sample(&format!("{part} {doc:?}"), &c);
      }
      agg.lock().unwrap().add(&st);
      let mut p = per_len.lock().unwrap();
      let e = p.entry(ops.len()).or_insert((0, 0));
      e.0 += 1;
      e.1 += st.executions;
    });
    let detail: BTreeMap<String, Value> =
      per_len.lock().unwrap().iter().map(|(l, (s, e))| (format!("length {l}"), json!({"sequences": s, "executions": e}))).collect();
    agg.lock().unwrap().account(ctx, &format!("{part}, {doc:?}Document"), json!(detail));
  }
}

fn main() {
  vx::run_main::<Case, _, _>("C09", Level::FaultEnumeration, generate, eval)
}
