//! C09 — storage-backed method generation / purge is all-or-nothing under storage faults.
//!
//! `FaultyJwk` / `FaultyKeyId` implement the public `JwkStorage` / `KeyIdStorage` traits around the real
//! `JwkMemStore` / `KeyIdMemstore`. While an operation under test runs ("armed"), EVERY call occurrence of
//! every trait method is a binary choice point of the E1 explorer (0 = delegate to the real store, 1 = return
//! the trait's error without touching the store). The explorer runs with bound `None`: every subset of failing
//! call occurrences is executed, including calls that only exist on undo paths (discovered dynamically).
//!
//! (A) single operations: generate_method (scope x fragment x key type) and purge_method (target shape) on
//!     CoreDocument and IotaDocument, each on a document that also holds a storage-backed bystander method with
//!     a relationship reference, an unbacked method, a reference to it and a service.
//! (B) histories: every sequence (length <= 4 quick / <= 5 thorough) over an 8-letter alphabet of
//!     generate / attach-reference / purge / create_jws operations, every subset of failing calls over the WHOLE
//!     history, oracle after every operation.
//!
//! (C) cycles: every sequence (length <= 5 quick / <= 6 thorough) over generate / attach / purge / sign of ONE
//!     general method, same fault enumeration (repeated generate-purge cycles with faults anywhere).
//!
//! (D) histories (length <= 3 quick / <= 4 thorough) over a second 8-letter alphabet: the same fragment generated
//!     embedded and general, a kid-named embedded method, purge by the same fragment under another DID,
//!     create_credential_jwt.
//!
//! Part (A) runs every scenario once per injected error kind (Unavailable, Unspecified, RetryableIOFailure: kinds
//! that say "the operation did not take place"; the *NotFound / AlreadyExists kinds are statements about the
//! store's content and are never injected, a caller may legitimately act on them).
//!
//! What is NOT judged (executed, recorded in the outcome histogram): the error variant returned; Ok for a purge
//! target that is absent or has no key id / key (the statement speaks about storage-backed methods) beyond
//! "method and references gone, nothing else touched"; the IotaDocument metadata; generate on a fragment carried
//! by a dangling reference; create_jws / create_credential_jwt / create_presentation_jwt under faults beyond
//! "observable state unchanged"; the order of methods and references.
//!
//! Oracle (from the property statement): observable state S = (methods with their scope, relationship
//! references, rest of the document, live key ids, digest -> key id map).
//!   Ok                         => complete (method resolves in the requested scope, one new key, its key id recorded
//!                                 under the method's digest, create_jws with it verifies; after purge all three and
//!                                 all references gone) and nothing else changed;
//!   Err(UndoOperationFailed)   => exempt (counted), the execution stops there - provided at least one storage call of
//!                                 the operation failed (injected or natively); a failed-undo report although every
//!                                 storage call succeeded is judged like any other Err;
//!   any other Err              => S_after == S_before (order-insensitive).

use async_trait::async_trait;
use identity_core::common::{Object, Url};
use identity_core::convert::{FromJson, ToJson};
use identity_credential::credential::{Credential, CredentialBuilder, Jws, Jwt, Subject};
use identity_credential::presentation::{JwtPresentationOptions, Presentation, PresentationBuilder};
use identity_did::DIDUrl;
use identity_document::document::CoreDocument;
use identity_document::verifiable::JwsVerificationOptions;
use identity_eddsa_verifier::EdDSAJwsVerifier;
use identity_iota_core::IotaDocument;
use identity_storage::{
  JwkDocumentExt, JwkGenOutput, JwkMemStore, JwkStorage, JwkStorageDocumentError, JwsSignatureOptions, KeyId, KeyIdMemstore,
  KeyIdStorage, KeyIdStorageError, KeyIdStorageErrorKind, KeyIdStorageResult, KeyStorageError, KeyStorageErrorKind,
  KeyStorageResult, KeyType, MethodDigest, Storage,
};
use identity_verification::jose::jwk::Jwk;
use identity_verification::jose::jws::JwsAlgorithm;
use identity_verification::{MethodRelationship, MethodScope, VerificationMethod};
use serde::{Deserialize, Serialize};
use std::cell::{Cell, RefCell};
use std::collections::{BTreeMap, BTreeSet};
use std::rc::Rc;
use std::sync::Mutex;
use vx::choice::{self, Chooser};
use vx::gate::block_on;
use vx::rayon::prelude::*;
use vx::{guard, json, Ctx, Level, Value};

// ------------------------------------------------------------------------------------------------ cases

#[derive(Serialize, Deserialize, Debug, Clone, Copy, PartialEq, Eq, Hash)]
enum DocKind {
  Core,
  Iota,
}
#[derive(Serialize, Deserialize, Debug, Clone, Copy, PartialEq, Eq, Hash)]
enum Scp {
  Vm,
  Auth,
  Assert,
  KeyAgr,
  CapDel,
  CapInv,
}
/// Fragment passed to generate_method.
#[derive(Serialize, Deserialize, Debug, Clone, Copy, PartialEq, Eq, Hash)]
enum Fr {
  /// `None`: the JWK's kid (thumbprint) becomes the fragment
  Auto,
  /// "#k<n>"
  Named(u8),
  /// "#root": id of the unbacked general method of every base document
  Root,
  /// "#svc": id of the service of every base document
  Svc,
  /// "#dangling": in base 2 a relationship reference (and nothing else) carries this id
  Dangling,
  /// a fragment that cannot be part of a DID URL
  Invalid,
  /// "b<n>": no leading '#'
  Bare(u8),
}
#[derive(Serialize, Deserialize, Debug, Clone, Copy, PartialEq, Eq, Hash)]
enum Kt {
  Ed25519EdDsa,
  Ed25519Es256,
  Bogus,
}
/// Target of purge / attach / sign.
#[derive(Serialize, Deserialize, Debug, Clone, Copy, PartialEq, Eq, Hash)]
enum Tg {
  Named(u8),
  /// the fragment returned by the latest successful generate with `Fr::Auto` ("#no-auto-yet" if none)
  Auto,
  Root,
  /// "#undec": in base 1 a general method whose publicKeyMultibase cannot be decoded
  Undec,
  Absent,
  /// "#svc": the id of the service of every base document (names no method)
  Svc,
  /// "#k<n>" of ANOTHER DID of the same method
  Foreign(u8),
  /// "#a<n>": a harness-made copy of a method (see `Op::Alias`)
  Alias(u8),
}
#[derive(Serialize, Deserialize, Debug, Clone, Copy, PartialEq, Eq, Hash)]
enum Op {
  Gen { scope: Scp, frag: Fr, kt: Kt },
  Purge { target: Tg },
  /// attach_method_relationship (plain document operation, no storage involved, never judged)
  Attach { target: Tg, rel: u8 },
  /// create_jws + verify_jws
  Sign { target: Tg },
  /// create_credential_jwt (`pres` = false) / create_presentation_jwt (`pres` = true)
  SignVc { target: Tg, pres: bool },
  /// SETUP ONLY, done by the harness behind the API: a second general method "#a<to>" with the same JWK as `from`,
  /// its digest recorded under the SAME key id (two methods sharing one key id; outside the property's quantifier:
  /// such executions are judged per operation, the final-state consistency oracle is off)
  Alias { from: Tg, to: u8 },
}
#[derive(Serialize, Deserialize, Debug, Clone, PartialEq, Eq, Hash)]
struct Scenario {
  doc: DocKind,
  /// 0: root method + reference + service; 1: + undecodable method with a reference; 2: + dangling self-reference;
  /// 3: + a method of ANOTHER DID with fragment #k0 (not storage-backed), listed first and referenced from assertionMethod
  base: u8,
  /// executed with faults off
  setup: Vec<Op>,
  /// executed with every call occurrence a fault choice point
  ops: Vec<Op>,
  /// error kind of the injected faults: 0 Unavailable, 1 Unspecified, 2 RetryableIOFailure
  #[serde(default)]
  kind: u8,
}
#[derive(Serialize, Deserialize, Debug, Clone)]
struct Case {
  scn: Scenario,
  /// choice sequence: one entry per storage call occurrence met while armed (1 = that call fails)
  faults: Vec<u32>,
}

const RELS: [MethodRelationship; 5] = [
  MethodRelationship::Authentication,
  MethodRelationship::AssertionMethod,
  MethodRelationship::KeyAgreement,
  MethodRelationship::CapabilityDelegation,
  MethodRelationship::CapabilityInvocation,
];
/// JSON member name -> scope name used in observations.
const SCOPES: [&str; 6] =
  ["verificationMethod", "authentication", "assertionMethod", "keyAgreement", "capabilityDelegation", "capabilityInvocation"];

fn scope_of(s: Scp) -> (MethodScope, &'static str) {
  match s {
    Scp::Vm => (MethodScope::VerificationMethod, "verificationMethod"),
    Scp::Auth => (MethodScope::VerificationRelationship(MethodRelationship::Authentication), "authentication"),
    Scp::Assert => (MethodScope::VerificationRelationship(MethodRelationship::AssertionMethod), "assertionMethod"),
    Scp::KeyAgr => (MethodScope::VerificationRelationship(MethodRelationship::KeyAgreement), "keyAgreement"),
    Scp::CapDel => (MethodScope::VerificationRelationship(MethodRelationship::CapabilityDelegation), "capabilityDelegation"),
    Scp::CapInv => (MethodScope::VerificationRelationship(MethodRelationship::CapabilityInvocation), "capabilityInvocation"),
  }
}

// ------------------------------------------------------------------------------------------------ fault injection

/// Per-label call statistics of the whole run: (calls made while armed, injected failures, native failures).
static CALL_STATS: Mutex<BTreeMap<&'static str, (u64, u64, u64)>> = Mutex::new(BTreeMap::new());

struct Ctl<'c, 'p> {
  ch: RefCell<&'c mut Chooser<'p>>,
  armed: Cell<bool>,
  /// error kind of injected faults (see `Scenario::kind`)
  kind: u8,
  /// calls made during the current armed operation: (label, failed by injection)
  calls: RefCell<Vec<(&'static str, bool)>>,
  /// labels of the calls of the current armed operation that the REAL store answered with an error
  native: RefCell<Vec<&'static str>>,
  /// every key id the real key store ever handed out
  issued: RefCell<Vec<KeyId>>,
  /// every digest that was ever passed to the key-id store
  digests: RefCell<Vec<MethodDigest>>,
  stats: RefCell<BTreeMap<&'static str, (u64, u64, u64)>>,
}
impl<'c, 'p> Ctl<'c, 'p> {
  /// One call occurrence = one binary choice point (only while armed).
  fn fail(&self, label: &'static str) -> bool {
    if !self.armed.get() {
      return false;
    }
    let f = self.ch.borrow_mut().flag(label);
    self.calls.borrow_mut().push((label, f));
    let mut st = self.stats.borrow_mut();
    let e = st.entry(label).or_insert((0, 0, 0));
    e.0 += 1;
    e.1 += f as u64;
    f
  }
  /// Pass a result of the real store through, noting a native failure.
  fn real<T, E>(&self, label: &'static str, r: Result<T, E>) -> Result<T, E> {
    if self.armed.get() && r.is_err() {
      self.native.borrow_mut().push(label);
      self.stats.borrow_mut().entry(label).or_insert((0, 0, 0)).2 += 1;
    }
    r
  }
  fn saw(&self, d: &MethodDigest) {
    let mut v = self.digests.borrow_mut();
    if !v.contains(d) {
      v.push(d.clone());
    }
  }
  fn kerr(&self) -> KeyStorageError {
    let kind = match self.kind {
      0 => KeyStorageErrorKind::Unavailable,
      1 => KeyStorageErrorKind::Unspecified,
      _ => KeyStorageErrorKind::RetryableIOFailure,
    };
    KeyStorageError::new(kind).with_custom_message("injected fault")
  }
  fn ierr(&self) -> KeyIdStorageError {
    let kind = match self.kind {
      0 => KeyIdStorageErrorKind::Unavailable,
      1 => KeyIdStorageErrorKind::Unspecified,
      _ => KeyIdStorageErrorKind::RetryableIOFailure,
    };
    KeyIdStorageError::new(kind).with_custom_message("injected fault")
  }
}

struct FaultyJwk<'c, 'p> {
  inner: JwkMemStore,
  ctl: Rc<Ctl<'c, 'p>>,
}

#[async_trait(?Send)]
impl<'c, 'p> JwkStorage for FaultyJwk<'c, 'p> {
  async fn generate(&self, key_type: KeyType, alg: JwsAlgorithm) -> KeyStorageResult<JwkGenOutput> {
    if self.ctl.fail("K.generate") {
      return Err(self.ctl.kerr());
    }
    let out = self.ctl.real("K.generate", self.inner.generate(key_type, alg).await);
    if let Ok(o) = &out {
      self.ctl.issued.borrow_mut().push(o.key_id.clone());
    }
    out
  }
  async fn insert(&self, jwk: Jwk) -> KeyStorageResult<KeyId> {
    if self.ctl.fail("K.insert") {
      return Err(self.ctl.kerr());
    }
    let out = self.ctl.real("K.insert", self.inner.insert(jwk).await);
    if let Ok(k) = &out {
      self.ctl.issued.borrow_mut().push(k.clone());
    }
    out
  }
  async fn sign(&self, key_id: &KeyId, data: &[u8], public_key: &Jwk) -> KeyStorageResult<Vec<u8>> {
    if self.ctl.fail("K.sign") {
      return Err(self.ctl.kerr());
    }
    self.ctl.real("K.sign", self.inner.sign(key_id, data, public_key).await)
  }
  async fn delete(&self, key_id: &KeyId) -> KeyStorageResult<()> {
    if self.ctl.fail("K.delete") {
      return Err(self.ctl.kerr());
    }
    self.ctl.real("K.delete", self.inner.delete(key_id).await)
  }
  async fn exists(&self, key_id: &KeyId) -> KeyStorageResult<bool> {
    if self.ctl.fail("K.exists") {
      return Err(self.ctl.kerr());
    }
    self.ctl.real("K.exists", self.inner.exists(key_id).await)
  }
}

struct FaultyKeyId<'c, 'p> {
  inner: KeyIdMemstore,
  ctl: Rc<Ctl<'c, 'p>>,
}
#[async_trait(?Send)]
impl<'c, 'p> KeyIdStorage for FaultyKeyId<'c, 'p> {
  async fn insert_key_id(&self, method_digest: MethodDigest, key_id: KeyId) -> KeyIdStorageResult<()> {
    self.ctl.saw(&method_digest);
    if self.ctl.fail("I.insert_key_id") {
      return Err(self.ctl.ierr());
    }
    self.ctl.real("I.insert_key_id", self.inner.insert_key_id(method_digest, key_id).await)
  }
  async fn get_key_id(&self, method_digest: &MethodDigest) -> KeyIdStorageResult<KeyId> {
    self.ctl.saw(method_digest);
    if self.ctl.fail("I.get_key_id") {
      return Err(self.ctl.ierr());
    }
    self.ctl.real("I.get_key_id", self.inner.get_key_id(method_digest).await)
  }
  async fn delete_key_id(&self, method_digest: &MethodDigest) -> KeyIdStorageResult<()> {
    self.ctl.saw(method_digest);
    if self.ctl.fail("I.delete_key_id") {
      return Err(self.ctl.ierr());
    }
    self.ctl.real("I.delete_key_id", self.inner.delete_key_id(method_digest).await)
  }
}

type Store<'c, 'p> = Storage<FaultyJwk<'c, 'p>, FaultyKeyId<'c, 'p>>;

// ------------------------------------------------------------------------------------------------ documents

const CORE_DID: &str = "did:bar:Hyx62wPQGyvXCoihZq1BrbUjBRh2LuNxWiiqMkfAuSZr";
const IOTA_DID: &str = "did:iota:tst:0xdfda8bcfb959c3e6ef261343c3e1a8310e9c8294eeafee326a4e96d65dbeaca0";
/// Other DIDs of the same methods (targets `Tg::Foreign`).
const CORE_OTHER_DID: &str = "did:bar:4uQeVj5tqViQh7yWWGStvkEG1Zmhx6uasJtWCJziofM";
const IOTA_OTHER_DID: &str = "did:iota:tst:0x0000000000000000000000000000000000000000000000000000000000000001";

fn base_core_json(did: &str, base: u8) -> Value {
  let mut vm = vec![json!({"id": format!("{did}#root"), "controller": did, "type": "Ed25519VerificationKey2018",
    "publicKeyMultibase": "zHyx62wPQGyvXCoihZq1BrbUjBRh2LuNxWiiqMkfAuSZr"})];
  let mut auth = vec![json!(format!("{did}#root"))];
  let mut assertion: Vec<Value> = vec![];
  if base == 1 {
    // '0', 'O', 'I', 'l' are not base58btc digits: MethodData::try_decode fails, hence MethodDigest::new fails
    vm.push(json!({"id": format!("{did}#undec"), "controller": did, "type": "Ed25519VerificationKey2018", "publicKeyMultibase": "z0OIl"}));
    assertion.push(json!(format!("{did}#undec")));
  }
  if base == 2 {
    auth.push(json!(format!("{did}#dangling")));
  }
  if base == 3 {
    // a full method (not a dangling reference) under another DID that shares the fragment the scenarios generate
    let other = if did == CORE_DID { CORE_OTHER_DID } else { IOTA_OTHER_DID };
    vm.insert(0, json!({"id": format!("{other}#k0"), "controller": other, "type": "Ed25519VerificationKey2018",
      "publicKeyMultibase": "z4uQeVj5tqViQh7yWWGStvkEG1Zmhx6uasJtWCJziofM"}));
    assertion.push(json!(format!("{other}#k0")));
  }
  let mut doc = json!({
    "id": did,
    "verificationMethod": vm,
    "authentication": auth,
    "service": [{"id": format!("{did}#svc"), "type": "LinkedDomains", "serviceEndpoint": "https://example.com/"}],
  });
  if !assertion.is_empty() {
    doc["assertionMethod"] = Value::Array(assertion);
  }
  doc
}

trait TestDoc: JwkDocumentExt + Sized {
  fn build(base: u8) -> Self;
  fn did_str() -> &'static str;
  fn other_did_str() -> &'static str;
  fn insert(&mut self, method: VerificationMethod, scope: MethodScope) -> bool;
  fn json(&self) -> Value;
  fn attach(&mut self, id: &DIDUrl, rel: MethodRelationship) -> Result<bool, String>;
  fn verify(&self, jws: &Jws) -> Result<(), String>;
  fn resolves(&self, id: &DIDUrl, scope: Option<MethodScope>) -> bool;
}
impl TestDoc for CoreDocument {
  fn build(base: u8) -> Self {
    CoreDocument::from_json_value(base_core_json(CORE_DID, base)).expect("base core document")
  }
  fn did_str() -> &'static str {
    CORE_DID
  }
  fn other_did_str() -> &'static str {
    CORE_OTHER_DID
  }
  fn insert(&mut self, method: VerificationMethod, scope: MethodScope) -> bool {
    self.insert_method(method, scope).is_ok()
  }
  fn json(&self) -> Value {
    self.to_json_value().expect("document serialises")
  }
  fn attach(&mut self, id: &DIDUrl, rel: MethodRelationship) -> Result<bool, String> {
    self.attach_method_relationship(id, rel).map_err(|e| e.to_string())
  }
  fn verify(&self, jws: &Jws) -> Result<(), String> {
    self.verify_jws(jws.as_str(), None, &EdDSAJwsVerifier::default(), &JwsVerificationOptions::default()).map(|_| ()).map_err(|e| e.to_string())
  }
  fn resolves(&self, id: &DIDUrl, scope: Option<MethodScope>) -> bool {
    self.resolve_method(id, scope).is_some()
  }
}
impl TestDoc for IotaDocument {
  fn build(base: u8) -> Self {
    let v = json!({"doc": base_core_json(IOTA_DID, base), "meta": {"created": "2023-05-12T15:09:50Z", "updated": "2023-05-12T15:09:50Z"}});
    IotaDocument::from_json_value(v).expect("base iota document")
  }
  fn did_str() -> &'static str {
    IOTA_DID
  }
  fn other_did_str() -> &'static str {
    IOTA_OTHER_DID
  }
  fn insert(&mut self, method: VerificationMethod, scope: MethodScope) -> bool {
    self.insert_method(method, scope).is_ok()
  }
  fn json(&self) -> Value {
    self.to_json_value().expect("document serialises")
  }
  fn attach(&mut self, id: &DIDUrl, rel: MethodRelationship) -> Result<bool, String> {
    self.attach_method_relationship(id, rel).map_err(|e| e.to_string())
  }
  fn verify(&self, jws: &Jws) -> Result<(), String> {
    self.verify_jws(jws, None, &EdDSAJwsVerifier::default(), &JwsVerificationOptions::default()).map(|_| ()).map_err(|e| e.to_string())
  }
  fn resolves(&self, id: &DIDUrl, scope: Option<MethodScope>) -> bool {
    self.resolve_method(id, scope).is_some()
  }
}

// ------------------------------------------------------------------------------------------------ observation

#[derive(Clone, Debug, PartialEq)]
struct Obs {
  /// method id -> (scope it is embedded in, its JSON)
  methods: BTreeMap<String, (String, String)>,
  /// a method id that occurs more than once among the embedded methods
  duplicate_ids: BTreeSet<String>,
  /// (relationship, referenced id)
  refs: BTreeSet<(String, String)>,
  /// the (core) document without the six method arrays
  rest: Value,
  /// what an IotaDocument serialises besides the core document (its metadata); recorded, never judged
  meta: Value,
  services: BTreeSet<String>,
  keys: BTreeSet<String>,
  key_count: usize,
  /// hex(digest) -> key id
  keyids: BTreeMap<String, String>,
  keyid_count: usize,
}

fn hex(b: &[u8]) -> String {
  b.iter().map(|x| format!("{x:02x}")).collect()
}
fn digest_of_json(method_json: &str) -> Option<MethodDigest> {
  let m = VerificationMethod::from_json(method_json).ok()?;
  MethodDigest::new(&m).ok()
}

fn observe<D: TestDoc>(doc: &D, st: &Store, ctl: &Ctl) -> Obs {
  let mut meta = doc.json();
  let mut rest = match meta.as_object_mut().and_then(|o| o.remove("doc")) {
    Some(core) => core,
    None => std::mem::replace(&mut meta, Value::Null),
  };
  let core: &mut Value = &mut rest;
  let mut methods = BTreeMap::new();
  let mut duplicate_ids = BTreeSet::new();
  let mut refs = BTreeSet::new();
  for scope in SCOPES {
    let arr = core.as_object_mut().and_then(|o| o.remove(scope));
    for e in arr.and_then(|a| a.as_array().cloned()).unwrap_or_default() {
      match &e {
        Value::String(id) => {
          refs.insert((scope.to_string(), id.clone()));
        }
        other => {
          let id = other.get("id").and_then(|i| i.as_str()).unwrap_or("?").to_string();
          if methods.insert(id.clone(), (scope.to_string(), other.to_string())).is_some() {
            duplicate_ids.insert(id);
          }
        }
      }
    }
  }
  let services = core
    .get("service")
    .and_then(|s| s.as_array())
    .map(|a| a.iter().filter_map(|s| s.get("id").and_then(|i| i.as_str()).map(String::from)).collect())
    .unwrap_or_default();
  let mut keys = BTreeSet::new();
  for k in ctl.issued.borrow().iter() {
    if matches!(block_on(st.key_storage().inner.exists(k)), Ok(true)) {
      keys.insert(k.as_str().to_string());
    }
  }
  let mut cands: Vec<MethodDigest> = ctl.digests.borrow().clone();
  for (_, (_, mj)) in methods.iter() {
    if let Some(d) = digest_of_json(mj) {
      if !cands.contains(&d) {
        cands.push(d);
      }
    }
  }
  let mut keyids = BTreeMap::new();
  for d in &cands {
    if let Ok(k) = block_on(st.key_id_storage().inner.get_key_id(d)) {
      keyids.insert(hex(&d.pack()), k.as_str().to_string());
    }
  }
  Obs {
    methods,
    duplicate_ids,
    refs,
    rest,
    meta,
    services,
    keys,
    key_count: block_on(st.key_storage().inner.count()),
    keyid_count: block_on(st.key_id_storage().inner.count()),
    keyids,
  }
}

impl Obs {
  fn ref_ids(&self) -> BTreeSet<&String> {
    self.refs.iter().map(|r| &r.1).collect()
  }
  /// (digest hex, key id) of a method that is backed by both stores
  fn backing(&self, id: &str) -> Option<(String, String)> {
    let (_, mj) = self.methods.get(id)?;
    let d = hex(&digest_of_json(mj)?.pack());
    let k = self.keyids.get(&d)?;
    self.keys.contains(k).then(|| (d, k.clone()))
  }
}

/// Differences between two observations that are NOT explained by `allowed` having been applied; every
/// difference is a class name (the last component of a violation key).
fn diff(before: &Obs, after: &Obs) -> Vec<&'static str> {
  let mut out = Vec::new();
  for (id, (scope, mj)) in &before.methods {
    match after.methods.get(id) {
      None => out.push("method-dropped"),
      Some((s2, m2)) => {
        if s2 != scope {
          out.push("method-scope-changed")
        }
        if m2 != mj {
          out.push("method-content-changed")
        }
      }
    }
  }
  if after.methods.keys().any(|k| !before.methods.contains_key(k)) {
    out.push("method-left-behind");
  }
  if before.refs.difference(&after.refs).next().is_some() {
    out.push("references-dropped");
  }
  if after.refs.difference(&before.refs).next().is_some() {
    out.push("references-added");
  }
  if before.rest != after.rest || after.duplicate_ids != before.duplicate_ids {
    out.push("document-other-part-changed");
  }
  if before.keys.difference(&after.keys).next().is_some() {
    out.push("key-deleted");
  }
  if after.keys.difference(&before.keys).next().is_some() || (after.keys == before.keys && after.key_count != before.key_count) {
    out.push("orphan-key");
  }
  for (d, k) in &before.keyids {
    match after.keyids.get(d) {
      None => out.push("key-id-deleted"),
      Some(k2) if k2 != k => out.push("key-id-remapped"),
      _ => {}
    }
  }
  if after.keyids.keys().any(|d| !before.keyids.contains_key(d)) || (after.keyids == before.keyids && after.keyid_count != before.keyid_count) {
    out.push("orphan-key-id");
  }
  out.sort();
  out.dedup();
  out
}

// ------------------------------------------------------------------------------------------------ one execution

fn err_name(e: &JwkStorageDocumentError) -> String {
  format!("{e:?}").chars().take_while(|c| c.is_ascii_alphanumeric()).collect()
}
fn frag_string(f: Fr) -> Option<&'static str> {
  const K: [&str; 10] = ["#k0", "#k1", "#k2", "#k3", "#k4", "#k5", "#k6", "#k7", "#k8", "#k9"];
  const B: [&str; 10] = ["b0", "b1", "b2", "b3", "b4", "b5", "b6", "b7", "b8", "b9"];
  match f {
    Fr::Auto => None,
    Fr::Named(n) => Some(K[n as usize % 10]),
    Fr::Bare(n) => Some(B[n as usize % 10]),
    Fr::Root => Some("#root"),
    Fr::Svc => Some("#svc"),
    Fr::Dangling => Some("#dangling"),
    Fr::Invalid => Some("#bad fragment\u{7f}<>"),
  }
}
/// Failing calls of one operation: injected ones by label, native ones (the real store said Err) marked.
fn fault_pattern(calls: &[(&'static str, bool)], native: &[&'static str]) -> String {
  let mut f: Vec<String> = calls.iter().filter(|c| c.1).map(|c| c.0.to_string()).collect();
  f.extend(native.iter().map(|l| format!("{l}(native)")));
  if f.is_empty() {
    "none".into()
  } else {
    f.join("+")
  }
}

struct Exec<'a, 'c, 'p, D: TestDoc> {
  ctx: &'a Ctx,
  scn: &'a Scenario,
  ctl: Rc<Ctl<'c, 'p>>,
  st: Store<'c, 'p>,
  doc: D,
  auto: Option<String>,
  /// local outcome histogram, merged once per execution
  hist: BTreeMap<String, u64>,
}

enum Res {
  Gen(Result<Result<String, JwkStorageDocumentError>, vx::Panicked>),
  Purge(Result<Result<(), JwkStorageDocumentError>, vx::Panicked>),
  Sign(Result<Result<Jws, JwkStorageDocumentError>, vx::Panicked>),
  SignVc(Result<Result<String, JwkStorageDocumentError>, vx::Panicked>),
  Attach,
}

impl<'a, 'c, 'p, D: TestDoc> Exec<'a, 'c, 'p, D> {
  fn case(&self) -> Case {
    Case { scn: self.scn.clone(), faults: self.ctl.ch.borrow().seq() }
  }
  fn violation(&self, key: &str, what: &str) {
    if std::env::var_os("C09_TRACE").is_some() {
      eprintln!("C09_TRACE {key}: {what} :: {}", serde_json::to_string(&self.case()).unwrap_or_default());
    }
    self.ctx.violation(key, &format!("[{:?}] {what}", self.scn.doc), &self.case());
  }
  fn target_id(&self, t: Tg) -> String {
    let did = D::did_str();
    match t {
      Tg::Named(n) => format!("{did}{}", frag_string(Fr::Named(n)).unwrap()),
      Tg::Auto => format!("{did}#{}", self.auto.clone().unwrap_or_else(|| "no-auto-yet".into())),
      Tg::Root => format!("{did}#root"),
      Tg::Undec => format!("{did}#undec"),
      Tg::Absent => format!("{did}#absent"),
      Tg::Svc => format!("{did}#svc"),
      Tg::Foreign(n) => format!("{}{}", D::other_did_str(), frag_string(Fr::Named(n)).unwrap()),
      Tg::Alias(n) => format!("{did}#a{}", n % 10),
    }
  }

  /// Run the real API for one operation.
  fn apply(&mut self, op: Op) -> Res {
    let st = &self.st;
    let doc = &mut self.doc;
    match op {
      Op::Gen { scope, frag, kt } => {
        let (key_type, alg) = match kt {
          Kt::Ed25519EdDsa => (JwkMemStore::ED25519_KEY_TYPE, JwsAlgorithm::EdDSA),
          Kt::Ed25519Es256 => (JwkMemStore::ED25519_KEY_TYPE, JwsAlgorithm::ES256),
          Kt::Bogus => (KeyType::new("bogus"), JwsAlgorithm::EdDSA),
        };
        let r = guard(|| block_on(doc.generate_method(st, key_type, alg, frag_string(frag), scope_of(scope).0)));
        if let (Ok(Ok(f)), Fr::Auto) = (&r, frag) {
          self.auto = Some(f.trim_start_matches('#').to_string());
        }
        Res::Gen(r)
      }
      Op::Purge { target } => {
        let id = self.target_id(target);
        let doc = &mut self.doc;
        let url = DIDUrl::parse(&id).expect("target id parses");
        Res::Purge(guard(|| block_on(doc.purge_method(st, &url))))
      }
      Op::Attach { target, rel } => {
        let id = self.target_id(target);
        let url = DIDUrl::parse(&id).expect("target id parses");
        let _ = guard(|| self.doc.attach(&url, RELS[rel as usize % 5]));
        Res::Attach
      }
      Op::Sign { target } => {
        let id = self.target_id(target);
        let frag = self.sign_query(&id);
        let doc = &self.doc;
        Res::Sign(guard(|| block_on(doc.create_jws(st, &frag, b"c09 payload", &JwsSignatureOptions::default()))))
      }
      Op::SignVc { target, pres } => {
        let id = self.target_id(target);
        let frag = id.rsplit_once('#').map(|p| format!("#{}", p.1)).unwrap_or_default();
        let doc = &self.doc;
        let did = Url::parse(D::did_str()).expect("did is a url");
        let o = JwsSignatureOptions::default();
        if pres {
          let p: Presentation<Jwt> = PresentationBuilder::new(did, Object::new())
            .credential(Jwt::new("eyJhbGciOiJFZERTQSJ9.e30.c2ln".to_string()))
            .build()
            .expect("presentation");
          Res::SignVc(guard(|| {
            block_on(doc.create_presentation_jwt(&p, st, &frag, &o, &JwtPresentationOptions::default())).map(|j| j.as_str().to_string())
          }))
        } else {
          let c: Credential = CredentialBuilder::default()
            .id(Url::parse("https://example.edu/credentials/3732").unwrap())
            .issuer(did)
            .type_("UniversityDegreeCredential")
            .subject(Subject::with_id(Url::parse("did:example:subject").unwrap()))
            .issuance_date(vx::fx::ts(vx::fx::NOW))
            .build()
            .expect("credential");
          Res::SignVc(guard(|| block_on(doc.create_credential_jwt(&c, st, &frag, &o, None)).map(|j| j.as_str().to_string())))
        }
      }
      Op::Alias { from, to } => {
        // harness-side (never armed): copy the method under a new fragment and record the copy's digest under the
        // key id of the original, directly in the real key-id store.
        let from_id = self.target_id(from);
        let obs = observe(&self.doc, &self.st, &self.ctl);
        let src = obs.methods.get(&from_id).map(|m| m.1.clone());
        let key = obs.backing(&from_id).map(|b| b.1);
        self.ctx.require(src.is_some() && key.is_some() && !self.ctl.armed.get(), "Alias: source method must be backed, faults off");
        let mut v: Value = serde_json::from_str(&src.unwrap_or_default()).unwrap_or(Value::Null);
        v["id"] = json!(self.target_id(Tg::Alias(to)));
        let m = VerificationMethod::from_json_value(v).ok();
        let d = m.as_ref().and_then(|m| MethodDigest::new(m).ok());
        self.ctx.require(m.is_some() && d.is_some(), "Alias: copy of the method is a method with a digest");
        if let (Some(m), Some(d), Some(k)) = (m, d, key) {
          let ok = self.doc.insert(m, MethodScope::VerificationMethod)
            && block_on(self.st.key_id_storage().inner.insert_key_id(d.clone(), KeyId::new(k))).is_ok();
          self.ctx.require(ok, "Alias: insertion of the copy and of its key id");
          self.ctl.saw(&d);
        }
        Res::Attach
      }
    }
  }

  /// (Fragments are passed with their leading '#': a bare fragment that happens to start with "did" — one kid
  /// thumbprint in 64^3 does — is taken for a full DID URL by the document's query parser and not found; that is
  /// not a storage matter and would make the check depend on the random key.)
  /// create_jws with the faults off + verify_jws: `Err(reason)` if the method cannot be used for signing.
  /// What is handed to `create_jws` for the method `id`: its fragment — unless (base 3) a method of ANOTHER DID in the
  /// document carries the same fragment: a bare fragment then denotes both, and the full id is the unambiguous query.
  fn sign_query(&self, id: &str) -> String {
    let frag = id.rsplit_once('#').map(|p| format!("#{}", p.1)).unwrap_or_default();
    if self.scn.base == 3 && frag == "#k0" {
      id.to_string()
    } else {
      frag
    }
  }
  fn usable(&self, id: &str) -> Result<(), String> {
    let frag = self.sign_query(id);
    debug_assert!(!self.ctl.armed.get());
    match guard(|| block_on(self.doc.create_jws(&self.st, &frag, b"usable?", &JwsSignatureOptions::default()))) {
      Ok(Ok(jws)) => match guard(|| self.doc.verify(&jws)) {
        Ok(Ok(())) => Ok(()),
        Ok(Err(e)) => Err(format!("signature does not verify: {e}")),
        Err(p) => Err(format!("verify_jws panicked: {}", p.msg)),
      },
      Ok(Err(e)) => Err(format!("create_jws: {}", err_name(&e))),
      Err(p) => Err(format!("create_jws panicked: {}", p.msg)),
    }
  }

  /// One armed operation with the oracle. Returns false if the execution must stop (exempt outcome,
  /// violation or panic: the state is no longer one the property speaks about).
  fn step(&mut self, op: Op) -> bool {
    let before = observe(&self.doc, &self.st, &self.ctl);
    self.ctl.calls.borrow_mut().clear();
    self.ctl.native.borrow_mut().clear();
    self.ctl.armed.set(true);
    let res = self.apply(op);
    self.ctl.armed.set(false);
    let calls = self.ctl.calls.borrow().clone();
    let native = self.ctl.native.borrow().clone();
    let injected = calls.iter().any(|c| c.1);
    // did ANY storage call of this operation fail (by injection or because the real store said so)?
    let any_failed = injected || !native.is_empty();
    let pat = fault_pattern(&calls, &native);
    let after = observe(&self.doc, &self.st, &self.ctl);
    // never judged: what an IotaDocument carries besides the core document
    let meta = if before.meta != after.meta { "+meta-changed(unjudged)" } else { "" };
    let did = D::did_str();
    let mut go_on = true;
    let label: String;
    match (op, res) {
      (Op::Attach { .. }, _) | (Op::Alias { .. }, _) | (_, Res::Attach) => {
        label = format!("attach:{}", if before == after { "no-change" } else { "attached" });
      }
      // ------------------------------------------------------------------ generate_method
      (Op::Gen { scope, frag, kt }, Res::Gen(r)) => {
        let want_scope = scope_of(scope).1;
        let req_id = frag_string(frag).map(|f| format!("{did}#{}", f.trim_start_matches('#')));
        let id_free = req_id
          .as_ref()
          .map(|i| !before.methods.contains_key(i) && !before.services.contains(i) && !before.ref_ids().contains(i))
          .unwrap_or(true);
        // liveness is demanded on the baseline family only: supported key type, no fragment or a fresh "#name"
        // (the form the API's own tests and examples use); a fragment without '#' is executed and judged in the
        // safety direction only.
        let expect_ok = id_free && kt == Kt::Ed25519EdDsa && matches!(frag, Fr::Auto | Fr::Named(_));
        // Not judged at all: the requested id is already carried by a relationship reference that points at no
        // method (a dangling self-reference). Such a document is outside the quantifier of the property (what
        // insert_method does with it is C04's business); executed and recorded only.
        let open = req_id.as_ref().map(|i| !before.methods.contains_key(i) && before.ref_ids().contains(i)).unwrap_or(false);
        if open {
          let what = match &r {
            Err(_) => "panic".to_string(),
            Ok(Ok(_)) => format!("ok,method-in-document={}", req_id.as_ref().map(|i| after.methods.contains_key(i)).unwrap_or(false)),
            Ok(Err(e)) => format!("err({}),state-{}", err_name(e), if diff(&before, &after).is_empty() { "unchanged".to_string() } else { diff(&before, &after).join("+") }),
          };
          *self.hist.entry(format!("gen:unjudged-dangling-self-reference:{what}|faults={pat}")).or_insert(0) += 1;
          return false;
        }
        match r {
          Err(p) => {
            self.violation(&format!("generate_method|{}", p.key()), &format!("faults {pat}: {}", p.msg));
            label = "gen:panic".into();
            go_on = false;
          }
          Ok(Ok(fragment)) => {
            let fragment = fragment.trim_start_matches('#').to_string();
            let id = format!("{did}#{fragment}");
            let mut bad: Vec<(&str, String)> = Vec::new();
            if let (Some(r), true) = (&req_id, frag != Fr::Invalid) {
              if *r != id {
                bad.push(("returned-fragment-is-not-the-requested-one", format!("requested {r}, returned {fragment}")));
              }
            }
            if before.methods.contains_key(&id) {
              bad.push(("existing-method-replaced", id.clone()));
            }
            let mut expected = before.clone();
            match after.methods.get(&id) {
              None => bad.push(("method-missing", format!("{id} is not in the document"))),
              Some((s, mj)) => {
                if s != want_scope {
                  bad.push(("method-in-wrong-scope", format!("{id} is in {s}, requested {want_scope}")));
                }
                let url = DIDUrl::parse(&id).ok();
                if !url.map(|u| self.doc.resolves(&u, Some(scope_of(scope).0))).unwrap_or(false) {
                  bad.push(("method-does-not-resolve", format!("resolve_method({id}, {want_scope}) is None")));
                }
                expected.methods.insert(id.clone(), (s.clone(), mj.clone()));
                let newk: Vec<&String> = after.keys.difference(&before.keys).collect();
                match (digest_of_json(mj), newk.as_slice()) {
                  (Some(d), [k]) => {
                    expected.keys.insert((*k).clone());
                    expected.key_count += 1;
                    expected.keyids.insert(hex(&d.pack()), (*k).clone());
                    expected.keyid_count += 1;
                  }
                  (None, _) => bad.push(("method-has-no-digest", id.clone())),
                  (_, ks) => bad.push(("key-store-not-extended-by-one-key", format!("{} new keys", ks.len()))),
                }
              }
            }
            if bad.is_empty() {
              for c in diff(&expected, &after) {
                bad.push((c, format!("state after Ok differs from (state before + new method + its key + its key id): {c}")));
              }
            }
            if bad.is_empty() {
              if let Err(e) = self.usable(&id) {
                bad.push(("signing-fails", e));
              }
            }
            for (c, w) in &bad {
              self.violation(&format!("generate_method|ok|{c}"), &format!("faults {pat}: {w}"));
            }
            go_on = bad.is_empty();
            label = format!("gen:ok{}{}", if any_failed { "-despite-fault" } else { "" }, if bad.is_empty() { "" } else { "+INCOMPLETE" });
          }
          Ok(Err(JwkStorageDocumentError::UndoOperationFailed { .. })) if any_failed => {
            label = "gen:undo-failed(exempt)".into();
            go_on = false;
          }
          Ok(Err(e)) => {
            // incl. a failed-undo report although no storage call failed: there was no undo step that could have failed
            let false_undo = matches!(e, JwkStorageDocumentError::UndoOperationFailed { .. });
            let name = err_name(&e);
            let d = diff(&before, &after);
            for c in &d {
              if false_undo {
                self.violation(
                  &format!("generate_method|undo-failure-reported-although-no-storage-call-failed|{c}"),
                  &format!("Err({name}) and the observable state changed ({c}), but every storage call of the operation succeeded"),
                );
              } else {
                self.violation(
                  &format!("generate_method|err-without-undo-report|{c}"),
                  &format!("faults {pat}: Err({name}) but the observable state changed: {c}"),
                );
              }
            }
            if d.is_empty() && !any_failed && expect_ok {
              self.violation("generate_method|no-fault|unexpected-error", &format!("Err({name}) although no storage call failed"));
            }
            go_on = d.is_empty() && !false_undo;
            label = format!("gen:err({name}){}+{}", if false_undo { "-without-failed-call" } else { "" }, if d.is_empty() { "unchanged" } else { "CHANGED" });
          }
        }
      }
      // ------------------------------------------------------------------ purge_method
      (Op::Purge { target }, Res::Purge(r)) => {
        let id = self.target_id(target);
        let backing = before.backing(&id);
        match r {
          Err(p) => {
            self.violation(&format!("purge_method|{}", p.key()), &format!("faults {pat}: {}", p.msg));
            label = "purge:panic".into();
            go_on = false;
          }
          Ok(Ok(())) if !before.methods.contains_key(&id) => {
            // The statement does not say what a purge of a method the document does not contain returns; Ok is
            // recorded, and then nothing whatsoever may have changed.
            let d = diff(&before, &after);
            for c in &d {
              self.violation(
                &format!("purge_method|ok-for-absent-method|{c}"),
                &format!("faults {pat}: Ok for {id}, which the document does not contain, and the observable state changed: {c}"),
              );
            }
            go_on = d.is_empty();
            label = format!("purge:ok-for-absent-method(unjudged){}", if d.is_empty() { "" } else { "+CHANGED" });
          }
          Ok(Ok(())) => {
            let mut bad: Vec<(&str, String)> = Vec::new();
            let mut expected = before.clone();
            let removed = expected.methods.remove(&id);
            expected.refs.retain(|r| r.1 != id);
            match &backing {
              Some((d, k)) => {
                expected.keys.remove(k);
                expected.key_count -= 1;
                expected.keyids.remove(d);
                expected.keyid_count -= 1;
              }
              None => {
                // Not a storage-backed method (no key id, or a key id naming no live key): whether its purge is
                // Ok is left open by the statement. Method and references must be gone, a key-id entry of the
                // method may be gone, nothing else may be touched.
                let dh = removed.as_ref().and_then(|m| digest_of_json(&m.1)).map(|d| hex(&d.pack()));
                if let Some(dh) = dh {
                  if expected.keyids.contains_key(&dh) && !after.keyids.contains_key(&dh) {
                    expected.keyids.remove(&dh);
                    expected.keyid_count -= 1;
                  }
                }
              }
            }
            if after.methods.contains_key(&id) || DIDUrl::parse(&id).map(|u| self.doc.resolves(&u, None)).unwrap_or(false) {
              bad.push(("method-still-present", id.clone()));
            }
            if after.ref_ids().contains(&id) {
              bad.push(("reference-left-behind", id.clone()));
            }
            if let Some((d, k)) = &backing {
              if after.keys.contains(k) {
                bad.push(("key-still-live", "the private key survived the purge".into()));
              }
              if after.keyids.contains_key(d) {
                bad.push(("key-id-still-recorded", "the digest -> key id entry survived the purge".into()));
              }
            }
            if bad.is_empty() {
              for c in diff(&expected, &after) {
                bad.push((c, format!("state after Ok differs from (state before - method - references - key - key id): {c}")));
              }
            }
            for (c, w) in &bad {
              self.violation(&format!("purge_method|ok|{c}"), &format!("faults {pat}: {w}"));
            }
            go_on = bad.is_empty();
            label = format!(
              "purge:ok{}{}{}",
              if backing.is_none() { "-not-storage-backed(unjudged)" } else { "" },
              if any_failed { "-despite-fault" } else { "" },
              if bad.is_empty() { "" } else { "+INCOMPLETE" }
            );
          }
          Ok(Err(JwkStorageDocumentError::UndoOperationFailed { .. })) if any_failed => {
            label = "purge:undo-failed(exempt)".into();
            go_on = false;
          }
          Ok(Err(e)) => {
            let false_undo = matches!(e, JwkStorageDocumentError::UndoOperationFailed { .. });
            let name = err_name(&e);
            let d = diff(&before, &after);
            let nrefs = before.refs.iter().filter(|r| r.1 == id).count();
            let shape = match before.methods.get(&id) {
              None => "absent".to_string(),
              Some((s, _)) if s == "verificationMethod" => format!("general method with {nrefs} reference(s)"),
              Some((s, _)) => format!("method embedded in {s}"),
            };
            for c in &d {
              if false_undo {
                self.violation(
                  &format!("purge_method|undo-failure-reported-although-no-storage-call-failed|{c}"),
                  &format!("purge of a {shape}: Err({name}) and the observable state changed ({c}), but every storage call of the operation succeeded"),
                );
              } else {
                self.violation(
                  &format!("purge_method|err-without-undo-report|{c}"),
                  &format!("purge of a {shape}, failing calls {pat}: Err({name}) but the observable state changed: {c}"),
                );
              }
            }
            if d.is_empty() && !any_failed && backing.is_some() {
              self.violation("purge_method|no-fault|unexpected-error", &format!("Err({name}) although no storage call failed"));
            }
            go_on = d.is_empty() && !false_undo;
            label = format!("purge:err({name}){}+{}", if false_undo { "-without-failed-call" } else { "" }, if d.is_empty() { "unchanged" } else { "CHANGED" });
          }
        }
      }
      // ------------------------------------------------------------------ create_jws
      // The property is about generate / purge. What it says about signing: it works for a storage-backed method
      // (judged when no storage call failed), and - create_jws takes the document by shared reference and has no
      // business writing to the stores - the observable state is the same afterwards whatever the outcome.
      // Everything else under faults is recorded only.
      (Op::Sign { target }, Res::Sign(r)) => {
        let id = self.target_id(target);
        let judged = before.backing(&id).is_some() && !any_failed;
        let changed = diff(&before, &after);
        for c in &changed {
          self.violation(&format!("create_jws|state-changed|{c}"), &format!("faults {pat}"));
        }
        go_on = changed.is_empty();
        match r {
          Err(p) => {
            if judged {
              self.violation(&format!("create_jws|{}", p.key()), &format!("no storage call failed: {}", p.msg));
            }
            label = format!("sign:panic{}", if judged { "" } else { "(unjudged)" });
            go_on = false;
          }
          Ok(Ok(jws)) => {
            let v = guard(|| self.doc.verify(&jws));
            let verifies = matches!(v, Ok(Ok(())));
            if !verifies && judged {
              self.violation("create_jws|ok|signature-does-not-verify", &format!("no storage call failed: {v:?}"));
              go_on = false;
            }
            label = format!(
              "sign:ok{}{}",
              if any_failed { "-despite-fault" } else { "" },
              if verifies { "" } else if judged { "+NOT-VERIFYING" } else { "+not-verifying(unjudged)" }
            );
          }
          Ok(Err(e)) => {
            let name = err_name(&e);
            if judged {
              self.violation("create_jws|no-fault|unexpected-error", &format!("Err({name}) for a backed method although no storage call failed"));
              go_on = false;
            }
            label = format!("sign:err({name})");
          }
        }
      }
      // ------------------------------------------------------------------ create_credential_jwt / create_presentation_jwt
      // judged: observable state unchanged. Outcome recorded.
      (Op::SignVc { pres, .. }, Res::SignVc(r)) => {
        let entry = if pres { "create_presentation_jwt" } else { "create_credential_jwt" };
        let changed = diff(&before, &after);
        for c in &changed {
          self.violation(&format!("{entry}|state-changed|{c}"), &format!("faults {pat}"));
        }
        go_on = changed.is_empty();
        label = match r {
          Err(_) => {
            go_on = false;
            format!("{entry}:panic(unjudged)")
          }
          Ok(Ok(_)) => format!("{entry}:ok{}", if any_failed { "-despite-fault" } else { "" }),
          Ok(Err(e)) => format!("{entry}:err({})", err_name(&e)),
        };
      }
      _ => unreachable!("result kind matches operation kind"),
    }
    *self.hist.entry(format!("{label}{meta}|faults={pat}")).or_insert(0) += 1;
    go_on
  }
}

/// The body explored by E1: one execution of a scenario; `ch` decides which call occurrences fail.
fn run<D: TestDoc>(ctx: &Ctx, scn: &Scenario, ch: &mut Chooser) -> (usize, bool) {
  let ctl = Rc::new(Ctl {
    ch: RefCell::new(ch),
    armed: Cell::new(false),
    kind: scn.kind,
    calls: RefCell::new(Vec::new()),
    native: RefCell::new(Vec::new()),
    issued: RefCell::new(Vec::new()),
    digests: RefCell::new(Vec::new()),
    stats: RefCell::new(BTreeMap::new()),
  });
  let st = Storage::new(
    FaultyJwk { inner: JwkMemStore::new(), ctl: ctl.clone() },
    FaultyKeyId { inner: KeyIdMemstore::new(), ctl: ctl.clone() },
  );
  let mut ex = Exec { ctx, scn, ctl, st, doc: D::build(scn.base), auto: None, hist: BTreeMap::new() };
  for op in &scn.setup {
    let ok = match ex.apply(*op) {
      Res::Gen(Ok(Ok(_))) | Res::Purge(Ok(Ok(()))) | Res::Sign(Ok(Ok(_))) | Res::SignVc(Ok(Ok(_))) | Res::Attach => true,
      _ => false,
    };
    ctx.require(ok, &format!("setup step {op:?} of scenario {scn:?} failed"));
  }
  let mut done = 0;
  let mut complete = true;
  let mut labels: Vec<String> = Vec::new();
  for op in &scn.ops {
    let go_on = ex.step(*op);
    done += 1;
    if !go_on {
      complete = false;
      break;
    }
  }
  // final state of an execution that ended inside the property's domain: every backed method is usable,
  // no key without key id, no key id without key. (Off where the harness itself made two methods share a key id.)
  let shared_key_id = scn.setup.iter().any(|o| matches!(o, Op::Alias { .. }));
  if complete && !shared_key_id {
    let obs = observe(&ex.doc, &ex.st, &ex.ctl);
    let mut mapped = BTreeSet::new();
    for (id, (_, mj)) in &obs.methods {
      if let Some(d) = digest_of_json(mj) {
        if let Some(k) = obs.keyids.get(&hex(&d.pack())) {
          mapped.insert(k.clone());
          if let Err(e) = ex.usable(id) {
            ex.violation("final-state|method-with-key-id-cannot-sign", &format!("{id}: {e}"));
          }
        }
      }
    }
    if obs.keys.iter().any(|k| !mapped.contains(k)) || obs.key_count != obs.keys.len() {
      ex.violation("final-state|orphan-key", "a live key is not recorded under the digest of any method of the document");
    }
    if obs.keyids.len() != mapped.len() || obs.keyid_count != obs.keyids.len() || mapped.iter().any(|k| !obs.keys.contains(k)) {
      ex.violation("final-state|orphan-key-id", "a key id entry belongs to no method of the document or names a dead key");
    }
  }
  labels.extend(ex.hist.keys().cloned());
  ctx.outcomes_merge(&ex.hist);
  {
    let mut g = CALL_STATS.lock().unwrap();
    for (l, (c, i, n)) in ex.ctl.stats.borrow().iter() {
      let e = g.entry(*l).or_insert((0, 0, 0));
      e.0 += c;
      e.1 += i;
      e.2 += n;
    }
  }
  ctx.distinct(&(scn, &labels));
  (done, complete)
}

fn run_kind(ctx: &Ctx, scn: &Scenario, ch: &mut Chooser) -> (usize, bool) {
  match scn.doc {
    DocKind::Core => run::<CoreDocument>(ctx, scn, ch),
    DocKind::Iota => run::<IotaDocument>(ctx, scn, ch),
  }
}

fn eval(ctx: &Ctx, case: &Case) {
  ctx.eval1();
  let mut ch = Chooser::replay(&case.faults);
  run_kind(ctx, &case.scn, &mut ch);
}

// ------------------------------------------------------------------------------------------------ enumeration

fn gen(scope: Scp, frag: Fr) -> Op {
  Op::Gen { scope, frag, kt: Kt::Ed25519EdDsa }
}

/// (name, scenario) of part (A) for one document kind and one injected error kind.
fn single_op_scenarios(doc: DocKind, kind: u8) -> Vec<(String, Scenario)> {
  let mut v = Vec::new();
  // a storage-backed bystander (general method #k9 referenced from authentication) is part of every document
  let by = vec![gen(Scp::Vm, Fr::Named(9)), Op::Attach { target: Tg::Named(9), rel: 0 }];
  let mk = |base: u8, extra: Vec<Op>, ops: Vec<Op>| {
    let mut setup = by.clone();
    setup.extend(extra);
    Scenario { doc, base, setup, ops, kind }
  };
  const ALL_SCOPES: [Scp; 6] = [Scp::Vm, Scp::Auth, Scp::Assert, Scp::KeyAgr, Scp::CapDel, Scp::CapInv];
  for scope in ALL_SCOPES {
    for (fname, frag) in [
      ("none", Fr::Auto),
      ("fresh", Fr::Named(0)),
      ("fresh-without-hash", Fr::Bare(0)),
      ("used-by-backed-general-method", Fr::Named(9)),
      ("used-by-unbacked-general-method", Fr::Root),
      ("used-by-service", Fr::Svc),
      ("invalid", Fr::Invalid),
    ] {
      v.push((format!("generate scope={scope:?} fragment={fname}"), mk(0, vec![], vec![gen(scope, frag)])));
    }
  }
  for scope in [Scp::Vm, Scp::Auth] {
    v.push((
      format!("generate scope={scope:?} fragment=used-by-embedded-method"),
      mk(0, vec![gen(Scp::Auth, Fr::Named(8))], vec![gen(scope, Fr::Named(8))]),
    ));
    v.push((format!("generate scope={scope:?} fragment=carried-by-dangling-reference"), mk(2, vec![], vec![gen(scope, Fr::Dangling)])));
  }
  // the requested fragment is also the fragment of a method of another DID in the document (the ids differ: the
  // operations act on the own one and leave the other alone, whatever fails)
  for scope in ALL_SCOPES {
    v.push((format!("generate scope={scope:?} fragment=also-carried-by-a-method-of-another-did"), mk(3, vec![], vec![gen(scope, Fr::Named(0))])));
  }
  v.push(("purge general method whose fragment a method of another DID shares".into(), mk(3, vec![gen(Scp::Vm, Fr::Named(0)), Op::Attach { target: Tg::Named(0), rel: 0 }], vec![Op::Purge { target: Tg::Named(0) }])));
  v.push(("purge embedded method whose fragment a method of another DID shares".into(), mk(3, vec![gen(Scp::Auth, Fr::Named(0))], vec![Op::Purge { target: Tg::Named(0) }])));
  for kt in [Kt::Ed25519Es256, Kt::Bogus] {
    v.push((format!("generate scope=Vm fragment=fresh keytype={kt:?}"), mk(0, vec![], vec![Op::Gen { scope: Scp::Vm, frag: Fr::Named(0), kt }])));
  }
  // purge
  for refs in [0u8, 1, 2, 5] {
    let mut extra = vec![gen(Scp::Vm, Fr::Named(0))];
    for r in 0..refs {
      // relationship 0 (authentication) first, then assertionMethod, ...
      extra.push(Op::Attach { target: Tg::Named(0), rel: r });
    }
    v.push((format!("purge general method with {refs} reference(s)"), mk(0, extra, vec![Op::Purge { target: Tg::Named(0) }])));
  }
  v.push((
    "purge general method (kid fragment) with 1 reference".into(),
    mk(0, vec![gen(Scp::Vm, Fr::Auto), Op::Attach { target: Tg::Auto, rel: 1 }], vec![Op::Purge { target: Tg::Auto }]),
  ));
  for scope in &ALL_SCOPES[1..] {
    let name = scope_of(*scope).1;
    v.push((format!("purge method embedded in {name}"), mk(0, vec![gen(*scope, Fr::Named(0))], vec![Op::Purge { target: Tg::Named(0) }])));
  }
  // an embedded method that is neither the first nor the last entry of its relationship (which also holds references)
  v.push((
    "purge method embedded in authentication between other entries".into(),
    mk(
      0,
      vec![gen(Scp::Auth, Fr::Named(1)), gen(Scp::Auth, Fr::Named(0)), gen(Scp::Auth, Fr::Named(2))],
      vec![Op::Purge { target: Tg::Named(0) }],
    ),
  ));
  v.push(("purge absent method".into(), mk(0, vec![], vec![Op::Purge { target: Tg::Absent }])));
  v.push(("purge unbacked general method with 1 reference".into(), mk(0, vec![], vec![Op::Purge { target: Tg::Root }])));
  v.push(("purge general method with undecodable key data and 1 reference".into(), mk(1, vec![], vec![Op::Purge { target: Tg::Undec }])));
  // ids that name something else than a method of this document
  v.push(("purge the id of a service".into(), mk(0, vec![gen(Scp::Vm, Fr::Named(0))], vec![Op::Purge { target: Tg::Svc }])));
  v.push((
    "purge the same fragment under another DID".into(),
    mk(0, vec![gen(Scp::Vm, Fr::Named(0)), Op::Attach { target: Tg::Named(0), rel: 0 }], vec![Op::Purge { target: Tg::Foreign(0) }]),
  ));
  // two methods sharing one key id (made by the harness; per-operation oracles only)
  let shared = vec![gen(Scp::Vm, Fr::Named(0)), Op::Attach { target: Tg::Named(0), rel: 1 }, Op::Alias { from: Tg::Named(0), to: 0 }, Op::Attach { target: Tg::Alias(0), rel: 2 }];
  v.push(("shared key id: purge the original".into(), mk(0, shared.clone(), vec![Op::Purge { target: Tg::Named(0) }])));
  v.push(("shared key id: purge the copy".into(), mk(0, shared.clone(), vec![Op::Purge { target: Tg::Alias(0) }])));
  v.push((
    "shared key id: purge the original, then the copy (its key is gone: K.delete fails natively)".into(),
    mk(0, shared.clone(), vec![Op::Purge { target: Tg::Named(0) }, Op::Purge { target: Tg::Alias(0) }]),
  ));
  v.push((
    "shared key id: purge the copy, then sign with the original".into(),
    mk(0, shared, vec![Op::Purge { target: Tg::Alias(0) }, Op::Sign { target: Tg::Named(0) }]),
  ));
  // signing entry points under faults (judged: state unchanged; create_jws without a failing call: works)
  for (tname, target) in [("backed general method", Tg::Named(0)), ("unbacked method", Tg::Root)] {
    let setup = vec![gen(Scp::Vm, Fr::Named(0))];
    v.push((format!("create_jws with a {tname}"), mk(0, setup.clone(), vec![Op::Sign { target }])));
    v.push((format!("create_credential_jwt with a {tname}"), mk(0, setup.clone(), vec![Op::SignVc { target, pres: false }])));
    v.push((format!("create_presentation_jwt with a {tname}"), mk(0, setup, vec![Op::SignVc { target, pres: true }])));
  }
  v
}

const ALPHABET: [Op; 8] = [
  Op::Gen { scope: Scp::Vm, frag: Fr::Named(0), kt: Kt::Ed25519EdDsa },
  Op::Gen { scope: Scp::Auth, frag: Fr::Named(1), kt: Kt::Ed25519EdDsa },
  Op::Gen { scope: Scp::Vm, frag: Fr::Auto, kt: Kt::Ed25519EdDsa },
  Op::Attach { target: Tg::Named(0), rel: 1 },
  Op::Purge { target: Tg::Named(0) },
  Op::Purge { target: Tg::Named(1) },
  Op::Purge { target: Tg::Auto },
  Op::Sign { target: Tg::Named(0) },
];

/// (C): repeated life cycles of ONE method (generate as general method, reference it, sign, purge), deeper.
const CYCLE_ALPHABET: [Op; 4] = [
  Op::Gen { scope: Scp::Vm, frag: Fr::Named(0), kt: Kt::Ed25519EdDsa },
  Op::Attach { target: Tg::Named(0), rel: 0 },
  Op::Purge { target: Tg::Named(0) },
  Op::Sign { target: Tg::Named(0) },
];

/// (D): one fragment generated embedded or general (clash when both), a kid-named embedded method, a reference,
/// purges by own id / by the same fragment under another DID, credential signing.
const MIX_ALPHABET: [Op; 8] = [
  Op::Gen { scope: Scp::Auth, frag: Fr::Named(0), kt: Kt::Ed25519EdDsa },
  Op::Gen { scope: Scp::Vm, frag: Fr::Named(0), kt: Kt::Ed25519EdDsa },
  Op::Gen { scope: Scp::CapInv, frag: Fr::Auto, kt: Kt::Ed25519EdDsa },
  Op::Attach { target: Tg::Named(0), rel: 2 },
  Op::Purge { target: Tg::Named(0) },
  Op::Purge { target: Tg::Auto },
  Op::Purge { target: Tg::Foreign(0) },
  Op::SignVc { target: Tg::Named(0), pres: false },
];

#[derive(Default)]
struct Agg {
  scenarios: u64,
  executions: u64,
  states: u64,
  transitions: u64,
  max_depth: u64,
  by_dev: Vec<u64>,
  whole: bool,
}
impl Agg {
  fn add(&mut self, st: &choice::ExploreStats) {
    self.scenarios += 1;
    self.executions += st.executions;
    self.states += st.states;
    self.transitions += st.transitions;
    self.max_depth = self.max_depth.max(st.max_depth);
    if self.by_dev.len() < st.by_deviation.len() {
      self.by_dev.resize(st.by_deviation.len(), 0);
    }
    for (i, n) in st.by_deviation.iter().enumerate() {
      self.by_dev[i] += n;
    }
    self.whole &= st.exhaustive;
  }
  fn account(&self, ctx: &Ctx, part: &str, extra: Value) {
    ctx.add_states(self.states);
    ctx.add_transitions(self.transitions);
    ctx.add_traces(self.executions);
    ctx.add_evals(self.executions);
    if !self.whole {
      ctx.cap_hit(&format!("{part}: a fault subset was cut"));
    }
    ctx.part(
      part,
      json!({"engine": "E1 choice DFS, deviation bound None (every subset of failing call occurrences)", "scenarios": self.scenarios,
        "executions": self.executions, "choice_tree_nodes": self.states, "edges": self.transitions, "max_call_occurrences": self.max_depth,
        "executions_by_number_of_failing_calls(last bucket = 8+)": self.by_dev, "whole_tree": self.whole, "detail": extra}),
    );
  }
}

fn generate(ctx: &Ctx) {
  ctx.rule("every scenario is executed once per subset of failing storage-call occurrences (E1 explorer, bound None; choice points = calls actually made, discovered dynamically, incl. undo calls). (A) single-operation scenarios (see bounds) x 3 injected error kinds x {CoreDocument, IotaDocument}; (B) all operation sequences up to the tier's length over an 8-letter alphabet x both document kinds, faults anywhere in the history; (C) the same over a 4-letter single-method life-cycle alphabet, deeper; (D) the same over a second 8-letter alphabet (see bounds). distinct_nontrivial = distinct (scenario, set of per-operation outcome+fault-pattern labels)");
  ctx.assume("JwkMemStore / KeyIdMemstore are the backing stores (their own contract is C15); a fault = the wrapper returns the trait error (kind Unavailable) WITHOUT touching the store; torn operations (effect + error) are not modelled");
  ctx.assume("JwkStorage::insert and JwkStorage::exists are fault points of the wrapper as well; on this tree no storage-backed document API (generate_method, purge_method, create_jws, create_credential_jwt, create_presentation_jwt, their undo paths) calls them - see part 'storage calls met while armed' for the measured call counts; they become live as soon as a change makes an undo path call them");
  ctx.assume("generate_method_jwp / the JwpDocumentExt entry points (feature jpt-bbs-plus) are NOT built into the harness and not executed; generate_method_jwp instantiates the same macro body (generate_method_for_document_type!) and the same try_undo_key_generation as generate_method, only the key-generation call (generate_bbs) differs");
  ctx.assume("injected error kinds: Unavailable, Unspecified, RetryableIOFailure; KeyNotFound / KeyIdNotFound / KeyIdAlreadyExists are never injected (they are statements about the store's content which a caller may act on); they occur natively where the real store produces them");
  ctx.assume("observation: document JSON (method arrays compared as sets), JwkStorage::exists of every key id ever issued + count(), KeyIdStorage::get_key_id of every digest ever seen or derivable from a document method + count()");

  // ---------------------------------------------------------------- (A)
  const KINDS: [&str; 3] = ["Unavailable", "Unspecified", "RetryableIOFailure"];
  let mut n_single = 0;
  for doc in [DocKind::Core, DocKind::Iota] {
    let mut agg = Agg { whole: true, ..Default::default() };
    let mut table = serde_json::Map::new();
    for kind in 0..KINDS.len() as u8 {
      let scenarios = single_op_scenarios(doc, kind);
      n_single = scenarios.len();
      for (name, scn) in scenarios {
        let first = Mutex::new(None::<Case>);
        let st = choice::explore(None, |ch| {
          run_kind(ctx, &scn, ch);
          if ch.deviations() == 1 {
            let mut f = first.lock().unwrap();
            let seq = ch.seq();
            if f.as_ref().map(|c| seq < c.faults).unwrap_or(true) {
              *f = Some(Case { scn: scn.clone(), faults: seq });
            }
          }
        });
        if kind == 0 {
          if let Some(c) = first.lock().unwrap().take() {
            ctx.sample(&format!("single-op {doc:?}"), &c);
          }
          table.insert(name, json!({"executions": st.executions, "max_call_occurrences": st.max_depth, "by_failing_calls": st.by_deviation[..5]}));
        }
        agg.add(&st);
      }
    }
    agg.account(ctx, &format!("(A) single operation, {doc:?}Document, x 3 injected error kinds (detail: kind Unavailable)"), Value::Object(table));
  }
  ctx.bound("single_operation_scenarios_per_document_kind_and_error_kind", n_single);
  ctx.bound("injected_error_kinds", KINDS);

  // ---------------------------------------------------------------- (B), (C)
  let max_len = ctx.by_tier(4usize, 5usize);
  histories(ctx, "(B) histories", &ALPHABET, max_len);
  let cyc_len = ctx.by_tier(5usize, 6usize);
  histories(ctx, "(C) generate/attach/purge/sign cycles on one method", &CYCLE_ALPHABET, cyc_len);
  let mix_len = ctx.by_tier(3usize, 4usize);
  histories(ctx, "(D) histories: embedded/general clash, kid fragment, foreign-DID purge, credential signing", &MIX_ALPHABET, mix_len);
  ctx.bound("mix_history_length", mix_len);
  ctx.bound("mix_history_alphabet", MIX_ALPHABET.iter().map(|o| format!("{o:?}")).collect::<Vec<_>>());
  ctx.bound("fault_subsets", "all (deviation bound None)");
  ctx.bound("history_length", max_len);
  ctx.bound("history_alphabet", ALPHABET.iter().map(|o| format!("{o:?}")).collect::<Vec<_>>());
  ctx.bound("cycle_length", cyc_len);
  ctx.bound("cycle_alphabet", CYCLE_ALPHABET.iter().map(|o| format!("{o:?}")).collect::<Vec<_>>());
  ctx.bound("references_on_purged_method", [0, 1, 2, 5]);
  // which storage calls were met at all, and how often they failed: a fault point with 0 calls is dead on this tree
  let stats: BTreeMap<String, Value> = {
    let g = CALL_STATS.lock().unwrap();
    ["K.generate", "K.insert", "K.sign", "K.delete", "K.exists", "I.insert_key_id", "I.get_key_id", "I.delete_key_id"]
      .iter()
      .map(|l| {
        let (c, i, n) = g.get(l).copied().unwrap_or((0, 0, 0));
        (l.to_string(), json!({"call_occurrences_while_armed": c, "failed_by_injection": i, "failed_natively": n}))
      })
      .collect()
  };
  for l in ["K.generate", "K.sign", "K.delete", "I.insert_key_id", "I.get_key_id", "I.delete_key_id"] {
    ctx.require(
      stats[l]["failed_by_injection"].as_u64().unwrap_or(0) > 0,
      &format!("vacuous run: no fault was ever injected into {l} (the API under test no longer calls it?)"),
    );
  }
  ctx.part("storage calls met while armed (fault points)", json!(stats));
}

/// Every sequence of length 1..=max_len over `alphabet`, on both document kinds, every fault subset each.
fn histories(ctx: &Ctx, part: &str, alphabet: &[Op], max_len: usize) {
  let mut seqs: Vec<Vec<Op>> = vec![];
  let mut layer: Vec<Vec<Op>> = vec![vec![]];
  for _ in 0..max_len {
    let mut next = Vec::new();
    for s in &layer {
      for op in alphabet {
        let mut t = s.clone();
        t.push(*op);
        next.push(t);
      }
    }
    seqs.extend(next.iter().cloned());
    layer = next;
  }
  for doc in [DocKind::Core, DocKind::Iota] {
    let agg = Mutex::new(Agg { whole: true, ..Default::default() });
    let per_len = Mutex::new(BTreeMap::<usize, (u64, u64)>::new());
    let sample_seq = &seqs[seqs.len() / 2];
    seqs.par_iter().for_each(|ops| {
      let scn = Scenario { doc, base: 0, setup: vec![], ops: ops.clone(), kind: 0 };
      let first = Mutex::new(None::<Case>);
      let st = choice::explore(None, |ch| {
        run_kind(ctx, &scn, ch);
        if ops == sample_seq && ch.deviations() == 1 {
          let mut f = first.lock().unwrap();
          let seq = ch.seq();
          if f.as_ref().map(|c| seq < c.faults).unwrap_or(true) {
            *f = Some(Case { scn: scn.clone(), faults: seq });
          }
        }
      });
      if let Some(c) = first.lock().unwrap().take() {
        ctx.sample(&format!("{part} {doc:?}"), &c);
      }
      agg.lock().unwrap().add(&st);
      let mut p = per_len.lock().unwrap();
      let e = p.entry(ops.len()).or_insert((0, 0));
      e.0 += 1;
      e.1 += st.executions;
    });
    let detail: BTreeMap<String, Value> =
      per_len.lock().unwrap().iter().map(|(l, (s, e))| (format!("length {l}"), json!({"sequences": s, "executions": e}))).collect();
    agg.lock().unwrap().account(ctx, &format!("{part}, {doc:?}Document"), json!(detail));
  }
}

fn main() {
  vx::run_main::<Case, _, _>("C09", Level::FaultEnumeration, generate, eval)
}
