//! C14 — IOTA state-metadata packing round-trips and rewrites only self-references.
//!
//! (a) E1 choice DFS over document shapes (self DID / network, three methods with id-DID x controller x scope (all
//!     five relationships) x key flavour, references in every relationship, three services, controllers (string and
//!     array form), alsoKnownAs + custom properties, metadata fields one by one) x rebase target: `pack` ->
//!     `StateMetadataDocument::unpack` -> `into_iota_document(target)` is compared with a rewrite of the document's
//!     JSON tree done by the harness (self DID replaced in exactly: id, controllers, method ids and controllers,
//!     relationship references, service ids) and with the real document built from that tree; a successful rebase is
//!     packed again and unpacked for the original DID (second hop, same oracle). The "compact" alphabets (the first
//!     entries of every table) are explored as a whole product in the thorough tier, the "wide" ones deviation-bounded.
//! (b) framing over two base documents (payload length with and without a high byte): every value of every header
//!     byte, every (version, encoding) pair, every 16-bit length prefix, every truncation, trailing bytes; every
//!     `StateMetadataEncoding` variant the library knows.
//! (c) size boundary: payloads of 65 530 ..= 65 540 bytes pack iff they fit the 16-bit length.
//!
//! (d) the alias-output entry point `IotaDocument::unpack_from_output` (feature `client`): the documents of (a)
//!     (deviation-bounded) packed into a real `AliasOutput` x state controller address x governor address (Ed25519,
//!     alias of a foreign tag, alias of a controller of the document, another alias, NFT) x state metadata present /
//!     empty x allow_empty x unpack DID (self / target): the result is compared with the route of (a) — same
//!     document, the two ledger address fields equal to the bech32 forms of the output's addresses, controllers equal
//!     to the packed ones when the state controller is not an alias and otherwise the packed ones plus at most that
//!     alias' DID.
//!
//! Not reached: `unpack_from_block` (needs a signed transaction payload around the output; it calls
//! `unpack_from_output` per alias output).

use identity_core::convert::{FromJson, ToJson};
use identity_did::DID;
use identity_iota_core::block::address::{Address, AliasAddress, Ed25519Address, Hrp, NftAddress, ToBech32Ext};
use identity_iota_core::block::output::unlock_condition::{GovernorAddressUnlockCondition, StateControllerAddressUnlockCondition};
use identity_iota_core::block::output::{AliasId, AliasOutput, AliasOutputBuilder, NftId, UnlockCondition};
use identity_iota_core::{IotaDID, IotaDocument, StateMetadataDocument, StateMetadataEncoding};
use serde::{Deserialize, Serialize};
use serde_json::Value;
use std::collections::BTreeMap;
use std::collections::BTreeSet;
use std::sync::atomic::{AtomicBool, Ordering};
use std::sync::Mutex;
use vx::choice::{self, Chooser};
use vx::rayon::prelude::*;
use vx::{guard, json, Ctx, Level};

// Per-worker accumulators for part (a) (millions of leaves): outcome labels and distinct-case hashes are merged
// into the context once the exploration is over. A replay does not need them.
struct Shard {
  outcomes: BTreeMap<String, u64>,
  distinct: Vec<u64>,
}
static SHARDS: once_cell::sync::Lazy<Vec<Mutex<Shard>>> =
  once_cell::sync::Lazy::new(|| (0..64).map(|_| Mutex::new(Shard { outcomes: BTreeMap::new(), distinct: Vec::new() })).collect());
fn shard() -> std::sync::MutexGuard<'static, Shard> {
  SHARDS[vx::rayon::current_thread_index().unwrap_or(63) % 64].lock().unwrap()
}
fn out(label: &str) {
  let mut s = shard();
  match s.outcomes.get_mut(label) {
    Some(n) => *n += 1,
    None => {
      s.outcomes.insert(label.to_string(), 1);
    }
  }
}
fn flush_shards(ctx: &Ctx) {
  for m in SHARDS.iter() {
    let mut s = m.lock().unwrap();
    ctx.outcomes_merge(&std::mem::take(&mut s.outcomes));
    ctx.distinct_many(std::mem::take(&mut s.distinct));
  }
}
/// The compact whole-product run restricts every choice point to its first entries (set by `generate` only; a
/// replayed case always reads the wide tables, of which the compact ones are prefixes).
static COMPACT: AtomicBool = AtomicBool::new(false);

const TAG_SELF: &str = "0x8036235b6b5939435a45d68bcea7890eef399209a669c8c263fac7f5089b2ec6";
const TAG_ZERO: &str = "0x0000000000000000000000000000000000000000000000000000000000000000";
const F1: &str = "did:iota:0x71b709dff439f1ac9dd2b9c2e28db0807156b378e13bfa3605ce665aa0d0fdca";
const T: &str = "did:iota:0x1111111111111111111111111111111111111111111111111111111111111111";
const X: &str = "did:example:123";
/// The reserved placeholder and a DID that merely looks like it (a foreign DID as any other).
const PLACEHOLDER: &str = "did:0:0";
const Q: &str = "did:0:00";
const RELS: [&str; 5] = ["authentication", "assertionMethod", "keyAgreement", "capabilityDelegation", "capabilityInvocation"];

#[derive(Serialize, Deserialize, Debug, Clone, PartialEq)]
enum Case {
  /// (a) choice sequence of `doc_body`
  Doc(Vec<u32>),
  /// (b) byte `pos` (0..7) of the packed base document set to `val`
  Header {
    pos: u8,
    val: u8,
    #[serde(default)]
    base: u8,
  },
  /// (b) bytes `pos`, `pos+1` set to `a`, `b` (pos 3 = version+encoding, pos 5 = length prefix)
  Header2 {
    pos: u8,
    a: u8,
    b: u8,
    #[serde(default)]
    base: u8,
  },
  /// (b) only the first `len` bytes of the packed base document
  Truncate {
    len: u32,
    #[serde(default)]
    base: u8,
  },
  /// (b) `k` bytes `junk` appended
  Trailing {
    k: u32,
    junk: u8,
    #[serde(default)]
    base: u8,
  },
  /// (b) well-formed frame around an odd body (recorded, not judged)
  Body { id: u8 },
  /// (b) `pack_with_encoding` for every encoding variant the library knows, on base document `base`
  Encodings { base: u8 },
  /// (c) document padded so that the JSON payload has exactly `payload` bytes
  Size { payload: u32 },
  /// (d) choice sequence of `output_body`
  Output(Vec<u32>),
}

// ------------------------------------------------------------------ (a) documents from choices
fn self_did(net: usize) -> String {
  match net {
    0 => format!("did:iota:{TAG_SELF}"),
    1 => format!("did:iota:smr:{TAG_SELF}"),
    _ => format!("did:iota:{TAG_ZERO}"), // what `IotaDocument::new` gives before publication
  }
}
/// `N`: the self tag on another network — a foreign DID.
fn sibling_did(net: usize) -> String {
  match net {
    0 => format!("did:iota:rms:{TAG_SELF}"),
    1 => format!("did:iota:{TAG_SELF}"),
    _ => format!("did:iota:rms:{TAG_ZERO}"),
  }
}
/// flavour 0: multibase key; 1: JWK key; 2: multibase key + custom method properties that mention DIDs; 3: base58
/// key; 4: base58 key + the custom properties; 5: JWK key + the custom properties; 6: custom method data (a member no
/// key format knows) + the custom properties.
fn method(id_did: &str, frag: &str, controller: &str, flavour: u8, s: &str) -> Value {
  let mut m = match flavour {
    1 | 5 => json!({"id": format!("{id_did}#{frag}"), "controller": controller, "type": "JsonWebKey",
                "publicKeyJwk": {"kty": "OKP", "crv": "Ed25519", "x": "11qYAYKxCrfVS_7TyWQHOg7hcvPapiMlrwIaaPcHURo"}}),
    3 | 4 => json!({"id": format!("{id_did}#{frag}"), "controller": controller, "type": "Ed25519VerificationKey2018", "publicKeyBase58": "3M5RCDjPTWPkKSN3sxUmmMqHbmRPegYP1tjcKyrDbt9J"}),
    6 => json!({"id": format!("{id_did}#{frag}"), "controller": controller, "type": "EcdsaSecp256k1RecoveryMethod2020", "blockchainAccountId": "eip155:1:0xab16a96d359ec26a11e2c2b3d8f8b8942d5bfcdb"}),
    _ => json!({"id": format!("{id_did}#{frag}"), "controller": controller, "type": "Ed25519VerificationKey2018", "publicKeyMultibase": "zJdzr2UvC"}),
  };
  if matches!(flavour, 2 | 4 | 5 | 6) {
    m["owner"] = json!(s);
    m["note"] = json!(format!("{s}#{frag} is controlled by {s}"));
    m["placeholderLike"] = json!([PLACEHOLDER, format!("{PLACEHOLDER}#{frag}"), Q]);
    m["nested"] = json!({"id": format!("{s}#{frag}"), "controller": s});
  }
  m
}

struct Built {
  s: String,
  target: String,
  tree: Value,
  /// the reserved placeholder occurs in an identifier position: outside the property, executed but not judged
  placeholder: bool,
}

/// Method shapes: (id DID, controller, scope, fragment, flavour) with scope 0 general, 1 authentication-, 2 keyAgreement-,
/// 3 assertionMethod-, 4 capabilityDelegation-, 5 capabilityInvocation-embedded. `S` = self DID, `F` = another IOTA DID,
/// `T` = the constant rebase target, `N` = self tag on another network, `L` = self DID with two more characters (not an
/// IOTA DID, a valid DID), `Q` = looks like the placeholder, `X` = did:example, `P` = the placeholder itself (not judged).
type M = (&'static str, &'static str, u8, &'static str, u8);
const M1_COMPACT: usize = 11;
const M1: [M; 31] = [
  ("S", "S", 0, "k1", 0),
  ("S", "S", 1, "k1", 0),
  ("S", "S", 2, "k1", 0),
  ("F", "F", 0, "k1", 0),
  ("F", "S", 0, "k1", 0),
  ("S", "F", 0, "k1", 0),
  ("S", "X", 1, "k1", 0),
  ("T", "T", 0, "k1", 0),
  ("T", "T", 1, "k1", 0),
  ("T", "S", 2, "k1", 0),
  ("", "", 0, "", 0), // absent
  // wide
  ("S", "S", 3, "k1", 0),
  ("S", "S", 4, "k1", 0),
  ("S", "S", 5, "k1", 0),
  ("F", "S", 5, "k1", 0),
  ("N", "N", 0, "k1", 0),
  ("S", "N", 0, "k1", 0),
  ("N", "S", 4, "k1", 0),
  ("L", "L", 0, "k1", 0),
  ("L", "S", 1, "k1", 0),
  ("S", "L", 3, "k1", 0),
  ("Q", "Q", 0, "k1", 0),
  ("X", "S", 0, "k1", 0),
  ("S", "S", 0, "k1", 1),
  ("S", "S", 0, "k1", 2),
  ("S", "S", 0, "k1", 3),
  ("S", "S", 0, "k1", 4),
  ("S", "S", 2, "k1", 4),
  ("F", "F", 0, "k1", 4),
  ("S", "S", 0, "k1", 5),
  ("S", "S", 1, "k1", 6),
];
/// second method (k1 collides with method 1 once the DIDs coincide)
const M2_COMPACT: usize = 8;
const M2: [M; 15] = [
  ("", "", 0, "", 0), // absent
  ("S", "S", 0, "k2", 0),
  ("S", "S", 0, "k1", 0),
  ("T", "T", 0, "k1", 0),
  ("T", "T", 1, "k1", 0),
  ("F", "F", 0, "k1", 0),
  ("S", "S", 1, "k1", 0),
  ("F", "S", 2, "k2", 0),
  // wide
  ("N", "N", 0, "k1", 0),
  ("L", "L", 0, "k1", 0),
  ("T", "T", 5, "k1", 0),
  ("S", "S", 5, "k1", 0),
  ("S", "S", 4, "k2", 1),
  ("T", "S", 3, "k1", 2),
  ("S", "Q", 0, "k2", 0),
];
/// third method (wide only)
const M3: [M; 11] = [
  ("", "", 0, "", 0), // absent
  ("S", "S", 0, "k3", 0),
  ("S", "S", 3, "k3", 0),
  ("S", "S", 4, "k3", 2),
  ("S", "S", 5, "k3", 1),
  ("F", "S", 5, "k3", 0),
  ("T", "T", 0, "k3", 0),
  ("T", "T", 0, "k2", 0),
  ("S", "S", 0, "k1", 0),
  ("T", "T", 4, "k1", 0),
  ("P", "S", 0, "k3", 0), // placeholder in an identifier position: executed, not judged
];
/// reference in assertionMethod
const REFS_COMPACT: usize = 5;
const REFS: [&str; 10] = ["", "S#k1", "F#k1", "T#k1", "S#zz", "N#k1", "L#k1", "S?v=1#k1", "S#k2", "S#k3"];
/// further references: (relationship index into RELS, url)
const REFS2: [&[(usize, &str)]; 8] = [
  &[],
  &[(4, "S#k1")],
  &[(3, "S#k1"), (2, "S#k1")],
  &[(0, "S#k1"), (0, "T#k1")],
  &[(4, "F#k1"), (4, "S#k2")],
  &[(0, "S#k2"), (3, "N#k1")],
  &[(2, "T#k1"), (3, "S#k3"), (4, "S#k3")],
  &[(0, "S#k1"), (1, "T#k1"), (2, "S#k2"), (3, "S#k1"), (4, "S#k2")],
];
const S1_COMPACT: usize = 5;
const S1: [&str; 9] = ["S#s1", "", "F#s1", "T#s1", "X#s1", "N#s1", "L#s1", "S?x=1#s1", "S/p#s1"];
const S2_COMPACT: usize = 5;
const S2: [&str; 8] = ["", "S#s2", "S#s1", "T#s2", "S#k1", "N#s2", "T#k1", "T#s1"];
/// third service (wide only): (id, endpoint/type flavour)
const S3: [(&str, u8); 8] = [("", 0), ("S#s3", 0), ("T#s1", 0), ("F#s3", 0), ("S#s3", 1), ("S#s3", 2), ("T#s2", 2), ("P#s3", 0)];
/// controllers: (list, true = serialised as one string)
const CTRL_COMPACT: usize = 6;
const CTRL: [(&[&str], bool); 14] = [
  (&[], false),
  (&["S"], false),
  (&["F"], false),
  (&["S", "F"], false),
  (&["S", "T"], false),
  (&["T", "S"], false),
  // wide
  (&["S"], true),
  (&["F"], true),
  (&["N"], false),
  (&["S", "N"], false),
  (&["F", "S", "T"], false),
  (&["T"], true),
  (&["T", "F", "S", "N"], false),
  (&["F", "T"], false),
];
const EXTRA_COMPACT: usize = 3;
const EXTRA_N: usize = 5;
const META_COMPACT: usize = 5;
const META_N: usize = 13;
const TARGET_COMPACT: usize = 3;
const TARGET_N: usize = 5;

fn build(ch: &mut Chooser) -> Built {
  let compact = COMPACT.load(Ordering::Relaxed);
  let lim = |wide: usize, small: usize| if compact { small } else { wide };
  let net = ch.choose("self-network", 3);
  let s = self_did(net);
  let sibling = sibling_did(net);
  let mut placeholder = false;
  // "S?x=1#s1" / "S": DID symbol followed by the rest of the DID URL
  let mut url = |x: &str| -> String {
    let cut = x.find(|c| c == '#' || c == '?' || c == '/').unwrap_or(x.len());
    let did = match &x[..cut] {
      "S" => s.clone(),
      "F" => F1.to_string(),
      "T" => T.to_string(),
      "X" => X.to_string(),
      "N" => sibling.clone(),
      "L" => format!("{s}00"),
      "Q" => Q.to_string(),
      "P" => {
        placeholder = true;
        PLACEHOLDER.to_string()
      }
      other => unreachable!("DID symbol {other}"),
    };
    format!("{did}{}", &x[cut..])
  };
  let mut general = Vec::new();
  let mut rel: [Vec<Value>; 5] = Default::default();
  let methods = [
    M1[ch.choose("method-1", lim(M1.len(), M1_COMPACT))],
    M2[ch.choose("method-2", lim(M2.len(), M2_COMPACT))],
    M3[ch.choose("method-3", lim(M3.len(), 1))],
  ];
  for (id, ctrl, scope, frag, flavour) in methods {
    if id.is_empty() {
      continue;
    }
    let m = method(&url(id), frag, &url(ctrl), flavour, &s);
    match scope {
      0 => general.push(m),
      1 => rel[0].push(m),
      2 => rel[2].push(m),
      3 => rel[1].push(m),
      4 => rel[3].push(m),
      _ => rel[4].push(m),
    }
  }
  let r = REFS[ch.choose("reference", lim(REFS.len(), REFS_COMPACT))];
  if !r.is_empty() {
    rel[1].push(json!(url(r)));
  }
  for (i, r) in REFS2[ch.choose("references-2", lim(REFS2.len(), 1))] {
    rel[*i].push(json!(url(r)));
  }
  let mut services = Vec::new();
  let s1 = S1[ch.choose("service-1", lim(S1.len(), S1_COMPACT))];
  if !s1.is_empty() {
    // endpoint mentions the self DID
    services.push(json!({"id": url(s1), "type": "LinkedResource", "serviceEndpoint": format!("{s}?service=files&relativeRef=%2Fa")}));
  }
  let s2 = S2[ch.choose("service-2", lim(S2.len(), S2_COMPACT))];
  if !s2.is_empty() {
    services.push(json!({"id": url(s2), "type": "LinkedDomains", "serviceEndpoint": "https://example.com/", "ownedBy": s.clone()}));
  }
  let (s3, s3_flavour) = S3[ch.choose("service-3", lim(S3.len(), 1))];
  if !s3.is_empty() {
    services.push(match s3_flavour {
      0 => json!({"id": url(s3), "type": "LinkedResource", "serviceEndpoint": format!("{s}#k1")}),
      1 => json!({"id": url(s3), "type": ["A", "B"], "serviceEndpoint": [format!("{s}/a"), format!("{PLACEHOLDER}#k1"), "https://example.com/b"]}),
      _ => json!({"id": url(s3), "type": "C", "serviceEndpoint": {"origins": [s.clone(), F1], "placeholder": [PLACEHOLDER]},
                  "id2": url("S#s3"), "controller": s.clone()}),
    });
  }
  let (ctrl, ctrl_single) = CTRL[ch.choose("controller", lim(CTRL.len(), CTRL_COMPACT))];
  let extra = ch.choose("aka+properties", lim(EXTRA_N, EXTRA_COMPACT));
  let meta_kind = ch.choose("metadata", lim(META_N, META_COMPACT));
  let target = match ch.choose("target", lim(TARGET_N, TARGET_COMPACT)) {
    0 => T.to_string(),
    1 => s.clone(),
    2 => format!("did:iota:rms:{}", if net == 2 { TAG_ZERO } else { TAG_SELF }),
    3 => F1.to_string(),
    _ => sibling.clone(),
  };

  let mut doc = json!({"id": s});
  if !ctrl.is_empty() {
    doc["controller"] = if ctrl_single { json!(url(ctrl[0])) } else { Value::Array(ctrl.iter().map(|c| json!(url(c))).collect()) };
  }
  if !general.is_empty() {
    doc["verificationMethod"] = Value::Array(general);
  }
  for (i, list) in rel.into_iter().enumerate() {
    if !list.is_empty() {
      doc[RELS[i]] = Value::Array(list);
    }
  }
  if !services.is_empty() {
    doc["service"] = Value::Array(services);
  }
  if extra == 1 || extra == 2 {
    doc["alsoKnownAs"] = json!(["https://example.com/me", s.clone(), F1]);
  }
  if extra == 2 {
    doc["customText"] = json!(format!("{s}#k1 is my key"));
    doc["customTree"] = json!({"did": s.clone(), "list": [s.clone(), F1, T], "n": 7});
  }
  if extra == 3 {
    // strings that are, or look like, the placeholder in positions that are not identifiers
    doc["alsoKnownAs"] = json!([PLACEHOLDER, format!("{PLACEHOLDER}#k1"), Q, s.clone()]);
    doc["customText"] = json!(format!("{PLACEHOLDER}#k1 and {PLACEHOLDER} are not mine"));
    doc["customTree"] = json!({"did": PLACEHOLDER, "list": [PLACEHOLDER, Q, format!("x{PLACEHOLDER}"), format!("{PLACEHOLDER}/p?q#f")], PLACEHOLDER: s.clone()});
  }
  if extra == 4 {
    // a document-shaped tree inside the custom properties
    doc["previousVersion"] = json!({
      "id": s.clone(), "controller": [s.clone()],
      "verificationMethod": [{"id": format!("{s}#k1"), "controller": s.clone(), "type": "Ed25519VerificationKey2018", "publicKeyMultibase": "zJdzr2UvC"}],
      "authentication": [format!("{s}#k1")],
      "service": [{"id": format!("{s}#s1"), "type": "LinkedDomains", "serviceEndpoint": "https://example.com/"}],
      "doc": {"id": s.clone()}, "meta": {"governorAddress": "x"}
    });
  }
  const CREATED: &str = "2023-01-01T00:00:00Z";
  const UPDATED: &str = "2023-06-01T12:00:00Z";
  const GOV: &str = "rms1pqrgtxx37pkmr3nnt2xkyy9kxqlqdxwqnjmgxgmzqe5uwy0wh5cnwmvkfrz";
  const SCA: &str = "rms1pzjpd0xv7nc2ja8a6awsnvwwhqvzn6e6mxlmwpw2xhrhq4mk6ry8ql4n3tp";
  let meta = match meta_kind {
    0 => json!({"created": CREATED, "updated": UPDATED}),
    1 => json!({}),
    2 => json!({"created": CREATED, "updated": UPDATED, "deactivated": true}),
    3 => json!({"created": CREATED, "updated": UPDATED, "governorAddress": GOV, "stateControllerAddress": SCA}),
    4 => json!({"updated": UPDATED, "deactivated": false, "governorAddress": GOV, "customMeta": {"owner": s.clone()}, "n": 3}),
    // wide: every field on its own
    5 => json!({"created": CREATED}),
    6 => json!({"updated": UPDATED}),
    7 => json!({"deactivated": true}),
    8 => json!({"deactivated": false}),
    9 => json!({"governorAddress": GOV}),
    10 => json!({"stateControllerAddress": SCA}),
    11 => json!({"customMeta": {"owner": s.clone(), "governorAddress": GOV, "stateControllerAddress": SCA, "placeholder": PLACEHOLDER}, "note": PLACEHOLDER}),
    _ => json!({"created": UPDATED, "updated": CREATED, "stateControllerAddress": GOV, "governorAddress": ""}),
  };
  Built { s, target, tree: json!({"doc": doc, "meta": meta}), placeholder }
}

// ------------------------------------------------------------------ the reference rewrite (JSON tree)
fn rewrite_url(v: &mut Value, from: &str, to: &str) {
  if let Some(s) = v.as_str() {
    let new = if s == from {
      Some(to.to_string())
    } else if s.len() > from.len() && s.starts_with(from) && matches!(s.as_bytes()[from.len()], b'#' | b'/' | b'?') {
      Some(format!("{to}{}", &s[from.len()..]))
    } else {
      None
    };
    if let Some(n) = new {
      *v = Value::String(n);
    }
  }
}
fn rewrite_method(m: &mut Value, from: &str, to: &str) {
  if let Some(o) = m.as_object_mut() {
    for k in ["id", "controller"] {
      if let Some(v) = o.get_mut(k) {
        rewrite_url(v, from, to);
      }
    }
  }
}
/// `controller` as a list, whether it was serialised as one string or as an array; sorted if `sort`.
fn normalise_controller(doc: &mut Value, sort: bool) {
  if let Some(c) = doc.get_mut("controller") {
    if c.is_string() {
      *c = Value::Array(vec![c.clone()]);
    }
    if sort {
      if let Some(l) = c.as_array_mut() {
        l.sort_by_key(|v| v.as_str().unwrap_or("").to_string());
      }
    }
  }
}
fn without_ledger_addresses(tree: &Value) -> Value {
  let mut t = tree.clone();
  if let Some(meta) = t.get_mut("meta").and_then(|m| m.as_object_mut()) {
    meta.remove("governorAddress");
    meta.remove("stateControllerAddress");
  }
  t
}
/// The expected result of unpacking `tree` (the library's own JSON of the input document) for `to`, and whether
/// the rewrite made two controllers equal (form and order of a merged controller set are not promised).
fn model_rewrite(tree: &Value, from: &str, to: &str) -> (Value, bool) {
  let mut t = without_ledger_addresses(tree);
  let mut merged = false;
  let doc = &mut t["doc"];
  if let Some(v) = doc.get_mut("id") {
    rewrite_url(v, from, to);
  }
  match doc.get_mut("controller") {
    Some(Value::Array(list)) => {
      let mut seen = BTreeSet::new();
      let mut kept = Vec::new();
      for mut c in list.drain(..) {
        rewrite_url(&mut c, from, to);
        if seen.insert(c.as_str().unwrap_or("").to_string()) {
          kept.push(c);
        } else {
          merged = true;
        }
      }
      *list = kept;
    }
    Some(c) => rewrite_url(c, from, to),
    None => {}
  }
  if let Some(list) = doc.get_mut("verificationMethod").and_then(|c| c.as_array_mut()) {
    for m in list {
      rewrite_method(m, from, to);
    }
  }
  for rel in RELS {
    if let Some(list) = doc.get_mut(rel).and_then(|c| c.as_array_mut()) {
      for e in list {
        if e.is_string() {
          rewrite_url(e, from, to);
        } else {
          rewrite_method(e, from, to);
        }
      }
    }
  }
  if let Some(list) = doc.get_mut("service").and_then(|c| c.as_array_mut()) {
    for s in list {
      if let Some(v) = s.get_mut("id") {
        rewrite_url(v, from, to);
      }
    }
  }
  (t, merged)
}

enum Collision {
  No,
  /// `CoreDocument::try_map` documents an error when "the updates cause scoped method references to embedded methods, or
  /// methods and services with identical identifiers"
  Must(String),
  /// neither promised to work nor to fail (two equal references in one relationship, a service id equal to a
  /// reference that names no method): executed and recorded
  Open(String),
}
/// Does the rewritten tree break the identifier rules a DID document must obey?
fn id_collision(t: &Value) -> Collision {
  let doc = &t["doc"];
  let ids = |v: Option<&Value>| -> Vec<String> {
    v.and_then(|l| l.as_array()).map(|l| l.iter().filter_map(|m| m.get("id").and_then(|i| i.as_str()).map(String::from)).collect()).unwrap_or_default()
  };
  let mut defining: Vec<String> = ids(doc.get("verificationMethod"));
  let mut embedded = BTreeSet::new();
  let mut refs = Vec::new();
  let mut open = None;
  for rel in RELS {
    let mut refs_here = BTreeSet::new();
    for e in doc.get(rel).and_then(|l| l.as_array()).cloned().unwrap_or_default() {
      match e.as_str() {
        Some(r) => {
          if !refs_here.insert(r.to_string()) {
            open = Some(format!("{rel} lists the reference {r} twice"));
          }
          refs.push(r.to_string())
        }
        None => {
          let id = e["id"].as_str().unwrap_or("").to_string();
          embedded.insert(id.clone());
          defining.push(id);
        }
      }
    }
  }
  let services = ids(doc.get("service"));
  defining.extend(services.iter().cloned());
  let mut seen = BTreeSet::new();
  for id in &defining {
    if !seen.insert(id.clone()) {
      return Collision::Must(format!("two entries with id {id}"));
    }
  }
  if let Some(r) = refs.iter().find(|r| embedded.contains(*r)) {
    return Collision::Must(format!("reference {r} names an embedded method"));
  }
  // a reference that names no method of the document shares its id with a service
  if let Some(s) = services.iter().find(|s| refs.contains(s)) {
    open = Some(format!("service id {s} equals a reference that names no method"));
  }
  match open {
    Some(why) => Collision::Open(why),
    None => Collision::No,
  }
}

/// First differing path between two JSON trees.
fn first_diff(a: &Value, b: &Value, path: &mut Vec<String>) -> Option<Vec<String>> {
  match (a, b) {
    (Value::Object(x), Value::Object(y)) => {
      let keys: BTreeSet<&String> = x.keys().chain(y.keys()).collect();
      for k in keys {
        path.push(k.clone());
        match (x.get(k), y.get(k)) {
          (Some(p), Some(q)) => {
            if let Some(d) = first_diff(p, q, path) {
              return Some(d);
            }
          }
          _ => return Some(path.clone()),
        }
        path.pop();
      }
      None
    }
    (Value::Array(x), Value::Array(y)) => {
      if x.len() != y.len() {
        return Some(path.clone());
      }
      for (i, (p, q)) in x.iter().zip(y).enumerate() {
        path.push(i.to_string());
        if let Some(d) = first_diff(p, q, path) {
          return Some(d);
        }
        path.pop();
      }
      None
    }
    _ => (a != b).then(|| path.clone()),
  }
}
fn at<'a>(v: &'a Value, path: &[String]) -> Option<&'a Value> {
  let mut cur = v;
  for p in path {
    cur = match cur {
      Value::Object(o) => o.get(p)?,
      Value::Array(a) => a.get(p.parse::<usize>().ok()?)?,
      _ => return None,
    };
  }
  Some(cur)
}

/// Every encoding variant the library knows (the enum is non-exhaustive: found through its own `TryFrom<u8>`), with the
/// first byte that names it.
fn encodings() -> Vec<(u8, StateMetadataEncoding)> {
  let mut v: Vec<(u8, StateMetadataEncoding)> = Vec::new();
  for b in 0..=255u8 {
    if let Ok(Ok(e)) = guard(|| StateMetadataEncoding::try_from(b)) {
      if !v.iter().any(|(_, x)| *x == e) {
        v.push((b, e));
      }
    }
  }
  v
}
/// Is `bytes` a frame `DID`, version 1, encoding byte `enc`, little-endian length of the rest?
fn frame_ok(bytes: &[u8], enc: u8) -> bool {
  bytes.len() >= 7 && &bytes[0..3] == b"DID" && bytes[3] == 1 && bytes[4] == enc && u16::from_le_bytes([bytes[5], bytes[6]]) as usize == bytes.len() - 7
}
fn cleared(doc: &IotaDocument) -> IotaDocument {
  let mut d = doc.clone();
  d.metadata.governor_address = None;
  d.metadata.state_controller_address = None;
  d
}

/// `pack_with_encoding` for every variant: framed with the variant's byte, unpacks for `did` to `doc` (ledger addresses
/// cleared); `pack()` is `pack_with_encoding(default)`. `encs` = `encodings()`.
fn judge_encodings<C: Serialize>(ctx: &Ctx, case: &C, encs: &[(u8, StateMetadataEncoding)], doc: &IotaDocument, did: &IotaDID, packed_default: &[u8]) {
  if !encs.iter().any(|(b, e)| *e == StateMetadataEncoding::Json && *b == 0) {
    ctx.violation("StateMetadataEncoding::try_from|byte-0-is-not-Json", &format!("{encs:?}"), case);
  }
  for (byte, enc) in encs {
    let p = match guard(|| doc.clone().pack_with_encoding(*enc)) {
      Err(p) => {
        ctx.violation(&format!("IotaDocument::pack_with_encoding|{}", p.key()), &p.msg, case);
        continue;
      }
      Ok(Err(e)) => {
        ctx.violation("IotaDocument::pack_with_encoding|small-document-rejected", &format!("{enc:?}: {e}"), case);
        continue;
      }
      Ok(Ok(p)) => p,
    };
    if *enc == StateMetadataEncoding::default() {
      if p != packed_default {
        ctx.violation("IotaDocument::pack_with_encoding|default-encoding-differs-from-pack", &format!("{enc:?}"), case);
      }
      continue; // the caller takes the default packing through the whole oracle
    }
    if !frame_ok(&p, *byte) {
      ctx.violation("IotaDocument::pack_with_encoding|frame-not-DID-1-encoding-len", &format!("{enc:?}: {:02x?}", &p[..p.len().min(7)]), case);
      continue;
    }
    let want = cleared(doc);
    match guard(|| StateMetadataDocument::unpack(&p).and_then(|s| s.into_iota_document(did))) {
      Ok(Ok(back)) if back == want => {}
      other => ctx.violation("pack_with_encoding-unpack|same-did|document-not-equal", &format!("{enc:?}: {:?}", other.map(|r| r.is_ok())), case),
    }
  }
}
static ENCODINGS: once_cell::sync::Lazy<Vec<(u8, StateMetadataEncoding)>> = once_cell::sync::Lazy::new(encodings);

/// One pack -> unpack -> rebase of `doc` (identifier `from`) onto `to`, judged against the rewrite model.
/// `stage` prefixes the outcome labels. Returns the rebased document if everything held.
fn hop(ctx: &Ctx, case: &Case, doc: &IotaDocument, from: &str, to: &str, stage: &str) -> Option<IotaDocument> {
  let target = IotaDID::parse(to).expect("target DID");
  let same = to == from;
  let tclass = if same { "same-did" } else { "other-did" };
  // baseline = the library's own JSON of the input document
  let orig = doc.to_json_value().expect("document to JSON");
  let packed = match guard(|| doc.clone().pack()) {
    Err(p) => {
      ctx.violation(&format!("IotaDocument::pack|{}", p.key()), &p.msg, case);
      return None;
    }
    Ok(Err(e)) => {
      ctx.violation("IotaDocument::pack|small-document-rejected", &format!("{e}"), case);
      return None;
    }
    Ok(Ok(p)) => p,
  };
  if !frame_ok(&packed, 0) {
    ctx.violation("IotaDocument::pack|frame-not-DID-1-0-len", &format!("{:02x?}", &packed[..packed.len().min(7)]), case);
    return None;
  }
  judge_encodings(ctx, case, &ENCODINGS, doc, &IotaDID::parse(from).expect("own DID"), &packed);
  let smd = match guard(|| StateMetadataDocument::unpack(&packed)) {
    Err(p) => {
      ctx.violation(&format!("StateMetadataDocument::unpack|{}", p.key()), &p.msg, case);
      return None;
    }
    Ok(Err(e)) => {
      ctx.violation("StateMetadataDocument::unpack|own-packing-rejected", &format!("{e}"), case);
      return None;
    }
    Ok(Ok(s)) => s,
  };
  let (want, merged) = model_rewrite(&orig, from, to);
  let collision = id_collision(&want);
  let res = match guard(|| smd.into_iota_document(&target)) {
    Err(p) => {
      ctx.violation(&format!("StateMetadataDocument::into_iota_document|{}", p.key()), &p.msg, case);
      return None;
    }
    Ok(r) => r,
  };
  match (res, collision) {
    (Err(_), Collision::Must(_)) => out(&format!("{stage}:{tclass}:id-collision-after-rebase:rejected")),
    (Ok(got), Collision::Must(why)) => {
      ctx.violation(
        "StateMetadataDocument::into_iota_document|id-collision-after-rebase|not-rejected",
        &format!("rebasing {from} onto {to}: {why}; Ok was returned with {}", summarise(&got)),
        case,
      );
      out(&format!("{stage}:{tclass}:id-collision-after-rebase:accepted"));
    }
    (r, Collision::Open(why)) => {
      if std::env::var_os("C14_DEBUG").is_some() {
        eprintln!("open {case:?}: {why}: {}", if r.is_ok() { "accepted" } else { "rejected" });
      }
      out(&format!("{stage}:{tclass}:open-identifier-clash:{}", if r.is_ok() { "accepted" } else { "rejected" }))
    }
    (Err(e), Collision::No) => {
      ctx.violation(&format!("StateMetadataDocument::into_iota_document|{tclass}|valid-rebase-rejected"), &format!("{e}"), case);
      out(&format!("{stage}:{tclass}:rejected"));
    }
    (Ok(got), Collision::No) => {
      let got_raw = got.to_json_value().expect("result to JSON");
      let (mut orig_n, mut want_n, mut got_n) = (without_ledger_addresses(&orig), want.clone(), got_raw.clone());
      for t in [&mut orig_n, &mut want_n, &mut got_n] {
        normalise_controller(&mut t["doc"], merged);
      }
      if let Some(path) = first_diff(&want_n, &got_n, &mut Vec::new()) {
        let o = at(&orig_n, &path);
        let w = at(&want_n, &path);
        let g = at(&got_n, &path);
        let class = if w != o && g == o {
          "self-reference-not-rewritten"
        } else if w == o && g != o {
          "field-outside-the-self-references-changed"
        } else {
          "rewritten-to-something-else"
        };
        ctx.violation(
          &format!("StateMetadataDocument::into_iota_document|{tclass}|{class}"),
          &format!("at /{}: expected {}, got {}", path.join("/"), w.map(|v| v.to_string()).unwrap_or("-".into()), g.map(|v| v.to_string()).unwrap_or("-".into())),
          case,
        );
        out(&format!("{stage}:{tclass}:differs"));
        return None;
      }
      if same {
        // equality of the real objects, ledger address fields excepted
        let expect = cleared(doc);
        if got != expect {
          // which part is unequal? (the normalised JSON trees agree at this point)
          let raw_in = expect.to_json_value().expect("document to JSON");
          match first_diff(&raw_in, &got_raw, &mut Vec::new()) {
            Some(path) if path == ["doc", "controller"] => ctx.violation(
              if raw_in["doc"]["controller"].is_string() {
                "pack-unpack|same-did|single-controller-becomes-a-set"
              } else {
                "pack-unpack|same-did|one-element-controller-set-becomes-single-value"
              },
              &format!("controller {} comes back as {}; the documents are not equal", raw_in["doc"]["controller"], got_raw["doc"]["controller"]),
              case,
            ),
            None if ambiguous_custom_method(&raw_in) => ctx.violation(
              KEY_CUSTOM_DATA,
              &format!("the JSON of the two documents is the same; {}", debug_diff(&got, &expect)),
              case,
            ),
            other => ctx.violation("pack-unpack|same-did|document-not-equal", &format!("JSON differs at {other:?}; {}", debug_diff(&got, &expect)), case),
          }
          out(&format!("{stage}:{tclass}:differs"));
          return None;
        }
      } else {
        if got.id().as_str() != to {
          ctx.violation("StateMetadataDocument::into_iota_document|other-did|id()-is-not-the-target", got.id().as_str(), case);
        }
        // the real object must be the document the rewritten tree describes (unless two controllers were merged:
        // whether one remaining controller is a single value or a set of one is then not promised)
        if !merged {
          if let Ok(Ok(expect)) = guard(|| IotaDocument::from_json_value(want.clone())) {
            if got != expect {
              let d = first_diff(&want, &got_raw, &mut Vec::new());
              ctx.violation(
                if d.is_none() && ambiguous_custom_method(&want) { KEY_CUSTOM_DATA } else { "pack-unpack|other-did|document-not-equal-to-the-rewritten-document" },
                &format!("JSON differs at {d:?}; {}", debug_diff(&got, &expect)),
                case,
              );
              out(&format!("{stage}:{tclass}:differs"));
              return None;
            }
          }
        }
      }
      let touched = want != without_ledger_addresses(&orig);
      out(&format!("{stage}:{tclass}:ok:{}{}", if touched { "rewritten" } else { "nothing-to-rewrite" }, if merged { "+controllers-merged" } else { "" }));
      return Some(got);
    }
  }
  None
}

/// The methods, embedded methods, references to present methods and services of `tree`, put into a fresh document one
/// by one through `insert_method` / `attach_method_relationship` / `insert_service`. `None` if an insert is refused.
fn build_via_api(tree: &Value, did: &str) -> Option<IotaDocument> {
  use identity_document::service::Service;
  use identity_verification::{MethodRelationship, MethodScope, VerificationMethod};
  let mut doc = IotaDocument::new_with_id(IotaDID::parse(did).ok()?);
  let d = tree.get("doc")?;
  let arr = |k: &str| d.get(k).and_then(|v| v.as_array()).cloned().unwrap_or_default();
  for m in arr("verificationMethod") {
    doc.insert_method(VerificationMethod::from_json_value(m).ok()?, MethodScope::VerificationMethod).ok()?;
  }
  let rels = [
    MethodRelationship::Authentication,
    MethodRelationship::AssertionMethod,
    MethodRelationship::KeyAgreement,
    MethodRelationship::CapabilityDelegation,
    MethodRelationship::CapabilityInvocation,
  ];
  for (name, rel) in RELS.iter().zip(rels) {
    for e in arr(name) {
      if e.is_object() {
        doc.insert_method(VerificationMethod::from_json_value(e).ok()?, MethodScope::VerificationRelationship(rel)).ok()?;
      } else if let Some(u) = e.as_str().and_then(|u| identity_did::DIDUrl::parse(u).ok()) {
        // (references to methods that are not in the document cannot be made through the API: left out)
        let _ = doc.attach_method_relationship(&u, rel);
      }
    }
  }
  for sv in arr("service") {
    doc.insert_service(Service::from_json_value(sv).ok()?).ok()?;
  }
  Some(doc)
}

fn doc_body(ctx: &Ctx, ch: &mut Chooser) {
  let b = build(ch);
  let case = Case::Doc(ch.seq());
  let doc = match guard(|| IotaDocument::from_json_value(b.tree.clone())) {
    Err(p) => return ctx.violation(&format!("IotaDocument::from_json|{}", p.key()), &p.msg, &case),
    Ok(Err(e)) => {
      if std::env::var_os("C14_DEBUG").is_some() && ch.deviations() <= 2 {
        eprintln!("invalid {:?}: {e}", ch.labelled().iter().filter(|l| !l.contains("=0/")).collect::<Vec<_>>());
      }
      // The deserialiser refuses the tree (id rules are C04's subject). The same entries may still make a document
      // through the mutation API, which has its own id rules: if they do, that document exists and the property speaks
      // about it like about any other — it is packed, unpacked and rebased below.
      match guard(|| build_via_api(&b.tree, &b.s)) {
        Ok(Some(d)) => {
          out("doc:input-refused-by-from_json-but-built-through-the-mutation-api");
          d
        }
        _ => return out("doc:input-not-a-valid-document"),
      }
    }
    Ok(Ok(d)) => d,
  };
  shard().distinct.push(Ctx::hash_of(&ch.seq()));
  // Decoding must reproduce every method: each method object of the tree is the JSON of a method one can build through
  // the API (MethodBuilder: data + properties); unpack = decode, so if decoding that JSON gives a method that
  // serialises differently, the API-built document that packs to these bytes cannot come back equal (seed C14-p).
  if !b.placeholder {
    if let Ok(Ok(back)) = guard(|| serde_json::to_value(&doc)) {
      for k in std::iter::once("verificationMethod").chain(RELS) {
        if let (Some(a), Some(g)) = (b.tree["doc"][k].as_array(), back["doc"][k].as_array()) {
          for (x, y) in a.iter().zip(g) {
            if x.is_object() && x != y {
              ctx.violation(
                "pack-unpack|method-read-from-its-own-json|serialises-differently",
                &format!("{k}: the method {x} decodes to a method whose JSON is {y}"),
                &case,
              );
              return out("doc:method-not-reproduced-by-decoding");
            }
          }
        }
      }
    }
  }
  if b.placeholder {
    // outside the property: only "does not panic" is judged
    let target = IotaDID::parse(&b.target).expect("target DID");
    let r = guard(|| doc.clone().pack().and_then(|p| StateMetadataDocument::unpack(&p)).and_then(|s| s.into_iota_document(&target)));
    return match r {
      Err(p) => ctx.violation(&format!("pack-unpack|{}", p.key()), &p.msg, &case),
      Ok(r) => out(&format!("doc:placeholder-in-identifier-position:{}", if r.is_ok() { "accepted" } else { "rejected" })),
    };
  }
  if let Some(rebased) = hop(ctx, &case, &doc, &b.s, &b.target, "doc") {
    if b.target != b.s {
      // second hop: the rebased document is an IOTA document as any other; bring it back
      hop(ctx, &case, &rebased, &b.target, &b.s, "back");
    }
    if ch.deviations() <= 1 {
      ctx.sample("documents", &case);
    }
  }
}
/// A method without verification material in one of the three known members and with two or more other members: which
/// of them the library holds as `MethodData::Custom` and which as properties depends on the member ORDER of the JSON
/// text it was read from (serde hands the flattened enum "the last" entry), so two texts of the same JSON object give
/// methods that are not equal for `PartialEq` although they serialise to the same JSON.
const KEY_CUSTOM_DATA: &str = "pack-unpack|custom-method-data-among-several-unknown-members|same-json-unequal-documents";
fn ambiguous_custom_method(tree: &Value) -> bool {
  let is_ambiguous = |m: &Value| {
    m.as_object().is_some_and(|o| {
      !["publicKeyMultibase", "publicKeyBase58", "publicKeyJwk"].iter().any(|k| o.contains_key(*k))
        && o.keys().filter(|k| !["id", "controller", "type"].contains(&k.as_str())).count() >= 2
    })
  };
  let doc = &tree["doc"];
  std::iter::once("verificationMethod").chain(RELS).any(|k| doc[k].as_array().is_some_and(|a| a.iter().any(|m| is_ambiguous(m))))
}
/// Where two documents whose JSON agrees differ for `PartialEq` (from their `Debug` forms).
fn debug_diff(a: &IotaDocument, b: &IotaDocument) -> String {
  let (x, y) = (format!("{a:?}"), format!("{b:?}"));
  let i = x.chars().zip(y.chars()).position(|(p, q)| p != q).unwrap_or(0);
  let cut = |s: &str| -> String { s.chars().skip(i.saturating_sub(60)).take(120).collect() };
  format!("got …{}… expected …{}…", cut(&x), cut(&y))
}
fn summarise(d: &IotaDocument) -> String {
  format!(
    "{} general methods, {} methods in all scopes, {} services",
    d.core_document().verification_method().len(),
    d.methods(None).len(),
    d.service().len()
  )
}


// ------------------------------------------------------------------ (d) the alias-output entry point
const A2: &str = "did:iota:0x2222222222222222222222222222222222222222222222222222222222222222";
const ADDRS: [&str; 6] = ["ed25519", "alias(F1)", "alias(A2)", "nft", "alias(first controller of the document)", "alias(T)"];
fn address(kind: usize, doc: &IotaDocument) -> Address {
  let alias = |d: &str| Address::Alias(AliasAddress::new(AliasId::from(&IotaDID::parse(d).expect("alias DID"))));
  match kind {
    0 => Address::Ed25519(Ed25519Address::new([0x5a; 32])),
    1 => alias(F1),
    2 => alias(A2),
    3 => Address::Nft(NftAddress::new(NftId::new([0x3c; 32]))),
    4 => match doc.controller().next() {
      Some(c) => Address::Alias(AliasAddress::new(AliasId::from(c))),
      None => alias(A2),
    },
    _ => alias(T),
  }
}
fn controllers_of(tree: &Value) -> Vec<String> {
  match tree.pointer("/doc/controller") {
    Some(Value::String(c)) => vec![c.clone()],
    Some(Value::Array(a)) => a.iter().filter_map(|c| c.as_str().map(str::to_string)).collect(),
    _ => vec![],
  }
}
fn output_body(ctx: &Ctx, ch: &mut Chooser) {
  let b = build(ch);
  let sc_kind = ch.choose("state-controller-address", ADDRS.len());
  let gov_kind = ch.choose("governor-address", ADDRS.len());
  let with_metadata = ch.choose("state-metadata", 2) == 0;
  let allow_empty = ch.choose("allow_empty", 2) == 0;
  let for_target = ch.choose("unpack-for", 2) == 1;
  let case = Case::Output(ch.seq());
  if b.placeholder {
    return out("output:placeholder-in-identifier-position(not driven)");
  }
  let doc = match guard(|| IotaDocument::from_json_value(b.tree.clone())) {
    Ok(Ok(d)) => d,
    _ => match guard(|| build_via_api(&b.tree, &b.s)) {
      Ok(Some(d)) => d,
      _ => return out("output:input-not-a-valid-document"),
    },
  };
  let own = IotaDID::parse(&b.s).expect("self DID");
  let did = if for_target { IotaDID::parse(&b.target).expect("target DID") } else { own.clone() };
  let packed = match guard(|| doc.clone().pack()) {
    Ok(Ok(p)) => p,
    _ => return out("output:document-does-not-pack"),
  };
  let (sc, gov) = (address(sc_kind, &doc), address(gov_kind, &doc));
  let mut builder = AliasOutputBuilder::new_with_amount(1, AliasId::from(&own))
    .add_unlock_condition(UnlockCondition::StateControllerAddress(StateControllerAddressUnlockCondition::new(sc)))
    .add_unlock_condition(UnlockCondition::GovernorAddress(GovernorAddressUnlockCondition::new(gov)));
  if with_metadata {
    builder = builder.with_state_metadata(packed.clone());
  }
  let output: AliasOutput = match builder.finish() {
    Ok(o) => o,
    // (iota-sdk refuses the output: state metadata over 8192 bytes, an alias controlling itself)
    Err(_) => return out("output:refused-by-the-output-builder"),
  };
  shard().distinct.push(Ctx::hash_of(&ch.seq()));
  let got = match guard(|| IotaDocument::unpack_from_output(&did, &output, allow_empty)) {
    Err(p) => return ctx.violation(&format!("IotaDocument::unpack_from_output|{}", p.key()), &p.msg, &case),
    Ok(r) => r,
  };
  let what = |m: &str| format!("state controller {}, governor {}, metadata {}, allow_empty {allow_empty}, unpacked for {}: {m}", ADDRS[sc_kind], ADDRS[gov_kind], if with_metadata { "packed document" } else { "empty" }, if for_target { "the target" } else { "the own DID" });
  if !with_metadata {
    return match (allow_empty, got) {
      (false, Ok(d)) => ctx.violation("IotaDocument::unpack_from_output|empty-state-metadata-without-allow_empty|accepted", &what(&format!("returned {}", d.to_json().unwrap_or_default())), &case),
      (false, Err(_)) => out("output:empty-metadata:refused"),
      (true, Err(e)) => ctx.violation("IotaDocument::unpack_from_output|empty-state-metadata-with-allow_empty|refused", &what(&e.to_string()), &case),
      (true, Ok(d)) => {
        // documented: "an empty DID document marked as deactivated"
        let ok = d.id() == &did && d.metadata.deactivated == Some(true) && d.methods(None).is_empty() && d.service().is_empty();
        if !ok {
          ctx.violation("IotaDocument::unpack_from_output|empty-state-metadata-with-allow_empty|not-the-empty-deactivated-document", &what(&d.to_json().unwrap_or_default()), &case);
        }
        out("output:empty-metadata:empty-deactivated-document")
      }
    };
  }
  // the route judged in (a)
  let base = guard(|| StateMetadataDocument::unpack(&packed).and_then(|s| s.into_iota_document(&did)));
  let base = match base {
    Err(_) => return out("output:base-route-panics(reported by (a))"),
    Ok(b) => b,
  };
  let (r, d0) = match (got, base) {
    (Err(_), Err(_)) => return out("output:refused-like-unpack+into_iota_document"),
    (Ok(r), Err(e)) => {
      return ctx.violation("IotaDocument::unpack_from_output|unpack+into_iota_document-refuses|accepted", &what(&format!("base route: {e}; got {}", r.to_json().unwrap_or_default())), &case)
    }
    (Err(e), Ok(_)) => return ctx.violation("IotaDocument::unpack_from_output|unpack+into_iota_document-accepts|refused", &what(&e.to_string()), &case),
    (Ok(r), Ok(d0)) => (r, d0),
  };
  // ledger address fields: exactly the output's addresses in the network of the DID the output is unpacked for
  let hrp = Hrp::from_str_unchecked(did.network_str());
  let want = |a: &Address| Some(a.to_bech32(hrp).to_string());
  if r.metadata.state_controller_address != want(output.state_controller_address()) || r.metadata.governor_address != want(output.governor_address()) {
    ctx.violation(
      "IotaDocument::unpack_from_output|ledger-address-fields|not-the-addresses-of-the-output",
      &what(&format!("stateControllerAddress {:?} (want {:?}), governorAddress {:?} (want {:?})", r.metadata.state_controller_address, want(output.state_controller_address()), r.metadata.governor_address, want(output.governor_address()))),
      &case,
    );
  }
  let (tr, t0) = (guard(|| serde_json::to_value(&r)), guard(|| serde_json::to_value(&d0)));
  let (mut tr, mut t0) = match (tr, t0) {
    (Ok(Ok(a)), Ok(Ok(b))) => (without_ledger_addresses(&a), without_ledger_addresses(&b)),
    _ => return ctx.violation("IotaDocument::unpack_from_output|result|does-not-serialize", &what(""), &case),
  };
  let (cr, c0) = (controllers_of(&tr), controllers_of(&t0));
  for t in [&mut tr, &mut t0] {
    if let Some(o) = t.get_mut("doc").and_then(|d| d.as_object_mut()) {
      o.remove("controller");
    }
  }
  if let Some(path) = first_diff(&tr, &t0, &mut vec![]) {
    ctx.violation(
      "IotaDocument::unpack_from_output|document|differs-from-unpack+into_iota_document-outside-controller-and-ledger-addresses",
      &what(&format!("at /{}: {:?} vs {:?}", path.join("/"), at(&tr, &path), at(&t0, &path))),
      &case,
    );
  }
  let sc_did = match output.state_controller_address() {
    Address::Alias(a) => Some(IotaDID::new(a.alias_id(), &did.network_str().to_owned().try_into().expect("network")).to_string()),
    _ => None,
  };
  match &sc_did {
    None => {
      if cr != c0 {
        ctx.violation("IotaDocument::unpack_from_output|controllers|changed-although-the-state-controller-is-not-an-alias", &what(&format!("{cr:?} vs packed {c0:?}")), &case);
      }
      out("output:non-alias-state-controller:document-equal")
    }
    Some(a) => {
      // the library appends the state controller alias' DID (its tests pin that); the statement does not speak about
      // it: judged is only that nothing else appears and nothing packed disappears
      let kept: Vec<&String> = cr.iter().filter(|c| *c != a || c0.contains(c)).collect();
      if kept != c0.iter().collect::<Vec<_>>() {
        ctx.violation("IotaDocument::unpack_from_output|controllers|not-the-packed-controllers-plus-at-most-the-state-controller-alias", &what(&format!("{cr:?} vs packed {c0:?}, state controller DID {a}")), &case);
      }
      out(if cr.contains(a) { "output:alias-state-controller:its-DID-among-the-controllers" } else { "output:alias-state-controller:its-DID-not-added [open]" })
    }
  }
}

// ------------------------------------------------------------------ (b) framing
/// base 0: the default document of (a) (payload > 255 bytes); base 1: the smallest document (payload < 256 bytes).
fn base_doc(base: u8) -> (IotaDocument, IotaDID) {
  if base == 0 {
    let mut ch = Chooser::replay(&[]);
    let b = build(&mut ch);
    (IotaDocument::from_json_value(b.tree).expect("base document"), IotaDID::parse(&b.s).unwrap())
  } else {
    let s = self_did(0);
    (IotaDocument::from_json_value(json!({"doc": {"id": s}, "meta": {}})).expect("smallest document"), IotaDID::parse(&s).unwrap())
  }
}
fn base_packed(base: u8) -> Vec<u8> {
  base_doc(base).0.pack().expect("pack base document")
}

/// Judge `unpack(bytes)`: `accept` = the statement demands acceptance (and then the result must equal the base).
fn judge_frame(ctx: &Ctx, case: &Case, base: u8, bytes: &[u8], accept: Option<bool>, class: &str) {
  match guard(|| StateMetadataDocument::unpack(bytes)) {
    Err(p) => {
      ctx.violation(&format!("StateMetadataDocument::unpack|{}", p.key()), &p.msg, case);
      ctx.outcome(&format!("frame:{class}:panic"));
    }
    Ok(Ok(got)) => {
      match accept {
        Some(false) => ctx.violation(&format!("StateMetadataDocument::unpack|{class}|accepted"), &format!("header {:02x?}", &bytes[..bytes.len().min(7)]), case),
        Some(true) => {
          let (doc, did) = base_doc(base);
          let want = cleared(&doc);
          match guard(|| got.into_iota_document(&did)) {
            Ok(Ok(d)) if d == want => {}
            other => ctx.violation(&format!("StateMetadataDocument::unpack|{class}|decoded-document-differs"), &format!("{:?}", other.map(|r| r.is_ok())), case),
          }
        }
        None => {}
      }
      ctx.outcome(&format!("frame:{class}:accepted"));
    }
    Ok(Err(_)) => {
      if accept == Some(true) {
        ctx.violation(&format!("StateMetadataDocument::unpack|{class}|rejected"), &format!("header {:02x?}", &bytes[..bytes.len().min(7)]), case);
      }
      ctx.outcome(&format!("frame:{class}:rejected"));
    }
  }
}

fn eval_frame(ctx: &Ctx, case: &Case) {
  match case {
    Case::Header { pos, val, base: bs } => {
      let base = base_packed(*bs);
      let n = base.len() - 7;
      let mut b = base.clone();
      let unchanged = b[*pos as usize] == *val;
      b[*pos as usize] = *val;
      let class = match pos {
        0..=2 => "marker",
        3 => "version",
        4 => "encoding",
        _ => "length",
      };
      if unchanged {
        judge_frame(ctx, case, *bs, &b, Some(true), "own-frame");
      } else {
        let class = if *pos >= 5 {
          let l = u16::from_le_bytes([b[5], b[6]]) as usize;
          if l > n {
            "length-exceeds-data"
          } else {
            "length-cuts-json-short"
          }
        } else {
          class
        };
        judge_frame(ctx, case, *bs, &b, Some(false), &format!("wrong-{class}"));
      }
    }
    Case::Header2 { pos, a, b: v, base: bs } => {
      let base = base_packed(*bs);
      let n = base.len() - 7;
      let mut b = base.clone();
      b[*pos as usize] = *a;
      b[*pos as usize + 1] = *v;
      if b == base {
        judge_frame(ctx, case, *bs, &b, Some(true), "own-frame");
      } else {
        let class = if *pos == 3 {
          "wrong-version-or-encoding"
        } else if u16::from_le_bytes([*a, *v]) as usize > n {
          "wrong-length-exceeds-data"
        } else {
          "wrong-length-cuts-json-short"
        };
        judge_frame(ctx, case, *bs, &b, Some(false), class);
      }
    }
    Case::Truncate { len, base: bs } => {
      let base = base_packed(*bs);
      let class = if (*len as usize) < 7 { "truncated-header" } else { "truncated-body" };
      judge_frame(ctx, case, *bs, &base[..*len as usize], Some(false), class);
    }
    Case::Trailing { k, junk, base: bs } => {
      let mut b = base_packed(*bs);
      b.extend(std::iter::repeat(*junk).take(*k as usize));
      judge_frame(ctx, case, *bs, &b, Some(true), "trailing-bytes");
    }
    Case::Body { id } => {
      let body: Vec<u8> = match id {
        0 => b"".to_vec(),
        1 => b"{}".to_vec(),
        2 => b"null".to_vec(),
        3 => br#"{"doc":{"id":"did:0:0"}}"#.to_vec(),
        4 => br#"{"doc":{"id":"did:0:0"},"meta":{}}"#.to_vec(),
        5 => br#"{"doc":{"id":"did:0:0"},"meta":{}} "#.to_vec(),
        6 => br#"{"doc":{"id":"did:0:0"},"meta":{}}x"#.to_vec(),
        7 => vec![0xff, 0xfe, 0x00],
        _ => br#"{"doc":{"id":"not a did"},"meta":{}}"#.to_vec(),
      };
      let mut b = b"DID\x01\x00".to_vec();
      b.extend((body.len() as u16).to_le_bytes());
      b.extend(body);
      judge_frame(ctx, case, 0, &b, None, &format!("odd-body-{id}"));
    }
    Case::Encodings { base } => {
      let (doc, did) = base_doc(*base);
      let encs = encodings();
      judge_encodings(ctx, case, &encs, &doc, &did, &base_packed(*base));
      ctx.outcome(&format!("encodings:{}-variant(s)-packed", encs.len()));
    }
    _ => unreachable!(),
  }
  ctx.distinct(&serde_json::to_string(case).unwrap_or_default());
}

// ------------------------------------------------------------------ (c) size boundary
fn padded_doc(pad: usize) -> IotaDocument {
  let mut ch = Chooser::replay(&[]);
  let mut b = build(&mut ch);
  b.tree["doc"]["padding"] = Value::String("a".repeat(pad));
  IotaDocument::from_json_value(b.tree).expect("padded document")
}
fn eval_size(ctx: &Ctx, case: &Case, payload: u32) {
  // calibrate: payload length of the document with a 1000-byte pad (ASCII padding grows the JSON byte for byte)
  let n0 = padded_doc(1000).pack().expect("calibration pack").len() - 7;
  let pad = payload as usize - (n0 - 1000);
  let doc = padded_doc(pad);
  let did = doc.id().clone();
  let fits = payload <= u16::MAX as u32;
  match guard(|| doc.clone().pack()) {
    Err(p) => ctx.violation(&format!("IotaDocument::pack|{}", p.key()), &p.msg, case),
    Ok(Err(_)) => {
      if fits {
        ctx.violation("IotaDocument::pack|fits-16-bit-length|rejected", &format!("payload {payload} bytes"), case);
      }
      ctx.outcome("size:pack-rejected");
    }
    Ok(Ok(bytes)) => {
      if !fits {
        ctx.violation("IotaDocument::pack|exceeds-16-bit-length|packed", &format!("payload {payload} bytes, {} bytes returned, length prefix {:02x?}", bytes.len(), &bytes[5..7]), case);
      } else if bytes.len() != payload as usize + 7 {
        ctx.require(false, &format!("size calibration is off: predicted {} got {}", payload + 7, bytes.len()));
      } else {
        if !frame_ok(&bytes, 0) {
          ctx.violation("IotaDocument::pack|frame-not-DID-1-0-len", &format!("{:02x?}", &bytes[..7]), case);
        }
        match guard(|| StateMetadataDocument::unpack(&bytes).and_then(|s| s.into_iota_document(&did))) {
          Ok(Ok(back)) if back == doc => {}
          other => ctx.violation("pack-unpack|near-size-limit|document-not-equal", &format!("{:?}", other.map(|r| r.is_ok())), case),
        }
        // bytes beyond the prefixed length are ignored, also when the prefix is (nearly) all ones
        let mut longer = bytes.clone();
        longer.extend_from_slice(b"}}  trailing");
        match guard(|| StateMetadataDocument::unpack(&longer).and_then(|s| s.into_iota_document(&did))) {
          Ok(Ok(back)) if back == doc => {}
          other => ctx.violation("StateMetadataDocument::unpack|trailing-bytes|rejected-or-differs-near-size-limit", &format!("{:?}", other.map(|r| r.is_ok())), case),
        }
      }
      ctx.outcome("size:packed");
    }
  }
  ctx.distinct(&("size", payload));
}

fn eval(ctx: &Ctx, case: &Case) {
  match case {
    Case::Doc(seq) => {
      ctx.eval1();
      doc_body(ctx, &mut Chooser::replay(seq))
    }
    Case::Size { payload } => {
      ctx.eval1();
      eval_size(ctx, case, *payload)
    }
    Case::Output(seq) => {
      ctx.eval1();
      output_body(ctx, &mut Chooser::replay(seq))
    }
    _ => {
      ctx.eval1();
      eval_frame(ctx, case)
    }
  }
}

fn generate(ctx: &Ctx) {
  ctx.rule("(a) choice DFS over document shapes x rebase target: the compact alphabets (first entries of every table) deviation-bounded in quick and as a whole product in thorough, the wide alphabets deviation-bounded in both tiers; every successful rebase is followed by a second hop back; (b) two base frames: every value of each header byte, every (version,encoding) pair, every 16-bit length prefix, every truncation, trailing bytes, every encoding variant; (c) payload sizes around 65535. distinct_nontrivial = distinct choice sequences whose document the library accepts (the early reject is an input the library refuses to build) + distinct frame/size cases");
  ctx.assume("serde_json trees are compared; the baseline of the rewrite model is the library's own JSON of the input document");
  ctx.assume("the property excludes documents that mention the reserved placeholder did:0:0; read as: in an identifier position (id, controller, method id/controller, reference, service id) — those are executed and only judged for panics. The same string inside alsoKnownAs, service endpoints and custom properties is not an identifier and must come back unchanged");
  ctx.assume("IotaDocument::unpack_from_output is driven on real iota-sdk AliasOutput values (part d); unpack_from_block (a signed transaction payload around the output) is not; the alias DID the library appends to the controllers when the state controller is an alias address is designed behaviour the statement does not mention: judged is only that nothing else appears and nothing packed disappears");
  ctx.assume("iota-sdk (AliasOutputBuilder, bech32 of addresses) is trusted");
  // (a)
  let compact_bound = ctx.by_tier(Some(5u32), None);
  let wide_bound = ctx.by_tier(Some(3u32), Some(4u32));
  COMPACT.store(true, Ordering::SeqCst);
  choice::explore_into(ctx, "documents x targets (compact alphabets)", compact_bound, |ch| doc_body(ctx, ch));
  COMPACT.store(false, Ordering::SeqCst);
  choice::explore_into(ctx, "documents x targets (wide alphabets)", wide_bound, |ch| doc_body(ctx, ch));
  // (d)
  let output_bound = ctx.by_tier(Some(3u32), Some(4u32));
  COMPACT.store(true, Ordering::SeqCst);
  choice::explore_into(ctx, "alias outputs: documents x addresses x metadata x allow_empty x DID (compact alphabets)", output_bound, |ch| output_body(ctx, ch));
  COMPACT.store(false, Ordering::SeqCst);
  ctx.bound("output_deviation_bound", output_bound);
  ctx.bound("output_addresses", &ADDRS[..]);
  flush_shards(ctx);
  // (b)
  let mut cases = Vec::new();
  for base in 0..2u8 {
    for pos in 0..7u8 {
      for val in 0..=255u8 {
        cases.push(Case::Header { pos, val, base });
      }
    }
    for pos in [3u8, 5] {
      for a in 0..=255u8 {
        for b in 0..=255u8 {
          cases.push(Case::Header2 { pos, a, b, base });
        }
      }
    }
    let n = base_packed(base).len() as u32;
    for len in 0..n {
      cases.push(Case::Truncate { len, base });
    }
    for k in [1u32, 2, 7, 100, 70_000] {
      for junk in [0x00u8, b'}', b'{', b' ', 0xff] {
        cases.push(Case::Trailing { k, junk, base });
      }
    }
    cases.push(Case::Encodings { base });
  }
  for id in 0..9u8 {
    cases.push(Case::Body { id });
  }
  ctx.sample("framing", &cases[300]);
  ctx.sample("framing", &cases[cases.len() - 40]);
  cases.par_iter().for_each(|c| eval(ctx, c));
  ctx.add_states(cases.len() as u64);
  ctx.add_transitions(cases.len() as u64);
  ctx.add_traces(cases.len() as u64);
  ctx.part("framing", json!({"engine": "E1 full product", "cases": cases.len(), "base_frame_bytes": [base_packed(0).len(), base_packed(1).len()], "encoding_variants": encodings().len()}));
  // (c)
  let sizes: Vec<Case> = (65_530u32..=65_540).chain([65_000, 66_000, 131_071, 131_072 + 100]).map(|payload| Case::Size { payload }).collect();
  ctx.sample("size", &sizes[5]);
  sizes.par_iter().for_each(|c| eval(ctx, c));
  ctx.add_states(sizes.len() as u64);
  ctx.add_transitions(sizes.len() as u64);
  ctx.add_traces(sizes.len() as u64);
  ctx.part("size boundary", json!({"cases": sizes.len()}));
  ctx.bound("document_deviation_bound_compact", compact_bound);
  ctx.bound("document_deviation_bound_wide", wide_bound);
  ctx.bound(
    "choice_points_wide(compact)",
    [
      "self-network(3)".to_string(),
      format!("method-1({}/{M1_COMPACT})", M1.len()),
      format!("method-2({}/{M2_COMPACT})", M2.len()),
      format!("method-3({}/1)", M3.len()),
      format!("reference({}/{REFS_COMPACT})", REFS.len()),
      format!("references-2({}/1)", REFS2.len()),
      format!("service-1({}/{S1_COMPACT})", S1.len()),
      format!("service-2({}/{S2_COMPACT})", S2.len()),
      format!("service-3({}/1)", S3.len()),
      format!("controller({}/{CTRL_COMPACT})", CTRL.len()),
      format!("aka+properties({EXTRA_N}/{EXTRA_COMPACT})"),
      format!("metadata({META_N}/{META_COMPACT})"),
      format!("target({TARGET_N}/{TARGET_COMPACT})"),
    ],
  );
}

fn main() {
  vx::run_main::<Case, _, _>("C14", Level::ModelChecking, generate, eval)
}
