//! C14 — IOTA state-metadata packing round-trips and rewrites only self-references.
//!
//! (a) E1 choice DFS over document shapes (self DID / network, two methods with id-DID x controller x scope,
//!     a relationship reference, two services, controllers, alsoKnownAs + custom properties, metadata) x rebase
//!     target: `pack` -> `StateMetadataDocument::unpack` -> `into_iota_document(target)` is compared with a rewrite of
//!     the document's JSON tree done by the harness (self DID replaced in exactly: id, controllers, method ids and
//!     controllers, relationship references, service ids).
//! (b) framing: every value of every header byte, every (version, encoding) pair, every 16-bit length prefix,
//!     every truncation, trailing bytes.
//! (c) size boundary: payloads of 65 530 ..= 65 540 bytes pack iff they fit the 16-bit length.

use identity_core::convert::{FromJson, ToJson};
use identity_iota_core::{IotaDID, IotaDocument, StateMetadataDocument, StateMetadataEncoding};
use serde::{Deserialize, Serialize};
use serde_json::Value;
use std::collections::BTreeSet;
use vx::choice::{self, Chooser};
use vx::rayon::prelude::*;
use identity_did::DID;
use std::collections::BTreeMap;
use std::sync::Mutex;
use vx::{guard, json, Ctx, Level};

// Per-worker accumulators for part (a) (millions of leaves): outcome labels and distinct-case hashes are merged
// into the context once the exploration is over. A replay does not need them.
struct Shard {
  outcomes: BTreeMap<String, u64>,
  distinct: Vec<u64>,
}
static SHARDS: once_cell::sync::Lazy<Vec<Mutex<Shard>>> =
  once_cell::sync::Lazy::new(|| (0..64).map(|_| Mutex::new(Shard { outcomes: BTreeMap::new(), distinct: Vec::new() })).collect());
fn shard() -> std::sync::MutexGuard<'static, Shard> {
  SHARDS[vx::rayon::current_thread_index().unwrap_or(63) % 64].lock().unwrap()
}
fn out(label: &str) {
  let mut s = shard();
  match s.outcomes.get_mut(label) {
    Some(n) => *n += 1,
    None => {
      s.outcomes.insert(label.to_string(), 1);
    }
  }
}
fn flush_shards(ctx: &Ctx) {
  for m in SHARDS.iter() {
    let mut s = m.lock().unwrap();
    ctx.outcomes_merge(&std::mem::take(&mut s.outcomes));
    ctx.distinct_many(std::mem::take(&mut s.distinct));
  }
}

const TAG_SELF: &str = "0x8036235b6b5939435a45d68bcea7890eef399209a669c8c263fac7f5089b2ec6";
const TAG_ZERO: &str = "0x0000000000000000000000000000000000000000000000000000000000000000";
const F1: &str = "did:iota:0x71b709dff439f1ac9dd2b9c2e28db0807156b378e13bfa3605ce665aa0d0fdca";
const T: &str = "did:iota:0x1111111111111111111111111111111111111111111111111111111111111111";
const X: &str = "did:example:123";
const RELS: [&str; 5] = ["authentication", "assertionMethod", "keyAgreement", "capabilityDelegation", "capabilityInvocation"];

#[derive(Serialize, Deserialize, Debug, Clone, PartialEq)]
enum Case {
  /// (a) choice sequence of `doc_body`
  Doc(Vec<u32>),
  /// (b) byte `pos` (0..7) of the packed base document set to `val`
  Header { pos: u8, val: u8 },
  /// (b) bytes `pos`, `pos+1` set to `a`, `b` (pos 3 = version+encoding, pos 5 = length prefix)
  Header2 { pos: u8, a: u8, b: u8 },
  /// (b) only the first `len` bytes of the packed base document
  Truncate { len: u32 },
  /// (b) `k` bytes `junk` appended
  Trailing { k: u32, junk: u8 },
  /// (b) well-formed frame around an odd body (recorded, not judged)
  Body { id: u8 },
  /// (c) document padded so that the JSON payload has exactly `payload` bytes
  Size { payload: u32 },
}

// ------------------------------------------------------------------ (a) documents from choices
fn self_did(net: usize) -> String {
  match net {
    0 => format!("did:iota:{TAG_SELF}"),
    1 => format!("did:iota:smr:{TAG_SELF}"),
    _ => format!("did:iota:{TAG_ZERO}"), // what `IotaDocument::new` gives before publication
  }
}
fn method(id_did: &str, frag: &str, controller: &str) -> Value {
  json!({"id": format!("{id_did}#{frag}"), "controller": controller, "type": "Ed25519VerificationKey2018", "publicKeyMultibase": "zJdzr2UvC"})
}

struct Built {
  s: String,
  target: String,
  tree: Value,
}

/// Method shapes: (id DID, controller, scope) with scope 0 general, 1 authentication-embedded, 2 keyAgreement-embedded.
/// `S` stands for the self DID.
const M1: [(&str, &str, u8); 11] = [
  ("S", "S", 0),
  ("S", "S", 1),
  ("S", "S", 2),
  (F1, F1, 0),
  (F1, "S", 0),
  ("S", F1, 0),
  ("S", X, 1),
  (T, T, 0),
  (T, T, 1),
  (T, "S", 2),
  ("", "", 0), // absent
];
/// second method: additionally a fragment (k1 collides with method 1 once the DIDs coincide)
const M2: [(&str, &str, u8, &str); 8] = [
  ("", "", 0, ""), // absent
  ("S", "S", 0, "k2"),
  ("S", "S", 0, "k1"),
  (T, T, 0, "k1"),
  (T, T, 1, "k1"),
  (F1, F1, 0, "k1"),
  ("S", "S", 1, "k1"),
  (F1, "S", 2, "k2"),
];
const REFS: [&str; 5] = ["", "S#k1", "F#k1", "T#k1", "S#zz"];
const S1: [&str; 5] = ["S#s1", "", "F#s1", "T#s1", "X#s1"];
const S2: [&str; 5] = ["", "S#s2", "S#s1", "T#s2", "S#k1"];
const CTRL: [&[&str]; 6] = [&[], &["S"], &["F"], &["S", "F"], &["S", "T"], &["T", "S"]];

fn build(ch: &mut Chooser) -> Built {
  let net = ch.choose("self-network", 3);
  let s = self_did(net);
  let d = |x: &str| -> String {
    match x {
      "S" => s.clone(),
      "F" => F1.to_string(),
      "T" => T.to_string(),
      "X" => X.to_string(),
      other => other.to_string(),
    }
  };
  let url = |x: &str| -> String {
    let (did, frag) = x.split_once('#').unwrap();
    format!("{}#{frag}", d(did))
  };
  let mut general = Vec::new();
  let mut auth = Vec::new();
  let mut ka = Vec::new();
  let mut push = |m: Value, scope: u8| match scope {
    0 => general.push(m),
    1 => auth.push(m),
    _ => ka.push(m),
  };
  let m1 = M1[ch.choose("method-1", M1.len())];
  if !m1.0.is_empty() {
    // (no method-level custom properties: `VerificationMethod` deserialisation is order-sensitive once a method has
    // any extra property, which is outside this property — see the report)
    push(method(&d(m1.0), "k1", &d(m1.1)), m1.2);
  }
  let m2 = M2[ch.choose("method-2", M2.len())];
  if !m2.0.is_empty() {
    push(method(&d(m2.0), m2.3, &d(m2.1)), m2.2);
  }
  let r = REFS[ch.choose("reference", REFS.len())];
  let mut services = Vec::new();
  let s1 = S1[ch.choose("service-1", S1.len())];
  if !s1.is_empty() {
    // endpoint mentions the self DID
    services.push(json!({"id": url(s1), "type": "LinkedResource", "serviceEndpoint": format!("{s}?service=files&relativeRef=%2Fa")}));
  }
  let s2 = S2[ch.choose("service-2", S2.len())];
  if !s2.is_empty() {
    services.push(json!({"id": url(s2), "type": "LinkedDomains", "serviceEndpoint": "https://example.com/", "ownedBy": s.clone()}));
  }
  let ctrl = CTRL[ch.choose("controller", CTRL.len())];
  let extra = ch.choose("aka+properties", 3);
  let meta_kind = ch.choose("metadata", 5);
  let target = match ch.choose("target", 3) {
    0 => T.to_string(),
    1 => s.clone(),
    _ => format!("did:iota:rms:{}", if net == 2 { TAG_ZERO } else { TAG_SELF }),
  };

  let mut doc = json!({"id": s});
  if !ctrl.is_empty() {
    doc["controller"] = Value::Array(ctrl.iter().map(|c| json!(d(c))).collect());
  }
  if !general.is_empty() {
    doc["verificationMethod"] = Value::Array(general);
  }
  if !auth.is_empty() {
    doc["authentication"] = Value::Array(auth);
  }
  if !ka.is_empty() {
    doc["keyAgreement"] = Value::Array(ka);
  }
  if !r.is_empty() {
    doc["assertionMethod"] = json!([url(r)]);
  }
  if !services.is_empty() {
    doc["service"] = Value::Array(services);
  }
  if extra >= 1 {
    doc["alsoKnownAs"] = json!(["https://example.com/me", s.clone(), F1]);
  }
  if extra >= 2 {
    doc["customText"] = json!(format!("{s}#k1 is my key"));
    doc["customTree"] = json!({"did": s.clone(), "list": [s.clone(), F1, T], "n": 7});
  }
  let meta = match meta_kind {
    0 => json!({"created": "2023-01-01T00:00:00Z", "updated": "2023-06-01T12:00:00Z"}),
    1 => json!({}),
    2 => json!({"created": "2023-01-01T00:00:00Z", "updated": "2023-06-01T12:00:00Z", "deactivated": true}),
    3 => json!({"created": "2023-01-01T00:00:00Z", "updated": "2023-06-01T12:00:00Z",
                "governorAddress": "rms1pqrgtxx37pkmr3nnt2xkyy9kxqlqdxwqnjmgxgmzqe5uwy0wh5cnwmvkfrz",
                "stateControllerAddress": "rms1pzjpd0xv7nc2ja8a6awsnvwwhqvzn6e6mxlmwpw2xhrhq4mk6ry8ql4n3tp"}),
    _ => json!({"updated": "2023-06-01T12:00:00Z", "deactivated": false, "governorAddress": "rms1pqrgtxx37pkmr3nnt2xkyy9kxqlqdxwqnjmgxgmzqe5uwy0wh5cnwmvkfrz",
                "customMeta": {"owner": s.clone()}, "n": 3}),
  };
  Built { s, target, tree: json!({"doc": doc, "meta": meta}) }
}

// ------------------------------------------------------------------ the reference rewrite (JSON tree)
fn rewrite_url(v: &mut Value, from: &str, to: &str) {
  if let Some(s) = v.as_str() {
    let new = if s == from {
      Some(to.to_string())
    } else if s.len() > from.len() && s.starts_with(from) && matches!(s.as_bytes()[from.len()], b'#' | b'/' | b'?') {
      Some(format!("{to}{}", &s[from.len()..]))
    } else {
      None
    };
    if let Some(n) = new {
      *v = Value::String(n);
    }
  }
}
fn rewrite_method(m: &mut Value, from: &str, to: &str) {
  if let Some(o) = m.as_object_mut() {
    for k in ["id", "controller"] {
      if let Some(v) = o.get_mut(k) {
        rewrite_url(v, from, to);
      }
    }
  }
}
/// `controller` as a list, whether it was serialised as one string or as an array.
fn normalise_controller(doc: &mut Value) {
  if let Some(c) = doc.get_mut("controller") {
    if c.is_string() {
      *c = Value::Array(vec![c.clone()]);
    }
  }
}
/// The expected result of unpacking `tree` (the library's own JSON of the input document) for `to`.
fn model_rewrite(tree: &Value, from: &str, to: &str) -> Value {
  let mut t = tree.clone();
  if let Some(meta) = t.get_mut("meta").and_then(|m| m.as_object_mut()) {
    meta.remove("governorAddress");
    meta.remove("stateControllerAddress");
  }
  let doc = &mut t["doc"];
  normalise_controller(doc);
  if let Some(v) = doc.get_mut("id") {
    rewrite_url(v, from, to);
  }
  if let Some(list) = doc.get_mut("controller").and_then(|c| c.as_array_mut()) {
    let mut seen = BTreeSet::new();
    let mut out = Vec::new();
    for mut c in list.drain(..) {
      rewrite_url(&mut c, from, to);
      if seen.insert(c.as_str().unwrap_or("").to_string()) {
        out.push(c);
      }
    }
    *list = out;
  }
  if let Some(list) = doc.get_mut("verificationMethod").and_then(|c| c.as_array_mut()) {
    for m in list {
      rewrite_method(m, from, to);
    }
  }
  for rel in RELS {
    if let Some(list) = doc.get_mut(rel).and_then(|c| c.as_array_mut()) {
      for e in list {
        if e.is_string() {
          rewrite_url(e, from, to);
        } else {
          rewrite_method(e, from, to);
        }
      }
    }
  }
  if let Some(list) = doc.get_mut("service").and_then(|c| c.as_array_mut()) {
    for s in list {
      if let Some(v) = s.get_mut("id") {
        rewrite_url(v, from, to);
      }
    }
  }
  t
}
/// Does the rewritten tree break the identifier rules a DID document must obey (two methods / services with one id,
/// a relationship reference naming an embedded method, a service id equal to a method id)? Then no valid document can be returned.
fn id_collision(t: &Value) -> Option<String> {
  let doc = &t["doc"];
  let ids = |v: Option<&Value>| -> Vec<String> {
    v.and_then(|l| l.as_array()).map(|l| l.iter().filter_map(|m| m.get("id").and_then(|i| i.as_str()).map(String::from)).collect()).unwrap_or_default()
  };
  let mut defining: Vec<String> = ids(doc.get("verificationMethod"));
  let mut embedded = BTreeSet::new();
  let mut refs = Vec::new();
  for rel in RELS {
    for e in doc.get(rel).and_then(|l| l.as_array()).cloned().unwrap_or_default() {
      match e.as_str() {
        Some(r) => refs.push(r.to_string()),
        None => {
          let id = e["id"].as_str().unwrap_or("").to_string();
          embedded.insert(id.clone());
          defining.push(id);
        }
      }
    }
  }
  let services = ids(doc.get("service"));
  defining.extend(services.iter().cloned());
  let mut seen = BTreeSet::new();
  for id in &defining {
    if !seen.insert(id.clone()) {
      return Some(format!("two entries with id {id}"));
    }
  }
  if let Some(r) = refs.iter().find(|r| embedded.contains(*r)) {
    return Some(format!("reference {r} names an embedded method"));
  }
  // a relationship reference carries a method id as well
  services.iter().find(|s| refs.contains(s)).map(|s| format!("service id {s} equals a referenced method id"))
}

/// First differing path between two JSON trees.
fn first_diff(a: &Value, b: &Value, path: &mut Vec<String>) -> Option<Vec<String>> {
  match (a, b) {
    (Value::Object(x), Value::Object(y)) => {
      let keys: BTreeSet<&String> = x.keys().chain(y.keys()).collect();
      for k in keys {
        path.push(k.clone());
        match (x.get(k), y.get(k)) {
          (Some(p), Some(q)) => {
            if let Some(d) = first_diff(p, q, path) {
              return Some(d);
            }
          }
          _ => return Some(path.clone()),
        }
        path.pop();
      }
      None
    }
    (Value::Array(x), Value::Array(y)) => {
      if x.len() != y.len() {
        return Some(path.clone());
      }
      for (i, (p, q)) in x.iter().zip(y).enumerate() {
        path.push(i.to_string());
        if let Some(d) = first_diff(p, q, path) {
          return Some(d);
        }
        path.pop();
      }
      None
    }
    _ => (a != b).then(|| path.clone()),
  }
}
fn at<'a>(v: &'a Value, path: &[String]) -> Option<&'a Value> {
  let mut cur = v;
  for p in path {
    cur = match cur {
      Value::Object(o) => o.get(p)?,
      Value::Array(a) => a.get(p.parse::<usize>().ok()?)?,
      _ => return None,
    };
  }
  Some(cur)
}

fn doc_body(ctx: &Ctx, ch: &mut Chooser) {
  let b = build(ch);
  let case = Case::Doc(ch.seq());
  let doc = match guard(|| IotaDocument::from_json_value(b.tree.clone())) {
    Err(p) => return ctx.violation(&format!("IotaDocument::from_json|{}", p.key()), &p.msg, &case),
    Ok(Err(e)) => {
      if std::env::var_os("C14_DEBUG").is_some() && ch.deviations() <= 2 {
        eprintln!("invalid {:?}: {e}", ch.labelled().iter().filter(|l| !l.contains("=0/")).collect::<Vec<_>>());
      }
      return out("doc:input-not-a-valid-document");
    } // trivial early reject (id rules are C04's subject)
    Ok(Ok(d)) => d,
  };
  let target = IotaDID::parse(&b.target).expect("target DID");
  let same = b.target == b.s;
  let tclass = if same { "same-did" } else { "other-did" };
  // baseline = the library's own JSON of the input document
  let mut orig = doc.to_json_value().expect("document to JSON");
  normalise_controller(&mut orig["doc"]);
  let packed = match guard(|| doc.clone().pack()) {
    Err(p) => return ctx.violation(&format!("IotaDocument::pack|{}", p.key()), &p.msg, &case),
    Ok(Err(e)) => return ctx.violation("IotaDocument::pack|small-document-rejected", &format!("{e}"), &case),
    Ok(Ok(p)) => p,
  };
  match guard(|| doc.clone().pack_with_encoding(StateMetadataEncoding::Json)) {
    Ok(Ok(p2)) if p2 == packed => {}
    _ => ctx.violation("IotaDocument::pack_with_encoding|Json-differs-from-pack", "", &case),
  }
  if packed.len() < 7 || &packed[0..3] != b"DID" || packed[3] != 1 || packed[4] != 0 || u16::from_le_bytes([packed[5], packed[6]]) as usize != packed.len() - 7 {
    return ctx.violation("IotaDocument::pack|frame-not-DID-1-0-len", &format!("{:02x?}", &packed[..packed.len().min(7)]), &case);
  }
  let smd = match guard(|| StateMetadataDocument::unpack(&packed)) {
    Err(p) => return ctx.violation(&format!("StateMetadataDocument::unpack|{}", p.key()), &p.msg, &case),
    Ok(Err(e)) => return ctx.violation("StateMetadataDocument::unpack|own-packing-rejected", &format!("{e}"), &case),
    Ok(Ok(s)) => s,
  };
  let want = model_rewrite(&orig, &b.s, &b.target);
  let collision = id_collision(&want);
  let res = match guard(|| smd.into_iota_document(&target)) {
    Err(p) => return ctx.violation(&format!("StateMetadataDocument::into_iota_document|{}", p.key()), &p.msg, &case),
    Ok(r) => r,
  };
  shard().distinct.push(Ctx::hash_of(&ch.seq()));
  match (res, collision) {
    (Err(_), Some(_)) => out(&format!("doc:{tclass}:id-collision-after-rebase:rejected")),
    (Ok(got), Some(why)) => {
      ctx.violation(
        "StateMetadataDocument::into_iota_document|id-collision-after-rebase|not-rejected",
        &format!("rebasing {} onto {}: {why}; Ok was returned with {}", b.s, b.target, summarise(&got)),
        &case,
      );
      out(&format!("doc:{tclass}:id-collision-after-rebase:accepted"));
    }
    (Err(e), None) => {
      ctx.violation(&format!("StateMetadataDocument::into_iota_document|{tclass}|valid-rebase-rejected"), &format!("{e}"), &case);
      out(&format!("doc:{tclass}:rejected"));
    }
    (Ok(got), None) => {
      let mut got_tree = got.to_json_value().expect("result to JSON");
      normalise_controller(&mut got_tree["doc"]);
      if let Some(path) = first_diff(&want, &got_tree, &mut Vec::new()) {
        let o = at(&orig, &path);
        let w = at(&want, &path);
        let g = at(&got_tree, &path);
        let class = if w != o && g == o {
          "self-reference-not-rewritten"
        } else if w == o && g != o {
          "field-outside-the-self-references-changed"
        } else {
          "rewritten-to-something-else"
        };
        ctx.violation(
          &format!("StateMetadataDocument::into_iota_document|{tclass}|{class}"),
          &format!("at /{}: expected {}, got {}", path.join("/"), w.map(|v| v.to_string()).unwrap_or("-".into()), g.map(|v| v.to_string()).unwrap_or("-".into())),
          &case,
        );
        return out(&format!("doc:{tclass}:differs"));
      }
      if same {
        // equality of the real objects, ledger address fields excepted
        let mut expect = doc.clone();
        expect.metadata.governor_address = None;
        expect.metadata.state_controller_address = None;
        if got != expect {
          // which part is unequal? (the normalised JSON trees agree at this point)
          let raw_in = expect.to_json_value().expect("document to JSON");
          let raw_out = got.to_json_value().expect("result to JSON");
          match first_diff(&raw_in, &raw_out, &mut Vec::new()) {
            Some(path) if path == ["doc", "controller"] => ctx.violation(
              "pack-unpack|same-did|one-element-controller-set-becomes-single-value",
              &format!("controller {} comes back as {}; the documents are not equal", raw_in["doc"]["controller"], raw_out["doc"]["controller"]),
              &case,
            ),
            other => ctx.violation(
              "pack-unpack|same-did|document-not-equal",
              &format!("JSON differs at {other:?}; {}", debug_diff(&got, &expect)),
              &case,
            ),
          }
        }
      } else if got.id().as_str() != b.target {
        ctx.violation("StateMetadataDocument::into_iota_document|other-did|id()-is-not-the-target", got.id().as_str(), &case);
      }
      let touched = want != {
        let mut o = orig.clone();
        if let Some(m) = o.get_mut("meta").and_then(|m| m.as_object_mut()) {
          m.remove("governorAddress");
          m.remove("stateControllerAddress");
        }
        o
      };
      out(&format!("doc:{tclass}:ok:{}", if touched { "rewritten" } else { "nothing-to-rewrite" }));
      if ch.deviations() <= 1 {
        ctx.sample("documents", &case);
      }
    }
  }
}
/// Where two documents whose JSON agrees differ for `PartialEq` (from their `Debug` forms).
fn debug_diff(a: &IotaDocument, b: &IotaDocument) -> String {
  let (x, y) = (format!("{a:?}"), format!("{b:?}"));
  let i = x.bytes().zip(y.bytes()).position(|(p, q)| p != q).unwrap_or(x.len().min(y.len()));
  let from = i.saturating_sub(60);
  format!("got …{}… expected …{}…", &x[from..(i + 60).min(x.len())], &y[from..(i + 60).min(y.len())])
}
fn summarise(d: &IotaDocument) -> String {
  format!(
    "{} general methods, {} methods in all scopes, {} services",
    d.core_document().verification_method().len(),
    d.methods(None).len(),
    d.service().len()
  )
}

// ------------------------------------------------------------------ (b) framing
fn base_doc() -> (IotaDocument, IotaDID) {
  let mut ch = Chooser::replay(&[]);
  let b = build(&mut ch);
  (IotaDocument::from_json_value(b.tree).expect("base document"), IotaDID::parse(&b.s).unwrap())
}
fn base_packed() -> Vec<u8> {
  base_doc().0.pack().expect("pack base document")
}

/// Judge `unpack(bytes)`: `accept` = the statement demands acceptance (and then the result must equal the base).
fn judge_frame(ctx: &Ctx, case: &Case, bytes: &[u8], accept: Option<bool>, class: &str) {
  let (doc, did) = base_doc();
  let reference = StateMetadataDocument::from(doc);
  match guard(|| StateMetadataDocument::unpack(bytes)) {
    Err(p) => {
      ctx.violation(&format!("StateMetadataDocument::unpack|{}", p.key()), &p.msg, case);
      ctx.outcome(&format!("frame:{class}:panic"));
    }
    Ok(Ok(got)) => {
      match accept {
        Some(false) => ctx.violation(&format!("StateMetadataDocument::unpack|{class}|accepted"), &format!("header {:02x?}", &bytes[..bytes.len().min(7)]), case),
        Some(true) => {
          let mut want = reference.clone().into_iota_document(&did).expect("base rebase");
          want.metadata.governor_address = None;
          want.metadata.state_controller_address = None;
          match guard(|| got.into_iota_document(&did)) {
            Ok(Ok(d)) if d == want => {}
            other => ctx.violation(&format!("StateMetadataDocument::unpack|{class}|decoded-document-differs"), &format!("{:?}", other.map(|r| r.is_ok())), case),
          }
        }
        None => {}
      }
      ctx.outcome(&format!("frame:{class}:accepted"));
    }
    Ok(Err(_)) => {
      if accept == Some(true) {
        ctx.violation(&format!("StateMetadataDocument::unpack|{class}|rejected"), &format!("header {:02x?}", &bytes[..bytes.len().min(7)]), case);
      }
      ctx.outcome(&format!("frame:{class}:rejected"));
    }
  }
}

fn eval_frame(ctx: &Ctx, case: &Case) {
  let base = base_packed();
  let n = base.len() - 7;
  match case {
    Case::Header { pos, val } => {
      let mut b = base.clone();
      let unchanged = b[*pos as usize] == *val;
      b[*pos as usize] = *val;
      let class = match pos {
        0..=2 => "marker",
        3 => "version",
        4 => "encoding",
        _ => "length",
      };
      if unchanged {
        return judge_frame(ctx, case, &b, Some(true), "own-frame");
      }
      let class = if *pos >= 5 {
        let l = u16::from_le_bytes([b[5], b[6]]) as usize;
        if l > n {
          "length-exceeds-data"
        } else {
          "length-cuts-json-short"
        }
      } else {
        class
      };
      judge_frame(ctx, case, &b, Some(false), &format!("wrong-{class}"));
    }
    Case::Header2 { pos, a, b: v } => {
      let mut b = base.clone();
      b[*pos as usize] = *a;
      b[*pos as usize + 1] = *v;
      if b == base {
        return judge_frame(ctx, case, &b, Some(true), "own-frame");
      }
      let class = if *pos == 3 {
        "wrong-version-or-encoding"
      } else if u16::from_le_bytes([*a, *v]) as usize > n {
        "wrong-length-exceeds-data"
      } else {
        "wrong-length-cuts-json-short"
      };
      judge_frame(ctx, case, &b, Some(false), class);
    }
    Case::Truncate { len } => {
      let class = if (*len as usize) < 7 { "truncated-header" } else { "truncated-body" };
      judge_frame(ctx, case, &base[..*len as usize], Some(false), class);
    }
    Case::Trailing { k, junk } => {
      let mut b = base.clone();
      b.extend(std::iter::repeat(*junk).take(*k as usize));
      judge_frame(ctx, case, &b, Some(true), "trailing-bytes");
    }
    Case::Body { id } => {
      let body: Vec<u8> = match id {
        0 => b"".to_vec(),
        1 => b"{}".to_vec(),
        2 => b"null".to_vec(),
        3 => br#"{"doc":{"id":"did:0:0"}}"#.to_vec(),
        4 => br#"{"doc":{"id":"did:0:0"},"meta":{}}"#.to_vec(),
        5 => br#"{"doc":{"id":"did:0:0"},"meta":{}} "#.to_vec(),
        6 => br#"{"doc":{"id":"did:0:0"},"meta":{}}x"#.to_vec(),
        7 => vec![0xff, 0xfe, 0x00],
        _ => br#"{"doc":{"id":"not a did"},"meta":{}}"#.to_vec(),
      };
      let mut b = b"DID\x01\x00".to_vec();
      b.extend((body.len() as u16).to_le_bytes());
      b.extend(body);
      judge_frame(ctx, case, &b, None, &format!("odd-body-{id}"));
    }
    _ => unreachable!(),
  }
  ctx.distinct(&serde_json::to_string(case).unwrap_or_default());
}

// ------------------------------------------------------------------ (c) size boundary
fn padded_doc(pad: usize) -> IotaDocument {
  let mut ch = Chooser::replay(&[]);
  let mut b = build(&mut ch);
  b.tree["doc"]["padding"] = Value::String("a".repeat(pad));
  IotaDocument::from_json_value(b.tree).expect("padded document")
}
fn eval_size(ctx: &Ctx, case: &Case, payload: u32) {
  // calibrate: payload length of the document with a 1000-byte pad (ASCII padding grows the JSON byte for byte)
  let n0 = padded_doc(1000).pack().expect("calibration pack").len() - 7;
  let pad = payload as usize - (n0 - 1000);
  let doc = padded_doc(pad);
  let did = doc.id().clone();
  let fits = payload <= u16::MAX as u32;
  match guard(|| doc.clone().pack()) {
    Err(p) => ctx.violation(&format!("IotaDocument::pack|{}", p.key()), &p.msg, case),
    Ok(Err(_)) => {
      if fits {
        ctx.violation("IotaDocument::pack|fits-16-bit-length|rejected", &format!("payload {payload} bytes"), case);
      }
      ctx.outcome("size:pack-rejected");
    }
    Ok(Ok(bytes)) => {
      if !fits {
        ctx.violation("IotaDocument::pack|exceeds-16-bit-length|packed", &format!("payload {payload} bytes, {} bytes returned, length prefix {:02x?}", bytes.len(), &bytes[5..7]), case);
      } else if bytes.len() != payload as usize + 7 {
        ctx.require(false, &format!("size calibration is off: predicted {} got {}", payload + 7, bytes.len()));
      } else {
        match guard(|| StateMetadataDocument::unpack(&bytes).and_then(|s| s.into_iota_document(&did))) {
          Ok(Ok(back)) if back == doc => {}
          other => ctx.violation("pack-unpack|near-size-limit|document-not-equal", &format!("{:?}", other.map(|r| r.is_ok())), case),
        }
      }
      ctx.outcome("size:packed");
    }
  }
  ctx.distinct(&("size", payload));
}

fn eval(ctx: &Ctx, case: &Case) {
  match case {
    Case::Doc(seq) => {
      ctx.eval1();
      doc_body(ctx, &mut Chooser::replay(seq))
    }
    Case::Size { payload } => {
      ctx.eval1();
      eval_size(ctx, case, *payload)
    }
    _ => {
      ctx.eval1();
      eval_frame(ctx, case)
    }
  }
}

fn generate(ctx: &Ctx) {
  ctx.rule("(a) choice DFS over document shapes x rebase target (deviation-bounded in quick, whole tree in thorough); (b) every value of each header byte, every (version,encoding) pair, every 16-bit length prefix, every truncation, trailing bytes; (c) payload sizes around 65535. distinct_nontrivial = distinct choice sequences whose document the library accepts (the early reject is an input the library refuses to build) + distinct frame/size cases");
  ctx.assume("serde_json trees are compared; the baseline of the rewrite model is the library's own JSON of the input document");
  ctx.assume("documents mentioning the reserved placeholder did:0:0 are excluded (property)");
  // (a)
  let bound = ctx.by_tier(Some(4u32), None);
  choice::explore_into(ctx, "documents x targets", bound, |ch| doc_body(ctx, ch));
  flush_shards(ctx);
  // (b)
  let mut cases = Vec::new();
  for pos in 0..7u8 {
    for val in 0..=255u8 {
      cases.push(Case::Header { pos, val });
    }
  }
  for pos in [3u8, 5] {
    for a in 0..=255u8 {
      for b in 0..=255u8 {
        cases.push(Case::Header2 { pos, a, b });
      }
    }
  }
  let n = base_packed().len() as u32;
  for len in 0..n {
    cases.push(Case::Truncate { len });
  }
  for k in [1u32, 2, 7, 100, 70_000] {
    for junk in [0x00u8, b'}', b'{', b' ', 0xff] {
      cases.push(Case::Trailing { k, junk });
    }
  }
  for id in 0..9u8 {
    cases.push(Case::Body { id });
  }
  ctx.sample("framing", &cases[300]);
  ctx.sample("framing", &cases[cases.len() - 40]);
  cases.par_iter().for_each(|c| eval(ctx, c));
  ctx.add_states(cases.len() as u64);
  ctx.add_transitions(cases.len() as u64);
  ctx.add_traces(cases.len() as u64);
  ctx.part("framing", json!({"engine": "E1 full product", "cases": cases.len(), "base_frame_bytes": n}));
  // (c)
  let sizes: Vec<Case> = (65_530u32..=65_540).chain([65_000, 66_000, 131_071, 131_072 + 100]).map(|payload| Case::Size { payload }).collect();
  ctx.sample("size", &sizes[5]);
  sizes.par_iter().for_each(|c| eval(ctx, c));
  ctx.add_states(sizes.len() as u64);
  ctx.add_transitions(sizes.len() as u64);
  ctx.add_traces(sizes.len() as u64);
  ctx.part("size boundary", json!({"cases": sizes.len()}));
  ctx.bound("document_deviation_bound", bound);
  ctx.bound("choice_points", ["self-network(3)", "method-1(11)", "method-2(8)", "reference(5)", "service-1(5)", "service-2(5)", "controller(6)", "aka+properties(3)", "metadata(5)", "target(3)"]);
}

fn main() {
  vx::run_main::<Case, _, _>("C14", Level::ModelChecking, generate, eval)
}
