//! C07 — credential / presentation <-> JWT claims conversion is lossless and consistent.
//!
//! E1 (choice-sequence DFS) in four parts, all executed on the real code through public entry points only:
//!  (1) credential forward : data-model credential over the presence lattice of every optional member ->
//!      `Credential::serialize_jwt` -> the claims carry issuer / subject id / id / issuance / expiration ONCE in
//!      iss / sub / jti / nbf / exp (and not inside `vc`) -> back through `JwtCredentialValidator::verify_signature`
//!      (always-Ok harness verifier) -> equal credential, equal custom claims.
//!  (2) presentation forward: same with `Presentation::serialize_jwt` / `JwtPresentationValidator::validate`
//!      (holder, id, expiry, issuance, audience, custom claims), for `Presentation<Jwt>` and `Presentation<Value>`
//!      (credentials as JSON values), options written as a literal or built with `default()` + setters.
//!  (3) credential backward : hand-assembled claim sets, every duplicated member (vc.issuer, vc.issuanceDate,
//!      vc.expirationDate, vc.id, vc.credentialSubject.id) absent / equal / different x registered claim present /
//!      absent, numeric dates at and beyond the ends of years 0000..9999 (and 0 / -1), nbf-vs-iat precedence, the
//!      other members of `vc` in minimal / one-element-array / many-member shapes; an accepted claim set must yield
//!      exactly the credential it describes (all members, not only the five carried ones).
//!  (4) presentation backward: same for vp.holder / vp.id / exp / nbf / iat / aud, `vp.verifiableCredential` with
//!      0 / 1 / 2 entries (also strings that are no JWT, the empty string, duplicates) and the other members of `vp`.
//!
//! Oracle (from the property statement): a duplicate that DISAGREES with its present registered claim, or an
//! effective numeric date outside [0000-01-01T00:00:00Z, 9999-12-31T23:59:59Z], must be rejected; a claim set in
//! which all duplicates agree (or are absent) and all dates are in range must be accepted with the registered
//! values; a duplicate whose registered claim is absent may be rejected or used, but must not be silently dropped.
//! Left open (recorded only): an out-of-range `iat` that is shadowed by `nbf`, `vc.issuanceDate` equal to `iat`
//! but not to `nbf`, the same issuer id with a different value (URL vs object, object with other members), a missing
//! `iss`, a credential whose only subject is written as a one-element array (forward) or a `vc.credentialSubject`
//! array (backward), an `iat` next to `nbf` in the library's own output, what `nbf` a presentation gets when
//! `options.issuance_date` is `None` (absent or the current time), a holder that is not a plain DID (the way back is
//! then not judged), an absent `vp.verifiableCredential`, an array-valued `aud`, a multi-subject credential (only
//! "serialised AND a subject lost on the way back" is judged).
//!
//! Alphabets: every object-valued or array-valued member (issuer, credentialSubject, credentialStatus,
//! credentialSchema, refreshService, termsOfUse, evidence, proof, @context, type, verifiableCredential, extra
//! properties, custom claims) occurs in its minimal shape, as a one-element array where the data model allows an
//! array, and in a shape with extra members — on the credential AND on the presentation side.

use identity_core::common::{Object, Timestamp, Url};
use identity_core::convert::FromJson;
use identity_credential::credential::{Credential, Jwt};
use identity_credential::presentation::{JwtPresentationOptions, Presentation};
use identity_credential::validator::{
  JwtCredentialValidator, JwtPresentationValidationOptions, JwtPresentationValidator, JwtValidationError,
};
use identity_document::document::CoreDocument;
use identity_document::verifiable::JwsVerificationOptions;
use once_cell::sync::Lazy;
use serde::{Deserialize, Serialize};
use serde_json::{Map, Value};
use std::collections::{BTreeMap, BTreeSet, HashSet};
use std::sync::atomic::{AtomicU64, Ordering};
use std::sync::Mutex;
use vx::choice::{self, Chooser};
use vx::fx::{self, AlwaysOk, EdKey};
use vx::{guard, json, Ctx, Level};

const ISSUER: &str = "did:example:issuer";
const HOLDER: &str = "did:example:holder";
const SUBJ1: &str = "did:example:ebfeb1f712ebc6f1c276e12ec21";
const SUBJ2: &str = "did:example:c276e12ec21ebfeb1f712ebc6f1";
const ID1: &str = "https://example.edu/credentials/3732";
const ID2: &str = "https://example.edu/credentials/9999";
const BASE_CTX: &str = "https://www.w3.org/2018/credentials/v1";
const MAX_TS: i64 = 253_402_300_799;
const MIN_TS: i64 = -62_167_219_200;
const MAX_S: &str = "9999-12-31T23:59:59Z";
const MIN_S: &str = "0000-01-01T00:00:00Z";
/// typical issuance / second issuance / third issuance / expiry / other expiry
const N1: i64 = 1_262_373_804;
const N1_S: &str = "2010-01-01T19:23:24Z";
const N2: i64 = N1 + 3600;
const N2_S: &str = "2010-01-01T20:23:24Z";
const N3: i64 = 1_293_840_000;
const N3_S: &str = "2011-01-01T00:00:00Z";
const X1: i64 = 1_577_906_604;
const X1_S: &str = "2020-01-01T19:23:24Z";
const X2: i64 = 1_893_456_000;
const X2_S: &str = "2030-01-01T00:00:00Z";
const EPOCH_S: &str = "1970-01-01T00:00:00Z";
const JWT1: &str = "eyJhbGciOiJFZERTQSJ9.e30.c2ln";
const JWT2: &str = "second.jwt.credential";
const AUD_DID: &str = "did:example:verifier";
const AUD_URL: &str = "https://verifier.example/rp?client=1#frag";

// parts
const P_CRED_FWD: u8 = 0;
const P_PRES_FWD: u8 = 1;
const P_CRED_BWD: u8 = 2;
const P_PRES_BWD: u8 = 3;
/// `mode` for the forward parts: full alphabets (deviation-bounded) / reduced alphabets (complete product, thorough
/// tier) / core alphabets (complete product in both tiers; presentation side only)
const M_FULL: u8 = 0;
const M_REDUCED: u8 = 1;
const M_CORE: u8 = 2;

#[derive(Serialize, Deserialize, Debug, Clone)]
struct Case {
  part: u8,
  /// forward parts: M_FULL / M_REDUCED; backward parts: bitmask of active groups
  mode: u8,
  seq: Vec<u32>,
}

struct World {
  issuer_doc: CoreDocument,
  holder_doc: CoreDocument,
  cred_validator: JwtCredentialValidator<AlwaysOk>,
  pres_validator: JwtPresentationValidator<AlwaysOk>,
  sig: String,
}

fn doc(did: &str, key: &EdKey) -> CoreDocument {
  CoreDocument::from_json_value(json!({
    "id": did,
    "verificationMethod": [{"id": format!("{did}#k1"), "controller": did, "type": "JsonWebKey2020",
       "publicKeyJwk": serde_json::to_value(key.public_with_alg("EdDSA")).expect("jwk")}],
    "assertionMethod": [format!("{did}#k1")],
    "authentication": [format!("{did}#k1")],
  }))
  .expect("document")
}

static WORLD: Lazy<World> = Lazy::new(|| World {
  issuer_doc: doc(ISSUER, &EdKey::new(1)),
  holder_doc: doc(HOLDER, &EdKey::new(2)),
  cred_validator: JwtCredentialValidator::with_signature_verifier(AlwaysOk),
  pres_validator: JwtPresentationValidator::with_signature_verifier(AlwaysOk),
  sig: fx::b64([7u8; 64]),
});

/// Compact token around a claims string; the verifier is the harness's always-Ok one, so the signature is a dummy.
fn token(kid: &str, claims: &str) -> Jwt {
  let h = json!({"alg": "EdDSA", "typ": "JWT", "kid": kid}).to_string();
  Jwt::new(format!("{}.{}.{}", fx::b64(h.as_bytes()), fx::b64(claims.as_bytes()), WORLD.sig))
}

// ---------------------------------------------------------------- cheap per-thread accumulation
struct Acc {
  shards: Vec<Mutex<(BTreeMap<String, u64>, HashSet<u64>)>>,
  samples: [AtomicU64; 4],
}
impl Acc {
  fn new() -> Acc {
    let n = vx::rayon::current_num_threads() + 1;
    Acc { shards: (0..n).map(|_| Mutex::new((BTreeMap::new(), HashSet::new()))).collect(), samples: Default::default() }
  }
  fn shard(&self) -> &Mutex<(BTreeMap<String, u64>, HashSet<u64>)> {
    let i = vx::rayon::current_thread_index().map(|i| i + 1).unwrap_or(0);
    &self.shards[i % self.shards.len()]
  }
  fn outcome(&self, label: String) {
    *self.shard().lock().unwrap().0.entry(label).or_insert(0) += 1;
  }
  fn distinct(&self, case: &Case) {
    self.shard().lock().unwrap().1.insert(Ctx::hash_of(&(case.part, case.mode, &case.seq)));
  }
  /// Samples are the all-default sequences of each exploration: which cases are kept does not depend on scheduling.
  fn sample(&self, ctx: &Ctx, label: &str, case: &Case) {
    if case.seq.iter().all(|c| *c == 0) && self.samples[case.part as usize].fetch_add(1, Ordering::Relaxed) < 4 {
      ctx.sample(label, case);
    }
  }
  fn flush(&self, ctx: &Ctx) {
    for s in &self.shards {
      let mut g = s.lock().unwrap();
      ctx.outcomes_merge(&g.0);
      ctx.distinct_many(g.1.drain());
      g.0.clear();
    }
  }
}

/// Forward parts: a choice point with `n` alternatives; in reduced mode only the alternatives in `reduced`
/// (besides the default 0) are offered, in core mode only the first `core` alternatives.
fn fpt(ch: &mut Chooser, mode: u8, label: &'static str, n: usize, reduced: &[usize], core: usize) -> usize {
  match mode {
    M_REDUCED => {
      if reduced.is_empty() {
        return 0;
      }
      let c = ch.choose(label, reduced.len() + 1);
      if c == 0 {
        0
      } else {
        reduced[c - 1]
      }
    }
    M_CORE => {
      if core <= 1 {
        0
      } else {
        ch.choose(label, core.min(n))
      }
    }
    _ => ch.choose(label, n),
  }
}
/// A numeric-date claim equal to `want` seconds (an integer, or a float with the same value).
fn num_is(v: Option<&Value>, want: i64) -> bool {
  match v {
    Some(Value::Number(n)) => n.as_i64() == Some(want) || (n.as_i64().is_none() && n.as_f64() == Some(want as f64)),
    _ => false,
  }
}
/// Backward parts: a choice point of group `g`; with the `B_CORE` bit only the first `core` alternatives are offered.
fn bpt(ch: &mut Chooser, groups: u8, g: u8, label: &'static str, n: usize, core: usize) -> usize {
  if groups & g == 0 {
    0
  } else if groups & B_CORE != 0 {
    if core <= 1 {
      0
    } else {
      ch.choose(label, core.min(n))
    }
  } else {
    ch.choose(label, n)
  }
}

fn err_name(e: &JwtValidationError) -> String {
  let v: &'static str = e.into();
  match e {
    JwtValidationError::CredentialStructure(inner) | JwtValidationError::PresentationStructure(inner) => {
      let i: String = match inner {
        identity_credential::Error::JwtClaimsSetDeserializationError(_) => "claims-deserialization".into(),
        identity_credential::Error::InconsistentCredentialJwtClaims(m) => format!("inconsistent({m})"),
        identity_credential::Error::InconsistentPresentationJwtClaims(m) => format!("inconsistent({m})"),
        identity_credential::Error::TimestampConversionError => "timestamp-conversion".into(),
        _ => "other".into(),
      };
      format!("{v}:{i}")
    }
    _ => v.to_string(),
  }
}

fn custom_norm(o: &Option<Object>) -> Map<String, Value> {
  o.clone().map(|o| o.into_iter().collect()).unwrap_or_default()
}

/// First top-level member in which two JSON objects differ (sorted order).
fn first_diff(a: &Value, b: &Value) -> String {
  let keys: BTreeSet<&String> = a.as_object().into_iter().flat_map(|o| o.keys()).chain(b.as_object().into_iter().flat_map(|o| o.keys())).collect();
  keys.into_iter().find(|k| a.get(k.as_str()) != b.get(k.as_str())).cloned().unwrap_or_else(|| "?".into())
}

fn degree() -> Value {
  json!({"type": "BachelorDegree", "name": "Bachelor of Science and Arts"})
}

// ================================================================== (1) credential forward
fn cred_fwd(ctx: &Ctx, acc: &Acc, mode: u8, ch: &mut Chooser) {
  const E_SER: &str = "Credential::serialize_jwt";
  const E_BACK: &str = "JwtCredentialValidator::verify_signature";
  let w: &World = &WORLD;
  let id_c = fpt(ch, mode, "id", 2, &[1], 0);
  let exp_c = fpt(ch, mode, "expirationDate", 5, &[1, 3], 0);
  let nbf_c = fpt(ch, mode, "issuanceDate", 4, &[1], 0);
  let status_c = fpt(ch, mode, "credentialStatus", 3, &[1, 2], 0);
  let schema_c = fpt(ch, mode, "credentialSchema", 5, &[1, 2, 3], 0);
  let refresh_c = fpt(ch, mode, "refreshService", 5, &[1, 2], 0);
  let terms_c = fpt(ch, mode, "termsOfUse", 5, &[2, 4], 0);
  let evid_c = fpt(ch, mode, "evidence", 5, &[1, 4], 0);
  let proof_c = fpt(ch, mode, "proof", 3, &[1, 2], 0);
  let nt_c = fpt(ch, mode, "nonTransferable", 3, &[1, 2], 0);
  let props_c = fpt(ch, mode, "extra properties", 3, &[1, 2], 0);
  let issuer_c = fpt(ch, mode, "issuer", 3, &[1, 2], 0);
  let subj_c = fpt(ch, mode, "credentialSubject", 7, &[1, 2], 0);
  let types_c = fpt(ch, mode, "type", 3, &[1], 0);
  let ctx_c = fpt(ch, mode, "@context", 5, &[1, 2], 0);
  let custom_c = fpt(ch, mode, "custom claims", 4, &[1], 0);

  let mut dm = Map::new();
  dm.insert("@context".into(), match ctx_c {
    0 => json!(BASE_CTX),
    1 => json!([BASE_CTX, "https://www.w3.org/2018/credentials/examples/v1"]),
    2 => json!([BASE_CTX, {"@vocab": "https://example.com/vocab#"}]),
    // one-element array; the minimal context object
    3 => json!([BASE_CTX]),
    _ => json!([BASE_CTX, {}]),
  });
  dm.insert("type".into(), match types_c {
    0 => json!("VerifiableCredential"),
    1 => json!(["VerifiableCredential", "UniversityDegreeCredential"]),
    _ => json!(["VerifiableCredential"]),
  });
  // issuer as URL, as an object with extra members, and as the minimal object carrying nothing but its id
  // (a shape that a "use the compact form when nothing else is there" shortcut would silently rewrite)
  let issuer_json = match issuer_c {
    0 => json!(ISSUER),
    1 => json!({"id": ISSUER, "name": "Example University", "n": {"a": 1}}),
    _ => json!({"id": ISSUER}),
  };
  dm.insert("issuer".into(), issuer_json.clone());
  let (nbf_s, nbf) = [(N1_S, N1), (MIN_S, MIN_TS), (MAX_S, MAX_TS), (EPOCH_S, 0)][nbf_c];
  dm.insert("issuanceDate".into(), json!(nbf_s));
  let exp: Option<(&str, i64)> = [None, Some((X1_S, X1)), Some((MIN_S, MIN_TS)), Some((MAX_S, MAX_TS)), Some((EPOCH_S, 0))][exp_c];
  if let Some((s, _)) = exp {
    dm.insert("expirationDate".into(), json!(s));
  }
  let one_subject = |with_id: bool, with_props: bool| {
    let mut s = Map::new();
    if with_id {
      s.insert("id".into(), json!(SUBJ1));
    }
    if with_props {
      s.insert("degree".into(), degree());
      s.insert("GPA".into(), json!("4.0"));
    }
    Value::Object(s)
  };
  // (subject, expected `sub`, class): class 0 = one subject, 1 = one subject written as a one-element array, 2 = two
  let (subject_json, sub, subj_class): (Value, Option<&str>, u8) = match subj_c {
    0 => (one_subject(true, false), Some(SUBJ1), 0),
    1 => (one_subject(false, true), None, 0),
    2 => (one_subject(true, true), Some(SUBJ1), 0),
    3 => (json!([one_subject(true, true), {"id": SUBJ2, "name": "second"}]), None, 2),
    4 => (json!([one_subject(true, true)]), Some(SUBJ1), 1),
    5 => (json!([one_subject(true, false)]), Some(SUBJ1), 1),
    // a nested object that has an `id` of its own: only the subject's id moves to `sub`
    _ => (json!({"id": SUBJ1, "spouse": {"id": SUBJ2, "name": "S"}, "ids": [{"id": SUBJ2}]}), Some(SUBJ1), 0),
  };
  dm.insert("credentialSubject".into(), subject_json);
  if id_c == 1 {
    dm.insert("id".into(), json!(ID1));
  }
  match status_c {
    0 => {}
    1 => drop(dm.insert("credentialStatus".into(), json!({"id": "https://example.edu/status/24", "type": "CredentialStatusList2017", "extra": 1}))),
    _ => drop(dm.insert("credentialStatus".into(), json!({"id": "https://example.edu/status/24", "type": "CredentialStatusList2017"}))),
  }
  let schema1 = json!({"id": "https://example.org/examples/degree.json", "type": "JsonSchemaValidator2018"});
  let schema2 = json!({"id": "https://example.org/examples/alumni.json", "type": ["JsonSchemaValidator2018", "Other"], "p": "q"});
  match schema_c {
    0 => {}
    1 => drop(dm.insert("credentialSchema".into(), schema1)),
    2 => drop(dm.insert("credentialSchema".into(), json!([schema1]))),
    3 => drop(dm.insert("credentialSchema".into(), json!([schema1, schema2]))),
    _ => drop(dm.insert("credentialSchema".into(), schema2)),
  }
  let refresh1 = json!({"id": "https://example.edu/refresh/3732", "type": "ManualRefreshService2018"});
  let refresh2 = json!({"id": "https://example.edu/refresh/2", "type": ["ManualRefreshService2018", "R"], "validAfter": "2020-01-01T00:00:00Z", "o": {"k": []}});
  match refresh_c {
    0 => {}
    1 => drop(dm.insert("refreshService".into(), refresh1)),
    2 => drop(dm.insert("refreshService".into(), json!([refresh1]))),
    3 => drop(dm.insert("refreshService".into(), refresh2)),
    _ => drop(dm.insert("refreshService".into(), json!([refresh1, refresh2]))),
  }
  let policy1 = json!({"type": "IssuerPolicy", "id": "https://example.com/policies/credential/4", "profile": "https://example.com/profiles/credential"});
  match terms_c {
    0 => {}
    1 => drop(dm.insert("termsOfUse".into(), policy1)),
    2 => drop(dm.insert("termsOfUse".into(), json!([policy1, {"type": ["HolderPolicy"], "prohibition": [{"assigner": ISSUER}]}]))),
    3 => drop(dm.insert("termsOfUse".into(), json!({"type": "IssuerPolicy"}))),
    _ => drop(dm.insert("termsOfUse".into(), json!([policy1]))),
  }
  let evidence1 = json!({"id": "https://example.edu/evidence/f2aeec97", "type": ["DocumentVerification"], "verifier": "https://example.edu/issuers/14"});
  match evid_c {
    0 => {}
    1 => drop(dm.insert("evidence".into(), evidence1)),
    2 => drop(dm.insert("evidence".into(), json!([evidence1, {"type": "SupportingActivity", "documentPresence": "Digital"}]))),
    3 => drop(dm.insert("evidence".into(), json!({"type": "SupportingActivity"}))),
    _ => drop(dm.insert("evidence".into(), json!([evidence1]))),
  }
  match proof_c {
    0 => {}
    1 => drop(dm.insert("proof".into(), json!({"type": "RsaSignature2018", "created": "2017-06-18T21:19:10Z", "jws": "eyJhb...dBBPM"}))),
    _ => drop(dm.insert("proof".into(), json!({"type": "RsaSignature2018"}))),
  }
  match nt_c {
    0 => {}
    1 => drop(dm.insert("nonTransferable".into(), json!(false))),
    _ => drop(dm.insert("nonTransferable".into(), json!(true))),
  }
  match props_c {
    0 => {}
    1 => {
      dm.insert("name".into(), json!("extra"));
      dm.insert("nested".into(), json!({"deep": [1, 2.5, "s", null, true]}));
      dm.insert("big".into(), json!(u64::MAX));
    }
    // extra properties named like registered claims / presentation members: they belong to the credential and stay in `vc`
    _ => {
      for (k, v) in [("iss", json!("did:example:other")), ("sub", json!("did:example:other")), ("jti", json!("urn:x")), ("nbf", json!(7)), ("exp", json!(5)), ("iat", json!(3)), ("vc", json!({"id": ID2})), ("holder", json!(HOLDER))] {
        dm.insert(k.into(), v);
      }
    }
  }
  let custom: Option<Object> = match custom_c {
    0 => None,
    1 => Some(Object::from_json_value(json!({"x": 1, "y": {"z": [true]}})).expect("object")),
    2 => Some(Object::new()),
    // a custom claim whose name collides with a registered claim: documented caller error, recorded only
    _ => Some(Object::from_json_value(json!({"exp": 1})).expect("object")),
  };

  let case = Case { part: P_CRED_FWD, mode, seq: ch.seq() };
  let dm = Value::Object(dm);
  // the data-model credential (input construction; not the subject of this property)
  let cred: Credential<Object> = match Credential::from_json_value(dm.clone()) {
    Ok(c) => c,
    Err(e) => vx::ctx::machinery_exit(&format!("C07 generator produced a credential the data model rejects: {e}: {dm}")),
  };
  let back_of = |s: &str| {
    let jwt = token(&format!("{ISSUER}#k1"), s);
    guard(|| w.cred_validator.verify_signature::<CoreDocument, Object>(&jwt, std::slice::from_ref(&w.issuer_doc), &JwsVerificationOptions::default()))
  };
  if custom_c == 3 {
    let label = match guard(|| cred.serialize_jwt(custom.clone())) {
      Err(p) => {
        ctx.violation(&format!("{E_SER}|{}", p.key()), &format!("{}: {dm}", p.msg), &case);
        "panic".to_string()
      }
      Ok(Err(_)) => "serialize-refused".to_string(),
      Ok(Ok(s)) => match back_of(&s) {
        Err(p) => {
          ctx.violation(&format!("{E_BACK}|{}", p.key()), &format!("{}: {s}", p.msg), &case);
          "panic".to_string()
        }
        Ok(Err(e)) => format!("serialised, rejected on the way back ({})", err_name(&e)),
        Ok(Ok(d)) => format!("serialised, accepted back, credential {}", if d.credential == cred { "equal" } else { "differs" }),
      },
    };
    return acc.outcome(format!("cred-fwd:custom claim named exp: {label} [open:colliding-custom-claim]"));
  }
  // ---- forward
  let ser = match guard(|| cred.serialize_jwt(custom.clone())) {
    Err(p) => {
      acc.outcome("cred-fwd:panic".into());
      return ctx.violation(&format!("{E_SER}|{}", p.key()), &format!("{}: {dm}", p.msg), &case);
    }
    Ok(r) => r,
  };
  let claims_s = match (ser, subj_class) {
    (Err(_), 2) => return acc.outcome("cred-fwd:two-subjects-refused".into()),
    (Ok(s), 2) => {
      // The statement speaks about single-subject credentials only. Refusing is the documented behaviour
      // (`Error::MoreThanOneSubjectInJwt`); an encoding that keeps both subjects would not break the property, one that
      // silently loses a subject does.
      let label = match back_of(&s) {
        Err(p) => {
          ctx.violation(&format!("{E_BACK}|{}", p.key()), &format!("{}: {s}", p.msg), &case);
          "panic"
        }
        Ok(Err(_)) => "rejected on the way back",
        Ok(Ok(d)) if d.credential == cred => "accepted back equal",
        Ok(Ok(d)) => {
          ctx.violation(
            &format!("{E_SER}|two-subjects|serialised-and-subject-lost"),
            &format!("credential {dm} came back as {}; claims {s}", serde_json::to_string(&d.credential).unwrap_or_default()),
            &case,
          );
          "accepted back DIFFERENT"
        }
      };
      return acc.outcome(format!("cred-fwd:two-subjects-serialised, {label} [open:multi-subject]"));
    }
    (Err(e), 1) => return acc.outcome(format!("cred-fwd:one-element-subject-array-refused({e}) [open]")),
    (Err(e), _) => {
      acc.outcome("cred-fwd:single-subject-refused".into());
      return ctx.violation(&format!("{E_SER}|single-subject|refused"), &format!("{e}: {dm}"), &case);
    }
    (Ok(s), _) => s,
  };
  let claims: Value = match serde_json::from_str(&claims_s) {
    Ok(v) => v,
    Err(e) => return ctx.violation(&format!("{E_SER}|output-not-json"), &format!("{e}: {claims_s}"), &case),
  };
  let mut carried_ok = true;
  let mut claim_wrong = |name: &'static str, want: String| {
    carried_ok = false;
    ctx.violation(
      &format!("{E_SER}|registered-claim-wrong|{name}"),
      &format!("claim {name} = {:?}, expected {want}; credential {dm}; claims {claims_s}", claims.get(name)),
      &case,
    );
  };
  if claims.get("iss") != Some(&issuer_json) {
    claim_wrong("iss", issuer_json.to_string());
  }
  if claims.get("sub") != sub.map(|s| json!(s)).as_ref() {
    claim_wrong("sub", format!("{sub:?}"));
  }
  let want_jti = if id_c == 1 { Some(json!(ID1)) } else { None };
  if claims.get("jti") != want_jti.as_ref() {
    claim_wrong("jti", format!("{want_jti:?}"));
  }
  if !num_is(claims.get("nbf"), nbf) {
    claim_wrong("nbf", nbf.to_string());
  }
  match exp {
    Some((_, u)) if !num_is(claims.get("exp"), u) => claim_wrong("exp", u.to_string()),
    None if claims.get("exp").is_some() => claim_wrong("exp", "no exp claim".into()),
    _ => {}
  }
  // an `iat` next to `nbf` is not excluded by the statement (the issuance date is the `nbf`): recorded
  let iat_tag = match claims.get("iat") {
    None => "",
    Some(v) if num_is(Some(v), nbf) => " [open:iat-equal-to-nbf-emitted]",
    Some(_) => " [open:iat-different-from-nbf-emitted]",
  };
  let vc = claims.get("vc").cloned().unwrap_or(Value::Null);
  if !vc.is_object() {
    carried_ok = false;
    ctx.violation(&format!("{E_SER}|no-vc-claim"), &claims_s, &case);
  }
  for m in ["id", "issuer", "issuanceDate", "expirationDate"] {
    if vc.get(m).is_some() {
      carried_ok = false;
      ctx.violation(&format!("{E_SER}|carried-twice|vc.{m}"), &claims_s, &case);
    }
  }
  if vc.get("credentialSubject").and_then(|s| s.get("id")).is_some() {
    carried_ok = false;
    ctx.violation(&format!("{E_SER}|carried-twice|vc.credentialSubject.id"), &claims_s, &case);
  }
  for m in ["id", "issuer", "issuanceDate", "expirationDate", "credentialSubject"] {
    if claims.get(m).is_some() {
      carried_ok = false;
      ctx.violation(&format!("{E_SER}|carried-twice|top-level {m}"), &claims_s, &case);
    }
  }
  if let Some(c) = &custom {
    for (k, v) in c {
      if claims.get(k) != Some(v) {
        carried_ok = false;
        ctx.violation(&format!("{E_SER}|custom-claim-lost"), &format!("{k}: {claims_s}"), &case);
      }
    }
  }
  // ---- back
  let back = back_of(&claims_s);
  let open = if subj_class == 1 { " [open:one-element-subject-array]" } else { "" };
  match back {
    Err(p) => {
      acc.outcome("cred-fwd:panic".into());
      ctx.violation(&format!("{E_BACK}|{}", p.key()), &format!("{}: {claims_s}", p.msg), &case)
    }
    Ok(Err(e)) => {
      acc.outcome(format!("cred-fwd:own-claims-rejected:{}{open}", err_name(&e)));
      if subj_class != 1 {
        ctx.violation(&format!("{E_BACK}|own-claims-rejected|{}", err_name(&e)), &format!("{e}: credential {dm}; claims {claims_s}"), &case)
      }
    }
    Ok(Ok(dec)) => {
      acc.distinct(&case);
      acc.sample(ctx, "credential-forward", &case);
      let same = dec.credential == cred;
      let same_custom = custom_norm(&dec.custom_claims) == custom_norm(&custom);
      acc.outcome(format!("cred-fwd:{}{}{open}{iat_tag}", if same && same_custom { "round-trip-equal" } else { "round-trip-differs" }, if carried_ok { "" } else { "+claims-wrong" }));
      if !same && subj_class != 1 {
        let (a, b) = (serde_json::to_value(&cred).unwrap_or(Value::Null), serde_json::to_value(&dec.credential).unwrap_or(Value::Null));
        ctx.violation(
          &format!("{E_SER}+{E_BACK}|round-trip-differs|{}", first_diff(&a, &b)),
          &format!("credential {a} came back as {b}; claims {claims_s}"),
          &case,
        );
      }
      if !same_custom {
        ctx.violation(
          &format!("{E_SER}+{E_BACK}|round-trip-differs|custom-claims"),
          &format!("custom {:?} came back as {:?}; claims {claims_s}", custom, dec.custom_claims),
          &case,
        );
      }
    }
  }
}

// ================================================================== (2) presentation forward
/// A JSON-LD credential object as an entry of `verifiableCredential` (generic `CRED`): shape with many members.
fn embedded_credential() -> Value {
  json!({"@context": [BASE_CTX], "type": ["VerifiableCredential"], "issuer": {"id": ISSUER}, "issuanceDate": N1_S,
         "credentialSubject": {"id": SUBJ1}, "id": ID2, "holder": "did:example:x", "proof": {"type": "P"}})
}

fn pres_fwd(ctx: &Ctx, acc: &Acc, mode: u8, ch: &mut Chooser) {
  // entries of `verifiableCredential` typed as `Jwt` strings (the library's default) or as arbitrary JSON values
  let kind_c = fpt(ch, mode, "credential representation (CRED)", 2, &[1], 0);
  if kind_c == 0 {
    pres_fwd_typed::<Jwt>(ctx, acc, mode, ch, false)
  } else {
    pres_fwd_typed::<Value>(ctx, acc, mode, ch, true)
  }
}

fn pres_fwd_typed<CRED>(ctx: &Ctx, acc: &Acc, mode: u8, ch: &mut Chooser, json_kind: bool)
where
  CRED: ToOwned<Owned = CRED> + Serialize + serde::de::DeserializeOwned + Clone + PartialEq + std::fmt::Debug,
{
  const E_SER: &str = "Presentation::serialize_jwt";
  const E_BACK: &str = "JwtPresentationValidator::validate";
  let w: &World = &WORLD;
  let id_c = fpt(ch, mode, "id", 2, &[1], 2);
  let holder_c = fpt(ch, mode, "holder", 3, &[1], 0);
  let creds_c = fpt(ch, mode, "verifiableCredential", if json_kind { 6 } else { 7 }, &[1, 2, 3], 3);
  let refresh_c = fpt(ch, mode, "refreshService", 5, &[1, 2], 2);
  let terms_c = fpt(ch, mode, "termsOfUse", 5, &[1, 2, 4], 3);
  let proof_c = fpt(ch, mode, "proof", 3, &[1, 2], 2);
  let props_c = fpt(ch, mode, "extra properties", 3, &[1, 2], 2);
  let types_c = fpt(ch, mode, "type", 3, &[1, 2], 2);
  let ctx_c = fpt(ch, mode, "@context", 5, &[1, 3], 2);
  let built_c = fpt(ch, mode, "options built with default()+setters", 2, &[1], 0);
  let exp_c = fpt(ch, mode, "options.expiration_date", 5, &[1, 2, 3, 4], 4);
  let nbf_c = fpt(ch, mode, "options.issuance_date", 5, &[1, 2, 3, 4], 4);
  let aud_c = fpt(ch, mode, "options.audience", 3, &[1, 2], 2);
  let custom_c = fpt(ch, mode, "options.custom_claims", 4, &[1, 2], 2);

  let mut dm = Map::new();
  dm.insert("@context".into(), match ctx_c {
    0 => json!(BASE_CTX),
    1 => json!([BASE_CTX, "https://example.com/ctx/v1"]),
    2 => json!([BASE_CTX, {"@vocab": "https://example.com/vocab#"}]),
    3 => json!([BASE_CTX]),
    _ => json!([BASE_CTX, {}]),
  });
  dm.insert("type".into(), match types_c {
    0 => json!("VerifiablePresentation"),
    1 => json!(["VerifiablePresentation", "ExtraPresentation"]),
    _ => json!(["VerifiablePresentation"]),
  });
  // holder: the holder's DID; an https URL; a DID URL with query and fragment (the `holder` member is a URL)
  let holder = [HOLDER, "https://holder.example/profile?u=1", "did:example:holder?service=files#k1"][holder_c];
  dm.insert("holder".into(), json!(holder));
  let creds: Option<Value> = if !json_kind {
    match creds_c {
      0 => Some(json!([JWT1])),
      1 => None,
      2 => Some(json!([JWT1, JWT2])),
      // strings that do not look like a JWT, the empty string, the same entry twice, the other order
      3 => Some(json!(["not a jwt"])),
      4 => Some(json!([""])),
      5 => Some(json!([JWT1, JWT1])),
      _ => Some(json!([JWT2, JWT1])),
    }
  } else {
    match creds_c {
      0 => Some(json!([JWT1])),
      1 => None,
      // the minimal object, an object with many members (some named like presentation members), mixed, twice
      2 => Some(json!([{}])),
      3 => Some(json!([embedded_credential()])),
      4 => Some(json!([embedded_credential(), JWT1])),
      _ => Some(json!([embedded_credential(), embedded_credential()])),
    }
  };
  if let Some(c) = creds {
    dm.insert("verifiableCredential".into(), c);
  }
  if id_c == 1 {
    dm.insert("id".into(), json!(ID1));
  }
  let refresh1 = json!({"id": "https://example.edu/refresh/3732", "type": "ManualRefreshService2018"});
  let refresh2 = json!({"id": "https://example.edu/refresh/2", "type": ["ManualRefreshService2018", "R"], "validAfter": "2020-01-01T00:00:00Z", "o": {"k": []}});
  match refresh_c {
    0 => {}
    1 => drop(dm.insert("refreshService".into(), refresh1)),
    2 => drop(dm.insert("refreshService".into(), json!([refresh1]))),
    3 => drop(dm.insert("refreshService".into(), refresh2)),
    _ => drop(dm.insert("refreshService".into(), json!([refresh1, refresh2]))),
  }
  let policy1 = json!({"type": "HolderPolicy", "id": "https://example.com/policies/presentation/4"});
  match terms_c {
    0 => {}
    1 => drop(dm.insert("termsOfUse".into(), policy1)),
    2 => drop(dm.insert("termsOfUse".into(), json!([policy1, {"type": ["Other"], "k": [1, 2]}]))),
    3 => drop(dm.insert("termsOfUse".into(), json!({"type": "HolderPolicy"}))),
    _ => drop(dm.insert("termsOfUse".into(), json!([policy1]))),
  }
  match proof_c {
    0 => {}
    1 => drop(dm.insert("proof".into(), json!({"type": "RsaSignature2018", "created": "2017-06-18T21:19:10Z", "jws": "eyJhb...dBBPM"}))),
    _ => drop(dm.insert("proof".into(), json!({"type": "RsaSignature2018"}))),
  }
  match props_c {
    0 => {}
    1 => {
      dm.insert("name".into(), json!("extra"));
      dm.insert("nested".into(), json!({"deep": [1, 2.5, "s", null, true]}));
    }
    // extra properties named like registered claims / credential members: they belong to the presentation, stay in `vp`
    _ => {
      for (k, v) in [("iss", json!("did:example:other")), ("jti", json!("urn:x")), ("nbf", json!(7)), ("exp", json!(5)), ("iat", json!(3)), ("aud", json!("did:example:a")), ("vp", json!({"id": ID2})), ("issuer", json!(ISSUER)), ("big", json!(u64::MAX))] {
        dm.insert(k.into(), v);
      }
    }
  }
  let exp: Option<i64> = [None, Some(X1), Some(MIN_TS), Some(MAX_TS), Some(0)][exp_c];
  let nbf_opt: Option<i64> = [Some(N1), None, Some(MIN_TS), Some(MAX_TS), Some(0)][nbf_c];
  let aud: Option<&str> = [None, Some(AUD_DID), Some(AUD_URL)][aud_c];
  let (custom, custom_collides): (Option<Object>, bool) = match custom_c {
    0 => (None, false),
    1 => (Some(Object::from_json_value(json!({"x": 1, "y": {"z": [true]}})).expect("object")), false),
    2 => (Some(Object::new()), false),
    // a custom claim whose name collides with a registered claim: caller error, recorded only
    _ => (Some(Object::from_json_value(json!({"exp": 1})).expect("object")), true),
  };
  // `JwtPresentationOptions::default()` is documented to set the issuance date to the current time (owned clock)
  let (options, nbf): (JwtPresentationOptions, Option<i64>) = if built_c == 1 {
    let mut o = JwtPresentationOptions::default();
    if let Some(e) = exp {
      o = o.expiration_date(fx::ts(e));
    }
    if let Some(n) = nbf_opt {
      o = o.issuance_date(fx::ts(n));
    }
    if let Some(a) = aud {
      o = o.audience(Url::parse(a).expect("aud url"));
    }
    o.custom_claims = custom.clone();
    (o, Some(nbf_opt.unwrap_or(fx::NOW)))
  } else {
    (
      JwtPresentationOptions {
        expiration_date: exp.map(fx::ts),
        issuance_date: nbf_opt.map(fx::ts),
        audience: aud.map(|a| Url::parse(a).expect("aud url")),
        custom_claims: custom.clone(),
      },
      nbf_opt,
    )
  };

  let case = Case { part: P_PRES_FWD, mode, seq: ch.seq() };
  let dm = Value::Object(dm);
  let pres: Presentation<CRED, Object> = match Presentation::from_json_value(dm.clone()) {
    Ok(p) => p,
    Err(e) => vx::ctx::machinery_exit(&format!("C07 generator produced a presentation the data model rejects: {e}: {dm}")),
  };
  let vopts = JwtPresentationValidationOptions::new().earliest_expiry_date(fx::ts(MIN_TS)).latest_issuance_date(fx::ts(MAX_TS));
  let back_of = |s: &str| {
    let jwt = token(&format!("{HOLDER}#k1"), s);
    guard(|| w.pres_validator.validate::<CoreDocument, CRED, Object>(&jwt, &w.holder_doc, &vopts))
  };
  if custom_collides {
    let label = match guard(|| pres.serialize_jwt(&options)) {
      Err(p) => {
        ctx.violation(&format!("{E_SER}|{}", p.key()), &format!("{}: {dm}", p.msg), &case);
        "panic".to_string()
      }
      Ok(Err(_)) => "serialize-refused".to_string(),
      Ok(Ok(s)) => match back_of(&s) {
        Err(p) => {
          ctx.violation(&format!("{E_BACK}|{}", p.key()), &format!("{}: {s}", p.msg), &case);
          "panic".to_string()
        }
        Ok(Err(_)) => "serialised, rejected on the way back".to_string(),
        Ok(Ok(d)) => format!("serialised, accepted back, presentation {}", if d.presentation == pres { "equal" } else { "differs" }),
      },
    };
    return acc.outcome(format!("pres-fwd:custom claim named exp: {label} [open:colliding-custom-claim]"));
  }
  let claims_s = match guard(|| pres.serialize_jwt(&options)) {
    Err(p) => {
      acc.outcome("pres-fwd:panic".into());
      return ctx.violation(&format!("{E_SER}|{}", p.key()), &format!("{}: {dm}", p.msg), &case);
    }
    Ok(Err(e)) => {
      acc.outcome("pres-fwd:refused".into());
      return ctx.violation(&format!("{E_SER}|refused"), &format!("{e}: {dm}"), &case);
    }
    Ok(Ok(s)) => s,
  };
  let claims: Value = match serde_json::from_str(&claims_s) {
    Ok(v) => v,
    Err(e) => return ctx.violation(&format!("{E_SER}|output-not-json"), &format!("{e}: {claims_s}"), &case),
  };
  let mut carried_ok = true;
  let mut claim_wrong = |name: &'static str, want: String| {
    carried_ok = false;
    ctx.violation(
      &format!("{E_SER}|registered-claim-wrong|{name}"),
      &format!("claim {name} = {:?}, expected {want}; presentation {dm} options {options:?}; claims {claims_s}", claims.get(name)),
      &case,
    );
  };
  // `iss` is the holder URL as the data model writes it
  let holder_json = serde_json::to_value(&pres.holder).unwrap_or(Value::Null);
  if claims.get("iss") != Some(&holder_json) {
    claim_wrong("iss", holder_json.to_string());
  }
  let want_jti = if id_c == 1 { Some(json!(ID1)) } else { None };
  if claims.get("jti") != want_jti.as_ref() {
    claim_wrong("jti", format!("{want_jti:?}"));
  }
  // issuance: a given date is carried in `nbf`; with `issuance_date: None` in a hand-written options value the
  // documentation ("Default: current datetime") allows both no claim and the current time
  let mut tags = String::new();
  let emitted_issuance: Option<i64> = match nbf {
    Some(n) => {
      if !num_is(claims.get("nbf"), n) {
        claim_wrong("nbf", n.to_string());
      }
      Some(n)
    }
    None => match claims.get("nbf") {
      None => {
        tags.push_str(" [open:no-issuance-date-given:no-nbf]");
        None
      }
      Some(v) if num_is(Some(v), fx::NOW) => {
        tags.push_str(" [open:no-issuance-date-given:nbf-now]");
        Some(fx::NOW)
      }
      Some(_) => {
        claim_wrong("nbf", format!("no nbf, or the current time {}", fx::NOW));
        None
      }
    },
  };
  match exp {
    Some(u) if !num_is(claims.get("exp"), u) => claim_wrong("exp", u.to_string()),
    None if claims.get("exp").is_some() => claim_wrong("exp", "no exp claim".into()),
    _ => {}
  }
  let aud_json = options.audience.as_ref().map(|u| serde_json::to_value(u).unwrap_or(Value::Null));
  if claims.get("aud") != aud_json.as_ref() {
    claim_wrong("aud", format!("{aud_json:?}"));
  }
  match (claims.get("iat"), emitted_issuance) {
    (None, _) => {}
    (Some(v), Some(n)) if num_is(Some(v), n) => tags.push_str(" [open:iat-equal-to-nbf-emitted]"),
    (Some(_), _) => tags.push_str(" [open:iat-different-from-nbf-emitted]"),
  }
  let vp = claims.get("vp").cloned().unwrap_or(Value::Null);
  if !vp.is_object() {
    carried_ok = false;
    ctx.violation(&format!("{E_SER}|no-vp-claim"), &claims_s, &case);
  }
  for m in ["id", "holder"] {
    if vp.get(m).is_some() {
      carried_ok = false;
      ctx.violation(&format!("{E_SER}|carried-twice|vp.{m}"), &claims_s, &case);
    }
    if claims.get(m).is_some() {
      carried_ok = false;
      ctx.violation(&format!("{E_SER}|carried-twice|top-level {m}"), &claims_s, &case);
    }
  }
  if let Some(c) = &custom {
    for (k, v) in c {
      if claims.get(k) != Some(v) {
        carried_ok = false;
        ctx.violation(&format!("{E_SER}|custom-claim-lost"), &format!("{k}: {claims_s}"), &case);
      }
    }
  }
  // ---- back (date bounds wide open: this part is about conversion, C03 is about the bounds)
  match back_of(&claims_s) {
    Err(p) => {
      acc.outcome("pres-fwd:panic".into());
      ctx.violation(&format!("{E_BACK}|{}", p.key()), &format!("{}: {claims_s}", p.msg), &case)
    }
    Ok(Err(e)) => {
      let n = e.presentation_validation_errors.iter().map(err_name).collect::<Vec<_>>().join(",");
      if holder_c != 0 {
        // the validator identifies the holder's document by a plain DID in `iss`: other holder forms are the
        // validator's business, not the conversion's
        return acc.outcome(format!("pres-fwd:holder is not a plain DID: rejected on the way back ({n}){} [open:holder-form]", if carried_ok { "" } else { "+claims-wrong" }));
      }
      acc.outcome(format!("pres-fwd:own-claims-rejected:{n}"));
      ctx.violation(&format!("{E_BACK}|own-claims-rejected|{n}"), &format!("{e}: presentation {dm}; claims {claims_s}"), &case)
    }
    Ok(Ok(dec)) => {
      acc.distinct(&case);
      acc.sample(ctx, "presentation-forward", &case);
      let mut diffs: Vec<String> = Vec::new();
      if dec.presentation != pres {
        let (a, b) = (serde_json::to_value(&pres).unwrap_or(Value::Null), serde_json::to_value(&dec.presentation).unwrap_or(Value::Null));
        diffs.push(first_diff(&a, &b));
      }
      if dec.expiration_date.map(|t| t.to_unix()) != exp {
        diffs.push("expiration_date".into());
      }
      if dec.issuance_date.map(|t| t.to_unix()) != emitted_issuance {
        diffs.push("issuance_date".into());
      }
      if dec.aud != options.audience {
        diffs.push("aud".into());
      }
      if custom_norm(&dec.custom_claims) != custom_norm(&custom) {
        diffs.push("custom-claims".into());
      }
      acc.outcome(format!("pres-fwd:{}{}{tags}", if diffs.is_empty() { "round-trip-equal" } else { "round-trip-differs" }, if carried_ok { "" } else { "+claims-wrong" }));
      for d in diffs {
        ctx.violation(
          &format!("{E_SER}+{E_BACK}|round-trip-differs|{d}"),
          &format!("presentation {dm} options {options:?} came back as {:?}; claims {claims_s}", dec),
          &case,
        );
      }
    }
  }
}

// ================================================================== backward: shared judgement
#[derive(Default)]
struct Judge {
  /// reasons for which the claim set must be rejected
  must_reject: Vec<&'static str>,
  /// aspects the statement leaves open
  open: BTreeSet<&'static str>,
}

/// numeric date alternatives shared by exp / nbf
const DATE_ALTS: usize = 10;
fn date_alt(c: usize, typical: i64) -> Option<i64> {
  match c {
    0 => Some(typical),
    1 => None,
    2 => Some(MIN_TS - 1),
    3 => Some(MIN_TS),
    4 => Some(MAX_TS),
    5 => Some(MAX_TS + 1),
    6 => Some(i64::MIN),
    7 => Some(i64::MAX),
    8 => Some(0),
    _ => Some(-1),
  }
}
/// `iat` alternatives: absent, typical, another value, beyond either end, at either end
const IAT_ALTS: [Option<i64>; 7] = [None, Some(N1), Some(N2), Some(MAX_TS + 1), Some(MIN_TS - 1), Some(MAX_TS), Some(MIN_TS)];
fn in_range(t: i64) -> bool {
  (MIN_TS..=MAX_TS).contains(&t)
}

const B_ISS: u8 = 1;
const B_NBF: u8 = 2;
const B_EXP: u8 = 4;
const B_ID: u8 = 8;
const B_SUB: u8 = 16;
const B_REST: u8 = 32;
const B_ALL: u8 = 63;
/// core alphabets only (used for the complete product over all groups of the credential side)
const B_CORE: u8 = 64;

/// The other members of a `vc` (none of them is carried in a registered claim), in minimal / one-element-array /
/// many-member shapes.
fn rest_of_vc(c: usize, vc: &mut Map<String, Value>) {
  let schema1 = json!({"id": "https://example.org/examples/degree.json", "type": "JsonSchemaValidator2018"});
  let policy1 = json!({"type": "IssuerPolicy", "id": "https://example.com/policies/credential/4", "profile": "https://example.com/profiles/credential"});
  match c {
    0 => {}
    1 => {
      vc.insert("@context".into(), json!([BASE_CTX]));
      vc.insert("type".into(), json!(["VerifiableCredential"]));
      vc.insert("credentialStatus".into(), json!({"id": "https://example.edu/status/24", "type": "CredentialStatusList2017"}));
      vc.insert("credentialSchema".into(), json!([schema1]));
      vc.insert("refreshService".into(), json!({"id": "https://example.edu/refresh/3732", "type": "ManualRefreshService2018"}));
      vc.insert("termsOfUse".into(), json!([policy1, {"type": ["HolderPolicy"]}]));
      vc.insert("evidence".into(), json!({"type": "SupportingActivity"}));
      vc.insert("proof".into(), json!({"type": "RsaSignature2018", "jws": "eyJhb...dBBPM"}));
      vc.insert("nonTransferable".into(), json!(false));
      vc.insert("name".into(), json!("extra"));
      vc.insert("exp".into(), json!(5));
    }
    _ => {
      vc.insert("@context".into(), json!([BASE_CTX, {}]));
      vc.insert("type".into(), json!("VerifiableCredential"));
      vc.insert("credentialStatus".into(), json!({"id": "https://example.edu/status/24", "type": "CredentialStatusList2017", "extra": [1]}));
      vc.insert("credentialSchema".into(), schema1);
      vc.insert("refreshService".into(), json!([{"id": "https://example.edu/refresh/3732", "type": ["ManualRefreshService2018"]}]));
      vc.insert("termsOfUse".into(), json!({"type": "IssuerPolicy"}));
      vc.insert("evidence".into(), json!([{"id": "https://example.edu/evidence/f2aeec97", "type": ["DocumentVerification"], "verifier": "https://example.edu/issuers/14"}]));
      vc.insert("proof".into(), json!({"type": "RsaSignature2018"}));
      vc.insert("nonTransferable".into(), json!(true));
      vc.insert("iss".into(), json!("did:example:other"));
    }
  }
}

// ================================================================== (3) credential backward
fn cred_bwd(ctx: &Ctx, acc: &Acc, groups: u8, ch: &mut Chooser) {
  const E: &str = "JwtCredentialValidator::verify_signature";
  let w: &World = &WORLD;
  let mut j = Judge::default();
  let iss_c = bpt(ch, groups, B_ISS, "iss", 4, 3);
  let vciss_c = bpt(ch, groups, B_ISS, "vc.issuer", 8, 4);
  let nbf_c = bpt(ch, groups, B_NBF, "nbf", DATE_ALTS, 8);
  let iat_c = bpt(ch, groups, B_NBF, "iat", IAT_ALTS.len(), 5);
  let vcnbf_c = bpt(ch, groups, B_NBF, "vc.issuanceDate", 4, 4);
  let exp_c = bpt(ch, groups, B_EXP, "exp", DATE_ALTS, 8);
  let vcexp_c = bpt(ch, groups, B_EXP, "vc.expirationDate", 4, 4);
  let jti_c = bpt(ch, groups, B_ID, "jti", 2, 2);
  let vcid_c = bpt(ch, groups, B_ID, "vc.id", 3, 3);
  let sub_c = bpt(ch, groups, B_SUB, "sub", 2, 2);
  let vcsub_c = bpt(ch, groups, B_SUB, "vc.credentialSubject.id", 3, 3);
  let subjshape_c = bpt(ch, groups, B_SUB, "vc.credentialSubject shape", 4, 0);
  let rest_c = bpt(ch, groups, B_REST, "other vc members", 3, 0);

  // issuer forms: URL, object with a member, minimal object (nothing but the id)
  let issuer_form = |id: &str, form: usize| match form {
    0 => json!(id),
    1 => json!({"id": id, "name": "Example University"}),
    2 => json!({"id": id}),
    // an object that CONTRADICTS form 1 in a member both carry
    _ => json!({"id": id, "name": "Another University"}),
  };
  // `iss`: URL, object, absent, minimal object
  let iss_form: Option<usize> = [Some(0), Some(1), None, Some(2)][iss_c];
  let iss: Option<Value> = iss_form.map(|f| issuer_form(ISSUER, f));
  let f0 = iss_form.unwrap_or(0);
  const MALLORY: &str = "did:example:mallory";
  let (vc_issuer, vc_issuer_id): (Option<Value>, &str) = match vciss_c {
    0 => (None, ISSUER),
    // same form and same id as `iss` (URL when `iss` is absent)
    1 => (Some(issuer_form(ISSUER, f0)), ISSUER),
    // same form, other id
    2 => (Some(issuer_form(MALLORY, f0)), MALLORY),
    // same id, the two other forms
    3 => (Some(issuer_form(ISSUER, (f0 + 1) % 3)), ISSUER),
    4 => (Some(issuer_form(ISSUER, (f0 + 2) % 3)), ISSUER),
    // other id, the two other forms
    5 => (Some(issuer_form(MALLORY, (f0 + 1) % 3)), MALLORY),
    6 => (Some(issuer_form(MALLORY, (f0 + 2) % 3)), MALLORY),
    // same id, an object whose `name` differs from the one `iss` carries when `iss` is the object with a name
    _ => (Some(issuer_form(ISSUER, 3)), ISSUER),
  };
  // expected issuer: Some(value) when determinable
  let mut want_issuer: Option<Value> = iss.clone();
  match (&iss, &vc_issuer) {
    (None, _) => {
      j.open.insert("iss-absent");
      want_issuer = vc_issuer.clone();
    }
    (Some(a), Some(b)) if a != b => {
      if vc_issuer_id == ISSUER && vciss_c == 7 && iss_form == Some(1) {
        // both are objects, same id, and they give different values for the same member: the repeated value disagrees
        j.must_reject.push("vc.issuer-contradicts-iss-in-a-member");
      } else if vc_issuer_id == ISSUER {
        j.open.insert("issuer-same-id-other-form");
        want_issuer = None;
      } else {
        j.must_reject.push("vc.issuer-differs-from-iss");
      }
    }
    _ => {}
  }
  // issuance: N1 is the typical nbf
  let nbf = date_alt(nbf_c, N1);
  let iat: Option<i64> = IAT_ALTS[iat_c];
  let vc_nbf: Option<(&str, i64)> = [None, Some((N1_S, N1)), Some((N2_S, N2)), Some((N3_S, N3))][vcnbf_c];
  let effective = nbf.or(iat);
  let mut want_issuance: Option<i64> = effective;
  match effective {
    None => {
      // no registered issuance claim at all
      j.open.insert("no-nbf-no-iat");
      want_issuance = vc_nbf.map(|v| v.1);
    }
    Some(t) => {
      if !in_range(t) {
        j.must_reject.push(if nbf.is_some() { "nbf-out-of-range" } else { "iat-out-of-range" });
      }
      if let (Some(_), Some(i)) = (nbf, iat) {
        if !in_range(i) {
          j.open.insert("shadowed-iat-out-of-range");
        }
      }
      if let Some((_, v)) = vc_nbf {
        if v != t {
          if nbf.is_some() && iat == Some(v) {
            j.open.insert("vc.issuanceDate-equals-iat-not-nbf");
            want_issuance = None;
          } else {
            j.must_reject.push("vc.issuanceDate-differs");
          }
        }
      }
    }
  }
  // expiry: default alternative is "absent" here, so remap: 0 absent, 1 typical
  let exp = match exp_c {
    0 => None,
    1 => Some(X1),
    c => date_alt(c, X1),
  };
  let vc_exp: Option<(&str, i64)> = [None, Some((X1_S, X1)), Some((X2_S, X2)), Some((MAX_S, MAX_TS))][vcexp_c];
  let mut want_exp: Option<i64> = exp;
  match (exp, vc_exp) {
    (Some(e), _) if !in_range(e) => j.must_reject.push("exp-out-of-range"),
    (Some(e), Some((_, v))) if e != v => j.must_reject.push("vc.expirationDate-differs-from-exp"),
    (None, Some((_, v))) => {
      j.open.insert("vc.expirationDate-without-exp");
      want_exp = Some(v);
    }
    _ => {}
  }
  let jti: Option<&str> = [None, Some(ID1)][jti_c];
  let vc_id: Option<&str> = [None, Some(ID1), Some(ID2)][vcid_c];
  let mut want_id = jti;
  match (jti, vc_id) {
    (Some(a), Some(b)) if a != b => j.must_reject.push("vc.id-differs-from-jti"),
    (None, Some(b)) => {
      j.open.insert("vc.id-without-jti");
      want_id = Some(b);
    }
    _ => {}
  }
  let sub: Option<&str> = [Some(SUBJ1), None][sub_c];
  let vc_sub: Option<&str> = [None, Some(SUBJ1), Some(SUBJ2)][vcsub_c];
  let mut want_sub = sub;
  match (sub, vc_sub) {
    (Some(a), Some(b)) if a != b => j.must_reject.push("vc.credentialSubject.id-differs-from-sub"),
    (None, Some(b)) => {
      j.open.insert("vc.credentialSubject.id-without-sub");
      want_sub = Some(b);
    }
    _ => {}
  }

  // ---- assemble
  let mut subj = Map::new();
  // shape 1: no properties at all (with `sub`, the form the library emits for a subject that is nothing but an id)
  if subjshape_c != 1 {
    subj.insert("degree".into(), degree());
  }
  if let Some(s) = vc_sub {
    subj.insert("id".into(), json!(s));
  }
  let subject_props = subj.iter().filter(|(k, _)| k.as_str() != "id").map(|(k, v)| (k.clone(), v.clone())).collect::<Map<String, Value>>();
  let subject_value = match subjshape_c {
    0 | 1 => Value::Object(subj),
    2 => {
      j.open.insert("vc.credentialSubject-array");
      json!([Value::Object(subj)])
    }
    _ => {
      j.open.insert("vc.credentialSubject-array");
      json!([Value::Object(subj), {"id": SUBJ2, "name": "second"}])
    }
  };
  if subjshape_c == 1 && sub.is_none() && vc_sub.is_none() {
    // a subject with neither id nor properties is not a subject of the data model
    j.open.insert("empty-subject");
  }
  let mut vc = Map::new();
  vc.insert("@context".into(), json!(BASE_CTX));
  vc.insert("type".into(), json!(["VerifiableCredential", "UniversityDegreeCredential"]));
  vc.insert("credentialSubject".into(), subject_value);
  rest_of_vc(rest_c, &mut vc);
  let mut expected = vc.clone();
  if let Some(v) = &vc_issuer {
    vc.insert("issuer".into(), v.clone());
  }
  if let Some((s, _)) = vc_nbf {
    vc.insert("issuanceDate".into(), json!(s));
  }
  if let Some((s, _)) = vc_exp {
    vc.insert("expirationDate".into(), json!(s));
  }
  if let Some(i) = vc_id {
    vc.insert("id".into(), json!(i));
  }
  let mut claims = Map::new();
  if let Some(i) = &iss {
    claims.insert("iss".into(), i.clone());
  }
  for (k, v) in [("nbf", nbf), ("iat", iat), ("exp", exp)] {
    if let Some(v) = v {
      claims.insert(k.into(), json!(v));
    }
  }
  if let Some(v) = jti {
    claims.insert("jti".into(), json!(v));
  }
  if let Some(v) = sub {
    claims.insert("sub".into(), json!(v));
  }
  claims.insert("vc".into(), Value::Object(vc));
  let claims_s = Value::Object(claims).to_string();
  let case = Case { part: P_CRED_BWD, mode: groups, seq: ch.seq() };
  let jwt = token(&format!("{ISSUER}#k1"), &claims_s);
  let res = guard(|| w.cred_validator.verify_signature::<CoreDocument, Object>(&jwt, std::slice::from_ref(&w.issuer_doc), &JwsVerificationOptions::default()));
  let tag = if j.open.is_empty() { String::new() } else { format!(" [open:{}]", j.open.iter().copied().collect::<Vec<_>>().join(",")) };
  match res {
    Err(p) => {
      acc.outcome("cred-bwd:panic".into());
      ctx.violation(&format!("{E}|{}", p.key()), &format!("{}: {claims_s}", p.msg), &case)
    }
    Ok(Err(e)) => {
      acc.outcome(format!("cred-bwd:rejected:{}{tag}", err_name(&e)));
      if !j.must_reject.is_empty() {
        acc.distinct(&case);
      }
      if j.must_reject.is_empty() && j.open.is_empty() {
        let class = if vciss_c + vcnbf_c + vcexp_c + vcid_c + vcsub_c == 0 { "no-duplicates" } else { "consistent-duplicates" };
        ctx.violation(&format!("{E}|rejected|{class}|{}", err_name(&e)), &format!("{e}: {claims_s}"), &case)
      }
    }
    Ok(Ok(dec)) => {
      acc.outcome(format!("cred-bwd:accepted{tag}"));
      acc.distinct(&case);
      acc.sample(ctx, "credential-backward", &case);
      if !j.must_reject.is_empty() {
        return ctx.violation(&format!("{E}|accepted|{}", j.must_reject.join("+")), &format!("{claims_s} -> {}", serde_json::to_string(&dec.credential).unwrap_or_default()), &case);
      }
      let c = &dec.credential;
      let mut members_ok = true;
      let mut wrong = |member: &'static str, got: String, want: String| {
        members_ok = false;
        ctx.violation(&format!("{E}|accepted|reconstructed-{member}-wrong"), &format!("got {got}, claims say {want}: {claims_s}"), &case)
      };
      if let Some(wi) = &want_issuer {
        let got = serde_json::to_value(&c.issuer).unwrap_or(Value::Null);
        if &got != wi {
          wrong("issuer", got.to_string(), wi.to_string());
        }
      }
      if !(j.open.contains("vc.issuanceDate-equals-iat-not-nbf")) {
        if let Some(t) = want_issuance {
          if c.issuance_date.to_unix() != t {
            wrong("issuanceDate", c.issuance_date.to_unix().to_string(), t.to_string());
          }
        }
        // no issuance date anywhere in the claims: recorded in the histogram only
      }
      if c.expiration_date.map(|t| t.to_unix()) != want_exp {
        wrong("expirationDate", format!("{:?}", c.expiration_date.map(|t| t.to_unix())), format!("{want_exp:?}"));
      }
      if c.id.as_ref().map(|u| u.as_str()) != want_id {
        wrong("id", format!("{:?}", c.id), format!("{want_id:?}"));
      }
      if !j.open.contains("vc.credentialSubject-array") {
        let got_sub = c.credential_subject.get(0).and_then(|s| s.id.as_ref()).map(|u| u.as_str().to_string());
        if got_sub.as_deref() != want_sub {
          wrong("credentialSubject.id", format!("{got_sub:?}"), format!("{want_sub:?}"));
        }
      }
      // Everything else: the accepted credential is the one the claim set describes (the members of `vc` that no
      // registered claim carries, plus the five carried values). Judged where every carried value is determined.
      if members_ok && j.open.is_empty() {
        if let (Some(wi), Some(t)) = (&want_issuer, want_issuance) {
          expected.insert("issuer".into(), wi.clone());
          expected.insert("issuanceDate".into(), json!(fx::ts(t).to_rfc3339()));
          if let Some(e) = want_exp {
            expected.insert("expirationDate".into(), json!(fx::ts(e).to_rfc3339()));
          }
          if let Some(i) = want_id {
            expected.insert("id".into(), json!(i));
          }
          let mut s = subject_props;
          if let Some(i) = want_sub {
            s.insert("id".into(), json!(i));
          }
          expected.insert("credentialSubject".into(), Value::Object(s));
          let expected = Value::Object(expected);
          match Credential::<Object>::from_json_value(expected.clone()) {
            Err(e) => vx::ctx::machinery_exit(&format!("C07 expected credential does not parse: {e}: {expected}")),
            Ok(want) => {
              if &want != c {
                let got = serde_json::to_value(c).unwrap_or(Value::Null);
                ctx.violation(
                  &format!("{E}|accepted|reconstructed-other-member-wrong"),
                  &format!("member {}: got {got}, the claims describe {expected}: {claims_s}", first_diff(&got, &expected)),
                  &case,
                );
              }
            }
          }
        }
      }
    }
  }
}

// ================================================================== (4) presentation backward
fn pres_bwd(ctx: &Ctx, acc: &Acc, groups: u8, ch: &mut Chooser) {
  const E: &str = "JwtPresentationValidator::validate";
  let w: &World = &WORLD;
  let mut j = Judge::default();
  let iss_c = bpt(ch, groups, B_ISS, "iss", 2, 2);
  let vph_c = bpt(ch, groups, B_ISS, "vp.holder", 3, 3);
  let nbf_c = bpt(ch, groups, B_NBF, "nbf", DATE_ALTS, 8);
  let iat_c = bpt(ch, groups, B_NBF, "iat", IAT_ALTS.len(), 5);
  let exp_c = bpt(ch, groups, B_EXP, "exp", DATE_ALTS, 8);
  let id_c = bpt(ch, groups, B_ID, "jti/vp.id", 6, 6);
  let aud_c = bpt(ch, groups, B_SUB, "aud", 4, 2);
  let creds_c = bpt(ch, groups, B_REST, "vp.verifiableCredential", 6, 0);
  let rest_c = bpt(ch, groups, B_REST, "other vp members", 3, 0);

  let iss: Option<&str> = [Some(HOLDER), None][iss_c];
  let vp_holder: Option<&str> = [None, Some(HOLDER), Some("did:example:mallory")][vph_c];
  let mut want_holder = iss;
  match (iss, vp_holder) {
    (None, _) => {
      j.open.insert("iss-absent");
      want_holder = vp_holder;
    }
    (Some(a), Some(b)) if a != b => j.must_reject.push("vp.holder-differs-from-iss"),
    _ => {}
  }
  let nbf = date_alt(nbf_c, N1);
  let iat: Option<i64> = IAT_ALTS[iat_c];
  let effective = nbf.or(iat);
  if let Some(t) = effective {
    if !in_range(t) {
      j.must_reject.push(if nbf.is_some() { "nbf-out-of-range" } else { "iat-out-of-range" });
    }
    if let (Some(_), Some(i)) = (nbf, iat) {
      if !in_range(i) {
        j.open.insert("shadowed-iat-out-of-range");
      }
    }
  }
  let exp = match exp_c {
    0 => None,
    1 => Some(X1),
    c => date_alt(c, X1),
  };
  if let Some(e) = exp {
    if !in_range(e) {
      j.must_reject.push("exp-out-of-range");
    }
  }
  let (jti, vp_id): (Option<&str>, Option<&str>) = match id_c {
    0 => (None, None),
    1 => (Some(ID1), None),
    2 => (Some(ID1), Some(ID1)),
    3 => (Some(ID1), Some(ID2)),
    4 => (None, Some(ID1)),
    _ => (Some(ID2), Some(ID1)),
  };
  let mut want_id = jti;
  match (jti, vp_id) {
    (Some(a), Some(b)) if a != b => j.must_reject.push("vp.id-differs-from-jti"),
    (None, Some(b)) => {
      j.open.insert("vp.id-without-jti");
      want_id = Some(b);
    }
    _ => {}
  }
  // audience: none, a DID, an https URL with query and fragment, an array (RFC 7519 allows it; the library's model is one URL)
  let (aud_claim, aud): (Option<Value>, Option<&str>) = match aud_c {
    0 => (None, None),
    1 => (Some(json!(AUD_DID)), Some(AUD_DID)),
    2 => (Some(json!(AUD_URL)), Some(AUD_URL)),
    _ => {
      j.open.insert("aud-array");
      (Some(json!([AUD_DID, AUD_URL])), None)
    }
  };
  // credentials: one JWT, none (the form the library emits: an empty array), member absent, a string that is no JWT
  // next to a JWT, the empty string first, the same entry twice
  let (creds_claim, want_creds): (Option<Value>, Vec<&str>) = match creds_c {
    0 => (Some(json!([JWT1])), vec![JWT1]),
    1 => (Some(json!([])), vec![]),
    2 => {
      j.open.insert("vp.verifiableCredential-absent");
      (None, vec![])
    }
    3 => (Some(json!([JWT1, "not a jwt"])), vec![JWT1, "not a jwt"]),
    4 => (Some(json!(["", JWT1])), vec!["", JWT1]),
    _ => (Some(json!([JWT2, JWT2])), vec![JWT2, JWT2]),
  };

  let mut vp = Map::new();
  vp.insert("@context".into(), json!(BASE_CTX));
  vp.insert("type".into(), json!("VerifiablePresentation"));
  if let Some(c) = &creds_claim {
    vp.insert("verifiableCredential".into(), c.clone());
  }
  match rest_c {
    0 => {}
    1 => {
      vp.insert("@context".into(), json!([BASE_CTX]));
      vp.insert("type".into(), json!(["VerifiablePresentation"]));
      vp.insert("refreshService".into(), json!([{"id": "https://example.edu/refresh/3732", "type": "ManualRefreshService2018"}]));
      vp.insert("termsOfUse".into(), json!({"type": "HolderPolicy"}));
      vp.insert("proof".into(), json!({"type": "RsaSignature2018"}));
      vp.insert("name".into(), json!("extra"));
      vp.insert("aud".into(), json!("did:example:a"));
    }
    _ => {
      vp.insert("@context".into(), json!([BASE_CTX, {"@vocab": "https://example.com/vocab#"}]));
      vp.insert("type".into(), json!(["VerifiablePresentation", "ExtraPresentation"]));
      vp.insert("refreshService".into(), json!({"id": "https://example.edu/refresh/2", "type": ["ManualRefreshService2018", "R"], "o": {"k": []}}));
      vp.insert("termsOfUse".into(), json!([{"type": "HolderPolicy", "id": "https://example.com/policies/presentation/4"}, {"type": ["Other"], "k": [1, 2]}]));
      vp.insert("proof".into(), json!({"type": "RsaSignature2018", "created": "2017-06-18T21:19:10Z", "jws": "eyJhb...dBBPM"}));
      vp.insert("exp".into(), json!(5));
      vp.insert("iss".into(), json!("did:example:other"));
    }
  }
  let mut expected = vp.clone();
  if let Some(h) = vp_holder {
    vp.insert("holder".into(), json!(h));
  }
  if let Some(i) = vp_id {
    vp.insert("id".into(), json!(i));
  }
  let mut claims = Map::new();
  if let Some(i) = iss {
    claims.insert("iss".into(), json!(i));
  }
  for (k, v) in [("nbf", nbf), ("iat", iat), ("exp", exp)] {
    if let Some(v) = v {
      claims.insert(k.into(), json!(v));
    }
  }
  if let Some(v) = jti {
    claims.insert("jti".into(), json!(v));
  }
  if let Some(v) = &aud_claim {
    claims.insert("aud".into(), v.clone());
  }
  claims.insert("vp".into(), Value::Object(vp));
  let claims_s = Value::Object(claims).to_string();
  let case = Case { part: P_PRES_BWD, mode: groups, seq: ch.seq() };
  let jwt = token(&format!("{HOLDER}#k1"), &claims_s);
  let vopts = JwtPresentationValidationOptions::new().earliest_expiry_date(fx::ts(MIN_TS)).latest_issuance_date(fx::ts(MAX_TS));
  let res = guard(|| w.pres_validator.validate::<CoreDocument, Jwt, Object>(&jwt, &w.holder_doc, &vopts));
  let tag = if j.open.is_empty() { String::new() } else { format!(" [open:{}]", j.open.iter().copied().collect::<Vec<_>>().join(",")) };
  match res {
    Err(p) => {
      acc.outcome("pres-bwd:panic".into());
      ctx.violation(&format!("{E}|{}", p.key()), &format!("{}: {claims_s}", p.msg), &case)
    }
    Ok(Err(e)) => {
      let n = e.presentation_validation_errors.iter().map(err_name).collect::<Vec<_>>().join(",");
      acc.outcome(format!("pres-bwd:rejected:{n}{tag}"));
      if !j.must_reject.is_empty() {
        acc.distinct(&case);
      }
      if j.must_reject.is_empty() && j.open.is_empty() {
        let class = if vph_c == 0 && vp_id.is_none() { "no-duplicates" } else { "consistent-duplicates" };
        ctx.violation(&format!("{E}|rejected|{class}|{n}"), &format!("{e}: {claims_s}"), &case)
      }
    }
    Ok(Ok(dec)) => {
      acc.outcome(format!("pres-bwd:accepted{tag}"));
      acc.distinct(&case);
      acc.sample(ctx, "presentation-backward", &case);
      if !j.must_reject.is_empty() {
        return ctx.violation(&format!("{E}|accepted|{}", j.must_reject.join("+")), &format!("{claims_s} -> {:?}", dec), &case);
      }
      let mut members_ok = true;
      let mut wrong = |member: &'static str, got: String, want: String| {
        members_ok = false;
        ctx.violation(&format!("{E}|accepted|reconstructed-{member}-wrong"), &format!("got {got}, claims say {want}: {claims_s}"), &case)
      };
      let p = &dec.presentation;
      if Some(p.holder.as_str()) != want_holder {
        wrong("holder", p.holder.to_string(), format!("{want_holder:?}"));
      }
      if p.id.as_ref().map(|u| u.as_str()) != want_id {
        wrong("id", format!("{:?}", p.id), format!("{want_id:?}"));
      }
      if dec.expiration_date.map(|t| t.to_unix()) != exp {
        wrong("expiration_date", format!("{:?}", dec.expiration_date), format!("{exp:?}"));
      }
      if dec.issuance_date.map(|t| t.to_unix()) != effective {
        wrong("issuance_date", format!("{:?}", dec.issuance_date), format!("{effective:?} (nbf, else iat)"));
      }
      if aud_c != 3 && dec.aud.as_ref().map(|u| u.as_str()) != aud {
        wrong("aud", format!("{:?}", dec.aud), format!("{aud:?}"));
      }
      // the credentials of the presentation: the same entries in the same order, whatever they look like
      let got_creds: Vec<&str> = p.verifiable_credential.iter().map(|c| c.as_str()).collect();
      if got_creds != want_creds {
        wrong("verifiableCredential", format!("{got_creds:?}"), format!("{want_creds:?}"));
      }
      // Everything else: the accepted presentation is the one the claim set describes.
      if members_ok && j.open.is_empty() {
        if let Some(h) = want_holder {
          expected.insert("holder".into(), json!(h));
          if let Some(i) = want_id {
            expected.insert("id".into(), json!(i));
          }
          if want_creds.is_empty() {
            // the data model writes a presentation without credentials by leaving the member out
            expected.remove("verifiableCredential");
          }
          let expected = Value::Object(expected);
          match Presentation::<Jwt, Object>::from_json_value(expected.clone()) {
            Err(e) => vx::ctx::machinery_exit(&format!("C07 expected presentation does not parse: {e}: {expected}")),
            Ok(want) => {
              if &want != p {
                let got = serde_json::to_value(p).unwrap_or(Value::Null);
                ctx.violation(
                  &format!("{E}|accepted|reconstructed-other-member-wrong"),
                  &format!("member {}: got {got}, the claims describe {expected}: {claims_s}", first_diff(&got, &expected)),
                  &case,
                );
              }
            }
          }
        }
      }
    }
  }
}

fn run(ctx: &Ctx, acc: &Acc, part: u8, mode: u8, ch: &mut Chooser) {
  match part {
    P_CRED_FWD => cred_fwd(ctx, acc, mode, ch),
    P_PRES_FWD => pres_fwd(ctx, acc, mode, ch),
    P_CRED_BWD => cred_bwd(ctx, acc, mode, ch),
    _ => pres_bwd(ctx, acc, mode, ch),
  }
}

fn eval(ctx: &Ctx, case: &Case) {
  ctx.eval1();
  let acc = Acc::new();
  let mut ch = Chooser::replay(&case.seq);
  run(ctx, &acc, case.part, case.mode, &mut ch);
  acc.flush(ctx);
}

fn generate(ctx: &Ctx) {
  ctx.rule("E1 choice DFS. (1) credential forward: 16 presence/shape choice points (every object/array-valued member in minimal, one-element-array and many-member shape), all sequences with <= bound deviations from the minimal credential (+ thorough: complete product of reduced alphabets); (2) presentation forward: 15 points (CRED as Jwt or JSON value, holder forms, 0/1/2 credentials incl. strings that are no JWT, options by literal or default()+setters): complete product of the core alphabets + all sequences with <= bound deviations (+ thorough: complete product of reduced alphabets); (3) credential backward: 13 points in 6 groups (issuer, issuance, expiry, id, subject, other vc members): complete product per group + deviation-bounded across groups (+ thorough: complete product of the core alphabets over all groups); (4) presentation backward: complete product of 9 points. distinct_nontrivial = distinct (part, mode, choice sequence) that were accepted/round-tripped or rejected for a reason the oracle demands");
  ctx.assume("tokens are assembled by the harness (base64url by identity_jose::jwu) and verified with an always-Ok JwsVerifier: this property is about the claims, not the signature");
  ctx.assume("data-model credentials / presentations are built with serde from harness JSON; plain serde (de)serialisation of Credential / Presentation is trusted here");
  ctx.assume("issuance date of a claims set is nbf when present, else iat (VC data model 1.1 §6.3.1)");
  ctx.assume("the owned clock (fx::NOW) is what `JwtPresentationOptions::default()` reads as the current time");
  // machinery self-check of the date constants
  for (s, u) in [(N1_S, N1), (N2_S, N2), (N3_S, N3), (X1_S, X1), (X2_S, X2), (MIN_S, MIN_TS), (MAX_S, MAX_TS), (EPOCH_S, 0)] {
    ctx.require(Timestamp::parse(s).map(|t| t.to_unix()).ok() == Some(u), &format!("date constant {s} != {u}"));
  }
  let acc = Acc::new();
  let fb = ctx.by_tier(4u32, 6u32);
  let pb = ctx.by_tier(4u32, 6u32);
  let bb = ctx.by_tier(4u32, 6u32);
  ctx.bound("credential_forward_deviation_bound", fb);
  ctx.bound("presentation_forward_deviation_bound", pb);
  ctx.bound("credential_backward_deviation_bound", bb);
  ctx.bound("numeric_dates", json!([MIN_TS - 1, MIN_TS, MAX_TS, MAX_TS + 1, i64::MIN, i64::MAX, 0, -1]));

  choice::explore_into(ctx, "credential forward, deviation-bounded", Some(fb), |ch| run(ctx, &acc, P_CRED_FWD, M_FULL, ch));
  acc.flush(ctx);
  if ctx.thorough() {
    choice::explore_into(ctx, "credential forward, complete product of reduced alphabets", None, |ch| run(ctx, &acc, P_CRED_FWD, M_REDUCED, ch));
    acc.flush(ctx);
  }
  choice::explore_into(ctx, "presentation forward, complete product of core alphabets", None, |ch| run(ctx, &acc, P_PRES_FWD, M_CORE, ch));
  acc.flush(ctx);
  choice::explore_into(ctx, "presentation forward, deviation-bounded", Some(pb), |ch| run(ctx, &acc, P_PRES_FWD, M_FULL, ch));
  acc.flush(ctx);
  if ctx.thorough() {
    choice::explore_into(ctx, "presentation forward, complete product of reduced alphabets", None, |ch| run(ctx, &acc, P_PRES_FWD, M_REDUCED, ch));
    acc.flush(ctx);
  }
  for (g, name) in [
    (B_ISS, "iss x vc.issuer"),
    (B_NBF, "nbf x iat x vc.issuanceDate"),
    (B_EXP, "exp x vc.expirationDate"),
    (B_ID, "jti x vc.id"),
    (B_SUB, "sub x vc.credentialSubject.id x shape"),
    (B_REST, "other vc members"),
  ] {
    choice::explore_into(ctx, &format!("credential backward, complete: {name}"), None, |ch| run(ctx, &acc, P_CRED_BWD, g, ch));
    acc.flush(ctx);
  }
  choice::explore_into(ctx, "credential backward, all groups, deviation-bounded", Some(bb), |ch| run(ctx, &acc, P_CRED_BWD, B_ALL, ch));
  acc.flush(ctx);
  if ctx.thorough() {
    choice::explore_into(ctx, "credential backward, complete product of core alphabets over all groups", None, |ch| run(ctx, &acc, P_CRED_BWD, B_ALL | B_CORE, ch));
    acc.flush(ctx);
  }
  choice::explore_into(ctx, "presentation backward, complete product", None, |ch| run(ctx, &acc, P_PRES_BWD, B_ALL, ch));
  acc.flush(ctx);
}

fn main() {
  vx::run_main::<Case, _, _>("C07", Level::ModelChecking, generate, eval)
}
