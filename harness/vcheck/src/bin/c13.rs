//! C13 — timestamps are total, canonical whole-second UTC instants in years 0000–9999.
//!
//! Everything is a complete product of small alphabets executed on the real `Timestamp`:
//! (a) grid     : date-times (range ends, epoch, leap days/seconds, calendrically invalid ones) x EVERY
//!                offset -23:59..+23:59 / Z / z / -00:00 (+ out-of-range offsets) x fraction shapes,
//!                through `parse` and seven other parsing entry points (FromStr, TryFrom<&str>, TryFrom<String>,
//!                serde from a JSON string / a fully \u-escaped JSON string / a `Value` / bytes), each judged on its own;
//! (b) raw      : all single (thorough: also all double) character edits of well-formed strings, judged by
//!                a hand-written RFC 3339 recogniser;
//! (c) unix     : `from_unix` on every second around both range ends / the epoch / the i64 and `time`
//!                limits and on every month (thorough: day) boundary of years 0000..9999;
//! (d) arith    : `checked_add` / `checked_sub`, boundary bases x 5 duration constructors x boundary counts (every
//!                u32::MAX/k, i32::MAX/k, u16::MAX/k -1..+2 for the unit ratios k, powers of two, the exact distance to the
//!                range end), thorough: every day / week count with an in-range result; all op sequences <= 3 (4) over
//!                a duration alphabet (a+b-b); durations obtained through serde (sub-second, negative, huge);
//! (e) order    : all pairs of a boundary set built through five different constructors (Ord, Eq, Hash; collections);
//! (f) clock    : `Timestamp::now_utc` / `Default` under the owned clock (custom_time registration);
//! (g) json     : deserialisation of non-string / oddly framed JSON texts.
//! Reference: an integer civil calendar made of a table of year starts (no code of `time` involved).

use identity_core::common::{Duration, Timestamp};
use identity_core::convert::{FromJson, ToJson};
use once_cell::sync::Lazy;
use serde::{Deserialize, Serialize};
use std::cmp::Ordering;
use std::collections::hash_map::DefaultHasher;
use std::collections::{BTreeMap, BTreeSet, HashSet};
use std::hash::{Hash, Hasher};
use std::str::FromStr;
use vx::rayon::prelude::*;
use vx::{guard, json, Ctx, Level};

/// 0000-01-01T00:00:00Z and 9999-12-31T23:59:59Z (the interval documented on `Timestamp::from_unix`).
const MIN: i64 = -62_167_219_200;
const MAX: i64 = 253_402_300_799;

// ------------------------------------------------------------------ reference calendar
fn is_leap(y: i64) -> bool {
  y % 4 == 0 && (y % 100 != 0 || y % 400 == 0)
}
fn dim(y: i64, m: u32) -> u32 {
  match m {
    1 | 3 | 5 | 7 | 8 | 10 | 12 => 31,
    4 | 6 | 9 | 11 => 30,
    2 => {
      if is_leap(y) {
        29
      } else {
        28
      }
    }
    _ => 0,
  }
}
/// `YEAR_START[y]` = days from 1970-01-01 to January 1st of year `y`, y in 0..=10000.
static YEAR_START: Lazy<Vec<i64>> = Lazy::new(|| {
  let mut v = vec![0i64; 10_001];
  for y in 1970..10_000usize {
    v[y + 1] = v[y] + if is_leap(y as i64) { 366 } else { 365 };
  }
  for y in (0..1970usize).rev() {
    v[y] = v[y + 1] - if is_leap(y as i64) { 366 } else { 365 };
  }
  v
});
/// Seconds since the epoch of the civil UTC date-time (fields must be a real date in years 0..=9999).
fn civil_to_unix(y: i64, mo: u32, d: u32, h: u32, mi: u32, s: u32) -> i64 {
  let mut days = YEAR_START[y as usize];
  for m in 1..mo {
    days += dim(y, m) as i64;
  }
  days += d as i64 - 1;
  days * 86_400 + h as i64 * 3600 + mi as i64 * 60 + s as i64
}
/// Inverse, for `u` in [MIN, MAX].
fn unix_to_civil(u: i64) -> (i64, u32, u32, u32, u32, u32) {
  let days = u.div_euclid(86_400);
  let sod = u.rem_euclid(86_400) as u32;
  let y = YEAR_START.partition_point(|&s| s <= days) as i64 - 1;
  let mut rest = days - YEAR_START[y as usize];
  let mut mo = 1;
  while rest >= dim(y, mo) as i64 {
    rest -= dim(y, mo) as i64;
    mo += 1;
  }
  (y, mo, rest as u32 + 1, sod / 3600, sod / 60 % 60, sod % 60)
}
fn civil_string(u: i64) -> String {
  let (y, mo, d, h, mi, s) = unix_to_civil(u);
  format!("{y:04}-{mo:02}-{d:02}T{h:02}:{mi:02}:{s:02}")
}

// ------------------------------------------------------------------ cases
#[derive(Serialize, Deserialize, Debug, Clone, Copy, PartialEq, Eq, Hash, PartialOrd, Ord)]
enum Off {
  Z,
  LowerZ,
  Num { neg: bool, h: u8, m: u8 },
}
impl Off {
  fn text(&self) -> String {
    match self {
      Off::Z => "Z".into(),
      Off::LowerZ => "z".into(),
      Off::Num { neg, h, m } => format!("{}{h:02}:{m:02}", if *neg { '-' } else { '+' }),
    }
  }
}

#[derive(Serialize, Deserialize, Debug, Clone, PartialEq)]
enum Case {
  /// `YYYY-MM-DD<sep>hh:mm:ss<frac><off>`; dt = [year, month, day, hour, minute, second] (2-digit fields may be invalid).
  Grid { dt: [u16; 6], sep: char, frac: String, off: Off },
  Raw { s: String },
  Unix { secs: i64 },
  /// unit: 0 seconds, 1 minutes, 2 hours, 3 days, 4 weeks
  Arith { base: i64, sub: bool, unit: u8, n: u32 },
  /// (unix second, constructor id) twice; see `build`.
  Pair { a: (i64, u8), b: (i64, u8) },
  /// a sequence of (sub, unit, n) operations applied one after the other, starting from `from_unix(base)`
  Compose { base: i64, ops: Vec<(bool, u8, u32)> },
  /// a `Duration` obtained by deserialising `text`, then `base (+|-) it`
  DurJson { text: String, base: i64, sub: bool },
  /// two durations (unit, n): Eq / Ord / Hash / serde executed, only the trait contracts judged
  DurPair { a: (u8, u32), b: (u8, u32) },
  /// every instant of `pts` through every constructor, put into hash / ordered collections
  Collections { pts: Vec<i64> },
  /// the owned clock set to `secs`, then `Timestamp::now_utc()` and `Timestamp::default()`
  Now { secs: i64 },
  /// `Timestamp::from_json(text)` and friends on an arbitrary JSON text
  Json { text: String },
}

#[derive(Default)]
struct Local {
  out: BTreeMap<String, u64>,
  evals: u64,
  distinct: Vec<u64>,
}
impl Local {
  fn outcome(&mut self, l: String) {
    *self.out.entry(l).or_insert(0) += 1;
  }
  fn flush(self, ctx: &Ctx) {
    ctx.outcomes_merge(&self.out);
    ctx.add_evals(self.evals);
    ctx.distinct_many(self.distinct);
  }
}

// ------------------------------------------------------------------ recogniser (RFC 3339 section 5.6, written from the ABNF)
#[derive(Debug, Clone, PartialEq)]
struct Rec {
  y: i64,
  mo: u32,
  d: u32,
  h: u32,
  mi: u32,
  s: u32,
  frac_len: usize,
  sep: u8,
  off: Off,
}
fn recognise(s: &str) -> Option<Rec> {
  let b = s.as_bytes();
  let mut i = 0usize;
  fn num(b: &[u8], i: &mut usize, n: usize) -> Option<u32> {
    let part = b.get(*i..*i + n)?;
    if !part.iter().all(|c| c.is_ascii_digit()) {
      return None;
    }
    *i += n;
    Some(part.iter().fold(0u32, |a, c| a * 10 + (c - b'0') as u32))
  }
  fn lit(b: &[u8], i: &mut usize, c: u8) -> Option<()> {
    if b.get(*i) == Some(&c) {
      *i += 1;
      Some(())
    } else {
      None
    }
  }
  let y = num(b, &mut i, 4)? as i64;
  lit(b, &mut i, b'-')?;
  let mo = num(b, &mut i, 2)?;
  lit(b, &mut i, b'-')?;
  let d = num(b, &mut i, 2)?;
  let sep = *b.get(i)?;
  if !sep.is_ascii() {
    return None;
  }
  i += 1;
  let h = num(b, &mut i, 2)?;
  lit(b, &mut i, b':')?;
  let mi = num(b, &mut i, 2)?;
  lit(b, &mut i, b':')?;
  let sec = num(b, &mut i, 2)?;
  let mut frac_len = 0;
  if b.get(i) == Some(&b'.') {
    i += 1;
    while b.get(i).map(|c| c.is_ascii_digit()).unwrap_or(false) {
      i += 1;
      frac_len += 1;
    }
    if frac_len == 0 {
      return None;
    }
  }
  let off = match *b.get(i)? {
    b'Z' => {
      i += 1;
      Off::Z
    }
    b'z' => {
      i += 1;
      Off::LowerZ
    }
    c @ (b'+' | b'-') => {
      i += 1;
      let oh = num(b, &mut i, 2)?;
      lit(b, &mut i, b':')?;
      let om = num(b, &mut i, 2)?;
      Off::Num { neg: c == b'-', h: oh as u8, m: om as u8 }
    }
    _ => return None,
  };
  if i != b.len() {
    return None;
  }
  Some(Rec { y, mo, d, h, mi, s: sec, frac_len, sep, off })
}

#[derive(Debug, Clone, Copy, PartialEq)]
enum Class {
  /// upper-case designators, numeric offset other than -00:00, at most 9 fraction digits: acceptance is demanded when in range
  Canonical,
  /// RFC 3339 but with an optional feature (lower-case t/z, space separator, -00:00, >9 fraction digits): only the value is judged
  Lenient,
  /// second 60: Err or either adjacent second
  Leap,
  /// a field outside its range / not a calendar date: not an RFC 3339 string, not judged
  Invalid,
  /// separator other than T, t, space: not judged
  NonRfc,
  Unrecognised,
}
struct Expect {
  class: Class,
  /// floor of the denoted instant (for Leap: of the same string with second 59)
  instant: Option<i64>,
}
fn expectation(r: &Rec) -> Expect {
  let (off_ok, off_secs) = match r.off {
    Off::Num { neg, h, m } => (h <= 23 && m <= 59, (h as i64 * 3600 + m as i64 * 60) * if neg { -1 } else { 1 }),
    _ => (true, 0),
  };
  let fields_ok = (1..=12).contains(&r.mo) && r.d >= 1 && r.d <= dim(r.y, r.mo) && r.h <= 23 && r.mi <= 59 && off_ok;
  if !fields_ok || r.s > 60 {
    return Expect { class: Class::Invalid, instant: None };
  }
  if !matches!(r.sep, b'T' | b't' | b' ') {
    return Expect { class: Class::NonRfc, instant: None };
  }
  let at = |s: u32| civil_to_unix(r.y, r.mo, r.d, r.h, r.mi, s) - off_secs;
  if r.s == 60 {
    return Expect { class: Class::Leap, instant: Some(at(59)) };
  }
  let lenient = r.sep != b'T' || r.off == Off::LowerZ || r.off == (Off::Num { neg: true, h: 0, m: 0 }) || r.frac_len > 9;
  Expect { class: if lenient { Class::Lenient } else { Class::Canonical }, instant: Some(at(r.s)) }
}
fn in_range(u: i64) -> bool {
  (MIN..=MAX).contains(&u)
}

// ------------------------------------------------------------------ the parsing entry points
enum PR {
  Ok(Timestamp),
  Err,
  Panic(vx::Panicked),
}
const PATHS: [&str; 8] =
  ["parse", "from_str", "try_from<&str>", "try_from<String>", "deserialize", "deserialize(escaped)", "deserialize(value)", "deserialize(bytes)"];
/// JSON string literal in which every character is written as a \uXXXX escape (forces the owned branch of the deserialiser).
fn escaped_json(s: &str) -> String {
  const HEX: &[u8; 16] = b"0123456789abcdef";
  let mut o = String::with_capacity(2 + 6 * s.len());
  o.push('"');
  let mut buf = [0u16; 2];
  for c in s.chars() {
    for unit in c.encode_utf16(&mut buf) {
      o.push_str("\\u");
      for shift in [12u32, 8, 4, 0] {
        o.push(HEX[((*unit >> shift) & 15) as usize] as char);
      }
    }
  }
  o.push('"');
  o
}
/// The error text is made only when a violation needs it (`err_text`): most inputs are rejected, on eight entry points.
fn run_path(path: usize, s: &str) -> PR {
  match run_path_full(path, s) {
    Ok(Ok(t)) => PR::Ok(t),
    Ok(Err(_)) => PR::Err,
    Err(p) => PR::Panic(p),
  }
}
fn err_text(path: usize, s: &str) -> String {
  match run_path_full(path, s) {
    Ok(Err(e)) => e.to_string(),
    _ => "?".into(),
  }
}
fn run_path_full(path: usize, s: &str) -> Result<Result<Timestamp, identity_core::Error>, vx::Panicked> {
  match path {
    0 => guard(|| Timestamp::parse(s)),
    1 => guard(|| Timestamp::from_str(s)),
    2 => guard(|| Timestamp::try_from(s)),
    3 => guard(|| Timestamp::try_from(s.to_string())),
    4 => {
      let js = serde_json::to_string(s).expect("quote");
      guard(|| Timestamp::from_json(&js))
    }
    5 => {
      let js = escaped_json(s);
      guard(|| Timestamp::from_json(&js))
    }
    6 => {
      let v = serde_json::Value::String(s.to_string());
      guard(|| Timestamp::from_json_value(v))
    }
    _ => {
      let js = serde_json::to_vec(s).expect("quote");
      guard(|| Timestamp::from_json_slice(&js))
    }
  }
}
fn unix_of(t: &Timestamp) -> Result<i64, vx::Panicked> {
  guard(|| t.to_unix())
}

/// One formatting path judged on its text: `demand_canonical` (to_rfc3339, the documented RFC 3339 formatter) = the text is
/// a canonical whole-second UTC RFC 3339 string denoting `u`; every formatting path: parsing the text gives the value back.
fn judge_text(ctx: &Ctx, api: &str, text: &str, t: Timestamp, u: i64, demand_canonical: bool, case: &Case) {
  if demand_canonical {
    match recognise(text) {
      Some(r) if expectation(&r).class == Class::Canonical && r.frac_len == 0 && matches!(r.off, Off::Z | Off::Num { neg: false, h: 0, m: 0 }) => {
        if expectation(&r).instant != Some(u) {
          ctx.violation(&format!("Timestamp::{api}|denotes-other-instant"), &format!("to_unix {u} but formats as {text}"), case);
        }
      }
      _ => ctx.violation(&format!("Timestamp::{api}|not-canonical-utc-whole-seconds"), &format!("to_unix {u} formats as {text:?}"), case),
    }
  }
  match guard(|| Timestamp::parse(text)) {
    Ok(Ok(b)) if b == t => {}
    other => ctx.violation(
      &format!("Timestamp::parse({api})|not-identity"),
      &format!("{text:?} -> {}", match other {
        Ok(Ok(b)) => format!("unix {:?}", unix_of(&b).ok()),
        Ok(Err(e)) => format!("Err({e})"),
        Err(p) => format!("panic {}", p.msg),
      }),
      case,
    ),
  }
}

/// Clauses that hold for EVERY in-range value however it was obtained. `u` = its `to_unix()`.
fn check_value(ctx: &Ctx, t: Timestamp, u: i64, case: &Case) {
  let fmt = match guard(|| t.to_rfc3339()) {
    Ok(f) => f,
    Err(p) => return ctx.violation(&format!("Timestamp::to_rfc3339|{}", p.key()), &format!("value with unix second {u}: {}", p.msg), case),
  };
  judge_text(ctx, "to_rfc3339", &fmt, t, u, true, case);
  match guard(|| Timestamp::from_unix(u)) {
    Ok(Ok(b)) if b == t => {}
    other => ctx.violation(
      "Timestamp::from_unix(to_unix)|not-identity",
      &format!("unix {u} ({fmt}): {}", match other {
        Ok(Ok(_)) => "a different value (sub-second part kept?)".to_string(),
        Ok(Err(e)) => format!("Err({e})"),
        Err(p) => format!("panic {}", p.msg),
      }),
      case,
    ),
  }
  // JSON, three encodings
  let ok_s = matches!(guard(|| t.to_json().and_then(|js| Timestamp::from_json(&js))), Ok(Ok(b)) if b == t);
  let ok_v = matches!(guard(|| t.to_json_value().and_then(Timestamp::from_json_value)), Ok(Ok(b)) if b == t);
  let ok_b = matches!(guard(|| t.to_json_vec().and_then(|js| Timestamp::from_json_slice(&js))), Ok(Ok(b)) if b == t);
  if !(ok_s && ok_v && ok_b) {
    ctx.violation("Timestamp::from_json(to_json)|not-identity", &format!("{fmt}: string {ok_s} value {ok_v} bytes {ok_b}"), case);
  }
  // the other formatting paths: they must succeed; a text other than to_rfc3339's is not forbidden by the statement, it is
  // recorded and judged by format-then-parse only
  match guard(|| format!("{t}")) {
    Ok(d) if d == fmt => {}
    Ok(d) => {
      ctx.outcome("value:Display-differs-from-to_rfc3339 (judged by format-then-parse only)");
      judge_text(ctx, "Display", &d, t, u, false, case);
    }
    Err(p) => ctx.violation(&format!("Timestamp::Display|{}", p.key()), &p.msg, case),
  }
  match guard(|| String::from(t)) {
    Ok(d) if d == fmt => {}
    Ok(d) => {
      ctx.outcome("value:String::from-differs-from-to_rfc3339 (judged by format-then-parse only)");
      judge_text(ctx, "String::from", &d, t, u, false, case);
    }
    Err(p) => ctx.violation(&format!("String::from(Timestamp)|{}", p.key()), &p.msg, case),
  }
  if let Err(p) = guard(|| format!("{t:?}")) {
    ctx.violation(&format!("Timestamp::Debug|{}", p.key()), &p.msg, case);
  }
}

/// What one entry point did with one string, judged on its own.
struct Verdict {
  /// (outcome kind, value) used only to record whether the entry points agree
  sig: (u8, Option<i64>),
  label: String,
  /// (key is `Timestamp::<entry point>|<clause>` if true, else the clause is the whole key; clause; detail)
  viol: Vec<(bool, String, String)>,
  /// accepted in-range value
  value: Option<(Timestamp, i64)>,
}
fn judge_result(path: usize, r: &PR, s: &str, exp: &Expect, cls: &str, rng: &str) -> Verdict {
  let mut v = Verdict { sig: (0, None), label: String::new(), viol: Vec::new(), value: None };
  match r {
    PR::Panic(p) => {
      v.sig = (2, None);
      v.viol.push((true, p.key(), format!("{s:?} ({cls}{rng}): {} @ {}", p.msg, p.loc)));
      v.label = format!("PANIC:{cls}{rng}");
    }
    PR::Err => {
      v.sig = (1, None);
      if exp.class == Class::Canonical && exp.instant.map(in_range) == Some(true) {
        v.viol.push((true, "rejected|canonical-in-range".into(), format!("{s:?} denotes unix second {:?}: {}", exp.instant, err_text(path, s))));
      }
      v.label = format!("rejected:{cls}{rng}");
    }
    PR::Ok(t) => match unix_of(t) {
      Err(p) => {
        v.sig = (3, None);
        v.viol.push((false, format!("Timestamp::to_unix|{}", p.key()), format!("value parsed from {s:?}: {}", p.msg)));
        v.label = format!("accepted:{cls}{rng}:to_unix-PANIC");
      }
      Ok(u) if !in_range(u) => {
        v.sig = (3, Some(u));
        let side = if u < MIN { "below" } else { "above" };
        let f = match guard(|| t.to_rfc3339()) {
          Ok(f) => format!("formats as {f:?}"),
          Err(p) => format!("to_rfc3339 then panics: {} @ {}", p.msg, p.loc),
        };
        v.viol.push((true, format!("accepted|instant-{side}-range"), format!("{s:?} accepted with unix second {u}; {f}")));
        v.label = format!("accepted:{cls}{rng}:OUT-OF-RANGE-VALUE");
      }
      Ok(u) => {
        v.sig = (0, Some(u));
        match (exp.class, exp.instant) {
          (Class::Canonical | Class::Lenient, Some(e)) if e != u => {
            let k = if (e - u).abs() == 1 { "off-by-one-second" } else { "other" };
            v.viol.push((true, format!("wrong-instant|{k}"), format!("{s:?} denotes {e} (floor), parsed as {u}")));
          }
          (Class::Leap, Some(e)) if u != e && u != e + 1 => {
            v.viol.push((true, "wrong-instant|leap-second-not-adjacent".into(), format!("{s:?}: second 59 is {e}, parsed as {u}")));
          }
          _ => {}
        }
        v.value = Some((*t, u));
        v.label = format!("accepted:{cls}{rng}");
      }
    },
  }
  v
}

/// Judge one input string on every entry point, each on its own (an entry point may be stricter than `parse` on the
/// inputs whose acceptance the statement leaves open). A clause already reported for `parse` on this string is not
/// reported again under the name of another entry point (one defect, one key).
/// Returns the outcome label (without the part prefix).
fn judge_string(ctx: &Ctx, s: &str, exp: &Expect, case: &Case) -> String {
  let cls = match exp.class {
    Class::Canonical => "canonical",
    Class::Lenient => "lenient",
    Class::Leap => "leap-second",
    Class::Invalid => "invalid-field",
    Class::NonRfc => "other-separator",
    Class::Unrecognised => "not-rfc3339",
  };
  let rng = match exp.instant {
    Some(e) if e < MIN => "/below-range",
    Some(e) if e > MAX => "/above-range",
    Some(_) => "/in-range",
    None => "",
  };
  let v0 = judge_result(0, &run_path(0, s), s, exp, cls, rng);
  let mut seen: BTreeSet<&str> = BTreeSet::new();
  for (specific, clause, detail) in &v0.viol {
    let key = if *specific { format!("Timestamp::parse|{clause}") } else { clause.clone() };
    ctx.violation(&key, detail, case);
    seen.insert(clause);
  }
  if let Some((t, u)) = v0.value {
    check_value(ctx, t, u, case);
  }
  let mut differ = false;
  for path in 1..PATHS.len() {
    let v = judge_result(path, &run_path(path, s), s, exp, cls, rng);
    differ |= v.sig != v0.sig;
    for (specific, clause, detail) in &v.viol {
      if seen.contains(clause.as_str()) {
        continue;
      }
      let key = if *specific { format!("Timestamp::{}|{clause}", PATHS[path]) } else { clause.clone() };
      ctx.violation(&key, &format!("[{}] {detail}", PATHS[path]), case);
    }
    if let Some((t, u)) = v.value {
      if v0.value.map(|(t0, _)| t0 != t).unwrap_or(true) {
        check_value(ctx, t, u, case);
      }
    }
  }
  if differ {
    format!("{}+entry-points-differ(unjudged)", v0.label)
  } else {
    v0.label
  }
}

/// Constructors used by the ordering part: the same instant `u` reached in five ways.
const VIA: [&str; 5] = ["from_unix", "parse Z", "parse max offset", "parse fraction .999999999", "deserialize +00:00"];
fn build(u: i64, via: u8) -> Option<Timestamp> {
  let r = match via {
    0 => guard(|| Timestamp::from_unix(u).ok()),
    1 => {
      let s = format!("{}Z", civil_string(u));
      guard(|| Timestamp::parse(&s).ok())
    }
    2 => {
      let o = 23 * 3600 + 59 * 60;
      let s = if in_range(u + o) { format!("{}+23:59", civil_string(u + o)) } else { format!("{}-23:59", civil_string(u - o)) };
      guard(|| Timestamp::parse(&s).ok())
    }
    3 => {
      let s = format!("{}.999999999Z", civil_string(u));
      guard(|| Timestamp::parse(&s).ok())
    }
    _ => {
      let s = format!("\"{}+00:00\"", civil_string(u));
      guard(|| Timestamp::from_json(&s).ok())
    }
  };
  r.ok().flatten()
}

const UNIT_SECS: [i64; 5] = [1, 60, 3600, 86_400, 604_800];
const UNIT_NAME: [&str; 5] = ["seconds", "minutes", "hours", "days", "weeks"];
fn duration(unit: u8, n: u32) -> Duration {
  match unit {
    0 => Duration::seconds(n),
    1 => Duration::minutes(n),
    2 => Duration::hours(n),
    3 => Duration::days(n),
    _ => Duration::weeks(n),
  }
}

/// Counts at which a constructor written with a narrower type, a cast or a multiplication by a unit ratio would go wrong.
static BOUNDARY_COUNTS: Lazy<BTreeSet<u32>> = Lazy::new(|| {
  let mut ns: BTreeSet<u32> = [0u32, 1, 2, 59, 60, 61, 3599, 3600, 3601, 86_399, 86_400, 86_401, 604_800, u32::MAX - 1, u32::MAX].into_iter().collect();
  // ratios between the units (and to milli/micro seconds): n * k leaves u32 / i32 / u16 just above limit / k
  for k in [7u64, 24, 60, 168, 1000, 1440, 3600, 10_080, 86_400, 604_800, 1_000_000] {
    for lim in [u32::MAX as u64, i32::MAX as u64, u16::MAX as u64] {
      let q = (lim / k) as i64;
      for d in [-1i64, 0, 1, 2] {
        if let Ok(n) = u32::try_from(q + d) {
          ns.insert(n);
        }
      }
    }
  }
  for p in [7u32, 8, 15, 16, 24, 31] {
    let x = 1u32 << p;
    ns.extend([x - 1, x, x + 1]);
  }
  ns
});

enum Step {
  Panic,
  None,
  /// a violation was reported (result out of range / not the integer result)
  Wrong,
  Some(Timestamp, i64),
}
/// One `checked_add` / `checked_sub` on a value whose unix second is `cur`, judged by integer arithmetic.
fn step(ctx: &Ctx, b: Timestamp, cur: i64, sub: bool, unit: u8, n: u32, case: &Case) -> Step {
  let op = if sub { "checked_sub" } else { "checked_add" };
  let delta = n as i128 * UNIT_SECS[unit as usize] as i128;
  let want = cur as i128 + if sub { -delta } else { delta };
  let want_ok = want >= MIN as i128 && want <= MAX as i128;
  let dur = match guard(|| duration(unit, n)) {
    Ok(d) => d,
    Err(p) => {
      ctx.violation(&format!("Duration::{}|{}", UNIT_NAME[unit as usize], p.key()), &format!("n={n}: {}", p.msg), case);
      return Step::Panic;
    }
  };
  let what = || format!("{}Z {op} {}({n}): reference {want}", civil_string(cur), UNIT_NAME[unit as usize]);
  match guard(|| if sub { b.checked_sub(dur) } else { b.checked_add(dur) }) {
    Err(p) => {
      ctx.violation(&format!("Timestamp::{op}|{}", p.key()), &format!("{}: {}", what(), p.msg), case);
      Step::Panic
    }
    Ok(None) => {
      if want_ok {
        ctx.violation(&format!("Timestamp::{op}|None|result-in-range"), &what(), case);
        Step::Wrong
      } else {
        Step::None
      }
    }
    Ok(Some(t)) => match unix_of(&t) {
      Err(p) => {
        ctx.violation(&format!("Timestamp::to_unix|{}", p.key()), &p.msg, case);
        Step::Panic
      }
      Ok(u) => {
        if !want_ok {
          ctx.violation(&format!("Timestamp::{op}|Some|result-out-of-range"), &format!("{} got unix {u}", what()), case);
          Step::Wrong
        } else if u as i128 != want {
          ctx.violation(&format!("Timestamp::{op}|Some|wrong-result"), &format!("{} got unix {u}", what()), case);
          Step::Wrong
        } else {
          Step::Some(t, u)
        }
      }
    },
  }
}

fn judge(ctx: &Ctx, case: &Case, lo: &mut Local) {
  lo.evals += 1;
  match case {
    Case::Grid { dt, sep, frac, off } => {
      let s = format!("{:04}-{:02}-{:02}{}{:02}:{:02}:{:02}{}{}", dt[0], dt[1], dt[2], sep, dt[3], dt[4], dt[5], frac, off.text());
      let rec = Rec {
        y: dt[0] as i64,
        mo: dt[1] as u32,
        d: dt[2] as u32,
        h: dt[3] as u32,
        mi: dt[4] as u32,
        s: dt[5] as u32,
        frac_len: frac.len().saturating_sub(1),
        sep: *sep as u8,
        off: *off,
      };
      // machinery self-check: the recogniser used by the raw part reads back exactly the generated fields
      if recognise(&s).as_ref() != Some(&rec) {
        ctx.require(false, &format!("recogniser disagrees with the grid generator on {s:?}"));
      }
      let exp = expectation(&rec);
      let label = judge_string(ctx, &s, &exp, case);
      if label != "rejected:invalid-field" {
        let oh = match off {
          Off::Num { neg, h, .. } => (*neg, *h as i16),
          Off::Z => (false, 100),
          Off::LowerZ => (false, 101),
        };
        lo.distinct.push(Ctx::hash_of(&(1u8, dt, sep, oh, &label)));
      }
      lo.outcome(format!("grid:{label}"));
    }
    Case::Raw { s } => {
      let exp = match recognise(s) {
        Some(r) => expectation(&r),
        None => Expect { class: Class::Unrecognised, instant: None },
      };
      let label = judge_string(ctx, s, &exp, case);
      if label != "rejected:not-rfc3339" {
        lo.distinct.push(Ctx::hash_of(&(2u8, s)));
      }
      lo.outcome(format!("raw:{label}"));
    }
    Case::Unix { secs } => {
      let label = match guard(|| Timestamp::from_unix(*secs)) {
        Err(p) => {
          ctx.violation(&format!("Timestamp::from_unix|{}", p.key()), &format!("{secs}: {}", p.msg), case);
          "unix:PANIC"
        }
        Ok(Err(e)) => {
          if in_range(*secs) {
            ctx.violation("Timestamp::from_unix|rejected|in-range", &format!("{secs}: {e}"), case);
          }
          if *secs < MIN {
            "unix:rejected:below-range"
          } else {
            "unix:rejected:above-range"
          }
        }
        Ok(Ok(t)) => {
          if !in_range(*secs) {
            let side = if *secs < MIN { "below" } else { "above" };
            ctx.violation(&format!("Timestamp::from_unix|accepted|instant-{side}-range"), &format!("{secs}"), case);
            "unix:accepted:OUT-OF-RANGE"
          } else {
            match unix_of(&t) {
              Ok(u) if u == *secs => {
                check_value(ctx, t, u, case);
                // the text is exactly the civil date-time of the reference calendar
                if let Ok(f) = guard(|| t.to_rfc3339()) {
                  if recognise(&f).map(|r| (r.y, r.mo, r.d, r.h, r.mi, r.s)) != Some(unix_to_civil(u)) {
                    ctx.violation("Timestamp::to_rfc3339|denotes-other-instant", &format!("unix {u} formats as {f}, reference {}Z", civil_string(u)), case);
                  }
                }
              }
              Ok(u) => ctx.violation("Timestamp::to_unix(from_unix)|not-identity", &format!("{secs} -> {u}"), case),
              Err(p) => ctx.violation(&format!("Timestamp::to_unix|{}", p.key()), &p.msg, case),
            }
            "unix:accepted"
          }
        }
      };
      lo.distinct.push(Ctx::hash_of(&(3u8, (secs.saturating_add(1)).div_euclid(86_400), label)));
      lo.outcome(label.to_string());
    }
    Case::Arith { base, sub, unit, n } => {
      let Some(b) = build(*base, 0) else {
        lo.outcome("arith:base-not-constructible".into());
        return;
      };
      let label = match step(ctx, b, *base, *sub, *unit, *n, case) {
        Step::Panic => "arith:PANIC",
        Step::None => {
          if *sub {
            "arith:none-below-range"
          } else {
            "arith:none-above-range"
          }
        }
        Step::Wrong => "arith:some-WRONG",
        Step::Some(t, u) => {
          check_value(ctx, t, u, case);
          if *n == 0 {
            "arith:some-unchanged"
          } else {
            "arith:some"
          }
        }
      };
      // the counts of the complete sweeps are counted per 1024-bucket, boundary counts one by one
      let nk = if BOUNDARY_COUNTS.contains(n) { (0u8, *n) } else { (1u8, *n / 1024) };
      lo.distinct.push(Ctx::hash_of(&(4u8, base, sub, unit, nk)));
      lo.outcome(label.into());
    }
    Case::Compose { base, ops } => {
      let Some(mut t) = build(*base, 0) else {
        lo.outcome("compose:base-not-constructible".into());
        return;
      };
      let mut cur = *base;
      let mut done = 0usize;
      let mut end = "completed";
      for (sub, unit, n) in ops {
        match step(ctx, t, cur, *sub, *unit, *n, case) {
          Step::Panic => {
            end = "PANIC";
            break;
          }
          Step::Wrong => {
            end = "WRONG";
            break;
          }
          Step::None => {
            end = "left-the-range";
            break;
          }
          Step::Some(t2, u) => {
            t = t2;
            cur = u;
            done += 1;
          }
        }
      }
      if done > 0 {
        // the value reached by the whole history is an ordinary value (equal to from_unix of the integer result)
        check_value(ctx, t, cur, case);
      }
      if end == "completed" && cur == *base && !ops.is_empty() {
        end = "completed-back-at-the-base";
      }
      lo.distinct.push(Ctx::hash_of(&(6u8, base, ops)));
      lo.outcome(format!("compose:{} ops:{end}", ops.len()));
    }
    Case::DurJson { text, base, sub } => {
      let op = if *sub { "checked_sub" } else { "checked_add" };
      let Some(b) = build(*base, 0) else {
        lo.outcome("durjson:base-not-constructible".into());
        return;
      };
      // deserialising a Duration is outside the statement: executed and recorded only
      let d = match guard(|| Duration::from_json(text)) {
        Err(_) => {
          lo.outcome("durjson:duration-deserialiser-PANIC(unjudged)".into());
          return;
        }
        Ok(Err(_)) => {
          lo.outcome("durjson:duration-rejected".into());
          return;
        }
        Ok(Ok(d)) => d,
      };
      // whatever the duration is, the result is nothing or an ordinary in-range whole-second value
      let label = match guard(|| if *sub { b.checked_sub(d) } else { b.checked_add(d) }) {
        Err(p) => {
          ctx.violation(&format!("Timestamp::{op}|{}", p.key()), &format!("{}Z {op} Duration::from_json({text}): {}", civil_string(*base), p.msg), case);
          "durjson:PANIC"
        }
        Ok(None) => "durjson:none",
        Ok(Some(t)) => match unix_of(&t) {
          Err(p) => {
            ctx.violation(&format!("Timestamp::to_unix|{}", p.key()), &p.msg, case);
            "durjson:PANIC"
          }
          Ok(u) if !in_range(u) => {
            ctx.violation(&format!("Timestamp::{op}|Some|result-out-of-range"), &format!("{}Z {op} Duration::from_json({text}) got unix {u}", civil_string(*base)), case);
            "durjson:some-OUT-OF-RANGE"
          }
          Ok(u) => {
            check_value(ctx, t, u, case);
            if u == *base {
              "durjson:some-same-second"
            } else {
              "durjson:some-other-second"
            }
          }
        },
      };
      lo.distinct.push(Ctx::hash_of(&(7u8, text, base, sub)));
      lo.outcome(label.into());
    }
    Case::DurPair { a, b } => {
      let (Ok(da), Ok(db)) = (guard(|| duration(a.0, a.1)), guard(|| duration(b.0, b.1))) else {
        // a panicking constructor is judged by the arithmetic part
        lo.outcome("durpair:constructor-PANIC".into());
        return;
      };
      let sa = a.1 as i128 * UNIT_SECS[a.0 as usize] as i128;
      let sb = b.1 as i128 * UNIT_SECS[b.0 as usize] as i128;
      let hd = |d: &Duration| {
        let mut h = DefaultHasher::new();
        d.hash(&mut h);
        h.finish()
      };
      match guard(|| (da == db, da.cmp(&db), da.partial_cmp(&db), hd(&da) == hd(&db))) {
        Err(p) => ctx.violation(&format!("Duration::cmp|{}", p.key()), &p.msg, case),
        Ok((eq, ord, pord, heq)) => {
          // trait contracts only (Eq/Ord consistency, equal values hash equally); that equality follows the number of
          // seconds is not part of the statement and only recorded
          if eq != (ord == Ordering::Equal) || pord != Some(ord) {
            ctx.violation("Duration::cmp|inconsistent-with-eq", &format!("{a:?} vs {b:?}: == {eq}, cmp {ord:?}, partial_cmp {pord:?}"), case);
          }
          if eq && !heq {
            ctx.violation("Duration::hash|equal-values-hash-differently", &format!("{a:?} vs {b:?}"), case);
          }
          let mut label = if ord == sa.cmp(&sb) { "durpair:order-follows-seconds".to_string() } else { "durpair:order-DIFFERS-from-seconds(unjudged)".to_string() };
          if a == b {
            label.push_str(match guard(|| da.to_json().and_then(|js| Duration::from_json(&js))) {
              Ok(Ok(d2)) if d2 == da => "/json-round-trip-equal",
              Ok(Ok(_)) => "/json-round-trip-OTHER-VALUE(unjudged)",
              Ok(Err(_)) => "/json-round-trip-ERR(unjudged)",
              Err(_) => "/json-round-trip-PANIC(unjudged)",
            });
          }
          lo.outcome(label);
        }
      }
      lo.distinct.push(Ctx::hash_of(&(8u8, a, b)));
    }
    Case::Collections { pts } => {
      let mut vals: Vec<Timestamp> = Vec::new();
      for &u in pts.iter() {
        for via in 0..VIA.len() as u8 {
          if let Some(t) = build(u, via) {
            vals.push(t);
          }
        }
      }
      let want: BTreeSet<i64> = pts.iter().copied().collect();
      let got = guard(|| {
        let hs: HashSet<Timestamp> = vals.iter().copied().collect();
        let bs: BTreeSet<Timestamp> = vals.iter().copied().collect();
        let mut sorted = vals.clone();
        sorted.sort();
        let mut hs_u: Vec<i64> = hs.iter().map(|t| t.to_unix()).collect();
        hs_u.sort_unstable();
        (
          hs_u,
          bs.iter().map(|t| t.to_unix()).collect::<Vec<i64>>(),
          sorted.iter().map(|t| t.to_unix()).collect::<Vec<i64>>(),
          vals.iter().copied().min().map(|t| t.to_unix()),
          vals.iter().copied().max().map(|t| t.to_unix()),
        )
      });
      match got {
        Err(p) => ctx.violation(&format!("Timestamp::cmp|{}", p.key()), &p.msg, case),
        Ok((hs_u, bs_u, sorted_u, mn, mx)) => {
          // only meaningful if every operand was constructible (otherwise judged elsewhere)
          if vals.len() == pts.len() * VIA.len() {
            let w: Vec<i64> = want.iter().copied().collect();
            // a hash set and an ordered set of the same values have the same members (Hash consistent with Eq, Eq with Ord)
            if hs_u != bs_u {
              ctx.violation("Timestamp::hash|equal-values-hash-differently", &format!("HashSet of {} values over {} instants has {} members, BTreeSet {}", vals.len(), w.len(), hs_u.len(), bs_u.len()), case);
            }
            if bs_u != w || mn != w.first().copied() || mx != w.last().copied() || sorted_u.windows(2).any(|p| p[0] > p[1]) {
              ctx.violation("Timestamp::cmp|differs-from-unix-second-order", &format!("BTreeSet {} members (want {}), min {mn:?} max {mx:?}", bs_u.len(), w.len()), case);
            }
            lo.outcome("collections:judged".into());
          } else {
            lo.outcome("collections:operand-not-constructible".into());
          }
        }
      }
      lo.distinct.push(Ctx::hash_of(&(9u8, pts)));
    }
    Case::Now { secs } => {
      vx::fx::set_now(*secs);
      let r = guard(|| (Timestamp::now_utc(), Timestamp::default()));
      vx::fx::set_now(vx::fx::NOW);
      match r {
        Err(p) => {
          ctx.violation(&format!("Timestamp::now_utc|{}", p.key()), &format!("registered clock at {secs}: {}", p.msg), case);
          lo.outcome("now:PANIC".into());
        }
        Ok((now, dflt)) => {
          // documented in custom_time.rs: with the feature every user of now_utc gets the registered function's value
          match unix_of(&now) {
            Ok(u) if u == *secs => check_value(ctx, now, u, case),
            Ok(u) => ctx.violation("Timestamp::now_utc|differs-from-registered-clock", &format!("registered clock returns {secs}, now_utc() is {u}"), case),
            Err(p) => ctx.violation(&format!("Timestamp::to_unix|{}", p.key()), &p.msg, case),
          }
          // Default: an ordinary value; that it is "now" is not part of the statement (recorded)
          let l = match unix_of(&dflt) {
            Ok(u) if in_range(u) => {
              check_value(ctx, dflt, u, case);
              if dflt == now {
                "now:default-is-now"
              } else {
                "now:default-is-NOT-now(unjudged)"
              }
            }
            Ok(u) => {
              ctx.violation("Timestamp::default|value-out-of-range", &format!("unix {u}"), case);
              "now:default-OUT-OF-RANGE"
            }
            Err(p) => {
              ctx.violation(&format!("Timestamp::to_unix|{}", p.key()), &p.msg, case);
              "now:PANIC"
            }
          };
          lo.outcome(l.into());
        }
      }
      lo.distinct.push(Ctx::hash_of(&(10u8, secs)));
    }
    Case::Json { text } => {
      // three deserialising entry points on an arbitrary JSON text: nothing is demanded about acceptance; no panic, and an
      // accepted value is an ordinary in-range value. A text that is a plain JSON string is judged like its content.
      let mut kinds = Vec::new();
      for (name, r) in [
        ("from_json", guard(|| Timestamp::from_json(text).ok())),
        ("from_json_slice", guard(|| Timestamp::from_json_slice(text.as_bytes()).ok())),
        ("from_json_value", match serde_json::from_str::<serde_json::Value>(text) {
          Ok(v) => guard(|| Timestamp::from_json_value(v).ok()),
          Err(_) => Ok(None),
        }),
      ] {
        match r {
          Err(p) => {
            ctx.violation(&format!("Timestamp::deserialize|{}", p.key()), &format!("{name}({text:?}): {}", p.msg), case);
            kinds.push("PANIC");
          }
          Ok(None) => kinds.push("rejected"),
          Ok(Some(t)) => match unix_of(&t) {
            Err(p) => {
              ctx.violation(&format!("Timestamp::to_unix|{}", p.key()), &p.msg, case);
              kinds.push("PANIC");
            }
            Ok(u) if !in_range(u) => {
              let side = if u < MIN { "below" } else { "above" };
              ctx.violation(&format!("Timestamp::deserialize|accepted|instant-{side}-range"), &format!("{name}({text:?}) accepted with unix second {u}"), case);
              kinds.push("accepted-OUT-OF-RANGE");
            }
            Ok(u) => {
              check_value(ctx, t, u, case);
              kinds.push("accepted");
            }
          },
        }
      }
      if let Ok(content) = serde_json::from_str::<String>(text) {
        let exp = match recognise(&content) {
          Some(r) => expectation(&r),
          None => Expect { class: Class::Unrecognised, instant: None },
        };
        let l = judge_string(ctx, &content, &exp, case);
        kinds.push(if l.starts_with("accepted") { "content-accepted" } else { "content-rejected" });
      }
      kinds.dedup();
      lo.distinct.push(Ctx::hash_of(&(11u8, text)));
      lo.outcome(format!("json:{}", kinds.join("/")));
    }
    Case::Pair { a, b } => {
      let (Some(ta), Some(tb)) = (build(a.0, a.1), build(b.0, b.1)) else {
        // a constructor rejecting an in-range instant is judged by the grid / unix parts
        lo.outcome("order:operand-not-constructible".into());
        return;
      };
      let want = a.0.cmp(&b.0);
      let what = || format!("{}Z via {} vs {}Z via {}", civil_string(a.0), VIA[a.1 as usize], civil_string(b.0), VIA[b.1 as usize]);
      let ht = |t: &Timestamp| {
        let mut h = DefaultHasher::new();
        t.hash(&mut h);
        h.finish()
      };
      // Hash contract of the standard library: values that ARE equal (real `==`) hash equally. Whether `==` is right is judged
      // below; nothing is demanded for unequal values.
      match guard(|| (ta == tb, ht(&ta) == ht(&tb))) {
        Err(p) => ctx.violation(&format!("Timestamp::hash|{}", p.key()), &p.msg, case),
        Ok((true, false)) => ctx.violation("Timestamp::hash|equal-values-hash-differently", &what(), case),
        Ok(_) => {}
      }
      match guard(|| (ta.cmp(&tb), ta.partial_cmp(&tb), ta == tb, ta != tb, ta < tb, ta <= tb, ta > tb, ta >= tb, ta.to_unix().cmp(&tb.to_unix()))) {
        Err(p) => ctx.violation(&format!("Timestamp::cmp|{}", p.key()), &p.msg, case),
        Ok(got) => {
          let expect = (
            want,
            Some(want),
            want == Ordering::Equal,
            want != Ordering::Equal,
            want == Ordering::Less,
            want != Ordering::Greater,
            want == Ordering::Greater,
            want != Ordering::Less,
            want,
          );
          if got != expect {
            let k = if got.8 != want { "Timestamp::to_unix|order-differs-from-reference" } else { "Timestamp::cmp|differs-from-unix-second-order" };
            ctx.violation(k, &format!("{}: got {got:?}, want {expect:?}", what()), case);
          }
        }
      }
      lo.distinct.push(Ctx::hash_of(&(5u8, a, b)));
      lo.outcome(
        match want {
          Ordering::Less => "order:less",
          Ordering::Equal => "order:equal",
          Ordering::Greater => "order:greater",
        }
        .into(),
      );
    }
  }
}

fn eval(ctx: &Ctx, case: &Case) {
  let mut lo = Local::default();
  judge(ctx, case, &mut lo);
  lo.flush(ctx);
}

/// Evaluate a slice of cases in parallel, chunk-local histograms.
fn run_cases(ctx: &Ctx, part: &str, cases: &[Case]) {
  run_items(ctx, part, cases, |c| c.clone());
}
/// Same, for compact items from which the case is made on the fly (keeps memory small for the big sweeps).
fn run_items<T: Sync>(ctx: &Ctx, part: &str, items: &[T], mk: impl Fn(&T) -> Case + Sync) {
  for c in items.iter().step_by((items.len() / 3).max(1)).take(3) {
    ctx.sample(part, &mk(c));
  }
  items.par_chunks(512).for_each(|chunk| {
    let mut lo = Local::default();
    for c in chunk {
      judge(ctx, &mk(c), &mut lo);
    }
    lo.flush(ctx);
  });
  let n = items.len() as u64;
  ctx.add_states(n);
  ctx.add_transitions(n);
  ctx.add_traces(n);
}

/// Same, for the cases `mk(0) .. mk(n-1)` made on the fly (nothing of size n is ever held in memory).
fn run_range(ctx: &Ctx, part: &str, n: u64, mk: impl Fn(u64) -> Case + Sync) {
  if n == 0 {
    return;
  }
  for i in [0, n / 2, n - 1] {
    ctx.sample(part, &mk(i));
  }
  const CHUNK: u64 = 2048;
  (0..n.div_ceil(CHUNK)).into_par_iter().for_each(|c| {
    let mut lo = Local::default();
    for i in c * CHUNK..n.min((c + 1) * CHUNK) {
      judge(ctx, &mk(i), &mut lo);
    }
    lo.flush(ctx);
  });
  ctx.add_states(n);
  ctx.add_transitions(n);
  ctx.add_traces(n);
}

// ------------------------------------------------------------------ enumeration
fn all_offsets() -> Vec<Off> {
  let mut v = vec![Off::Z, Off::LowerZ];
  for neg in [false, true] {
    for h in 0..=23u8 {
      for m in 0..=59u8 {
        v.push(Off::Num { neg, h, m });
      }
    }
  }
  // out-of-range offsets (not RFC 3339): executed, judged only by the clauses that hold for every accepted value
  for (neg, h, m) in [(false, 24, 0), (true, 24, 0), (false, 0, 60), (true, 0, 60), (false, 23, 60), (false, 99, 99)] {
    v.push(Off::Num { neg, h, m });
  }
  v
}
fn fractions(full: bool) -> Vec<String> {
  let mut v = vec![String::new()];
  if full {
    for d in ['0', '9'] {
      for len in 1..=9 {
        v.push(format!(".{}", d.to_string().repeat(len)));
      }
    }
    v.extend([".5", ".000000001", ".123456789", ".0000000000", ".9999999999", ".999999999999"].map(String::from));
  } else {
    v.extend([".0", ".9", ".5", ".000000000", ".999999999", ".000000001", ".9999999999"].map(String::from));
  }
  v
}
const VALID_DT: [[u16; 6]; 27] = [
  [0, 1, 1, 0, 0, 0],
  [0, 1, 1, 0, 0, 1],
  [0, 1, 1, 0, 0, 60],
  [0, 1, 1, 23, 59, 59],
  [0, 1, 2, 0, 0, 0],
  [0, 12, 31, 23, 59, 59],
  [1, 1, 1, 0, 0, 0],
  [1969, 12, 31, 23, 59, 59],
  [1970, 1, 1, 0, 0, 0],
  [2000, 2, 29, 12, 0, 0],
  [2000, 2, 29, 23, 59, 59],
  [2000, 3, 1, 0, 0, 0],
  [2015, 6, 30, 23, 59, 60],
  [2016, 12, 31, 23, 59, 60],
  [2023, 6, 15, 12, 30, 60],
  [2100, 2, 28, 23, 59, 59],
  [2100, 3, 1, 0, 0, 0],
  [9998, 12, 31, 23, 59, 59],
  [9999, 1, 1, 0, 0, 0],
  [9999, 12, 30, 23, 59, 59],
  [9999, 12, 31, 0, 0, 0],
  [9999, 12, 31, 0, 0, 1],
  [9999, 12, 31, 12, 0, 0],
  [9999, 12, 31, 23, 59, 0],
  [9999, 12, 31, 23, 59, 58],
  [9999, 12, 31, 23, 59, 59],
  [9999, 12, 31, 23, 59, 60],
];
const INVALID_DT: [[u16; 6]; 14] = [
  [2023, 0, 10, 12, 0, 0],
  [2023, 13, 1, 12, 0, 0],
  [2023, 1, 0, 12, 0, 0],
  [2023, 1, 32, 12, 0, 0],
  [2023, 2, 29, 12, 0, 0],
  [2023, 2, 30, 12, 0, 0],
  [1900, 2, 29, 12, 0, 0],
  [2100, 2, 29, 0, 0, 0],
  [2023, 4, 31, 12, 0, 0],
  [2023, 6, 15, 24, 0, 0],
  [2023, 6, 15, 12, 60, 0],
  [2023, 6, 15, 12, 0, 61],
  [9999, 12, 31, 24, 0, 0],
  [0, 0, 0, 0, 0, 0],
];

fn grid(ctx: &Ctx, part: &str, dts: &[[u16; 6]], seps: &[char], offs: &[Off], fracs: &[String]) -> u64 {
  // work item = (date-time, separator, chunk of offsets); inner loops over offsets and fractions
  let mut items = Vec::new();
  for dt in dts {
    for sep in seps {
      for chunk in offs.chunks(48) {
        items.push((*dt, *sep, chunk));
      }
    }
  }
  ctx.sample(part, &Case::Grid { dt: dts[0], sep: seps[0], frac: fracs[fracs.len() - 1].clone(), off: offs[offs.len() / 2] });
  ctx.sample(part, &Case::Grid { dt: dts[dts.len() - 1], sep: seps[seps.len() - 1], frac: fracs[0].clone(), off: offs[offs.len() / 3] });
  items.par_iter().for_each(|(dt, sep, chunk)| {
    let mut lo = Local::default();
    for off in chunk.iter() {
      for frac in fracs {
        judge(ctx, &Case::Grid { dt: *dt, sep: *sep, frac: frac.clone(), off: *off }, &mut lo);
      }
    }
    lo.flush(ctx);
  });
  let n = (dts.len() * seps.len() * offs.len() * fracs.len()) as u64;
  ctx.add_states(n);
  ctx.add_transitions(n);
  ctx.add_traces(n);
  ctx.part(part, json!({"engine":"E1 full product","date_times": dts.len(), "separators": seps.len(), "offsets": offs.len(), "fractions": fracs.len(), "cases": n}));
  n
}

const EDIT_ALPHABET: [char; 22] = ['0', '1', '2', '3', '4', '5', '6', '7', '8', '9', 'T', 't', 'Z', 'z', '+', '-', ':', '.', ' ', '_', 'X', 'é'];
/// All strings at edit distance exactly one step (substitution, insertion, deletion over the alphabet) from `s`.
fn edits1(s: &str) -> BTreeSet<String> {
  let cs: Vec<char> = s.chars().collect();
  let mut out = BTreeSet::new();
  for i in 0..cs.len() {
    let mut del = cs.clone();
    del.remove(i);
    out.insert(del.iter().collect());
    for a in EDIT_ALPHABET {
      let mut sub = cs.clone();
      sub[i] = a;
      out.insert(sub.iter().collect());
    }
  }
  for i in 0..=cs.len() {
    for a in EDIT_ALPHABET {
      let mut ins = cs.clone();
      ins.insert(i, a);
      out.insert(ins.iter().collect());
    }
  }
  out
}
/// All strings obtained from `s` by substituting two positions (alphabet x alphabet).
fn subst2(s: &str) -> BTreeSet<String> {
  let cs: Vec<char> = s.chars().collect();
  let mut out = BTreeSet::new();
  for i in 0..cs.len() {
    for j in i + 1..cs.len() {
      for a in EDIT_ALPHABET {
        for b in EDIT_ALPHABET {
          let mut m = cs.clone();
          m[i] = a;
          m[j] = b;
          out.insert(m.iter().collect());
        }
      }
    }
  }
  out
}

fn generate(ctx: &Ctx) {
  ctx.rule("complete products: (a) date-time x separator x offset x fraction strings on 5 parsing entry points; (b) all 1-edit (thorough: 2-edit) neighbours of seed strings; (c) from_unix on complete second windows + all month/day boundaries; (d) checked_add/sub base x unit x count table, all operation sequences up to the length bound over a 30-op alphabet from 9 bases, serde-made durations x bases x {add,sub}, all ordered pairs of 60 durations; (e) all ordered pairs of boundary values x 5 constructors, the same values in hash/ordered collections; (f) now_utc/Default for every clock value of a boundary set; (g) a list of JSON texts on the 3 deserialising entry points. distinct_nontrivial = distinct (date-time, separator, offset sign+hour, outcome) of grid cases other than rejected invalid fields + distinct raw strings other than rejected non-RFC-3339 + distinct (UTC day, outcome) of the from_unix seconds + distinct arithmetic cases (counts outside the boundary table counted per 1024-bucket) + distinct operation sequences, duration texts x base x op, duration pairs, ordered pairs, clock values, JSON texts");
  ctx.assume("serde_json string quoting is trusted for building the deserialisation inputs; the calendar of the `time` crate is NOT trusted (reference = table of year starts built from the Gregorian leap rule)");
  // self-test of the reference calendar on the two constants documented on from_unix and two anchors
  ctx.require(civil_to_unix(0, 1, 1, 0, 0, 0) == MIN, "reference calendar: 0000-01-01T00:00:00Z != -62167219200");
  ctx.require(civil_to_unix(9999, 12, 31, 23, 59, 59) == MAX, "reference calendar: 9999-12-31T23:59:59Z != 253402300799");
  ctx.require(civil_to_unix(1970, 1, 1, 0, 0, 0) == 0 && civil_to_unix(2000, 3, 1, 0, 0, 0) == 951_868_800, "reference calendar anchors");
  ctx.require(unix_to_civil(MAX) == (9999, 12, 31, 23, 59, 59) && unix_to_civil(MIN) == (0, 1, 1, 0, 0, 0) && unix_to_civil(951_868_799) == (2000, 2, 29, 23, 59, 59), "reference calendar inverse");

  // ---- (a) grid
  let offs = all_offsets();
  let mut base_dts: Vec<[u16; 6]> = VALID_DT.to_vec();
  base_dts.extend(INVALID_DT);
  grid(ctx, "grid base (sep T, every offset, 25 fraction shapes)", &base_dts, &['T'], &offs, &fractions(true));
  let few_offs: Vec<Off> = [
    Off::Z,
    Off::LowerZ,
    Off::Num { neg: false, h: 0, m: 0 },
    Off::Num { neg: true, h: 0, m: 0 },
    Off::Num { neg: false, h: 0, m: 1 },
    Off::Num { neg: true, h: 0, m: 1 },
    Off::Num { neg: false, h: 23, m: 59 },
    Off::Num { neg: true, h: 23, m: 59 },
    Off::Num { neg: false, h: 5, m: 30 },
    Off::Num { neg: true, h: 8, m: 0 },
  ]
  .to_vec();
  grid(ctx, "grid separators (t, space, _, X, 0, :, -, +, .)", &VALID_DT, &['t', ' ', '_', 'X', '0', ':', '-', '+', '.'], &few_offs, &fractions(false));
  if ctx.thorough() {
    // every first/last day of every month of 24 years x 7 times of day x every offset x 8 fractions
    let mut dts = Vec::new();
    for y in [0u16, 1, 4, 100, 400, 1582, 1600, 1899, 1900, 1969, 1970, 1972, 2000, 2016, 2023, 2024, 2038, 2100, 2400, 5000, 9996, 9997, 9998, 9999] {
      for mo in 1..=12u16 {
        for d in [1u16, dim(y as i64, mo as u32) as u16] {
          for (h, mi, s) in [(0u16, 0u16, 0u16), (0, 0, 1), (11, 59, 59), (12, 0, 0), (23, 59, 58), (23, 59, 59), (23, 59, 60)] {
            dts.push([y, mo, d, h, mi, s]);
          }
        }
      }
    }
    ctx.bound("grid_wide_date_times", dts.len());
    grid(ctx, "grid wide (24 years x month ends x 7 times, every offset, 8 fraction shapes)", &dts, &['T'], &offs, &fractions(false));
  }

  // ---- (b) raw edits
  let seeds = [
    "2000-02-29T12:34:56Z",
    "9999-12-31T23:59:59.5+00:00",
    "0000-01-01T00:00:00-00:01",
    "2016-12-31T23:59:60Z",
    "1969-12-31T23:59:59.999999999-23:59",
  ];
  let mut raw_total = 0usize;
  for (k, s) in seeds.iter().enumerate() {
    // one neighbourhood at a time (memory): seed, all 1-edit neighbours, thorough: all 2-edit neighbours of the two 20-character seeds
    let mut set: BTreeSet<String> = edits1(s);
    if ctx.thorough() && s.len() == 20 {
      let e1: Vec<String> = set.iter().cloned().collect();
      for m in &e1 {
        set.extend(edits1(m));
      }
    }
    if k == 0 || (k == 2 && ctx.thorough()) {
      set.extend(subst2(s));
    }
    set.insert(s.to_string());
    let cases: Vec<Case> = set.into_iter().map(|s| Case::Raw { s }).collect();
    raw_total += cases.len();
    run_cases(ctx, "raw edits", &cases);
  }
  let mut raw: BTreeSet<String> = BTreeSet::new();
  // hand-picked shapes outside the edit neighbourhoods
  for s in [
    "", "Z", "T", "2000", "2000-01-01", "2000-01-01T00:00:00", "10000-01-01T00:00:00Z", "-0001-12-31T23:59:59Z", "+2000-01-01T00:00:00Z", "999-12-31T23:59:59Z",
    "2000-1-01T00:00:00Z", "2000-01-01T0:00:00Z", "2000-01-01T00:00Z", "2000-01-01T00:00:00.Z", "2000-01-01T00:00:00,5Z", "2000-01-01T00:00:00+0000",
    "2000-01-01T00:00:00+00", "2000-01-01T00:00:00+00:00:00", "2000-01-01T00:00:00 Z", " 2000-01-01T00:00:00Z", "2000-01-01T00:00:00Z ", "2000-01-01T00:00:00ZZ",
    "2000-01-01T00:00:00\u{2212}01:00", "２０００-01-01T00:00:00Z", "2000-01-01T00:00:00Z\n", "2000-01-01T00:00:00Z\0", "2000-01-01T24:00:00Z", "2000-01-01T00:00:00-24:00",
    "9999-12-31T23:59:60-00:01", "0000-01-01T00:00:00.999999999+00:01", "0000-12-31T23:59:60+23:59",
  ] {
    raw.insert(s.to_string());
  }
  let raw: Vec<Case> = raw.into_iter().map(|s| Case::Raw { s }).collect();
  run_cases(ctx, "raw shapes", &raw);
  ctx.part("raw edits", json!({"engine":"E1 complete edit neighbourhoods","seeds": seeds, "alphabet": EDIT_ALPHABET.iter().collect::<String>(), "strings": raw_total, "hand_picked_shapes": raw.len(),
    "neighbourhoods": ctx.by_tier("1 edit of every seed; 2 substitutions of seed 0", "1 edit of every seed; <=2 edits of the two 20-character seeds; 2 substitutions of seeds 0 and 2")}));

  // ---- (c) from_unix
  let w = ctx.by_tier(2_000i64, 100_000);
  let mut secs: Vec<i64> = Vec::new();
  for centre in [MIN, MAX, 0, 951_868_800, i32::MAX as i64, i32::MIN as i64, u32::MAX as i64] {
    secs.extend(centre - w..=centre + w);
  }
  // i64 ends, the limits of `time` with and without large dates, +-10 each
  for centre in [i64::MIN + 10, i64::MAX - 10, -377_705_116_800, 253_402_300_800, -377_705_116_800 - 86_400, -31_619_119_219_200, 31_494_784_780_799] {
    secs.extend(centre - 10..=centre + 10);
  }
  for y in 0..=9999i64 {
    for mo in 1..=12u32 {
      let days: Vec<u32> = if ctx.quick() { vec![1] } else { (1..=dim(y, mo)).collect() };
      for d in days {
        let u = civil_to_unix(y, mo, d, 0, 0, 0);
        secs.extend([u - 1, u, u + 1]);
      }
    }
  }
  secs.sort_unstable();
  secs.dedup();
  let unix = secs;
  run_items(ctx, "from_unix", &unix, |s| Case::Unix { secs: *s });
  ctx.part("from_unix", json!({"cases": unix.len(), "window_around_ends_and_epoch": w, "boundaries": ctx.by_tier("every month start of years 0000..9999, +-1 s", "every day start of years 0000..9999, +-1 s")}));

  // ---- (d) arithmetic
  let bases: Vec<i64> = vec![
    MIN, MIN + 1, MIN + 59, MIN + 60, MIN + 3599, MIN + 3600, MIN + 86_399, MIN + 86_400, MIN + 604_800, -86_400, -1, 0, 1, 951_782_400, 1_483_228_799, 1_700_000_000,
    MAX - 604_800, MAX - 86_400, MAX - 86_399, MAX - 3600, MAX - 3599, MAX - 60, MAX - 59, MAX - 1, MAX,
  ];
  let mut arith: Vec<(i64, bool, u8, u32)> = Vec::new();
  for &base in &bases {
    for sub in [false, true] {
      for unit in 0..5u8 {
        let mut ns: BTreeSet<u32> = BOUNDARY_COUNTS.clone();
        // the exact distance to the range end in this direction, in units, -1 / +0 / +1 / +2
        let dist = if sub { base - MIN } else { MAX - base };
        let q = dist / UNIT_SECS[unit as usize];
        for k in [q - 1, q, q + 1, q + 2] {
          if let Ok(n) = u32::try_from(k) {
            ns.insert(n);
          }
        }
        if ctx.thorough() && unit <= 1 {
          ns.extend(0..=100_000u32);
        }
        for n in ns {
          arith.push((base, sub, unit, n));
        }
      }
    }
  }
  run_items(ctx, "checked_add/checked_sub", &arith, |&(base, sub, unit, n)| Case::Arith { base, sub, unit, n });
  ctx.part("checked_add/checked_sub", json!({"cases": arith.len(), "bases": bases.len(), "units": UNIT_NAME, "boundary_counts": BOUNDARY_COUNTS.len()}));
  {
    // complete sweeps: every count whose result can be in range (+ a margin of 1000 beyond), counted away from a range end.
    // quick: weeks from both ends; thorough: weeks and days from two bases at each end, hours from both ends.
    let span = MAX - MIN;
    let ends: Vec<(i64, bool)> = vec![(MIN, false), (MAX, true)];
    let ends4: Vec<(i64, bool)> = vec![(MIN, false), (MAX, true), (MIN + 1, false), (MAX - 86_399, true)];
    let plan: Vec<(u8, &Vec<(i64, bool)>)> = if ctx.quick() { vec![(4, &ends)] } else { vec![(4, &ends4), (3, &ends4), (2, &ends)] };
    let mut swept = 0u64;
    for (unit, froms) in plan {
      let top = (span / UNIT_SECS[unit as usize]) as u64 + 1000;
      for &(base, sub) in froms.iter() {
        run_range(ctx, "checked_add/checked_sub complete sweeps", top + 1, |n| Case::Arith { base, sub, unit, n: n as u32 });
        swept += top + 1;
      }
      ctx.bound(&format!("sweep_{}", UNIT_NAME[unit as usize]), format!("every n in 0..={top} from {} bases", froms.len()));
    }
    ctx.part("checked_add/checked_sub complete sweeps", json!({"cases": swept}));
  }

  // ---- (d2) operation sequences (a+b-b, a+b+c, ...): every sequence over the op alphabet, from every base
  let durs: Vec<(u8, u32)> = vec![
    (0, 0), (0, 1), (0, 59), (1, 1), (2, 1), (2, 24), (3, 1), (3, 365), (4, 1), (4, 52), (0, u32::MAX), (1, u32::MAX), (2, 87_658_127), (3, 3_652_424), (4, 521_774),
  ];
  let ops: Vec<(bool, u8, u32)> = durs.iter().flat_map(|&(u, n)| [(false, u, n), (true, u, n)]).collect();
  let cbases: Vec<i64> = vec![MIN, MIN + 1, -1, 0, 1, 1_700_000_000, (MIN + MAX) / 2, MAX - 1, MAX];
  let depth = ctx.by_tier(3usize, 4);
  let mut total = 0u64;
  for len in 1..=depth {
    let per_base = (ops.len() as u64).pow(len as u32);
    let n = per_base * cbases.len() as u64;
    total += n;
    let (ops, cbases) = (&ops, &cbases);
    run_range(ctx, "operation sequences", n, move |i| {
      let base = cbases[(i / per_base) as usize];
      let mut r = i % per_base;
      let mut seq = Vec::with_capacity(len);
      for _ in 0..len {
        seq.push(ops[(r % ops.len() as u64) as usize]);
        r /= ops.len() as u64;
      }
      Case::Compose { base, ops: seq }
    });
  }
  ctx.part("operation sequences", json!({"bases": cbases.len(), "op_alphabet": ops.len(), "max_length": depth, "cases": total}));
  ctx.bound("operation_sequence_length", depth);

  // ---- (d3) durations that only serde can make
  let mut dtexts: BTreeSet<String> = BTreeSet::new();
  for t in [
    "\"0.000000000\"", "\"0.5\"", "\"0.500000000\"", "\"0.999999999\"", "\"1.000000001\"", "\"-0.000000001\"", "\"-0.5\"", "\"-1.000000000\"", "\"-1.500000000\"",
    "\"59.999999999\"", "\"4294967295.999999999\"", "\"315569519999.000000000\"", "\"315569519999.999999999\"", "\"315569520000.000000000\"", "\"-315569519999.999999999\"",
    "\"9223372036854775807.999999999\"", "\"-9223372036854775808.999999999\"", "\"1.9999999999\"", "\"1\"", "\"1.\"", "\".5\"",
    "[0,0]", "[0,1]", "[0,500000000]", "[0,999999999]", "[0,-1]", "[-1,0]", "[-1,-500000000]", "[1,-1]", "[-1,1]", "[0,1000000000]", "[0,2147483647]", "[0,-2147483648]",
    "[9223372036854775807,999999999]", "[-9223372036854775808,-999999999]", "[315569519999,999999999]", "[315569520000,0]", "[1]", "[]", "[1,2,3]",
    "1", "1.5", "-1", "null", "{}", "{\"secs\":1,\"nanos\":0}", "\"PT1S\"",
  ] {
    dtexts.insert(t.to_string());
  }
  // and the library's own encoding of constructor-made durations (whatever it is)
  for (unit, n) in [(0u8, 0u32), (0, 1), (0, u32::MAX), (1, 1), (1, u32::MAX), (2, 1), (2, u32::MAX), (3, 1), (3, 3_652_424), (3, u32::MAX), (4, 1), (4, 521_774), (4, u32::MAX)] {
    if let Ok(Ok(js)) = guard(|| duration(unit, n).to_json()) {
      dtexts.insert(js);
    }
  }
  let mut dj = Vec::new();
  for t in &dtexts {
    for base in [MIN, MIN + 1, -1, 0, 1_700_000_000, MAX - 1, MAX] {
      for sub in [false, true] {
        dj.push(Case::DurJson { text: t.clone(), base, sub });
      }
    }
  }
  run_cases(ctx, "deserialised durations", &dj);
  ctx.part("deserialised durations", json!({"texts": dtexts.len(), "cases": dj.len(), "judged": "no panic in checked_add/sub; a result is an ordinary in-range whole-second value"}));
  let dvals: Vec<(u8, u32)> = (0..5u8).flat_map(|u| [0u32, 1, 7, 24, 60, 168, 1440, 3600, 10_080, 86_400, 604_800, u32::MAX].map(move |n| (u, n))).collect();
  let mut dp = Vec::new();
  for &a in &dvals {
    for &b in &dvals {
      dp.push(Case::DurPair { a, b });
    }
  }
  run_cases(ctx, "duration pairs", &dp);
  ctx.part("duration pairs", json!({"values": dvals.len(), "ordered_pairs": dp.len(), "judged": "Eq/Ord consistency and the Hash contract only"}));

  // ---- (e) ordering
  let pts: Vec<i64> = vec![MIN, MIN + 1, MIN + 86_399, MIN + 86_400, -1, 0, 1, 951_868_799, 951_868_800, 1_483_228_799, MAX - 86_400, MAX - 86_399, MAX - 1, MAX];
  let vals: Vec<(i64, u8)> = pts.iter().flat_map(|&u| (0..VIA.len() as u8).map(move |v| (u, v))).collect();
  let mut pairs = Vec::new();
  for &a in &vals {
    for &b in &vals {
      pairs.push(Case::Pair { a, b });
    }
  }
  run_cases(ctx, "ordering", &pairs);
  ctx.part("ordering", json!({"values": vals.len(), "ordered_pairs": pairs.len(), "constructors": VIA, "judged": "cmp, partial_cmp, ==, !=, <, <=, >, >=, Hash contract"}));
  let mut rev = pts.clone();
  rev.reverse();
  run_cases(ctx, "collections", &[Case::Collections { pts: pts.clone() }, Case::Collections { pts: rev }, Case::Collections { pts: vec![MAX, MIN, 0] }]);

  // ---- (f) owned clock
  let mut nows: BTreeSet<i64> = [MIN, MIN + 1, MIN + 86_399, MIN + 86_400, -1, 0, 1, 951_868_799, 951_868_800, vx::fx::NOW, i32::MAX as i64, i32::MAX as i64 + 1, u32::MAX as i64, u32::MAX as i64 + 1, MAX - 86_400, MAX - 1, MAX]
    .into_iter()
    .collect();
  for y in (0..=9999i64).step_by(ctx.by_tier(100, 1)) {
    let u = civil_to_unix(y, 1, 1, 0, 0, 0);
    nows.extend([u, u + 1]);
    if y > 0 {
      nows.insert(u - 1);
    }
  }
  let nows: Vec<Case> = nows.into_iter().map(|secs| Case::Now { secs }).collect();
  run_cases(ctx, "now_utc under the owned clock", &nows);
  ctx.part("now_utc under the owned clock", json!({"clock_values": nows.len()}));

  // ---- (g) JSON texts that are not a plain string
  let jtexts = [
    "null", "true", "false", "0", "1", "-1", "1700000000", "-62167219200", "-62167219201", "253402300799", "253402300800", "1.7e9", "1700000000.5", "9223372036854775807",
    "-9223372036854775808", "18446744073709551615", "1e400", "[]", "[\"2000-01-01T00:00:00Z\"]", "[1700000000]", "[2000,1,0,0,0,0,0,0,0]", "{}", "{\"0\":\"2000-01-01T00:00:00Z\"}",
    "\"\"", "\" \"", " \"2000-01-01T00:00:00Z\" ", "\n\"2000-01-01T00:00:00Z\"\n", "\"2000-01-01T00:00:00Z\"x", "\"2000-01-01T00:00:00Z\"\"\"", "\"2000-01-01T00:00:00Z", "2000-01-01T00:00:00Z",
    "\"\\u0032000-01-01T00:00:00Z\"", "\"2000-01-01T00:00:00\\u005a\"", "\"2000-01-01T00:00:00\\u007a\"", "\"2000-01-01\\u0054\\u0030\\u0030:00:00Z\"", "\"2000-01-01\\t00:00:00Z\"", "\"2000-01-01T00:00:00Z\\n\"",
    "\"2000-01-01T00:00:00Z\\u0000\"", "\"\\ud800\"", "\"\\ud83d\\ude00\"", "\"9999-12-31T23:59:59\\u002d00:01\"", "\"0000-01-01T00:00:00\\u002b00:01\"", "\"9999-12-31T23:59:60\\u005a\"",
    "\"0000-01-01T00:00:00.999999999\\u002d00:00\"", "\"2000-01-01T00:00:00Z\" , 1", "",
  ];
  let jt: Vec<Case> = jtexts.iter().map(|t| Case::Json { text: t.to_string() }).collect();
  run_cases(ctx, "json texts", &jt);
  ctx.part("json texts", json!({"texts": jt.len(), "entry_points": ["from_json", "from_json_slice", "from_json_value"]}));

  ctx.bound("offsets", "every +-hh:mm with hh<=23, mm<=59 (2880) + Z + z + 6 out-of-range offsets");
  ctx.bound("fraction_shapes_base", fractions(true));
  ctx.bound("fraction_shapes_other", fractions(false));
  ctx.bound("base_date_times", base_dts.len());
  ctx.bound("durations", "5 constructors x boundary counts: (u32|i32|u16)::MAX / k -1..+2 for k in {7,24,60,168,1000,1440,3600,10080,86400,604800,10^6}, 2^p -1..+1, small unit edges, u32::MAX-1, u32::MAX, the exact distance to the range end -1..+2 + every week count up to the span of the range + 1000 from both range ends (thorough: seconds and minutes 0..=100000 from every base, every hour, day and week count up to the span of the range + 1000)");
  ctx.bound("boundary_counts", BOUNDARY_COUNTS.iter().copied().collect::<Vec<u32>>());
  ctx.bound("range", [MIN, MAX]);
}

fn main() {
  vx::run_main::<Case, _, _>("C13", Level::ModelChecking, generate, eval)
}
