//! C03 — JWT presentation validation binds the token to the holder document.
//!
//! E1 (choice-sequence DFS, deviation-bounded) over `JwtPresentationValidator::validate` with the real
//! EdDSA verifier. Every token is hand-assembled JSON signed by the harness (`vx::fx::compact_ed`), because
//! the library cannot emit the inconsistent / out-of-range claim sets.
//!
//! Worlds: six holder documents with id H = did:ex4mple:holder (choice point "holder document"); the key of a
//! method is fixed by its fragment: a1 key 0, g2 key 1, g3 key 2, f4 key 3, s5 key 4, k7 key 5, d8 key 6, i9 key 7,
//! x6 has no JWK (publicKeyMultibase); key 9 belongs to nobody.
//!   D0 "rich"    a1 embedded in `authentication`; g2 general + referenced from `authentication`; g3 general only;
//!                f4 general with a FOREIGN id did:ex4mple:other#f4 (recorded, not judged); s5 embedded in
//!                `assertionMethod`; x6 general; k7 embedded in `keyAgreement`; d8 embedded in `capabilityDelegation`;
//!                i9 general + referenced from `capabilityInvocation`; a dangling reference H#gone in `assertionMethod`;
//!                document `controller` and `alsoKnownAs` = did:ex4mple:other (must not make iss = other acceptable)
//!   D1 "minimal" a1 embedded in `authentication`, nothing else
//!   D2 "moved"   the same fragments in other places and in reverse order: a1 general + referenced from
//!                `assertionMethod`; g2 general + `assertionMethod`; g3 general + `authentication`; i9 general +
//!                `capabilityDelegation`; s5 embedded in `keyAgreement`; k7, d8 embedded in `capabilityInvocation`
//!   D3..D5 "shared fragment": the holder's own H#m0 (key 8) and a foreign did:ex4mple:other#m0 (key 10), plus a1:
//!                D3 verificationMethod [other#m0, H#m0], H#m0 referenced from `authentication`, other#m0 from
//!                `capabilityDelegation`; D4 the reverse order, other#m0 referenced from `assertionMethod`;
//!                D5 H#m0 embedded in `authentication`, other#m0 general + `assertionMethod`.
//!                kid = full id names exactly one of them (judged exactly; signature alternative "key of the
//!                same-fragment twin"); kid = bare `m0` is ambiguous (open)
//!
//! Oracle (written from the property statement, not from the implementation): from the choices the set E of
//! FALSE stated conditions {sig, key, kid, nonce, iss, exp, issuance, vp.holder, vp.id} and the set O of OPEN
//! aspects (alternatives the statement leaves undecided) are computed.
//!   safety   : accepted  =>  E = {}                                   (every case)
//!   returned : accepted  =>  presentation / aud / dates / custom claims equal what was signed (every case)
//!   liveness : E = {} and O = {}  =>  accepted
//!   blame    : rejected  =>  every reported error whose variant has a documented meaning is of a class that may
//!              blame a member of E or be produced by a member of O (the sets are generous: every variant whose
//!              documentation is compatible with the false condition; variants the check does not know and an empty
//!              error list are recorded, not judged)
//! Parts: the deviation-bounded exploration over all 20 choice points (quick <= 3, thorough <= 4 deviations), two
//! condition lattices (each stated condition true / false in every combination), the complete products of the
//! groups (binding core incl. nonce^2 and the three documents, dates, claims, misc) and of the pairs dates x claims,
//! claims x misc, and (thorough) binding core without nonces x claims, dates x misc, nonce^2 x claims, with all other
//! points at their default.

use identity_core::common::{Object, Timestamp};
use identity_core::convert::FromJson;
use identity_credential::credential::Jwt;
use identity_credential::validator::{
  DecodedJwtPresentation, JwtPresentationValidationOptions, JwtPresentationValidator, JwtValidationError,
};
use identity_did::DIDUrl;
use identity_document::document::CoreDocument;
use identity_document::verifiable::JwsVerificationOptions;
use identity_verification::jose::error::Error as JoseError;
use identity_verification::MethodScope;
use once_cell::sync::Lazy;
use serde::{Deserialize, Serialize};
use serde_json::{Map, Value};
use std::collections::{BTreeMap, HashSet};
use std::sync::Mutex;
use vx::choice::{self, Chooser};
use vx::fx::{self, EdKey, RealVerifier};
use vx::{guard, json, Ctx, Level};

const H: &str = "did:ex4mple:holder";
// a foreign DID that EXTENDS the holder DID by one character (so that a prefix comparison of DIDs confuses the two)
const OTHER: &str = "did:ex4mple:holder2";
/// 9999-12-31T23:59:59Z and 0000-01-01T00:00:00Z
const MAX_TS: i64 = 253_402_300_799;
const MIN_TS: i64 = -62_167_219_200;
/// explicit `earliest_expiry_date` / `latest_issuance_date` (different from the clock so that the default is observable)
const EXP_BOUND: i64 = fx::NOW + 5_000;
const ISS_BOUND: i64 = fx::NOW - 5_000;
const ENTRY: &str = "JwtPresentationValidator::validate";

// groups of choice points
const G_BIND: u8 = 1;
const G_DATES: u8 = 2;
const G_CLAIMS: u8 = 4;
const G_MISC: u8 = 8;
/// header nonce x option nonce (split from the binding core so that the core can be multiplied with other groups)
const G_NONCE: u8 = 64;
const G_ALL: u8 = 15 | G_NONCE;
/// lattice mode: every stated condition true / false (one canonical falsifier each), all 2^k combinations
const G_LATTICE: u8 = 16;
const G_VARIANT_B: u8 = 32;

#[derive(Serialize, Deserialize, Debug, Clone)]
struct Case {
  /// bitmask of active choice-point groups (inactive points take their default and are not asked)
  groups: u8,
  /// the choice sequence (later points default to 0)
  seq: Vec<u32>,
}

// relationships of a method (bit set)
const R_AUTH: u8 = 1;
const R_ASSERT: u8 = 2;
const R_KA: u8 = 4;
const R_CD: u8 = 8;
const R_CI: u8 = 16;

struct Method {
  id: String,
  frag: &'static str,
  key: Option<usize>,
  /// listed in `verificationMethod`
  general: bool,
  /// relationships it is embedded in or referenced from
  rels: u8,
  foreign: bool,
}

struct World {
  doc: CoreDocument,
  methods: Vec<Method>,
}

struct Fixture {
  keys: Vec<EdKey>,
  worlds: Vec<World>,
  validator: JwtPresentationValidator<RealVerifier>,
}

/// the key of a method is fixed by its fragment
fn key_of(frag: &str, did: &str) -> Option<usize> {
  match frag {
    // the shared fragment of D3..D5: the holder's own method and its foreign twin have different keys
    "m0" => Some(if did == H { 8 } else { 10 }),
    "a1" => Some(0),
    "g2" => Some(1),
    "g3" => Some(2),
    "f4" => Some(3),
    "s5" => Some(4),
    "k7" => Some(5),
    "d8" => Some(6),
    "i9" => Some(7),
    _ => None,
  }
}

static FIX: Lazy<Fixture> = Lazy::new(|| {
  let keys: Vec<EdKey> = (0..11u8).map(EdKey::new).collect();
  let m = |frag: &'static str, did: &str, general: bool, rels: u8| Method {
    id: format!("{did}#{frag}"),
    frag,
    key: key_of(frag, did),
    general,
    rels,
    foreign: did != H,
  };
  // the JSON of a method (embedded or general)
  let mj = |frag: &str, did: &str| -> Value {
    let id = format!("{did}#{frag}");
    match key_of(frag, did) {
      Some(k) => json!({"id": id, "controller": did, "type": "JsonWebKey2020",
                        "publicKeyJwk": serde_json::to_value(keys[k].public_with_alg("EdDSA")).expect("jwk json")}),
      None => json!({"id": id, "controller": did, "type": "Ed25519VerificationKey2018",
                     "publicKeyMultibase": "zH3C2AVvLMv6gmMNam3uVAjZpfkcJCwDwnZn6z3wXmqPV"}),
    }
  };
  let r = |frag: &str| format!("{H}#{frag}");
  let build = |doc_json: Value, methods: Vec<Method>| {
    // D0 carries a dangling reference (H#gone); should the constructor ever refuse such documents, the same
    // document without it is used (the model does not depend on it: H#gone names no method either way)
    let mut plain = doc_json.clone();
    if let Some(a) = plain.get_mut("assertionMethod").and_then(|v| v.as_array_mut()) {
      a.retain(|v| v.as_str().map(|s| !s.ends_with("#gone")).unwrap_or(true));
    }
    let doc = CoreDocument::from_json_value(doc_json).or_else(|_| CoreDocument::from_json_value(plain)).expect("holder document");
    World { doc, methods }
  };
  // D0 rich
  let d0 = build(
    json!({
      "id": H,
      "controller": OTHER,
      "alsoKnownAs": [OTHER],
      "verificationMethod": [ mj("g2", H), mj("g3", H), mj("f4", OTHER), mj("x6", H), mj("i9", H) ],
      "authentication": [ mj("a1", H), r("g2") ],
      "assertionMethod": [ mj("s5", H), r("gone") ],
      "keyAgreement": [ mj("k7", H) ],
      "capabilityDelegation": [ mj("d8", H) ],
      "capabilityInvocation": [ r("i9") ],
    }),
    vec![
      m("a1", H, false, R_AUTH),
      m("g2", H, true, R_AUTH),
      m("g3", H, true, 0),
      m("f4", OTHER, true, 0),
      m("s5", H, false, R_ASSERT),
      m("x6", H, true, 0),
      m("k7", H, false, R_KA),
      m("d8", H, false, R_CD),
      m("i9", H, true, R_CI),
    ],
  );
  // D1 minimal
  let d1 = build(json!({"id": H, "authentication": [ mj("a1", H) ]}), vec![m("a1", H, false, R_AUTH)]);
  // D2 moved / reordered
  let d2 = build(
    json!({
      "id": H,
      "verificationMethod": [ mj("x6", H), mj("f4", OTHER), mj("i9", H), mj("g3", H), mj("g2", H), mj("a1", H) ],
      "authentication": [ r("g3") ],
      "assertionMethod": [ r("g2"), r("a1") ],
      "keyAgreement": [ mj("s5", H) ],
      "capabilityDelegation": [ r("i9") ],
      "capabilityInvocation": [ mj("d8", H), mj("k7", H) ],
    }),
    vec![
      m("a1", H, true, R_ASSERT),
      m("g2", H, true, R_ASSERT),
      m("g3", H, true, R_AUTH),
      m("f4", OTHER, true, 0),
      m("s5", H, false, R_KA),
      m("x6", H, true, 0),
      m("k7", H, false, R_CI),
      m("d8", H, false, R_CI),
      m("i9", H, true, R_CD),
    ],
  );
  // D3..D5: two methods share the fragment m0 under different DIDs
  let d3 = build(
    json!({
      "id": H,
      "verificationMethod": [ mj("m0", OTHER), mj("m0", H) ],
      "authentication": [ mj("a1", H), r("m0") ],
      "capabilityDelegation": [ format!("{OTHER}#m0") ],
    }),
    vec![m("a1", H, false, R_AUTH), m("m0", H, true, R_AUTH), m("m0", OTHER, true, R_CD)],
  );
  let d4 = build(
    json!({
      "id": H,
      "verificationMethod": [ mj("m0", H), mj("m0", OTHER) ],
      "authentication": [ r("m0"), mj("a1", H) ],
      "assertionMethod": [ format!("{OTHER}#m0") ],
    }),
    vec![m("a1", H, false, R_AUTH), m("m0", H, true, R_AUTH), m("m0", OTHER, true, R_ASSERT)],
  );
  let d5 = build(
    json!({
      "id": H,
      "verificationMethod": [ mj("m0", OTHER) ],
      "authentication": [ mj("a1", H), mj("m0", H) ],
      "assertionMethod": [ format!("{OTHER}#m0") ],
    }),
    vec![m("a1", H, false, R_AUTH), m("m0", H, false, R_AUTH), m("m0", OTHER, true, R_ASSERT)],
  );
  let worlds = vec![d0, d1, d2, d3, d4, d5];
  Fixture { keys, worlds, validator: JwtPresentationValidator::with_signature_verifier(RealVerifier) }
});

// ---------------------------------------------------------------- cheap per-thread accumulation
struct Acc {
  shards: Vec<Mutex<(BTreeMap<String, u64>, HashSet<u64>)>>,
}
impl Acc {
  fn new() -> Acc {
    let n = vx::rayon::current_num_threads() + 1;
    Acc { shards: (0..n).map(|_| Mutex::new((BTreeMap::new(), HashSet::new()))).collect() }
  }
  fn shard(&self) -> &Mutex<(BTreeMap<String, u64>, HashSet<u64>)> {
    let i = vx::rayon::current_thread_index().map(|i| i + 1).unwrap_or(0);
    &self.shards[i % self.shards.len()]
  }
  fn outcome(&self, label: String) {
    *self.shard().lock().unwrap().0.entry(label).or_insert(0) += 1;
  }
  fn distinct(&self, h: u64) {
    self.shard().lock().unwrap().1.insert(h);
  }
  fn flush(&self, ctx: &Ctx) {
    for s in &self.shards {
      let mut g = s.lock().unwrap();
      ctx.outcomes_merge(&g.0);
      ctx.distinct_many(g.1.drain());
      g.0.clear();
    }
  }
}

// ---------------------------------------------------------------- oracle bookkeeping
/// canonical order of the stated conditions (used for keys)
const COND_ORDER: [&str; 9] = ["sig", "key", "kid", "nonce", "iss", "exp", "issuance", "vp.holder", "vp.id"];

#[derive(Default)]
struct Expect {
  /// false condition -> (witness class for the key, error classes that legitimately blame it)
  e: BTreeMap<&'static str, (&'static str, Vec<&'static str>)>,
  /// open aspects
  /// open aspect -> error classes it may legitimately produce
  o: BTreeMap<&'static str, &'static [&'static str]>,
}
impl Expect {
  fn fail(&mut self, cond: &'static str, class: &'static str, legit: &[&'static str]) {
    self.e.insert(cond, (class, legit.to_vec()));
  }
  fn e_key(&self) -> String {
    COND_ORDER
      .iter()
      .filter_map(|c| self.e.get(c).map(|(class, _)| if class.is_empty() { c.to_string() } else { format!("{c}:{class}") }))
      .collect::<Vec<_>>()
      .join("+")
  }
}

/// Error classes. A class carries the documented meaning of the variant; variants this check does not know
/// (the enums are `non_exhaustive`) fall into `other` / `Jws:other`, which are recorded and never judged.
fn classify(err: &JwtValidationError) -> &'static str {
  match err {
    JwtValidationError::PresentationJwsError(e) => match e {
      identity_document::Error::MethodNotFound => "Jws:MethodNotFound",
      identity_document::Error::InvalidKeyMaterial(_) => "Jws:InvalidKeyMaterial",
      identity_document::Error::JwsVerificationError(j) => match j {
        JoseError::SignatureVerificationError(_) => "Jws:signature",
        JoseError::InvalidParam(_) | JoseError::MissingParam(_) => "Jws:param",
        _ => "Jws:decode",
      },
      _ => "Jws:other",
    },
    JwtValidationError::JwsDecodingError(_) => "JwsDecodingError",
    JwtValidationError::Signature { .. } => "Signature",
    JwtValidationError::MethodDataLookupError { .. } => "MethodDataLookupError",
    JwtValidationError::MissingPresentationHolder => "MissingPresentationHolder",
    JwtValidationError::PresentationStructure(_) => "PresentationStructure",
    JwtValidationError::SignerUrl { .. } => "SignerUrl",
    JwtValidationError::DocumentMismatch { .. } => "DocumentMismatch",
    JwtValidationError::ExpirationDate => "ExpirationDate",
    JwtValidationError::IssuanceDate => "IssuanceDate",
    _ => "other",
  }
}
fn unjudged_class(c: &str) -> bool {
  c == "other" || c == "Jws:other"
}

// Error classes whose documented meaning is compatible with the false condition. The statement ties no condition
// to one particular variant, so the sets are generous; what they exclude is an error that names a condition that
// holds (ExpirationDate for a token whose only fault is the nonce, DocumentMismatch for a bad signature, ...).
const L_KID: &[&str] = &["Jws:MethodNotFound", "Jws:param", "Jws:decode", "JwsDecodingError", "Signature", "MethodDataLookupError"];
const L_KEY: &[&str] = &["Jws:InvalidKeyMaterial", "Jws:signature", "Jws:param", "Signature", "MethodDataLookupError"];
const L_SIG: &[&str] = &["Jws:signature", "Signature"];
const L_JWS_ANY: &[&str] =
  &["Jws:MethodNotFound", "Jws:InvalidKeyMaterial", "Jws:signature", "Jws:param", "Jws:decode", "JwsDecodingError", "Signature", "MethodDataLookupError"];
const L_NONCE: &[&str] = &["Jws:param", "Jws:decode", "JwsDecodingError", "Signature"];
const L_EXP: &[&str] = &["ExpirationDate"];
const L_EXP_RANGE: &[&str] = &["ExpirationDate", "PresentationStructure"];
const L_ISSUANCE: &[&str] = &["IssuanceDate"];
const L_ISSUANCE_RANGE: &[&str] = &["IssuanceDate", "PresentationStructure"];
const L_ISS_OTHER_DID: &[&str] = &["DocumentMismatch"];
const L_ISS_NOT_DID: &[&str] = &["SignerUrl", "DocumentMismatch", "PresentationStructure"];
const L_ISS_ABSENT: &[&str] = &["PresentationStructure", "MissingPresentationHolder", "SignerUrl", "DocumentMismatch"];
const L_VP: &[&str] = &["PresentationStructure"];

/// A choice point of group `g` with `n` alternatives. In lattice mode the point offers only the default and
/// one canonical falsifier of "its" condition (`lat_a` / `lat_b` = the two falsifier variants); points that
/// carry no stated condition have an empty map and stay at the default.
fn pt(ch: &mut Chooser, groups: u8, g: u8, label: &'static str, n: usize, lat_a: &[usize], lat_b: &[usize]) -> usize {
  if groups & G_LATTICE != 0 {
    let map = if groups & G_VARIANT_B != 0 { lat_b } else { lat_a };
    if map.is_empty() {
      0
    } else {
      let c = ch.choose(label, map.len() + 1);
      if c == 0 {
        0
      } else {
        map[c - 1]
      }
    }
  } else if groups & g != 0 {
    ch.choose(label, n)
  } else {
    0
  }
}

/// One case: build token + options from the choices, run the real validator, judge.
fn body(ctx: &Ctx, acc: &Acc, groups: u8, ch: &mut Chooser) {
  let fix: &Fixture = &FIX;
  let mut x = Expect::default();

  // ------------------------------------------------------------ binding core
  let world_c = pt(ch, groups, G_BIND, "holder document", 6, &[], &[]);
  let sig_c = pt(ch, groups, G_BIND, "signature", 5, &[2], &[1]);
  let kid_c = pt(ch, groups, G_BIND, "kid", 26, &[8, 11], &[10, 9]);
  let ovr_c = pt(ch, groups, G_BIND, "method_id", 8, &[], &[]);
  let scope_c = pt(ch, groups, G_BIND, "method_scope", 7, &[], &[2]);
  let hnonce_c = pt(ch, groups, G_NONCE, "header nonce", 5, &[1], &[]);
  let ononce_c = pt(ch, groups, G_NONCE, "option nonce", 5, &[], &[2]);
  let w: &World = &fix.worlds[world_c];

  // did:ex4mple:holdes has the length of H and differs in the last character only
  const H_SAME_LEN: &str = "did:ex4mple:holdes";
  let kid: Option<String> = match kid_c {
    0 => Some(format!("{H}#a1")),
    1 => Some("a1".into()),
    2 => Some("#a1".into()),
    3 => Some(format!("{H}#g2")),
    4 => Some(format!("{H}#g3")),
    5 => Some(format!("{H}#s5")),
    6 => Some(format!("{OTHER}#f4")),
    7 => Some("f4".into()),
    8 => Some(format!("{H}#nope")),
    9 => Some(format!("{OTHER}#a1")),
    10 => None,
    11 => Some(format!("{H}#x6")),
    12 => Some(format!("{H}?versionId=1#a1")),
    13 => Some(format!("{H}#k7")),
    14 => Some(format!("{H}#d8")),
    15 => Some(format!("{H}#i9")),
    16 => Some(String::new()),
    17 => Some("A1".into()),
    18 => Some("a".into()),
    19 => Some(format!("{H_SAME_LEN}#a1")),
    20 => Some(H.into()),
    21 => Some(format!("{H}#gone")),
    22 => Some(format!("{H}#a1x")),
    23 => Some(format!("{H}#m0")),
    24 => Some(format!("{OTHER}#m0")),
    _ => Some("m0".into()),
  };
  let override_id: Option<String> = match ovr_c {
    0 => None,
    1 => Some(format!("{H}#a1")),
    2 => Some(format!("{H}#g3")),
    3 => Some(format!("{OTHER}#f4")),
    4 => Some(format!("{H}#nope")),
    5 => Some(format!("{H_SAME_LEN}#a1")),
    6 => Some(format!("{H}#k7")),
    _ => Some(format!("{H}#m0")),
  };
  // "If unset, the kid of the JWS is used": the configured method id wins.
  let selector: Option<String> = override_id.clone().or(kid.clone());
  let mut sel_for_model = selector.clone();
  if override_id.is_none() && kid_c == 12 {
    // a full id carrying a query: whether that "is" the id of a1 is left open; modelled as a1 and marked open
    x.o.insert("kid-with-query", L_KID);
    sel_for_model = Some(format!("{H}#a1"));
  }
  let in_scope = |m: &Method| match scope_c {
    0 => true,
    1 => m.rels & R_AUTH != 0,
    2 => m.rels & R_ASSERT != 0,
    3 => m.general,
    4 => m.rels & R_KA != 0,
    5 => m.rels & R_CD != 0,
    _ => m.rels & R_CI != 0,
  };
  // selection by full id, by fragment, or by '#' + fragment. In D3..D5 the fragment m0 is shared by the holder's
  // own method and a foreign one: a full id still names exactly one method (judged exactly); a fragment-only
  // selector on a shared fragment is ambiguous and left open.
  let names = |m: &Method, s: &str| s == m.id || s == m.frag || s.strip_prefix('#') == Some(m.frag);
  let shared: Vec<&Method> = match sel_for_model.as_deref() {
    Some(s) if !s.starts_with("did:") => w.methods.iter().filter(|m| names(m, s)).collect(),
    _ => Vec::new(),
  };
  let ambiguous = shared.len() > 1;
  let candidate: Option<&Method> = sel_for_model.as_deref().and_then(|s| {
    let mut hits = w.methods.iter().filter(|m| in_scope(m) && names(m, s));
    let first = hits.next();
    // (ambiguous selectors only) prefer the holder's own method as the modelled choice
    first.filter(|m| !m.foreign).or_else(|| hits.find(|m| !m.foreign)).or(first)
  });
  if ambiguous {
    x.o.insert("ambiguous-fragment", L_JWS_ANY);
  }
  match candidate {
    None => x.fail("kid", if selector.is_none() { "absent" } else { "no-method-in-scope" }, L_KID),
    Some(m) => {
      if m.foreign {
        x.o.insert("foreign-did-method", L_JWS_ANY);
      }
      if !m.general && m.rels == R_KA {
        // a key listed for key agreement only: that it must be usable for verifying a signature is not stated
        x.o.insert("key-agreement-only-method", L_JWS_ANY);
      }
      if m.key.is_none() {
        x.fail("key", "method-without-jwk", L_KEY);
      }
    }
  }
  // The signing key: the chosen method's. When no method may be chosen (unknown, out of scope, under another DID,
  // wrong case), the token is signed with the key of the method the selector "nearly" names - the same id ignoring
  // scope, else the same fragment ignoring DID, scope and ASCII case - so that a lookup that wrongly finds that
  // method ends in acceptance.
  let near: Option<&Method> = selector.as_deref().and_then(|s| {
    let frag = s.rsplit('#').next().unwrap_or(s);
    w.methods.iter().find(|m| m.id == s).or_else(|| w.methods.iter().find(|m| m.frag.eq_ignore_ascii_case(frag)))
  });
  let base: Option<&Method> = candidate.or(near);
  let right_key: usize = base.and_then(|m| m.key).unwrap_or(0);
  // the method with the same fragment under another DID, if the document has one
  let twin: Option<&Method> = base.and_then(|b| w.methods.iter().find(|m| m.frag == b.frag && m.id != b.id));
  let sign_key: usize = match sig_c {
    0 | 3 => right_key,
    1 => {
      if right_key == 2 {
        0
      } else {
        2
      }
    }
    2 => 9,
    _ => twin.and_then(|m| m.key).unwrap_or(9),
  };
  // with an ambiguous selector a signature under the key of any method sharing the fragment is not judged false
  let sig_by_sharing_method = ambiguous && sig_c != 3 && shared.iter().any(|m| m.key == Some(sign_key));
  if sig_c != 0 && candidate.map(|m| m.key.is_some()).unwrap_or(false) && !sig_by_sharing_method {
    x.fail("sig", ["", "other-method-of-holder", "foreign-key", "payload-replaced", "same-fragment-twin-key"][sig_c], L_SIG);
  }
  let nonce_of = |c: usize| match c {
    0 => None,
    1 => Some("nonce-1"),
    2 => Some("nonce-2"),
    3 => Some(""),
    _ => Some("nonce-1x"),
  };
  let (hnonce, ononce) = (nonce_of(hnonce_c), nonce_of(ononce_c));
  if hnonce != ononce {
    if hnonce.unwrap_or("").is_empty() && ononce.unwrap_or("").is_empty() {
      // an empty nonce on one side, none on the other: whether that "matches" is left open
      x.o.insert("nonce-empty-vs-absent", L_NONCE);
    } else {
      let class = if hnonce.is_none() {
        "header-absent"
      } else if ononce.is_none() {
        "option-absent"
      } else if hnonce_c.min(ononce_c) == 1 && hnonce_c.max(ononce_c) == 4 {
        // "nonce-1" against "nonce-1x"
        "prefix"
      } else {
        "different"
      };
      x.fail("nonce", class, L_NONCE);
    }
  }

  // ------------------------------------------------------------ dates
  let exp_c = pt(ch, groups, G_DATES, "exp", 10, &[3], &[7]);
  let expopt_c = pt(ch, groups, G_DATES, "earliest_expiry_date", 2, &[], &[1]);
  let nbf_c = pt(ch, groups, G_DATES, "nbf", 9, &[3], &[1]);
  let iat_c = pt(ch, groups, G_DATES, "iat", 5, &[], &[3]);
  let issopt_c = pt(ch, groups, G_DATES, "latest_issuance_date", 2, &[], &[1]);
  let bx = if expopt_c == 0 { EXP_BOUND } else { fx::NOW };
  let bl = if issopt_c == 0 { ISS_BOUND } else { fx::NOW };
  // exp as it goes into the JSON, and as an integer when it is one
  let (exp_json, exp_int): (Option<Value>, Option<i64>) = match exp_c {
    0 => (Some(json!(bx + 1000)), Some(bx + 1000)),
    1 => (None, None),
    2 => (Some(json!(bx)), Some(bx)),
    3 => (Some(json!(bx - 1)), Some(bx - 1)),
    4 => (Some(json!(bx + 1)), Some(bx + 1)),
    5 => (Some(json!(MAX_TS)), Some(MAX_TS)),
    6 => (Some(json!(MAX_TS + 1)), Some(MAX_TS + 1)),
    7 => (Some(json!(MIN_TS - 1)), Some(MIN_TS - 1)),
    8 => (Some(json!(bx as f64 + 1000.5)), None),
    _ => (Some(json!(i64::MAX)), Some(i64::MAX)),
  };
  match exp_int {
    Some(e) if e < bx => {
      let legit: &[&str] = if e < MIN_TS { L_EXP_RANGE } else { L_EXP };
      x.fail("exp", if e < MIN_TS { "below-year-0" } else { "before-bound" }, legit);
    }
    Some(e) if e > MAX_TS => {
      // later than the bound, but not a representable date: whether it is accepted is not stated here (C07)
      x.o.insert("exp-after-year-9999", L_EXP_RANGE);
    }
    None if exp_json.is_some() => {
      x.o.insert("exp-non-integer", L_EXP_RANGE);
    }
    _ => {}
  }
  let nbf: Option<i64> = match nbf_c {
    0 => Some(bl - 1000),
    1 => None,
    2 => Some(bl),
    3 => Some(bl + 1),
    4 => Some(bl - 1),
    5 => Some(MAX_TS + 1),
    6 => Some(MIN_TS),
    7 => Some(MIN_TS - 1),
    _ => Some(i64::MIN),
  };
  let iat: Option<i64> = match iat_c {
    0 => None,
    1 => Some(bl - 2000),
    2 => Some(bl),
    3 => Some(bl + 1),
    _ => Some(MAX_TS + 1),
  };
  // issuance time: nbf represents issuanceDate (VC data model 1.1 §6.3.1); iat is the fallback.
  let issuance: Option<i64> = nbf.or(iat);
  if let Some(t) = issuance {
    if t > bl {
      let legit: &[&str] = if t > MAX_TS { L_ISSUANCE_RANGE } else { L_ISSUANCE };
      let class = match (nbf.is_some(), iat.is_some()) {
        (true, true) => "nbf-over-iat",
        (true, false) => "nbf",
        _ => "iat",
      };
      x.fail("issuance", class, legit);
    } else if t < MIN_TS {
      x.o.insert("issuance-below-year-0", L_ISSUANCE_RANGE);
    }
  }
  if let (Some(_), Some(i)) = (nbf, iat) {
    if i > bl {
      // nbf decides; an iat that alone would not pass is left open for liveness
      x.o.insert("iat-after-bound-beside-nbf", L_ISSUANCE_RANGE);
    }
  }

  // ------------------------------------------------------------ claims
  let iss_c = pt(ch, groups, G_CLAIMS, "iss", 12, &[1], &[2]);
  let vph_c = pt(ch, groups, G_CLAIMS, "vp.holder", 4, &[2], &[2]);
  let id_c = pt(ch, groups, G_CLAIMS, "jti/vp.id", 5, &[3], &[4]);
  let iss: Option<&str> = match iss_c {
    0 => Some(H),
    1 => Some(OTHER),
    2 => Some("https://holder.example/profile"),
    3 => Some("did:ex4mple:holder#a1"),
    4 => Some("holder"),
    5 => None,
    6 => Some("did:ex4mple:holderx"),
    7 => Some("did:ex4mple:holde"),
    8 => Some("did:other:holder"),
    9 => Some("did:ex4mple:Holder"),
    10 => Some("did:ex4mple:holder?versionId=1"),
    _ => Some("did:ex4mple:holder/path"),
  };
  match iss_c {
    0 => {}
    // a well-formed DID that is not the id of the holder document (OTHER is also its controller and alsoKnownAs)
    1 | 6 | 7 | 8 | 9 => x.fail("iss", "other-did", L_ISS_OTHER_DID),
    2 => x.fail("iss", "url-not-did", L_ISS_NOT_DID),
    3 => x.fail("iss", "did-url-with-fragment", L_ISS_NOT_DID),
    10 => x.fail("iss", "did-url-with-query", L_ISS_NOT_DID),
    11 => x.fail("iss", "did-url-with-path", L_ISS_NOT_DID),
    4 => x.fail("iss", "not-a-url", L_ISS_NOT_DID),
    _ => x.fail("iss", "absent", L_ISS_ABSENT),
  }
  let vp_holder: Option<&str> = match vph_c {
    0 => None,
    1 => Some(H),
    2 => Some("did:ex4mple:mallory"),
    _ => Some("did:ex4mple:holderx"),
  };
  if let Some(h) = vp_holder {
    if Some(h) != iss {
      x.fail("vp.holder", if iss.is_none() { "without-iss" } else { "differs-from-iss" }, L_VP);
    }
  }
  const ID1: &str = "https://example.com/presentations/1";
  const ID2: &str = "https://example.com/presentations/2";
  let (jti, vp_id): (Option<&str>, Option<&str>) = match id_c {
    0 => (None, None),
    1 => (Some(ID1), None),
    2 => (Some(ID1), Some(ID1)),
    3 => (Some(ID1), Some(ID2)),
    _ => (None, Some(ID1)),
  };
  if let Some(v) = vp_id {
    if jti != Some(v) {
      x.fail("vp.id", if jti.is_none() { "without-jti" } else { "differs-from-jti" }, L_VP);
    }
  }

  // ------------------------------------------------------------ misc
  let aud_c = pt(ch, groups, G_MISC, "aud", 4, &[], &[1]);
  let custom_c = pt(ch, groups, G_MISC, "custom claims", 3, &[], &[1]);
  let creds_c = pt(ch, groups, G_MISC, "verifiableCredential", 4, &[], &[]);
  let shape_c = pt(ch, groups, G_MISC, "vp shape", 3, &[], &[]);
  let props_c = pt(ch, groups, G_MISC, "vp properties", 3, &[], &[]);
  let aud_json: Option<Value> = match aud_c {
    0 => None,
    1 => Some(json!("did:ex4mple:verifier")),
    2 => Some(json!("https://verifier.example/aud")),
    _ => {
      x.o.insert("aud-array", L_VP);
      Some(json!(["did:ex4mple:verifier"]))
    }
  };
  let custom: Map<String, Value> = match custom_c {
    0 => Map::new(),
    1 => json!({"foo": "bar", "n": 7, "nested": {"a": [1, 2]}}).as_object().unwrap().clone(),
    // top-level claims named like vp members / header parameters (none of them a registered JWT claim)
    _ => json!({"holder": "did:ex4mple:mallory", "id": "https://example.com/presentations/2", "nonce": "nonce-2",
                "verifiableCredential": ["x"], "type": "T"})
    .as_object()
    .unwrap()
    .clone(),
  };
  let creds: Option<Vec<&str>> = match creds_c {
    0 => Some(vec!["cred.one.sig"]),
    1 => None,
    2 => Some(vec!["cred.one.sig", "cred.two.sig"]),
    _ => {
      x.o.insert("vc-empty-array", L_VP);
      Some(vec![])
    }
  };
  const BASE_CTX: &str = "https://www.w3.org/2018/credentials/v1";
  let (ctx_json, type_json) = match shape_c {
    0 => (json!(BASE_CTX), json!("VerifiablePresentation")),
    1 => (json!([BASE_CTX, "https://example.com/ctx/v1"]), json!(["VerifiablePresentation", "ExtraPresentation"])),
    _ => {
      x.o.insert("vp-without-base-type", L_VP);
      (json!(BASE_CTX), json!("SomethingElse"))
    }
  };

  // ------------------------------------------------------------ assemble
  let mut vp = Map::new();
  vp.insert("@context".into(), ctx_json.clone());
  vp.insert("type".into(), type_json.clone());
  if let Some(c) = &creds {
    vp.insert("verifiableCredential".into(), json!(c));
  }
  if let Some(h) = vp_holder {
    vp.insert("holder".into(), json!(h));
  }
  if let Some(i) = vp_id {
    vp.insert("id".into(), json!(i));
  }
  // what was signed, in the normal form used by `judge_returned` ("type" always as a list)
  let mut signed_props = Map::new();
  let mut signed_refresh: Vec<Value> = Vec::new();
  let mut signed_terms: Vec<Value> = Vec::new();
  let mut signed_proof: Option<Value> = None;
  if props_c >= 1 {
    vp.insert("extra".into(), json!({"p": 1}));
    signed_props.insert("extra".into(), json!({"p": 1}));
  }
  if props_c == 2 {
    vp.insert("refreshService".into(), json!({"id": "https://example.com/refresh/1", "type": "ManualRefreshService2018", "validUntil": "2031"}));
    signed_refresh.push(json!({"id": "https://example.com/refresh/1", "type": ["ManualRefreshService2018"], "validUntil": "2031"}));
    vp.insert(
      "termsOfUse".into(),
      json!([{"type": "IssuerPolicy", "id": "https://example.com/policies/1", "profile": "https://example.com/profiles/p"},
             {"type": ["HolderPolicy", "Second"]}]),
    );
    signed_terms.push(json!({"type": ["IssuerPolicy"], "id": "https://example.com/policies/1", "profile": "https://example.com/profiles/p"}));
    signed_terms.push(json!({"type": ["HolderPolicy", "Second"]}));
    vp.insert("proof".into(), json!({"type": "DataIntegrityProof", "proofValue": "z58", "created": "2023-01-01T00:00:00Z"}));
    signed_proof = Some(json!({"type": ["DataIntegrityProof"], "proofValue": "z58", "created": "2023-01-01T00:00:00Z"}));
  }
  let mut claims = Map::new();
  if let Some(i) = iss {
    claims.insert("iss".into(), json!(i));
  }
  if let Some(e) = &exp_json {
    claims.insert("exp".into(), e.clone());
  }
  if let Some(n) = nbf {
    claims.insert("nbf".into(), json!(n));
  }
  if let Some(i) = iat {
    claims.insert("iat".into(), json!(i));
  }
  if let Some(j) = jti {
    claims.insert("jti".into(), json!(j));
  }
  if let Some(a) = &aud_json {
    claims.insert("aud".into(), a.clone());
  }
  claims.insert("vp".into(), Value::Object(vp));
  for (k, v) in &custom {
    claims.insert(k.clone(), v.clone());
  }
  let mut header = Map::new();
  header.insert("alg".into(), json!("EdDSA"));
  header.insert("typ".into(), json!("JWT"));
  if let Some(k) = &kid {
    header.insert("kid".into(), json!(k));
  }
  if let Some(n) = hnonce {
    header.insert("nonce".into(), json!(n));
  }
  let header_s = Value::Object(header).to_string();
  let payload = Value::Object(claims.clone()).to_string();
  let mut token = fx::compact_ed(&header_s, payload.as_bytes(), &fix.keys[sign_key]);
  if sig_c == 3 {
    // keep header and signature, replace the payload segment by a different claims set
    let mut evil = claims.clone();
    evil.insert("aud".into(), json!("did:ex4mple:attacker"));
    let seg: Vec<&str> = token.split('.').collect();
    token = format!("{}.{}.{}", seg[0], fx::b64(Value::Object(evil).to_string().as_bytes()), seg[2]);
  }

  let mut vopts = JwsVerificationOptions::new();
  if let Some(n) = ononce {
    vopts = vopts.nonce(n);
  }
  if let Some(id) = &override_id {
    vopts = vopts.method_id(DIDUrl::parse(id).expect("override id"));
  }
  match scope_c {
    0 => {}
    1 => vopts = vopts.method_scope(MethodScope::authentication()),
    2 => vopts = vopts.method_scope(MethodScope::assertion_method()),
    3 => vopts = vopts.method_scope(MethodScope::VerificationMethod),
    4 => vopts = vopts.method_scope(MethodScope::key_agreement()),
    5 => vopts = vopts.method_scope(MethodScope::capability_delegation()),
    _ => vopts = vopts.method_scope(MethodScope::capability_invocation()),
  }
  let mut opts = JwtPresentationValidationOptions::new().presentation_verifier_options(vopts);
  if expopt_c == 0 {
    opts = opts.earliest_expiry_date(fx::ts(EXP_BOUND));
  }
  if issopt_c == 0 {
    opts = opts.latest_issuance_date(fx::ts(ISS_BOUND));
  }

  // ------------------------------------------------------------ run the real validator
  let case = Case { groups, seq: ch.seq() };
  let jwt = Jwt::new(token);
  let res = guard(|| fix.validator.validate::<CoreDocument, Jwt, Object>(&jwt, &w.doc, &opts));
  let open = !x.o.is_empty();
  let tag = if open { format!(" [open:{}]", x.o.keys().copied().collect::<Vec<_>>().join(",")) } else { String::new() };
  let res = match res {
    Err(p) => {
      // "Otherwise an error is returned": unwinding is not returning an error
      ctx.violation(&format!("{ENTRY}|{}", p.key()), &format!("{} ; choices {:?}", p.msg, ch.labelled()), &case);
      acc.outcome("panic".into());
      return;
    }
    Ok(r) => r,
  };
  match res {
    Ok(dec) => {
      acc.outcome(format!("accepted{tag}"));
      acc.distinct(Ctx::hash_of(&(groups, &case.seq)));
      if groups == G_CLAIMS {
        // the accepted cells of the (small) claims product: a deterministic set of samples
        ctx.sample("accepted", &case);
      }
      if !x.e.is_empty() {
        ctx.violation(
          &format!("{ENTRY}|accepted|{}", x.e_key()),
          &format!("accepted although {:?} false; document D{world_c}; header {header_s} claims {payload}", x.e.keys().collect::<Vec<_>>()),
          &case,
        );
        return;
      }
      let signed = Signed {
        iss,
        jti,
        contexts: one_or_many(&ctx_json),
        types: one_or_many(&type_json).into_iter().map(|v| v.as_str().unwrap_or("").to_string()).collect(),
        creds: creds.clone().unwrap_or_default(),
        props: signed_props,
        refresh: signed_refresh,
        terms: signed_terms,
        proof: signed_proof,
        // the array form of aud is open: only recorded
        aud: if aud_c == 3 { None } else { Some(aud_json.as_ref().and_then(|v| v.as_str())) },
        // a non-integer exp is open: only recorded
        exp: if exp_c == 8 { None } else { Some(exp_int) },
        issuance,
        custom: &custom,
        payload: &payload,
      };
      judge_returned(ctx, &case, &dec, &signed);
    }
    Err(err) => {
      let classes: Vec<&'static str> = err.presentation_validation_errors.iter().map(classify).collect();
      let label = if classes.is_empty() { "none".to_string() } else { classes.join(",") };
      acc.outcome(format!("rejected:{label}{tag}"));
      if !classes.is_empty() && !classes.iter().all(|c| c.starts_with("Jws:")) {
        acc.distinct(Ctx::hash_of(&(groups, &case.seq)));
      }
      if x.e.is_empty() && !open {
        ctx.violation(
          &format!("{ENTRY}|rejected|all-conditions-hold|{label}"),
          &format!("every stated condition holds, got {err}; document D{world_c}; header {header_s} claims {payload}"),
          &case,
        );
        return;
      }
      // blame, also in the presence of open aspects (an open aspect may legitimately produce its own classes);
      // an error list without entries names no condition: nothing to judge (recorded as rejected:none)
      for c in &classes {
        if unjudged_class(c) {
          continue;
        }
        if !x.e.values().any(|(_, legit)| legit.contains(c)) && !x.o.values().any(|legit| legit.contains(c)) {
          ctx.violation(
            &format!("{ENTRY}|rejected|spurious-blame|{c}"),
            &format!(
              "error {c} blames a condition that holds (false: {:?}, open: {:?}); {err}; document D{world_c}; header {header_s} claims {payload}",
              x.e.keys().collect::<Vec<_>>(),
              x.o.keys().collect::<Vec<_>>()
            ),
            &case,
          );
        }
      }
    }
  }
}

/// a JSON "one or many" as a list
fn one_or_many(v: &Value) -> Vec<Value> {
  match v {
    Value::Array(a) => a.clone(),
    other => vec![other.clone()],
  }
}

/// What was signed, member by member (`None` in `aud` / `exp` = open, not judged).
struct Signed<'a> {
  iss: Option<&'a str>,
  jti: Option<&'a str>,
  contexts: Vec<Value>,
  types: Vec<String>,
  creds: Vec<&'a str>,
  props: Map<String, Value>,
  refresh: Vec<Value>,
  terms: Vec<Value>,
  proof: Option<Value>,
  aud: Option<Option<&'a str>>,
  exp: Option<Option<i64>>,
  issuance: Option<i64>,
  custom: &'a Map<String, Value>,
  payload: &'a str,
}

/// normal form of a typed member (refresh service, policy, proof): id, "type" as a list, the other properties
fn typed_member(id: Option<&str>, types: &[String], props: &Object) -> Value {
  let mut m = Map::new();
  if let Some(id) = id {
    m.insert("id".into(), json!(id));
  }
  m.insert("type".into(), json!(types));
  for (k, v) in props.iter() {
    m.insert(k.clone(), v.clone());
  }
  Value::Object(m)
}

/// accepted => the returned presentation / aud / dates / custom claims are those that were signed. The returned
/// presentation is compared member by member through its public fields (not through its serialisation, whose
/// one-or-many / empty-member conventions are not part of the property).
fn judge_returned(ctx: &Ctx, case: &Case, dec: &DecodedJwtPresentation<Jwt, Object>, s: &Signed) {
  let pres = &dec.presentation;
  let mut differs: Vec<(&'static str, String)> = Vec::new();
  let mut cmp = |field: &'static str, got: Value, want: Value| {
    if got != want {
      differs.push((field, format!("returned {got}, signed {want}")));
    }
  };
  cmp("holder", json!(pres.holder.as_str()), json!(s.iss));
  cmp("id", json!(pres.id.as_ref().map(|u| u.as_str())), json!(s.jti));
  cmp(
    "@context",
    Value::Array(pres.context.iter().map(|c| serde_json::to_value(c).unwrap_or(Value::Null)).collect()),
    Value::Array(s.contexts.clone()),
  );
  cmp("type", json!(pres.types.iter().collect::<Vec<_>>()), json!(s.types));
  cmp("verifiableCredential", json!(pres.verifiable_credential.iter().map(|j| j.as_str()).collect::<Vec<_>>()), json!(s.creds));
  cmp("properties", Value::Object(pres.properties.clone().into_iter().collect()), Value::Object(s.props.clone()));
  cmp(
    "refreshService",
    Value::Array(pres.refresh_service.iter().map(|r| typed_member(Some(r.id.as_str()), r.types.as_slice(), &r.properties)).collect()),
    Value::Array(s.refresh.clone()),
  );
  cmp(
    "termsOfUse",
    Value::Array(pres.terms_of_use.iter().map(|t| typed_member(t.id.as_ref().map(|u| u.as_str()), t.types.as_slice(), &t.properties)).collect()),
    Value::Array(s.terms.clone()),
  );
  cmp(
    "proof",
    pres.proof.as_ref().map(|p| typed_member(None, std::slice::from_ref(&p.type_), &p.properties)).unwrap_or(Value::Null),
    s.proof.clone().unwrap_or(Value::Null),
  );
  for (field, what) in differs {
    ctx.violation(
      &format!("{ENTRY}|accepted|returned-presentation-differs|{field}"),
      &format!("{what}; signed claims {}", s.payload),
      case,
    );
  }
  if let Some(want_aud) = s.aud {
    let got_aud = dec.aud.as_ref().map(|u| u.as_str());
    if want_aud != got_aud {
      ctx.violation(&format!("{ENTRY}|accepted|returned-aud-differs"), &format!("signed {want_aud:?} returned {got_aud:?}"), case);
    }
  }
  if let Some(want_exp) = s.exp {
    let got_exp = dec.expiration_date.map(|t| t.to_unix());
    if got_exp != want_exp {
      ctx.violation(&format!("{ENTRY}|accepted|returned-expiration-differs"), &format!("signed exp {want_exp:?} returned {got_exp:?}"), case);
    }
  }
  let got_iss = dec.issuance_date.map(|t| t.to_unix());
  if got_iss != s.issuance {
    ctx.violation(
      &format!("{ENTRY}|accepted|returned-issuance-differs"),
      &format!("signed issuance (nbf, else iat) {:?} returned {got_iss:?}; claims {}", s.issuance, s.payload),
      case,
    );
  }
  // custom claims: None and the empty object both mean "none"
  let got_custom: Map<String, Value> = dec.custom_claims.clone().map(|o| o.into_iter().collect()).unwrap_or_default();
  if &got_custom != s.custom {
    ctx.violation(
      &format!("{ENTRY}|accepted|returned-custom-claims-differ"),
      &format!("signed {} returned {}", Value::Object(s.custom.clone()), Value::Object(got_custom)),
      case,
    );
  }
  let _ = Timestamp::now_utc; // the clock is the harness's (fx)
}

fn eval(ctx: &Ctx, case: &Case) {
  ctx.eval1();
  let acc = Acc::new();
  let mut ch = Chooser::replay(&case.seq);
  body(ctx, &acc, case.groups, &mut ch);
  acc.flush(ctx);
}

fn generate(ctx: &Ctx) {
  ctx.rule("E1 choice DFS over 20 choice points (holder document, signature, kid, method_id, method_scope | header nonce, option nonce | exp, earliest_expiry_date, nbf, iat, latest_issuance_date | iss, vp.holder, jti/vp.id | aud, custom claims, verifiableCredential, vp shape, vp properties): all sequences with at most `deviation_bound` non-default choices, plus the complete product of each group with the other groups at default (binding core = 6 documents x 5 signatures x 26 kid forms x 8 method ids x 7 scopes x 5^2 nonces), the complete products dates x claims and claims x misc (thorough: also binding core without nonces x claims, dates x misc, nonce^2 x claims), and two condition lattices (every stated condition true / false by a canonical falsifier, all combinations). distinct_nontrivial = distinct (groups, choice sequence) whose execution got past the JWS stage (accepted, or rejected by an error that is not a PresentationJwsError)");
  ctx.assume("Ed25519 signing by iota-crypto and base64url by identity_jose::jwu are trusted for assembling tokens; the real EdDSAJwsVerifier is used for verification");
  ctx.assume("issuance time of a presentation JWT is nbf when present, else iat (VC data model 1.1 §6.3.1 and the documented behaviour of IssuanceDateClaims)");
  ctx.assume("open (recorded, not judged for liveness; blame judged against the classes the aspect may produce): foreign-DID method listed in the holder document, a fragment-only selector on a fragment shared by two methods, a method listed for key agreement only, kid with a query part, an empty nonce on one side and none on the other, exp above year 9999 or non-integer, issuance below year 0, iat after the bound beside a passing nbf, aud as array, explicit empty verifiableCredential array, vp without the base type");
  ctx.assume("blame is judged on the documented meaning of the error variants only; unknown variants and an empty error list are recorded, not judged");
  ctx.bound("clock_now", fx::NOW);
  ctx.bound("earliest_expiry_date_explicit", EXP_BOUND);
  ctx.bound("latest_issuance_date_explicit", ISS_BOUND);
  ctx.bound("holder_documents", FIX.worlds.len());

  let acc = Acc::new();
  let bound = ctx.by_tier(3u32, 4u32);
  ctx.bound("deviation_bound", bound);
  choice::explore_into(ctx, "all points, deviation-bounded", Some(bound), |ch| body(ctx, &acc, G_ALL, ch));
  acc.flush(ctx);
  let mut parts: Vec<(u8, &str)> = vec![
    (G_LATTICE, "condition lattice A: every stated condition true/false in every combination (falsifiers: foreign key, unknown kid / method without JWK, header nonce, exp = bound-1, nbf = bound+1, iss = other DID, vp.holder differs, vp.id differs)"),
    (G_LATTICE | G_VARIANT_B, "condition lattice B (falsifiers: key of another holder method, kid absent / kid under another DID, scope assertionMethod, option nonce, exp below year 0, default bounds, nbf absent + iat = bound+1, iss = https URL, vp.id without jti; aud and custom claims present)"),
    (G_BIND | G_NONCE, "binding core (document x signature x kid x method_id x scope x nonce^2), complete"),
    (G_DATES, "dates (exp x bound x nbf x iat x bound), complete"),
    (G_CLAIMS, "claims (iss x vp.holder x jti/vp.id), complete"),
    (G_MISC, "misc (aud x custom x credentials x shape x properties), complete"),
  ];
  parts.push((G_DATES | G_CLAIMS, "dates x claims, complete"));
  parts.push((G_CLAIMS | G_MISC, "claims x misc, complete"));
  if ctx.thorough() {
    parts.push((G_BIND | G_CLAIMS, "binding core without nonces x claims, complete"));
    parts.push((G_DATES | G_MISC, "dates x misc, complete"));
    parts.push((G_NONCE | G_CLAIMS, "nonce^2 x claims, complete"));
  }
  for (g, name) in parts {
    choice::explore_into(ctx, name, None, |ch| body(ctx, &acc, g, ch));
    acc.flush(ctx);
  }
  ctx.sample("baseline", &Case { groups: G_ALL, seq: vec![] });
}

fn main() {
  vx::run_main::<Case, _, _>("C03", Level::ModelChecking, generate, eval)
}
